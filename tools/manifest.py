#!/usr/bin/env python3
"""Regenerates /verif/MANIFEST.json from the table below (run from /verif)."""
import json, subprocess, os
ROOT = os.path.dirname(os.path.dirname(os.path.abspath(__file__)))
props = [json.loads(l) for l in open(os.path.join(ROOT, 'properties.jsonl'))]

# id -> (technique, level text, level note, design ref)
CHECKS = {
 'C19': ("runtime reference-model monitor over exhaustive + seeded inputs (round-trip identity and generating-word-list oracle on the real encoders/decoders)",
         "Every encoder/decoder pair of the real caseconversion package is executed on an exhaustively enumerated space of word lists (alphabet {a,b,z,0,9}, word length <=3, list length <=2 quick / <=3 thorough) plus seeded long lists, and DecodeGoCamelCase on every 1-2 item identifier over the harness vocabulary plus seeded 3-5 item ones; the oracle is the generating word list. Held-on-K-executions, not a proof.",
         "trusts the harness's own casing code (gen/words.go) that renders Go identifiers from word lists, and its initialism list copy; identifiers with ambiguous initialism segmentation are skipped and counted",
         "DESIGN.md section 4 C19"),
}
NOT_YET = "check not yet built in this session (planned in DESIGN.md section 4; the technique applies)"

def main():
    log = subprocess.check_output(['git', '-C', '/repo', 'log', '--format=%h %s', '433e9ab..HEAD']).decode().strip().split('\n')
    hooks = [l.split(' ', 1)[0] for l in log if l.split(' ', 1)[1].startswith('verif hooks')]
    m = {
     "version": 1,
     "setup_cmd": "./run setup",
     "hooks": {"guard": "verif",
               "enable": "go build -tags verif: the harness module (harness/go.mod) replaces github.com/vimeo/dials with /repo and ./run rebuilds it with -tags verif (plus -race for the concurrent properties) from /repo's working tree before every check",
               "baseline_off_cmd": "cd /repo && GOFLAGS=-mod=mod GOPROXY=off GOSUMDB=off GOTOOLCHAIN=local go test -vet=off -count=1 ./...",
               "source_commits": hooks, "add_only": True},
     "engines": [{"name": "verifharness", "path": "harness", "serves_properties": sorted(CHECKS),
                  "kind_free_text": "Go orchestrator + worker child processes (plain and -race builds) that run the real dials code from /repo under seeded, hostile and stress workloads while monitors (reference models, trace-spec checkers, porcupine linearizability, alias walkers, process/leak watchers, the Go race detector) judge every execution"}],
     "checks": [], "not_applicable": [],
     "notes": "Every check is ./run <ID> quick|thorough (VERIF_SEED honoured). Exit 0 held / 1 VIOLATION / 2 harness failure or observed too little. known_findings.json: open findings print KNOWN-FINDING lines; fixed entries suppress nothing. seeded/ holds confirmed property-breaking changes and which checks catch them.",
    }
    for p in props:
        i = p['id']
        if i in CHECKS:
            tech, text, note, ref = CHECKS[i]
            m['checks'].append({
              "property_id": i, "quick_cmd": "./run %s quick" % i, "thorough_cmd": "./run %s thorough" % i,
              "evidence_file": "evidence/%s.json" % i, "replay_cmd_template": "./run replay {path}", "engine": "verifharness",
              "level_claimed": {"category": "exploration", "text": text, "design_ref": ref},
              "level_note": note, "technique": tech})
        else:
            m['not_applicable'].append({"property_id": i, "reason": NOT_YET})
    json.dump(m, open(os.path.join(ROOT, 'MANIFEST.json'), 'w'), indent=1)
    print("checks:", [c['property_id'] for c in m['checks']], "n/a:", len(m['not_applicable']))

main()
