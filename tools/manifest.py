#!/usr/bin/env python3
"""Regenerates /verif/MANIFEST.json from the table below (run from /verif)."""
import json, subprocess, os
ROOT = os.path.dirname(os.path.dirname(os.path.abspath(__file__)))
props = [json.loads(l) for l in open(os.path.join(ROOT, 'properties.jsonl'))]

# id -> (technique, level text, level note, design ref)
CHECKS = {
 'C19': ("runtime reference-model monitor over exhaustive + seeded inputs (round-trip identity and generating-word-list oracle on the real encoders/decoders)",
         "Every encoder/decoder pair of the real caseconversion package is executed on an exhaustively enumerated space of word lists (alphabet {a,b,z,0,9}, word length <=3, list length <=2 quick / <=3 thorough) plus seeded long lists, and DecodeGoCamelCase on every 1-2 item identifier over the harness vocabulary plus seeded 3-5 item ones; the oracle is the generating word list. Held-on-K-executions, not a proof.",
         "trusts the harness's own casing code (gen/words.go) that renders Go identifiers from word lists, and its initialism list copy; identifiers with ambiguous initialism segmentation are skipped and counted",
         "DESIGN.md section 4 C19"),
}
CHECKS.update({
 'C04': ("porcupine linearizability check of recorded client-boundary histories + online validity sampler + in-Verify visibility assertion + exact error-callback monitor, under the Go race detector with seeded schedule perturbation at hook points",
         "Real Dials instances are driven by sequential and concurrent histories of valid / Verify-invalid / ill-typed updates from 2-4 fake watching sources under all four Skip x Delay options while monitors judge every execution: every config observed through View/ViewVersion/Events/OnNewConfig/registered callbacks/the version-store hook is checked against the pure predicate while verification is active; Verify (harness code running on the monitor goroutine between compose and store) asserts its receiver is not yet visible; the report/read history is checked for linearizability against a ~40-line sequential model (rejected update: slot lingers, config and serial unchanged, error returned); in sequential histories each rejection must produce exactly one OnWatchedError(err, old==current pointer, new==rejected stack or nil). Held on the histories and interleavings produced, reported with counts.",
         "trusts the sequential model (conc/linz.go), porcupine v1.3.0, the fake sources, and that callbacks are fast enough that the 64-slot queue does not overflow; -race reports with a dials frame are violations",
         "DESIGN.md section 4 C04"),
 'C05': ("runtime differential monitor (incremental view vs fresh dials.Config over the latest values vs reference stack) + serial/pointer pairing monitor fed by readers, callbacks, Events and the version-store hook, under the race detector",
         "Histories of 20-200 reports (sequential and concurrent phases, adversarial source orders, layers that unset fields again, empty layers, same-typed source instances) run against a real Dials; at quiescent points View() is compared with a brand-new dials.Config over static sources holding each source's latest value (or the last verified view when that stack fails) and with the independent reference stack; a monitor collects every (serial, config) pair seen anywhere: install serials contiguous from 1, pairing injective both ways, readers and Events never go backwards.",
         "trusts the reference stack for the 8-leaf Cfg type and the mon.stored hook as the install log; concurrent phases are judged at fenced quiescent points only",
         "DESIGN.md section 4 C05"),
})
CHECKS.update({
 'C06': ("online callback trace-specification checker over hooked dequeue order and install log; scripted schedules forced with gates at hook points (fenced on observed hook events) plus seeded stress, under the race detector",
         "A 40-line restatement of the property predicts, from the exact order in which the callback goroutine dequeued events and the install log, the sequence of callback invocations (global first, live handles with token<serial in registration order, old=predecessor, catch-up exactly when a genuine token is behind the last announced version at registration processing); predicted and actual sequences must be equal, and independent monitors check serialization, per-handle monotonic/staleness, no invocation after unregister returned true, announce order = install order. All 6 orders of {ViewVersion, register queued} x {stored, announced} x 4 token kinds x {callback idle, parked}, 8 unregister-vs-announce and 6 unregister-vs-shutdown schedules run at every seed, plus hundreds (quick) to tens of thousands (thorough) of stress histories.",
         "trusts that cb.dequeue is at the top of the callback loop and mon.stored right after the version store (hook commit); histories whose queue overflowed are judged only on the clauses not assuming callbacks keep up",
         "DESIGN.md section 4 C06"),
 'C07': ("porcupine linearizability check with a nondeterministic model for context-ended reports + state-based abandoned-caller monitor (goroutine dumps), cancellations placed with gates at hook points and inside harness Verify, under the race detector",
         "Histories of blocking/non-blocking reports and Blank.SetSource calls with the caller's context cancelled before the call, inside Verify for that very report, at the reply point, after return or at a seeded moment; the history must be linearizable against the sequential model (nil => installed and visible unless superseded; error => rejected, view unchanged; context-ended => maybe submitted, open until the end) and after every cancellation a follow-up blocking report from another source must return (otherwise two goroutine dumps showing the monitor parked in a send are the violation).",
         "trusts the classification of context errors by their text (attempting to submit / awaiting restack), porcupine v1.3.0 and the sequential model",
         "DESIGN.md section 4 C07"),
 'C09': ("delay state-machine monitor over Verify call log, EnableVerification results, install log and the exact global-callback delivery sequence; porcupine model extended with Enable for concurrent enable-vs-update histories; race detector",
         "All four Delay x Suppress combinations, with no watcher / Blank / fake watchers, are walked through scripted (every edge: update valid/invalid/ill-typed before enable, source error before enable, enable failing, failing again, succeeding, again, then updates and errors after) and seeded random sequences; the state machine says for each step whether Verify must run (and on which receiver), what EnableVerification must return, and whether each global callback must be delivered or withheld; concurrent enable-vs-update histories are checked for linearizability (atomic switch-on).",
         "'withheld only while X' is judged as not-X => delivered and X => OnNewConfig/source errors withheld; stacking-error callbacks while X holds are recorded, not judged",
         "DESIGN.md section 4 C09"),
})
CHECKS.update({
 'C03': ("runtime graph-isomorphism monitor (identity bijection over pointer- and map-typed locations, freshness, DeepEqual) over seeded random reference graphs, each built twice (input + expectation twin), through the real deep copier and through dials.Config/re-stack; crash isolation in child processes",
         "Random finite graphs (1-12 nodes quick, more thorough; self-loops, cycles, diamonds, shared maps, references in slices, arrays, maps and interfaces, typed nils) over two recursive node families are copied by the real deepCopyValue (build-tagged export) and stacked end to end through dials.Config with fake static/watching sources; a simultaneous walk of input and output must yield a bijection of identities (no split, no merge), disjoint identity sets (fresh) and deep equality; runaway recursion is caught as a process crash attributed to the pre-logged case. Fixed regression corpus for every repaired defect runs at every seed.",
         "identity of references held directly in interface values and of interior pointers (&node.ID) is measured, not judged (outside the identity clause / quantifier); node count bounded; node families fixed",
         "DESIGN.md section 4 C03; notes/C03-FINDINGS.md"),
 'C08': ("chaos workload with operation ledger, state-based blocked-call confirmation (paired goroutine dumps), goroutine-leak monitor, post-shutdown failure-indication checks, gates at hook points for shutdown placement; race detector; crash attribution by the process watcher",
         "4-12 goroutines issue seeded random public operations (reports, errors, Done, register/unregister incl. twice, EnableVerification, Blank.SetSource/Done, own contexts cancelled early, Config context cancelled) with seeded yields at the hook points; the instance is then shut down by cancel or by every watcher calling Done, and late calls are issued after the monitor exited. Every call must return once its own context ended (a still-blocked call is confirmed by two goroutine dumps, else inconclusive), no dials goroutine may survive shutdown, late calls must report failure, a callback parked forever must not stop 200 further installs, and any panic/fatal error of the worker process is a violation attributed to the pre-logged case.",
         "interleavings are those produced (counted by signature); a watchdog expiry without the two-dump confirmation is inconclusive, never a violation",
         "DESIGN.md section 4 C08"),
})
CHECKS.update({
 'C13': ("four-way differential monitor (JSON/YAML/TOML/Cue decoders on documents rendered from one data tree) plus generating-data oracle, renderer self-check, ill-typed/malformed classes known by construction",
         "Seeded reflect.StructOf schemas (dials tags in several casings, format-specific tags that must win for that format only, dials:\"-\" fields, decoys under keys a format must not read) and one data tree per case are rendered by four harness renderers and decoded by the real decoders; every decoder's output must equal the tree (absent keys unset, durations as strings and integer ns, sets via the set-to-slice wrapper, text-unmarshalables), the four results and their stacks over random defaults must agree, and documents that are malformed or ill-typed by construction must yield an error and no value. Before any disagreement is reported the document is re-parsed untyped with the format's own library (a failing self-check is a harness failure, never a violation).",
         "only data expressible in all four formats; mismatch classes on which the underlying libraries legitimately differ are excluded and listed in the check's assumptions; map[string]struct values are observed only",
         "DESIGN.md section 4 C13"),
})
CHECKS.update({
 'C15': ("runtime round-trip and range monitors with an exact math/big oracle over a fixed boundary corpus plus seeded families, against the real parse package and flag helpers",
         "parse(format(v)) == v (floats bitwise, NaN by class, nil==empty, result type = requested type) is executed for 33 scalar types (17 builtin, 16 named), slices of each, the four string collections, the 11 integral-slice element types and every flag helper's Set/String pair; literals whose exact value (math/big) lies outside the target range must be errors in scalar, element, key and value position; decorated integer elements (base prefixes, digit separators, whitespace) must be accepted with the exact value. A fixed corpus (min-1/min/max/max+1 of every width in 8 literal forms, all 8-bit literals in [-300,300], all 16-bit values, float edge bit patterns and threshold literals, duration limits, every single and ordered pair of 113 hostile string pieces in four collection types) runs at every seed, plus millions of seeded cases.",
         "canonical text = what the flag helpers' String() prints and strconv for scalars; texts that are canonical for no value (duplicate keys, unquotable literals) and typed map[K]V round-trips are recorded, not judged",
         "DESIGN.md section 4 C15; notes/C15-SENSITIVITY.md"),
})
CHECKS.update({
 'C01': ("runtime reference-model monitor: the real compose (build-tagged export) on seeded reflect.StructOf config types, layers materialised by field name, compared leaf by leaf with an independent reference stack; metamorphic empty-layer check; static corpus through dials.Config",
         "Tens of thousands (quick) to millions (thorough) of seeded struct types (48 leaf kinds incl. named types, user-declared pointers, slices/arrays of structs, text-unmarshalables; nested/pointer/embedded structs; skipped fields in any position), defaults, and 1-5 layers with seeded set/unset patterns are stacked by the real overlay code and compared with a strict differ against an ~80-line reference stack over leaf paths; result type, untouched defaults and insensitivity to an inserted all-unset layer are checked on every case; a static corpus covers genuinely unexported defaulted fields and embedded named structs through the public API.",
         "trusts the reference stack (gen/spec.go) and the strict differ; interface-typed fields are outside the quantifier and not generated",
         "DESIGN.md section 4 C01"),
 'C02': ("address-level alias walker + input-freeze clones + write-through mutation probe on the real compose, and the Go race detector as aliasing oracle (scribble version k while reading version k+1 and the inputs) on real Dials re-stack histories",
         "Results of stacking the same inputs twice, the defaults and every source value must be pairwise disjoint (pointer targets, slice backing arrays including spare capacity, map headers, through exported fields) and inputs must equal their pre-call clones, also after a sentinel is written through everything reachable from one result; on real Dials instances every config obtained from View/ViewVersion/Events/OnNewConfig/registered callbacks over 3-12 re-stacks is collected and checked pairwise and against every value a source handed over, then version k is scribbled while version k+1 and the inputs are read concurrently under -race (any report is a violation).",
         "memory reachable only through unexported fields is not walked; sharing between two leaves inside one version (mirroring input sharing) is allowed",
         "DESIGN.md section 4 C02"),
})
CHECKS.update({
 'C11': ("runtime name/value oracle: the real env.Source on seeded reflect.StructOf types with the real process environment (noise accumulating across cases), expected names computed from the generator's word lists, result stacked by the real compose and compared with the reference stack; bad-literal probes",
         "Tens of thousands of seeded config types (nested/pointer/embedded structs, dials tags in four casings on any level, dialsenv tags, initialisms and single-letter words, 33 string-castable leaf kinds incl. named scalar/slice/map types) with seeded subsets of variables set to canonical text of typed values, with and without prefix, in an environment that keeps every earlier case's variables plus near-miss names; the leaf set must be exactly the set of present variables with exactly the parsed values, and unparsable / just-out-of-range literals for every numeric width must be errors.",
         "expected names come from word lists kept by the generator (never from caseconversion); ALL-CAPS tags, digit-terminated words and names in the open C19 finding are not generated",
         "DESIGN.md section 4 C11"),
 'C12': ("runtime name/value/default oracle on both flag sources via NewSetWithArgs: names from word lists and verbatim tags, semantic default round trip, argv-subset reference layer with accumulation model, narrowing probes",
         "For sources/flag and sources/pflag, default and custom NameConfig: every leaf must have a flag with the expected name; the advertised defaults fed back to a second set built from a zero template must reproduce the template's values; exactly the flags present in a random argv (any subset, repeats, order, -x v / --x=v / bare bool) set their leaves to the parsed values, repeated slice/set/map flags accumulate per the reference model, and out-of-range values for every width narrower than the carrier type are errors.",
         "pflag's own StringSlice flag is judged with CSV text and its bracketed default text (third-party format); named slice/map types get no flag and are not generated",
         "DESIGN.md section 4 C12"),
})
CHECKS.update({
 'C14': ("runtime pattern oracle: per aliased leaf one of neither/primary/alias/both is supplied through the real env source, both flag sources, alias-wrapped JSON/YAML/TOML/Cue decoders and the ez entry points; expected unset/value/value/error-naming-the-field",
         "Seeded config types with alias tags (dialsalias and the source-specific alias tags, with explicit and implicit primary names) on random subsets of leaves at depth 1-3; names of primaries and aliases are computed from the generator's word lists; the four patterns are drawn independently per aliased leaf and supplied through every alias-capable source; results are stacked by the real compose and compared with the reference layer, and a both-set case must yield an error that contains the Go field name. A static type goes through the ez entry points with and without a FileFieldNameEncoder.",
         "alias tags on leaves only; fields with both an alias tag and a format-specific tag are not generated; file-family values are restricted to ones all four formats carry (value handling is C13's subject)",
         "DESIGN.md section 4 C14"),
})
CHECKS.update({
 'C10': ("runtime leaf-correspondence monitor: real Transformer chains (every shipped source/decoder chain plus random sub-chains) on seeded types; translated fields are filled by NAME with forward-converted typed values and the reverse translation is compared leaf by leaf with the layer written; empty-value reversal",
         "Seeded pointerified config types are translated by the env, flag, pflag, JSON/Cue, YAML (with/without anonymous-flatten), TOML and ez file chains and by random chains of the nine manglers respecting their documented preconditions; a random subset of translated fields (addressed by name: flattened concatenation, alias copy, hoisted embedded fields) receives the forward conversion of unique typed values; ReverseTranslate must return exactly the original type with each filled leaf holding its value and every other leaf unset, and the all-unset translated value must reverse to the all-unset original.",
         "forward conversions (duration->ParsingDuration, set->slice, value->*string text) are harness code; under string-casting chains only string-castable leaves are filled; alias primary and copy never both filled",
         "DESIGN.md section 4 C10"),
})
CHECKS.update({
 'C16': ("crash/hang monitor: recover() around every textual entry point and every source/decoder/mangler, heartbeat watchdog with paired goroutine dumps, process watcher for fatal errors, result-type assertion; seeded grammar-aware mutational inputs and all-named-leaf types",
         "Seeded byte strings (uniform and dictionary mutations of valid inputs: quotes, backslashes, separators, NUL, control bytes, invalid UTF-8, 400-digit numbers, deep nesting) are fed to parse.String for ~2200 target types (every leaf type, slices and maps of them), all parse.* entry points, the flag helpers, all case decoders/encoders, environment values and flag/pflag arguments of a rich fixed type and as file content to the JSON/YAML/TOML/Cue decoders (plain and alias/set-slice wrapped); seeded types whose leaves are all user-defined named types, user pointers and embedded structs go through env, both flag sources, the four decoders and every mangler chain. Every call must return a value of the requested type or an error.",
         "a hang is reported only when the heartbeat stalls for 30s and two goroutine dumps show the worker inside a dials frame; inputs with NUL reach the env chain via parse.String only",
         "DESIGN.md section 4 C16"),
})
CHECKS.update({
 'C17': ("runtime convergence monitor on real files and the real fsnotify watcher: seeded file-operation histories with sync points, gates and delays at the file.read hook, state-based convergence verdicts (view match, or three goroutine dumps showing an idle watcher with unchanged serial), identical-replace version counting, release audit (goroutines and inotify descriptors); race detector",
         "Thousands of seeded histories over {truncate-and-rewrite in chunks, write-temp+rename, Kubernetes AtomicWriter symlink swaps, delete+recreate, identical bytes in place and atomically, malformed and empty content, reverts, sync points} on plain, symlinked and k8s layouts with JSON and YAML decoders run against real WatchingSources; once operations stop the view must equal the config decoded from the final bytes (or stay at an admissible earlier valid content with a DecoderErr delivered), identical atomic replaces between sync points must add no version, and after cancel the watcher goroutines and inotify descriptors must be gone. Non-convergence is a violation only with the watcher provably idle; otherwise inconclusive.",
         "one filesystem and kernel (the sandbox's); pauses up to tens of ms; the fsnotify-internal data race (third-party, no dials or harness frame) is recorded in evidence, not judged",
         "DESIGN.md section 4 C17; notes/C17-FINDINGS.md, notes/C17-SENSITIVITY.md"),
 'C18': ("runtime precedence/verification monitor around the real ez entry points: reference stack over four layers, Verify call log with a file-marker leaf, Events/global-callback emptiness check after return, error-path checks, watched rewrite re-check; race detector",
         "Every ez entry point (four formats and by-extension) is run on a static 10-leaf config whose leaves are assigned to seeded subsets of {default, file, env, flag} with distinct values, the path coming from default, env or flag, with std-flag / pflag FlagSource sets and the default flag.CommandLine path (re-created per case, sometimes called twice), with and without watching; the first view must follow default<file<env<flag, Verify must run at least once and only on configs that include the file layer, Events and the global callbacks must not expose the intermediate config, configs valid only with the file must succeed, missing/malformed/empty-path files and a failing Verify must return (wrapping) errors, and after a watched rewrite precedence, verification on the full stack and OnNewConfig delivery are re-checked.",
         "the worker's own process environment is used (cleared per case); convergence after a watched rewrite is awaited by state with a watchdog (expiry = inconclusive; C17 judges convergence itself)",
         "DESIGN.md section 4 C18"),
 'C20': ("runtime twin-run differential (wrapped vs native source on the same layer history) with fake inner sources that produce the translated type they are asked for, error-propagation probes, and an exhaustive Blank SetSource/Done sequence model check; race detector",
         "The same initial value and 1-10 updates are played through NewTransformingSource with seven mangler lists (none, set-slice, duration, reformat, the ez file chain, the flag and env chains) and into a reference Dials; views must be equal after every step; inner Value/Watch failures must fail Config with a wrapped error, inner ReportError must reach OnWatchedError, and an update whose reverse translation fails must be returned to the inner source with the view unchanged; transforming decoders are compared on JSON documents; every Blank SetSource/Done sequence up to length 4 (340 sequences) plus seeded longer ones is checked against a small model including Done forwarding (monitor exit), refusal to replace a watcher, delegation of Value, and continued delivery of a watching inner's updates after the SetSource context ended.",
         "fake inner sources and forward conversions are harness code; a Blank inside a transforming source is not generated",
         "DESIGN.md section 4 C20"),
})
NOT_YET = "check not yet built in this session (planned in DESIGN.md section 4; the technique applies)"

def main():
    log = subprocess.check_output(['git', '-C', '/repo', 'log', '--format=%h %s', '433e9ab..HEAD']).decode().strip().split('\n')
    hooks = [l.split(' ', 1)[0] for l in log if l.split(' ', 1)[1].startswith('verif hooks')]
    m = {
     "version": 1,
     "setup_cmd": "./run setup",
     "hooks": {"guard": "verif",
               "enable": "go build -tags verif: the harness module (harness/go.mod) replaces github.com/vimeo/dials with /repo and ./run rebuilds it with -tags verif (plus -race for the concurrent properties) from /repo's working tree before every check",
               "baseline_off_cmd": "cd /repo && GOFLAGS=-mod=mod GOPROXY=off GOSUMDB=off GOTOOLCHAIN=local go test -vet=off -count=1 ./...",
               "source_commits": hooks, "add_only": True},
     "engines": [{"name": "verifharness", "path": "harness", "serves_properties": sorted(CHECKS),
                  "kind_free_text": "Go orchestrator + worker child processes (plain and -race builds) that run the real dials code from /repo under seeded, hostile and stress workloads while monitors (reference models, trace-spec checkers, porcupine linearizability, alias walkers, process/leak watchers, the Go race detector) judge every execution"}],
     "checks": [], "not_applicable": [],
     "notes": "Every check is ./run <ID> quick|thorough (VERIF_SEED honoured). Exit 0 held / 1 VIOLATION / 2 harness failure or observed too little. known_findings.json: open findings print KNOWN-FINDING lines; fixed entries suppress nothing. seeded/ holds confirmed property-breaking changes and which checks catch them.",
    }
    for p in props:
        i = p['id']
        if i in CHECKS:
            tech, text, note, ref = CHECKS[i]
            m['checks'].append({
              "property_id": i, "quick_cmd": "./run %s quick" % i, "thorough_cmd": "./run %s thorough" % i,
              "evidence_file": "evidence/%s.json" % i, "replay_cmd_template": "./run replay {path}", "engine": "verifharness",
              "level_claimed": {"category": "exploration", "text": text, "design_ref": ref},
              "level_note": note, "technique": tech})
        else:
            m['not_applicable'].append({"property_id": i, "reason": NOT_YET})
    json.dump(m, open(os.path.join(ROOT, 'MANIFEST.json'), 'w'), indent=1)
    print("checks:", [c['property_id'] for c in m['checks']], "n/a:", len(m['not_applicable']))

main()
