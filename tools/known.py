#!/usr/bin/env python3
"""Rebuilds the 'fixed' entries of known_findings.json from /repo's fix: commits (open entries are kept as they are)."""
import json, subprocess, os
ROOT = os.path.dirname(os.path.dirname(os.path.abspath(__file__)))
FIX = [  # (substring of commit subject, property, key at the time, what failed)
 ('overlay replaces', 'C01', 'panic:overlayer.overlayStruct', 'non-nil user-declared *int/*[]string in the base (default or lower layer) panicked in overlayStruct'),
 ('deep copy follows', 'C03', 'crash:deepCopier.deepCopy', 'pointer/map reaching itself through an interface value overflowed the stack; typed nil pointer in an interface panicked'),
 ('Pointerify stops', 'C03', 'crash:ptrify.pointerify', 'cyclic interface-held default value made Pointerify recurse forever'),
 ('Pointerify terminates on a template cycle that closes through a plain pointer field', 'C03', 'crash-stack-overflow:cycle-through-a-struct-value-held-in-an-interface', 'a := &A{}; a.I = B{PA: a} (a cycle through an interface holding a struct VALUE whose pointer field leads back) in the defaults: dials.Config died with a stack overflow in ptrify.pointerify'),
 ('deep copy terminates on a slice', 'C03', 'crash-stack-overflow:slice-reaching-itself-through-interface-values', 's := make([]any,1); s[0]=s in a default or source value overflowed the stack in deepCopySlice'),
 ('deep copy terminates on a typed slice', 'C03', 'crash-stack-overflow:slice-reaching-itself-through-struct-values', 'type T struct{ID int; Vals []T}; v.Vals[0].Vals = v.Vals (a typed slice reaching itself through its own by-value element) in a default or source value overflowed the stack in deepCopySlice'),
 ('deep copy keeps one copy of a node referenced through plain and defined pointer types', 'C03', 'split:ptr:deepcopy:plain-and-defined-pointer-to-one-node', 'type Ref *Node; n := &Node{}; Cfg{A: n /* *Node */, B: n /* Ref */, C: n /* *Node */}: the result had A != C although identical in the input (second copy made for the Ref-typed reference, registerPair then overwrote the *Node memo entry)'),
 ('env source panicked on a set variable for a user-declared pointer', 'C16', 'panic:types:env+ptr-to-collection-leaves:transform.populateStruct', 'Cfg{Tags *[]string} (or a pointer to a map) with TAGS=a,b through env.Source: reflect.Set: value of type []string is not assignable to type *[]string in populateStruct (top-level field); an error instead of the value one struct level down'),
 ('deep copy of one map referenced through two defined map types', 'C02', 'panic:.(*deepCopier).deepCopyMap', 'type A map[string]int; type B map[string]int; Cfg{X: A(m), Y: B(m)} (one map under two defined map types) in the defaults or a source value: dials.Config panicked in deepCopyMap (reflect.Set: value of type A is not assignable to type B)'),
 ('deep copy descends into an embedded struct of an unexported type', 'C02', 'promoted-config:shared-memory:view-vs-defaults', 'type inner struct{M map[string]int}; type Cfg struct{ inner }: the promoted exported fields of the embedded unexported-type struct were copied shallowly, so View().M was the caller\'s own map, shared with the defaults and by every version'),
 ('an array in an interface field', 'C03', 'split:any-set-by-two-layers', 'array in an interface field set by two layers was deep-copied twice: Any[0] != Kids[0] although identical in the source value'),
 ('a Blank whose Watcher source failed to take over', 'C08', 'monitor-did-not-exit:all-done:blank-done-after-rejected-watcher-setsource', 'Blank.SetSource(watcher) whose first value is refused by Verify (or whose propagation/Watch fails) left the Blank believing the never-started Watcher owned the slot: Blank.Done became a no-op and later SetSource calls were refused, so after every watching source had called Done the monitor and callback goroutines never exited'),
 ('API calls racing', 'C08', 'crash:Dials.submitEventBlocking', 'RegisterCallback/unregister after or during monitor shutdown panicked with send on closed channel'),
 ('unregistering a callback', 'C08', 'crash:callbackMgr.runCBs', 'second call of an UnregisterCBFunc crashed the process (makeslice: cap out of range)'),
 ('errors reported by watching', 'C09', 'source-error-not-delivered', 'source ReportError dropped whenever CallGlobalCallbacksAfterVerificationEnabled was set or verification was delayed'),
 ('EnableVerification returns', 'C09', 'enable-no-watcher-returned-other-config', 'EnableVerification without watchers returned (nil, zero serial, nil) on success'),
 ('manglers do not recurse into text-unmarshalable element', 'C13', 'valid-document-rejected:all-formats:[]time.Time', '[]time.Time field: all four decoders rejected a valid list of timestamps (translated to []struct{})'),
 ('OnImplements returns a nil of the type', 'C10', 'reverse-error-on-empty-value:incompatible-types', 'TextUnmarshalerMangler: an unset *time.Time / *T text-unmarshaler field reversed to a struct instead of a nil pointer (incompatible types error or panic in the next mangler)'),
 ("file watcher dropped the watch on the config's own directory", 'C17', 'invalid-final-no-error:stale-after-layout-change', 'a regular config file (or a symlink to a sibling) replaced by rename-over with a symlink into ANOTHER directory made the watcher remove its watch on the config\'s own directory; the next rename-over of the config path went unnoticed and the view stayed stale'),
 ('the file watcher moves its directory watch before reading', 'C17', 'no-converge:update-lost-while-moving-dir-watch', 'k8s/symlink layouts: an update right after a symlink swap was lost (view stale, malformed content never reported); watcher deaf after a swap whose new target was briefly missing'),
 ('ReverseTranslate skips', 'C10', 'panic:unexported-field-in-slice-elem', 'non-empty slice/array of structs with an unexported field panicked (index out of range) in every decoder chain'),
 ('environment variable names', 'C11', 'env-name-single-letter-word', 'N.M looked up as NM: single-letter path components lost their word boundary'),
 ('standard-library flag source accepts', 'C12', 'panic:flag-net.IP', '--ip=10.0.0.1 on a net.IP leaf panicked in reflect.Value.Convert'),
 ('accepts flags for user-defined complex types', 'C12', 'panic:sources/flag.(*Set).Value.func2', 'std flag source panicked (Convert *complex128 -> named type) when a flag for a named complex type was given'),
 ('integral-slice parsers', 'C15', 'integral-slice-empty', 'empty integer slice text "" did not parse back'),
 ('map parsing accepts', 'C15', 'map-empty-key', '"":"v" failed with unexpected colon'),
 ('flag and pflag sources panicked when Value was called a second time', 'C12', 'panic:sources/flag.(*Set).Value.func2', 'a flag (or pflag) Set asked for its Value a second time after a flag had been set on the command line (one Set handed to two Configs) panicked: field name N with flag n is nil'),
 ('alias-wrapped decoders panicked on an aliased field inside the elements', 'C14', 'panic:transform.(*AliasMangler).Unmangle', 'type Backend struct{ Port int `dials:"port" dialsalias:"p"` }; Cfg{ Backends []Backend } read through an alias-wrapped decoder (as ez builds one): AliasMangler.Unmangle called IsNil on the int field of a list element (element fields are not pointerified) and panicked'),
 ('flag and pflag sources set user-declared pointer-to-pointer fields', 'C16', 'panic:types:flag-sources+ptr-to-ptr-leaves:(*Set).Value', 'flag and pflag sources registered a flag for a user-declared pointer-to-pointer field (Retries **int, Lvl **Level, Deep ***int) and panicked in (*Set).Value once it was given on the command line (--retries=3: reflect.Value.OverflowInt on ptr Value; Convert: int cannot be converted to **int)'),
 ('parse.String returns', 'C16', 'panic:named-scalar-env', 'type Level uint8 via env panicked (top level) or was silently dropped (nested)'),
 ('ReverseTranslate accepts a pointer', 'C20', 'crash:transform.(*Transformer).ReverseTranslate', 'an inner source or watcher (e.g. a Blank) handing a POINTER to the translated struct through a transforming source panicked (slice bounds out of range)'),
 ('a wrapped watching source', 'C20', 'wrapped-watcher-update-not-reversed', 'updates through NewTransformingSource reached the monitor in the mangled type'),
 ('AnonymousFlattenMangler.Unmangle indexed past', 'C10', 'panic:transform.AnonymousFlattenMangler.unmangleStruct', 'chain starting with AnonymousFlattenMangler on a slice/array of structs whose element embeds a struct with a field after the last hoisted one (trailing unexported field): index out of range in ReverseTranslate'),
 ('SingleTypeSubstitutionMangler took the address', 'C10', 'panic:transform.(*SingleTypeSubstitutionMangler).subVal', 'Cfg{Waits *[]time.Duration} (or *map[string]time.Duration) through a decoder that substitutes durations (JSON, YAML): reflect.Value.Addr of unaddressable value in subVal on ReverseTranslate'),
 ('DecodeGoCamelCase dropped the words', 'C19', 'goident-mismatch:word,first,start', 'a capitalised word ending in a digit directly before a final initialism lost every word but the last letter: Sha256ID -> [d], Port2HTTP -> [p], Md5URL -> [l]'),
 ('recognizes initialisms that have', 'C19', 'goident-mismatch:initialism=HTTPS', 'HTTPS -> [http s], UID -> [ui d]'),
 ('splits a trailing run', 'C19', 'goident-mismatch:trailing-run-UTF8', 'IDXMLUTF8 -> [idxmlutf8]'),
]
log = subprocess.check_output(['git', '-C', '/repo', 'log', '--reverse', '--format=%h %s', '433e9ab..HEAD']).decode().strip().split('\n')
path = os.path.join(ROOT, 'known_findings.json')
kf = json.load(open(path))
out = [f for f in kf['findings'] if f['status'] == 'open']
for l in log:
    h, msg = l.split(' ', 1)
    if not msg.startswith('fix:'):
        continue
    for sub, p, key, what in FIX:
        if sub in msg:
            out.append({'status': 'fixed', 'property': p, 'commit': h, 'key': key, 'what': what, 'line': 'fixed: property=%s %s %s' % (p, h, what)})
            break
    else:
        print('UNMAPPED fix commit:', l)
kf['findings'] = out
json.dump(kf, open(path, 'w'), indent=1)
print(len(out), 'entries')
