#!/bin/bash
# tools/harvest.sh <Cxx> <mutdir> : verify an independently written property-breaking change and keep it under seeded/.
# Steps (all on scratch copies of /repo): patch applies; library suite passes with it; demo fails with it; demo passes without it;
# then the property's quick check is run against it (CAUGHT/MISSED).
export GOFLAGS=-mod=mod GOPROXY=off GOSUMDB=off GOTOOLCHAIN=local
prop="$1"; src="$2"; name="$(basename "$src")"; id="$prop-${HV_TAG:-}$name"
out=/verif/seeded/$id
T=$(mktemp -d /tmp/hv.XXXXXX); trap 'rm -rf "$T"' EXIT
rsync -a --exclude .git /repo/ "$T/clean/"; rsync -a --exclude .git /repo/ "$T/mut/"
res() { echo "$id: $*"; }
( cd "$T/mut" && git apply "$src/patch.diff" ) 2>"$T/apply.err" || { res "PATCH-DOES-NOT-APPLY $(head -2 $T/apply.err | tr '\n' ' ')"; exit 0; }
( cd "$T/mut" && go build ./... && go vet ./... ) >"$T/build.log" 2>&1 || { res "BUILD-OR-VET-FAILS"; exit 0; }
( cd "$T/mut" && go test -vet=off -count=1 ./... ) >"$T/suite.log" 2>&1; suite=$?
[ $suite -ne 0 ] && { res "SUITE-FAILS-WITH-CHANGE"; grep -E "^(FAIL|---)" "$T/suite.log" | head -3; exit 0; }
demo_dir=$(ls -d "$src"/demo* 2>/dev/null | head -1)
# the authors were told to name their demo directories zz_demo_a / zz_demo_b (multi-package demos import by that path)
zz=zz_demo_$(echo "$name" | sed 's/^mut//' | tr 'A-Z' 'a-z')
mkdir -p "$T/mut/$zz" "$T/clean/$zz"; cp -r "$demo_dir"/* "$T/mut/$zz/"; cp -r "$demo_dir"/* "$T/clean/$zz/"
( cd "$T/mut" && timeout 300 go test -vet=off -count=1 ./$zz/... ) >"$T/demo_mut.log" 2>&1; dm=$?
( cd "$T/clean" && timeout 300 go test -vet=off -count=1 ./$zz/... ) >"$T/demo_clean.log" 2>&1; dc=$?
[ $dm -eq 0 ] && { res "DEMO-PASSES-WITH-CHANGE (not a demonstration at current HEAD)"; exit 0; }
[ $dc -ne 0 ] && { res "DEMO-FAILS-WITHOUT-CHANGE"; tail -5 "$T/demo_clean.log"; exit 0; }
verdict=$(cd /verif && tools/trymut.sh "$src/patch.diff" "$prop" 2>&1 | tail -1)
mkdir -p "$out/demo"; cp "$src/patch.diff" "$out/patch.diff"; cp -r "$demo_dir"/* "$out/demo/"; [ -f "$src/NOTES.md" ] && cp "$src/NOTES.md" "$out/NOTES.md"
needs=$(grep -i -m1 -A3 "needs\|manifest" "$src/NOTES.md" 2>/dev/null | tr '\n' ' ' | cut -c1-600)
python3 - "$out" "$prop" "$id" "$verdict" "$needs" <<'PY'
import json,sys,subprocess
out,prop,id_,verdict,needs=sys.argv[1:6]
head=subprocess.check_output(['git','-C','/repo','rev-parse','--short','HEAD']).decode().strip()
json.dump({"id":id_,"breaks_property":prop,"origin":"independent sub-agent given only the property text and a scratch worktree",
 "needs_to_manifest":needs,
 "confirmed_at_repo_commit":head,
 "what_i_ran":["git apply patch.diff on a scratch copy of /repo: ok","go build ./... && go vet ./...: clean","go test -vet=off -count=1 ./... with the change: pass","demo (go test ./zz_demo/...) with the change: FAIL","demo without the change: pass","tools/trymut.sh patch.diff "+prop],
 "check_result":verdict},open(out+'/meta.json','w'),indent=1)
PY
res "OK $verdict"
