#!/bin/bash
# tools/trymut.sh <patch.diff> <ID> [<ID>...]
# Applies a change to a SCRATCH copy of /repo (so concurrent work on /repo is not disturbed), points a scratch copy of
# the harness at it, runs the quick (or $TIER) checks and removes the copies.
# With INPLACE=1 the patch is applied to /repo itself (git apply) and undone afterwards (git checkout -- .).
# Prints one line per check: CAUGHT (exit 1) / MISSED (exit 0) / HARNESS (exit 2).
patch="$(readlink -f "$1")"; shift
VR="$(cd "$(dirname "$0")/.." && pwd)"   # the harness tree this script belongs to (/verif, or a working copy of it)
name="$(basename "$(dirname "$patch")")"
if [ -n "${INPLACE:-}" ]; then
  cd "$VR" || exit 2
  if [ -n "$(git -C /repo status --porcelain)" ]; then echo "/repo not clean"; exit 2; fi
  git -C /repo apply "$patch" || { echo "patch does not apply"; exit 2; }
  trap 'git -C /repo checkout -- . ; git -C /repo clean -fdq' EXIT
  V="$VR"
else
  T=$(mktemp -d /tmp/tm.XXXXXX)
  trap 'rm -rf "$T"' EXIT
  rsync -a --exclude .git /repo/ "$T/repo/"
  ( cd "$T/repo" && git apply "$patch" ) || { echo "patch does not apply: $patch"; exit 2; }
  rsync -a --exclude .git --exclude .bin --exclude replays --exclude scratch --exclude .git "$VR/" "$T/verif/"
  sed -i "s#=> /repo#=> $T/repo#" "$T/verif/harness/go.mod"
  V="$T/verif"
fi
cd "$V" || exit 2
for id in "$@"; do
  out=$(VERIF_SEED=${VERIF_SEED:-1} ./run "$id" ${TIER:-quick} 2>&1); rc=$?
  case $rc in 1) v=CAUGHT;; 0) v=MISSED;; *) v="HARNESS($rc)";; esac
  echo "$v $id $name :: $(echo "$out" | grep -m2 'key=' | tr '\n' ' ' | cut -c1-220)"
  if [ "$rc" != 1 ] && [ -n "${SHOW:-}" ]; then echo "$out" | tail -5; fi
done
