#!/bin/bash
# tools/trymut.sh <patch.diff> <ID> [<ID>...]  — apply a change to /repo, run the quick checks, undo it.
# Prints one line per check: CAUGHT (exit 1) / MISSED (exit 0) / HARNESS (exit 2).
patch="$1"; shift
cd /verif || exit 2
if [ -n "$(git -C /repo status --porcelain)" ]; then echo "/repo not clean"; exit 2; fi
git -C /repo apply "$patch" || { echo "patch does not apply"; exit 2; }
trap 'git -C /repo checkout -- . ; git -C /repo clean -fdq' EXIT
for id in "$@"; do
  out=$(VERIF_SEED=${VERIF_SEED:-1} ./run "$id" ${TIER:-quick} 2>&1); rc=$?
  case $rc in 1) v=CAUGHT;; 0) v=MISSED;; *) v="HARNESS($rc)";; esac
  echo "$v $id $(basename $(dirname $patch)) :: $(echo "$out" | grep -m2 'key=' | tr '\n' ' ' | cut -c1-220)"
  if [ "$rc" != 1 ] && [ -n "${SHOW:-}" ]; then echo "$out" | tail -5; fi
done
