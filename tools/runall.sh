#!/bin/bash
# tools/runall.sh [tier] — runs every registered check once (VERIF_SEED honoured) and prints one line each.
cd /verif || exit 2
tier=${1:-quick}
fail=0
for id in $(python3 -c "import json;print(' '.join(c['property_id'] for c in json.load(open('MANIFEST.json'))['checks']))"); do
  t0=$(date +%s)
  out=$(./run $id $tier 2>&1); rc=$?
  t1=$(date +%s)
  echo "$id rc=$rc $((t1-t0))s :: $(echo "$out" | grep -E "seed=" | tail -1) $(echo "$out" | grep -E "^(VIOLATION|HARNESS|KNOWN-FINDING)" | cut -c1-160 | tr '\n' ' ')"
  [ $rc -ne 0 ] && fail=1
done
exit $fail
