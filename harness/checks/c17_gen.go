package checks

import (
	"fmt"
	"io/fs"
	"regexp"
	"strings"

	"verifharness/fw"
)

// ---------------------------------------------------------------------------
// C17 history generator. Everything a history needs (layout, decoder, file
// contents, operation list with chunk boundaries, pauses, gate placement, and
// the delay table of the file.read hook) is drawn from the case's fw.Rand
// before the first file is touched, so a replay re-executes the same history.
// ---------------------------------------------------------------------------

// c17Cfg is the watched config type. Every field has a non-zero default so
// that "field absent from the file" is visible in the view.
type c17Cfg struct {
	Alpha   int      `dials:"alpha"`
	Beta    string   `dials:"beta"`
	Gamma   []string `dials:"gamma"`
	Delta   c17Sub   `dials:"delta"`
	Epsilon bool     `dials:"epsilon"`
	Pad     string   `dials:"pad"`
	// Ref refers to something outside the file; its text form is validated
	// by the type itself (see c17PathRef).
	Ref c17PathRef `dials:"ref"`
}

// c17PathRef is a text-unmarshalable leaf that stands for "a path the config
// refers to and that has to exist" (CA bundle, key file, include). It does
// not touch the file system: the marker text "missing:<n>" is rejected with an
// error that WRAPS fs.ErrNotExist, exactly what an os.Stat-based validation
// returns. To the file source this is a decoder error like any other.
type c17PathRef string

// UnmarshalText implements encoding.TextUnmarshaler.
func (p *c17PathRef) UnmarshalText(b []byte) error {
	if strings.HasPrefix(string(b), "missing:") {
		return fmt.Errorf("referenced file %q is unusable: %w", string(b), fs.ErrNotExist)
	}
	*p = c17PathRef(b)
	return nil
}

type c17Sub struct {
	Port int    `dials:"port"`
	Host string `dials:"host"`
}

func c17Defaults() *c17Cfg {
	return &c17Cfg{Alpha: -1, Beta: "default-beta", Gamma: []string{"dg"}, Delta: c17Sub{Port: 80, Host: "default-host"}, Ref: "default-ref"}
}

// c17Content is one complete file content.
type c17Content struct {
	// ID identifies the bytes: two contents share an ID iff they are the
	// same bytes (identical rewrite).
	ID int `json:"id"`
	// Kind: "valid", "empty" (zero bytes; valid for yaml, malformed for json)
	// or "malformed:<class>". Whether the content is valid is decided at run
	// time by the reference decode, not by this label.
	Kind  string `json:"kind"`
	Bytes []byte `json:"-"`
	// Fresh: the content was generated as a valid document carrying an alpha
	// value no other content of the history carries.
	Fresh bool   `json:"fresh"`
	Text  string `json:"text"` // Bytes, shortened, for witnesses
}

// c17Op is one step of a history.
type c17Op struct {
	// Kind: inplace | inplace-keep-mtime | rename-over | delete-recreate |
	// k8s-swap | symlink-swap | to-symlink | to-regular | sync | gate-arm |
	// gate-wait | gate-release. to-symlink: a symlink to a new target file is
	// renamed over the watched REGULAR file (the layout becomes symfile);
	// to-regular: a regular file is renamed over the watched SYMLINK (the
	// layout becomes plain).
	Kind    string `json:"kind"`
	Content int    `json:"content,omitempty"` // index into Contents (content ops)
	// Identical: the op rewrites the bytes that are already there.
	Identical bool `json:"identical,omitempty"`
	// Revert: the op restores the bytes of the most recent valid content
	// written earlier in the history (e.g. after a malformed edit).
	Revert bool `json:"revert,omitempty"`
	// Chunks: end offsets of the pieces an in-place write is split into.
	Chunks        []int `json:"chunks,omitempty"`
	ChunkPausesUs []int `json:"chunk_pauses_us,omitempty"`
	// PauseUs: pause before the op (-1: runtime.Gosched, 0: none).
	PauseUs int `json:"pause_us"`
	// RemoveOld: k8s-swap/symlink-swap removes the previous directory/target.
	RemoveOld bool `json:"remove_old,omitempty"`
	// FileFirst: k8s-swap writes the file before creating the ..dir_tmp link.
	FileFirst bool `json:"file_first,omitempty"`
	// NewDir: symlink-swap puts the new target into a new directory.
	NewDir bool `json:"new_dir,omitempty"`
	// Sibling: symlink-swap/to-symlink puts the new target into the watched
	// path's own directory (the link resolves to a sibling file).
	Sibling bool `json:"sibling,omitempty"`
	// AtomicCreate: delete-recreate recreates by renaming a finished file in.
	AtomicCreate bool `json:"atomic_create,omitempty"`
	// inplace-keep-mtime: an in-place rewrite with content of the SAME byte
	// length that then puts the file's previous modification time back
	// (cp -p, rsync --inplace -t), or - FixedMtime - sets a fixed epoch
	// mtime after every write (normalised timestamps). Trunc: open with
	// O_TRUNC and write (cp) instead of overwriting the bytes (pwrite).
	Trunc      bool `json:"trunc,omitempty"`
	FixedMtime bool `json:"fixed_mtime,omitempty"`
	// MidPauseUs: delete-recreate pause between the delete and the recreate.
	MidPauseUs int `json:"mid_pause_us,omitempty"`
}

func (o *c17Op) isContentOp() bool {
	switch o.Kind {
	case "inplace", "inplace-keep-mtime", "rename-over", "delete-recreate", "k8s-swap", "symlink-swap", "to-symlink", "to-regular":
		return true
	}
	return false
}

// atomic: every reader of the watched path sees either the complete old or
// the complete new bytes.
func (o *c17Op) atomic() bool {
	switch o.Kind {
	case "rename-over", "k8s-swap", "symlink-swap", "to-symlink", "to-regular":
		return true
	}
	return false
}

type c17Hist struct {
	Layout  string `json:"layout"`  // plain | symfile | k8s (the INITIAL layout: to-symlink/to-regular steps move between plain and symfile)
	Decoder string `json:"decoder"` // json | yaml
	Flavor  string `json:"flavor"`
	// ReadMode: "" = the stock decoder (io.ReadAll); otherwise a harness decoder
	// that drains its reader through io.Copy / io.WriterTo / io.ReaderAt and
	// then delegates to the stock decoder (c17_readdec.go).
	ReadMode    string       `json:"read_mode,omitempty"`
	RelLink     bool         `json:"rel_link"`     // symfile: relative link target
	EarlyCancel bool         `json:"early_cancel"` // cancel without waiting for convergence
	Contents    []c17Content `json:"contents"`
	Ops         []c17Op      `json:"ops"`
	DelaysUs    []int        `json:"hook_delays_us"` // file.read hook delay table
}

type c17Gen struct {
	r      *fw.Rand
	h      *c17Hist
	cur    int // index of the content currently in the file
	nextID int
	armed  bool
	// lastValid: index of the most recent content generated as valid.
	lastValid int
	// mode: the layout at this point of the history (plain <-> symfile through
	// to-symlink / to-regular steps); sibling: the link resolves into the
	// watched path's own directory.
	mode    string
	sibling bool
}

func c17Short(b []byte) string {
	s := string(b)
	if len(s) > 300 {
		s = s[:200] + fmt.Sprintf("...(%d bytes)...", len(s)) + s[len(s)-60:]
	}
	return s
}

var c17Words = []string{"red", "green", "blue", "north", "south", "cache", "proxy", "alpha", "omega", "delta", "x", "y"}

func (g *c17Gen) word() string { return fw.Pick(g.r, c17Words) }

// validDoc renders a valid document for content id k in the history's format.
func (g *c17Gen) validDoc(k int) []byte {
	r := g.r
	type kv struct{ k, json, yaml string }
	var fields []kv
	alpha := 1000 + k
	fields = append(fields, kv{"alpha", fmt.Sprintf("%d", alpha), fmt.Sprintf("%d", alpha)})
	if r.Chance(80) {
		s := fmt.Sprintf("b%d-%s", k, g.word())
		fields = append(fields, kv{"beta", fmt.Sprintf("%q", s), fmt.Sprintf("%q", s)})
	}
	if r.Chance(70) {
		n := r.Intn(4)
		items := make([]string, n)
		for i := range items {
			items[i] = fmt.Sprintf("%q", fmt.Sprintf("g%d-%d-%s", k, i, g.word()))
		}
		fields = append(fields, kv{"gamma", "[" + strings.Join(items, ",") + "]", "[" + strings.Join(items, ", ") + "]"})
	}
	if r.Chance(70) {
		port := 2000 + k
		host := fmt.Sprintf("h%d.%s", k, g.word())
		var j, y string
		switch r.Intn(3) {
		case 0:
			j = fmt.Sprintf(`{"port":%d,"host":%q}`, port, host)
			y = fmt.Sprintf("\n  port: %d\n  host: %q", port, host)
		case 1:
			j = fmt.Sprintf(`{"port": %d}`, port)
			y = fmt.Sprintf("\n  port: %d", port)
		default:
			j = fmt.Sprintf(`{"host": %q}`, host)
			y = fmt.Sprintf("{host: %q}", host)
		}
		fields = append(fields, kv{"delta", j, y})
	}
	if r.Chance(55) {
		s := fmt.Sprintf("ok-%d-%s.pem", k, g.word())
		fields = append(fields, kv{"ref", fmt.Sprintf("%q", s), fmt.Sprintf("%q", s)})
	}
	if r.Chance(50) {
		v := "false"
		if r.Bool() {
			v = "true"
		}
		fields = append(fields, kv{"epsilon", v, v})
	}
	if r.Chance(30) {
		// a pad long enough that the file needs several read calls
		n := r.Range(600, 6000)
		var sb strings.Builder
		for sb.Len() < n {
			sb.WriteString(g.word())
		}
		s := fmt.Sprintf("p%d-%s", k, sb.String())
		fields = append(fields, kv{"pad", fmt.Sprintf("%q", s), fmt.Sprintf("%q", s)})
	}
	// shuffle all but keep them all
	p := r.Perm(len(fields))
	var sb strings.Builder
	if g.h.Decoder == "json" {
		style := r.Intn(3)
		sep, ind, open, cl := ",", "", "{", "}"
		switch style {
		case 1:
			sep, ind, open, cl = ",\n", "  ", "{\n", "\n}"
		case 2:
			sep, ind, open, cl = ", ", "", "{ ", " }"
		}
		sb.WriteString(open)
		for i, pi := range p {
			if i > 0 {
				sb.WriteString(sep)
			}
			f := fields[pi]
			sb.WriteString(ind)
			sb.WriteString(fmt.Sprintf("%q:", f.k))
			if style != 0 {
				sb.WriteString(" ")
			}
			sb.WriteString(f.json)
		}
		sb.WriteString(cl)
		if r.Bool() {
			sb.WriteString("\n")
		}
	} else {
		if r.Chance(20) {
			sb.WriteString("---\n")
		}
		if r.Chance(20) {
			sb.WriteString(fmt.Sprintf("# content %d\n", k))
		}
		for _, pi := range p {
			f := fields[pi]
			sb.WriteString(f.k)
			sb.WriteString(":")
			if !strings.HasPrefix(f.yaml, "\n") {
				sb.WriteString(" ")
			}
			sb.WriteString(f.yaml)
			sb.WriteString("\n")
		}
	}
	return []byte(sb.String())
}

// malformedDoc renders a document meant to be rejected by the decoder (the
// reference decode has the last word on whether it is).
func (g *c17Gen) malformedDoc(k int) (string, []byte) {
	r := g.r
	if g.h.Decoder == "json" {
		switch r.Intn(8) {
		case 7:
			// well-formed, every other field fine: rejected by the ref field's own
			// UnmarshalText with an error wrapping fs.ErrNotExist
			return "decoder-notexist", []byte(fmt.Sprintf(`{"alpha": %d, "beta": "b%d", "ref": "missing:%d.pem"}`+"\n", 1000+k, k, k))
		case 0:
			v := g.validDoc(k)
			v = []byte(strings.TrimRight(string(v), "\n "))
			cut := r.Range(1, len(v)-1)
			return "truncated", v[:cut]
		case 1:
			return "garbage", []byte(fmt.Sprintf("}{ not json %d <<<\x00\xff", k))
		case 2:
			return "type-mismatch", []byte(fmt.Sprintf(`{"alpha": "not-a-number-%d", "beta": "b%d"}`, k, k))
		case 3:
			return "empty", nil
		case 4:
			return "trailing-garbage", append(g.validDoc(k), []byte(fmt.Sprintf("}} trailing %d", k))...)
		case 5:
			return "array", []byte(fmt.Sprintf(`[%d, 2, 3]`, k))
		default:
			return "struct-scalar", []byte(fmt.Sprintf(`{"alpha": %d, "delta": %d}`, 1000+k, k))
		}
	}
	switch r.Intn(7) {
	case 6:
		return "decoder-notexist", []byte(fmt.Sprintf("alpha: %d\nbeta: \"b%d\"\nref: \"missing:%d.pem\"\n", 1000+k, k, k))
	case 0:
		return "tab-indent", []byte(fmt.Sprintf("alpha: %d\ndelta:\n\tport: %d\n", 1000+k, k))
	case 1:
		return "unclosed-flow", []byte(fmt.Sprintf("alpha: %d\ngamma: [\"a%d\", \"b\"\n", 1000+k, k))
	case 2:
		return "type-mismatch", []byte(fmt.Sprintf("alpha: [%d, 2]\nbeta: \"b%d\"\n", k, k))
	case 3:
		return "struct-scalar", []byte(fmt.Sprintf("alpha: %d\ndelta: %d\n", 1000+k, k))
	case 4:
		return "bad-indent", []byte(fmt.Sprintf("alpha: %d\n   beta: \"b%d\"\n  gamma: [x]\n", 1000+k, k))
	default:
		return "unclosed-quote", []byte(fmt.Sprintf("alpha: %d\nbeta: \"b%d\n", 1000+k, k))
	}
}

func (g *c17Gen) addContent(kind string, b []byte, fresh bool) int {
	c := c17Content{ID: g.nextID, Kind: kind, Bytes: b, Fresh: fresh, Text: c17Short(b)}
	g.nextID++
	g.h.Contents = append(g.h.Contents, c)
	return len(g.h.Contents) - 1
}

func (g *c17Gen) freshContent() int {
	k := g.nextID
	return g.addContent("valid", g.validDoc(k), true)
}

func (g *c17Gen) malformedContent() int {
	k := g.nextID
	kind, b := g.malformedDoc(k)
	return g.addContent("malformed:"+kind, b, false)
}

func (g *c17Gen) pause() int {
	r := g.r
	switch x := r.Intn(100); {
	case x < 55:
		return 0
	case x < 65:
		return -1
	case x < 85:
		return r.Range(20, 500)
	case x < 97:
		return r.Range(500, 5000)
	default:
		return r.Range(5000, 50000)
	}
}

func (g *c17Gen) chunks(n int) ([]int, []int) {
	r := g.r
	if n <= 1 || r.Chance(35) {
		return []int{n}, []int{0}
	}
	k := r.Range(2, 6)
	if k > n {
		k = n
	}
	cutSet := map[int]bool{}
	for len(cutSet) < k-1 {
		cutSet[r.Range(1, n-1)] = true
	}
	var cuts []int
	for i := 1; i < n; i++ {
		if cutSet[i] {
			cuts = append(cuts, i)
		}
	}
	cuts = append(cuts, n)
	pauses := make([]int, len(cuts))
	for i := range pauses {
		switch x := r.Intn(10); {
		case x < 4:
			pauses[i] = 0
		case x < 6:
			pauses[i] = -1
		default:
			pauses[i] = r.Range(20, 3000)
		}
	}
	return cuts, pauses
}

// opKinds lists the content-changing operations available in a layout.
func (g *c17Gen) pickKind(atomicOnly bool) string {
	r := g.r
	type wk struct {
		k string
		w int
	}
	var ks []wk
	switch g.mode {
	case "plain":
		ks = []wk{{"inplace", 40}, {"rename-over", 35}, {"delete-recreate", 25}, {"to-symlink", 9}}
	case "symfile":
		ks = []wk{{"inplace", 30}, {"rename-over", 20}, {"delete-recreate", 15}, {"symlink-swap", 35}, {"to-regular", 8}}
	default: // k8s
		ks = []wk{{"k8s-swap", 55}, {"inplace", 25}, {"rename-over", 12}, {"delete-recreate", 8}}
	}
	tot := 0
	for _, k := range ks {
		if atomicOnly && (k.k == "inplace" || k.k == "delete-recreate") {
			continue
		}
		tot += k.w
	}
	x := r.Intn(tot)
	for _, k := range ks {
		if atomicOnly && (k.k == "inplace" || k.k == "delete-recreate") {
			continue
		}
		if x < k.w {
			return k.k
		}
		x -= k.w
	}
	return "rename-over"
}

// contentOp appends one content-changing op. what: "fresh", "identical",
// "malformed", "empty".
func (g *c17Gen) contentOp(what string, atomicOnly bool) {
	r := g.r
	op := c17Op{Kind: g.pickKind(atomicOnly), PauseUs: g.pause()}
	switch what {
	case "revert":
		op.Content = g.lastValid
		op.Revert = true
		op.Identical = op.Content == g.cur
	case "identical":
		op.Content = g.cur
		op.Identical = true
	case "malformed":
		op.Content = g.malformedContent()
	case "empty":
		op.Content = g.addContent("empty", nil, false)
	default:
		op.Content = g.freshContent()
		g.lastValid = op.Content
	}
	n := len(g.h.Contents[op.Content].Bytes)
	switch op.Kind {
	case "inplace":
		op.Chunks, op.ChunkPausesUs = g.chunks(n)
	case "delete-recreate":
		op.AtomicCreate = r.Chance(40)
		if !op.AtomicCreate {
			op.Chunks, op.ChunkPausesUs = g.chunks(n)
		}
		if r.Chance(50) {
			op.MidPauseUs = r.Range(20, 4000)
		}
	case "k8s-swap":
		op.RemoveOld = r.Chance(60)
		op.FileFirst = r.Bool()
	case "symlink-swap":
		op.RemoveOld = r.Chance(50)
		op.NewDir = r.Chance(60)
		if r.Chance(12) {
			op.Sibling, op.NewDir = true, false
		}
		g.sibling = op.Sibling
	case "to-symlink":
		op.Sibling = r.Chance(30)
		g.mode, g.sibling = "symfile", op.Sibling
	case "to-regular":
		op.RemoveOld = r.Chance(50)
		g.mode, g.sibling = "plain", false
	}
	g.h.Ops = append(g.h.Ops, op)
	g.cur = op.Content
}

func (g *c17Gen) pseudo(kind string) {
	g.h.Ops = append(g.h.Ops, c17Op{Kind: kind})
}

// generalOps appends n seeded steps.
func (g *c17Gen) generalOps(n int) {
	r := g.r
	for i := 0; i < n; i++ {
		// gate patterns: hold the watcher between its read and its report
		// (and its watch-set repair) while one or two operations happen.
		if r.Chance(5) {
			// the watcher is held after a read of identical bytes (so what it
			// has recorded describes the file as it is now) while a same-length,
			// mtime-preserving rewrite happens
			g.pseudo("gate-arm")
			g.h.Ops = append(g.h.Ops, c17Op{Kind: "inplace", Content: g.cur, Identical: true, PauseUs: g.pause(),
				Chunks: []int{len(g.h.Contents[g.cur].Bytes)}, ChunkPausesUs: []int{0}})
			g.pseudo("gate-wait")
			g.keepMtimeOp(false)
			g.pseudo("gate-release")
			if r.Chance(40) {
				g.pseudo("sync")
			}
			continue
		}
		if r.Chance(22) {
			g.pseudo("gate-arm")
			g.oneOp()
			g.pseudo("gate-wait")
			if r.Chance(60) {
				g.oneOp()
				i++
			}
			g.pseudo("gate-release")
			continue
		}
		g.oneOp()
		if r.Chance(25) {
			g.pseudo("sync")
		}
	}
}

var c17AlphaRe = regexp.MustCompile(`alpha"?:\s*(\d+)`)

// sameLenContent derives from the current (valid, alpha-carrying) content a
// new content of exactly the same byte length with a different, unique alpha
// (alpha = 1000+id keeps four digits). ok=false when the current content has
// no alpha to replace.
func (g *c17Gen) sameLenContent() (int, bool) {
	cur := g.h.Contents[g.cur]
	if cur.Kind != "valid" || !cur.Fresh {
		return 0, false
	}
	loc := c17AlphaRe.FindSubmatchIndex(cur.Bytes)
	if loc == nil {
		return 0, false
	}
	repl := fmt.Sprintf("%d", 1000+g.nextID)
	if len(repl) != loc[3]-loc[2] {
		return 0, false
	}
	b := append([]byte{}, cur.Bytes[:loc[2]]...)
	b = append(b, repl...)
	b = append(b, cur.Bytes[loc[3]:]...)
	return g.addContent("valid", b, true), true
}

// keepMtimeOp appends an in-place, same-length, mtime-preserving rewrite
// (falls back to an ordinary fresh step when the current content cannot be
// varied at constant length).
func (g *c17Gen) keepMtimeOp(fixed bool) {
	ci, ok := g.sameLenContent()
	if !ok {
		g.contentOp("fresh", false)
		return
	}
	g.h.Ops = append(g.h.Ops, c17Op{Kind: "inplace-keep-mtime", Content: ci, PauseUs: g.pause(), Trunc: g.r.Bool(), FixedMtime: fixed})
	g.cur = ci
	g.lastValid = ci
}

func (g *c17Gen) oneOp() {
	r := g.r
	x := r.Intn(100)
	if r.Chance(9) {
		// mtime-preserving writers; the fixed-epoch variant needs the epoch
		// to be the recorded mtime already, so it comes in pairs
		if r.Chance(35) {
			g.keepMtimeOp(true)
			g.keepMtimeOp(true)
		} else {
			g.keepMtimeOp(false)
		}
		return
	}
	switch {
	case x < 54:
		g.contentOp("fresh", false)
	case x < 69:
		g.contentOp("identical", false)
	case x < 88:
		g.contentOp("malformed", false)
	case x < 95:
		g.contentOp("revert", false)
	default:
		g.contentOp("empty", false)
	}
}

// c17Generate draws one history.
func c17Generate(r *fw.Rand) *c17Hist {
	h := &c17Hist{}
	g := &c17Gen{r: r, h: h}
	switch x := r.Intn(100); {
	case x < 38:
		h.Layout = "plain"
	case x < 75:
		h.Layout = "k8s"
	default:
		h.Layout = "symfile"
	}
	if r.Chance(60) {
		h.Decoder = "json"
	} else {
		h.Decoder = "yaml"
	}
	g.mode = h.Layout
	h.RelLink = r.Bool()
	if r.Chance(30) {
		h.ReadMode = fw.Pick(r, c17ReadModes)
	}
	// hook delay table (microseconds), indexed by the watcher's read count
	h.DelaysUs = make([]int, 16)
	if r.Chance(60) {
		for i := range h.DelaysUs {
			switch x := r.Intn(10); {
			case x < 5:
			case x < 8:
				h.DelaysUs[i] = r.Range(10, 800)
			default:
				h.DelaysUs[i] = r.Range(800, 20000)
			}
		}
	}
	g.cur = g.freshContent() // initial content, in place before the watch starts
	g.lastValid = g.cur

	switch x := r.Intn(100); {
	case x < 28:
		h.Flavor = "identical"
		g.generalOps(r.Intn(4))
		// the window opens at a sync on a fresh, atomically written content
		g.contentOp("fresh", true)
		g.pseudo("sync")
		for i, n := 0, r.Range(1, 3); i < n; i++ {
			g.contentOp("identical", true)
		}
		switch y := r.Intn(10); {
		case y < 5:
			g.contentOp("fresh", true)
			for i, n := 0, r.Intn(3); i < n; i++ {
				g.contentOp("identical", true)
			}
		case y < 7:
			// temporarily malformed, then the same good bytes again
			g.contentOp("malformed", true)
			g.contentOp("revert", true)
		}
	case x < 52:
		h.Flavor = "invalid-final"
		g.generalOps(r.Intn(6))
		if r.Bool() {
			// make the admissible set a logical fact: sync on a fresh atomic content
			g.contentOp("fresh", true)
			g.pseudo("sync")
			for i, n := 0, r.Intn(3); i < n; i++ {
				if r.Chance(70) {
					g.contentOp("fresh", true)
				} else {
					g.contentOp("identical", true)
				}
			}
			g.contentOp("malformed", true)
			if r.Chance(25) {
				g.contentOp("revert", true)
				g.contentOp("malformed", true)
			}
			if r.Chance(30) {
				g.contentOp("identical", true)
			}
		} else {
			g.contentOp("malformed", false)
			if r.Chance(30) {
				g.contentOp("malformed", false)
			}
		}
	default:
		h.Flavor = "general"
		g.generalOps(r.Range(1, 12))
		if r.Chance(8) {
			h.EarlyCancel = true
		}
	}
	return h
}

// signature: the distinctness rule of the evidence (layout, decoder and the
// sequence of step kinds with their identical/malformed/atomic-create marks).
func (h *c17Hist) signature() string {
	var sb strings.Builder
	sb.WriteString(h.Layout + "|" + h.Decoder + "/" + h.ReadMode + "|")
	for _, o := range h.Ops {
		sb.WriteString(o.Kind)
		if o.isContentOp() {
			c := h.Contents[o.Content]
			switch {
			case o.Revert:
				sb.WriteString("<")
			case o.Identical:
				sb.WriteString("=")
			case c.Kind != "valid":
				sb.WriteString("!" + c.Kind)
			}
			if len(o.Chunks) > 1 {
				sb.WriteString(fmt.Sprintf("/%d", len(o.Chunks)))
			}
			if o.AtomicCreate {
				sb.WriteString("^")
			}
			if o.Trunc {
				sb.WriteString("t")
			}
			if o.FixedMtime {
				sb.WriteString("e")
			}
			if o.RemoveOld {
				sb.WriteString("-")
			}
			if o.NewDir {
				sb.WriteString("+")
			}
			if o.Sibling {
				sb.WriteString("~")
			}
		}
		sb.WriteString(";")
	}
	return sb.String()
}
