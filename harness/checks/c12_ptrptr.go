package checks

import (
	"context"
	"fmt"
	"reflect"
	"runtime/debug"
	"strconv"
	"time"

	"github.com/vimeo/dials"
	"verifharness/fw"
)

// Pointer-to-pointer leaves through the flag sources (session 3, after /repo fix bb64858): registration strips every
// pointer level of a user-declared **T field and registers a flag for it, so the statement of C12 covers it: a flag
// given on the command line must set it (to exactly the text's value, reachable through every declared level) and a
// flag that is not given must leave it nil.  The generated population of C12 has no such leaves (gen's flag pool
// stops at one level), so this is a fixed config type with seeded values and a seeded subset of flags.

type c12Lvl uint8

type c12PPInner struct {
	Depth ***int
	Tiny  **int8
}

type c12PPCfg struct {
	Retries **int
	Lvl     **c12Lvl
	Name    **string
	Ratio   **float64
	On      **bool
	Wait    **time.Duration
	Small   **uint16
	Plain   *int
	In      c12PPInner
}

type c12PPLeaf struct {
	flag string
	path []string
	text func(r *fw.Rand) string
}

var c12PPLeaves = []c12PPLeaf{
	{"retries", []string{"Retries"}, func(r *fw.Rand) string { return strconv.Itoa(r.Intn(2000001) - 1000000) }},
	{"lvl", []string{"Lvl"}, func(r *fw.Rand) string { return strconv.Itoa(r.Intn(256)) }},
	{"name", []string{"Name"}, func(r *fw.Rand) string { return "n" + strconv.Itoa(r.Intn(100000)) }},
	{"ratio", []string{"Ratio"}, func(r *fw.Rand) string { return strconv.Itoa(r.Intn(1000)) + "." + strconv.Itoa(r.Intn(10)) }},
	{"on", []string{"On"}, func(r *fw.Rand) string { return []string{"true", "false"}[r.Intn(2)] }},
	{"wait", []string{"Wait"}, func(r *fw.Rand) string { return (time.Duration(r.Intn(100000)) * time.Millisecond).String() }},
	{"small", []string{"Small"}, func(r *fw.Rand) string { return strconv.Itoa(r.Intn(65536)) }},
	{"plain", []string{"Plain"}, func(r *fw.Rand) string { return strconv.Itoa(r.Intn(1000)) }},
	{"in-depth", []string{"In", "Depth"}, func(r *fw.Rand) string { return strconv.Itoa(r.Intn(1000) - 500) }},
	{"in-tiny", []string{"In", "Tiny"}, func(r *fw.Rand) string { return strconv.Itoa(r.Intn(256) - 128) }},
}

// c12PPText: the innermost value as the flag text would print it; ok=false when a pointer on the way is nil.
func c12PPText(v reflect.Value) (string, bool) {
	for v.Kind() == reflect.Ptr {
		if v.IsNil() {
			return "", false
		}
		v = v.Elem()
	}
	switch x := v.Interface().(type) {
	case time.Duration:
		return x.String(), true
	case float64:
		return strconv.FormatFloat(x, 'f', 1, 64), true
	}
	return fmt.Sprint(v.Interface()), true
}

func c12PtrPtr(w *fw.Worker, i int, r *fw.Rand, pk flagPkg) {
	given := map[string]string{}
	var args []string
	order := r.Perm(len(c12PPLeaves))
	for _, k := range order {
		lf := c12PPLeaves[k]
		if !r.Chance(50) {
			continue
		}
		t := lf.text(r)
		given[lf.flag] = t
		if r.Chance(50) || lf.flag == "on" {
			args = append(args, "--"+lf.flag+"="+t)
		} else {
			args = append(args, "--"+lf.flag, t)
		}
	}
	// an out-of-range text for a narrow pointer-to-pointer leaf must be an error, never a wrapped value
	probe := ""
	if r.Chance(15) {
		probe = []string{"--in-tiny=128", "--in-tiny=-129", "--small=65536", "--lvl=256", "--small=-1"}[r.Intn(5)]
		args = append(args, probe)
	}
	wit := map[string]any{"part": "ptr-to-ptr-leaves", "package": pk.name, "args": args}
	var res *c12PPCfg
	var err error
	func() {
		defer func() {
			if p := recover(); p != nil {
				st := string(debug.Stack())
				w.Violation(i, "panic:ptr-to-ptr-leaves:"+pk.name+":"+fw.TopDialsFrame(st), fmt.Sprintf("panic: %v", p), map[string]any{"case": wit, "stack": fw.TrimStack(st)})
				err = fmt.Errorf("panicked")
				probe = "panicked"
			}
		}()
		var src dials.Source
		src, _, err = pk.build(false, &c12PPCfg{}, args)
		if err != nil {
			return
		}
		var d *dials.Dials[c12PPCfg]
		d, err = dials.Config(context.Background(), &c12PPCfg{}, src)
		if err == nil {
			res = d.View()
		}
	}()
	if probe == "panicked" {
		return
	}
	if probe != "" {
		if err == nil {
			w.Violation(i, "out-of-range-accepted:ptr-to-ptr-leaves:"+pk.name, "no error for "+probe, map[string]any{"case": wit})
			return
		}
		w.Count("ptrptr_out_of_range_probes_rejected", 1)
		return
	}
	if err != nil {
		w.Violation(i, "well-formed-args-rejected:ptr-to-ptr-leaves:"+pk.name, err.Error(), map[string]any{"case": wit})
		return
	}
	rv := reflect.ValueOf(res).Elem()
	for _, lf := range c12PPLeaves {
		fv := rv
		for _, p := range lf.path {
			fv = fv.FieldByName(p)
		}
		got, set := c12PPText(fv)
		want, isGiven := given[lf.flag]
		switch {
		case isGiven && !set:
			w.Violation(i, "given-flag-not-applied:ptr-to-ptr-leaves:"+pk.name, fmt.Sprintf("--%s=%s given, field %v is nil (at some level)", lf.flag, want, lf.path), map[string]any{"case": wit})
			return
		case isGiven && got != want:
			w.Violation(i, "given-flag-wrong-value:ptr-to-ptr-leaves:"+pk.name, fmt.Sprintf("--%s=%s given, field %v holds %s", lf.flag, want, lf.path, got), map[string]any{"case": wit})
			return
		case !isGiven && !fv.IsNil():
			w.Violation(i, "flag-not-given-but-field-set:ptr-to-ptr-leaves:"+pk.name, fmt.Sprintf("--%s not given, field %v is non-nil (%s)", lf.flag, lf.path, got), map[string]any{"case": wit})
			return
		}
		if isGiven {
			w.Count("ptrptr_flags_given_and_compared", 1)
		} else {
			w.Count("ptrptr_leaves_expected_unset", 1)
		}
	}
	w.Eval(1)
}
