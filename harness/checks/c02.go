package checks

import (
	"context"
	"fmt"
	"reflect"
	"strings"
	"sync"

	"github.com/vimeo/dials"
	"github.com/vimeo/dials/ptrify"

	"verifharness/conc"
	"verifharness/fw"
	"verifharness/gen"
)

func init() {
	fw.Register(&fw.Check{
		ID:      "C02",
		Race:    true,
		RaceAny: true,
		Rule: "Mode A (reflect-built types as in C01, reference content weighted up, leaves and layers that share maps/slices/pointers on input; same-typed slice leaves of the defaults or of one layer are also handed over as different views of one backing array - s and s[:k], s[:k:k], s[j:], s[j:k]; every fifth case draws its leaves from a handful (2-8) of kinds only, so that one type has several fields of one reference type): the same inputs are stacked twice by the real compose; an address-level alias walker (pointer targets, slice backing-array intervals incl. spare capacity, map headers, through exported fields) must find the two results, the defaults and every layer value pairwise disjoint, the two results deeply equal, and every input identical to its pre-call clone; " +
			"then a sentinel is written through every pointer/map/slice of result 1 and the inputs and result 2 are re-compared with their clones (behavioural cross-check of the walker). " +
			"Mode B (real Dials[Cfg] with a static first source and 1-3 fake watchers, 3-12 re-stacks): every config obtained from View, ViewVersion, Events, OnNewConfig and registered callbacks, the defaults and every value a source returned or reported must be pairwise disjoint; defaults and source values must equal their clones after the history; " +
			"Mode C (a static config type through the public API: exported pointers that point at sibling fields - exported, unexported, inside a sibling struct, an element of a sibling list -, at separate objects or at one another, declared before and after what they point at; two lists that may be views of one backing array; 1-3 sources that cache their value, one of them watching and reporting 1-3 new values): two Configs over the same inputs must give deeply equal views; all views (both Configs, every re-stack), the defaults and every source value must be pairwise disjoint for the alias walker; defaults and source values must equal untouched twins built from the same seed (unexported fields included) after stacking and after writing through one version, and the other versions must not change by that write. " +
			"finally (mode B) one goroutine scribbles over version k while another reads version k+1, the defaults and the source values under the race detector (every race report is a violation). distinct_nontrivial = distinct (type-shape, set-pattern) signatures with >=1 reference-typed leaf set (mode A) and distinct (options, report-pattern) signatures (mode B).",
		Assumptions: []string{
			"memory reachable only through unexported fields (time.Time's *Location) is outside the statement and not walked",
			"two leaves sharing memory inside ONE version (because the input shared it) is not a violation; only sharing across versions/inputs is",
		},
		MinDistinct: map[string]int{"quick": 1500, "thorough": 40000},
		MinCounters: map[string]map[string]int64{
			"quick":    {"region_pairs_checked": 20000, "regions_walked": 100000, "mutation_probe_writes": 50000, "restack_versions_compared": 1500, "scribble_vs_read_rounds": 300,
				"self_referential_cases": 500, "self_referential_restacks": 500, "cases_with_slice_views_checked": 250, "cases_with_views_of_slices_whose_elements_hold_references": 80},
			"thorough": {"region_pairs_checked": 800000},
		},
		Plan: func(tier string) fw.Plan {
			if tier == "thorough" {
				return fw.Plan{Shards: 48, CasesPerShard: 20000, Parallel: 16, TimeoutSec: 3000}
			}
			return fw.Plan{Shards: 16, CasesPerShard: 500, TimeoutSec: 900}
		},
		Run: runC02,
	})
}

func refLeaves() []*gen.Leaf {
	// reference content weighted up: every CapRef leaf twice, others once
	var out []*gen.Leaf
	for _, l := range gen.AllLeaves {
		out = append(out, l)
		if l.Caps&gen.CapRef != 0 {
			out = append(out, l, l)
		}
	}
	return out
}

func runC02(w *fw.Worker) {
	w.Cases(func(i int, r *fw.Rand) {
		switch {
		case i%5 == 4:
			c02Restack(w, i, r)
		case i%10 == 7:
			c02Interior(w, i, r)
		case i%20 == 13:
			c02Promoted(w, i, r)
		default:
			c02Compose(w, i, r)
		}
	})
}

// c02NarrowPool: a few leaf kinds only, so that one config type has several fields of the same reference type (a list
// and its first entries, two pointers at one variable, one map in two settings): one or two slice kinds (half of the
// time kinds whose elements hold references themselves) and one or two other kinds.
func c02NarrowPool(r *fw.Rand) []*gen.Leaf {
	var slices, refElems, others []*gen.Leaf
	for _, l := range gen.AllLeaves {
		switch {
		case l.Type.Kind() == reflect.Slice && l.Caps&gen.CapTextU == 0:
			slices = append(slices, l)
			if typeHoldsRefs(l.Type.Elem()) {
				refElems = append(refElems, l)
			}
		default:
			others = append(others, l)
		}
	}
	var out []*gen.Leaf
	for n := r.Range(1, 2); n > 0; n-- {
		if r.Bool() && len(refElems) > 0 {
			out = append(out, fw.Pick(r, refElems), fw.Pick(r, refElems)) // weighted up
		}
		out = append(out, fw.Pick(r, slices))
	}
	for n := r.Range(1, 2); n > 0; n-- {
		out = append(out, fw.Pick(r, others))
	}
	return out
}

// typeHoldsRefs: values of t contain a pointer, map or slice in an exported position.
func typeHoldsRefs(t reflect.Type) bool {
	switch t.Kind() {
	case reflect.Ptr, reflect.Map, reflect.Slice, reflect.Interface:
		return true
	case reflect.Array:
		return typeHoldsRefs(t.Elem())
	case reflect.Struct:
		for k := 0; k < t.NumField(); k++ {
			if t.Field(k).IsExported() && typeHoldsRefs(t.Field(k).Type) {
				return true
			}
		}
	}
	return false
}

func c02Compose(w *fw.Worker, i int, r *fw.Rand) {
	o := gen.GenOpts{MaxDepth: w.Pick(3, 4) - r.Intn(2), MaxFields: r.Range(2, 7), SkipPct: r.Range(0, 20), StructPct: r.Range(10, 40), Leaves: refLeaves(), InitialismPct: 10, HollowPct: 5}
	if i%5 == 2 {
		o.Leaves = c02NarrowPool(r)
		w.Count("cases_with_a_narrow_leaf_pool", 1)
	}
	spec := gen.RandomSpec(r, o)
	c := &gen.Counter{}
	allLeaves := spec.LeafRefs()
	defaults := spec.RandomDefaults(r, c, r.Range(30, 90))
	// interface-typed leaves: per case either the defaults hold them (the pointerified type then devirtualises the
	// field, so no layer sets it) or only layers set them (nil default keeps the field an interface)
	anyInDefaults := r.Bool()
	var leaves []*gen.LeafRef
	for _, lr := range allLeaves {
		if lr.Leaf().Leaf.Caps&gen.CapIface != 0 {
			if anyInDefaults {
				continue
			}
			if fv := leafValue(defaults, lr); fv.IsValid() && fv.CanSet() {
				fv.Set(reflect.Zero(fv.Type()))
			}
		}
		leaves = append(leaves, lr)
	}
	// same-typed slice leaves of the defaults as views of one backing array (s and s[:k], s[j:], ...)
	viewLeaves := map[*gen.Field]bool{}
	nViews := sliceViewsInDefaults(r, allLeaves, defaults, viewLeaves)
	defPtr := reflect.New(spec.Type())
	defPtr.Elem().Set(defaults)
	ptrType := ptrify.Pointerify(spec.Type(), defPtr.Elem())
	nLayers := r.Range(1, 4)
	layers := make([]*gen.Layer, nLayers)
	for k := range layers {
		layers[k] = gen.RandomLayer(r, c, leaves, r.Range(30, 80))
	}
	// make inputs share reference content: between leaves of one layer and between layers
	byType := map[reflect.Type][]reflect.Value{}
	for _, l := range layers {
		for _, lr := range leaves { // in declaration order (not map order): the case must be a function of the seed
			v, ok := l.Vals[lr]
			if !ok {
				continue
			}
			if lr.Leaf().Leaf.Caps&gen.CapRef != 0 && r.Chance(30) {
				if prev := byType[v.Type()]; len(prev) > 0 {
					l.Vals[lr] = prev[r.Intn(len(prev))] // the very same map/slice/pointer again
					w.Count("inputs_sharing_reference_content", 1)
					continue
				}
			}
			byType[v.Type()] = append(byType[v.Type()], v)
		}
		// ... and slices of one layer that share a backing array without being the same slice
		nViews += sliceViewsInLayer(r, leaves, l, viewLeaves)
	}
	if nViews > 0 {
		w.Count("slice_leaves_made_views_of_one_backing_array", int64(nViews))
	}
	vals := make([]reflect.Value, nLayers)
	refSet := false
	for k, l := range layers {
		vals[k] = materializeShared(l, ptrType)
		switch r.Intn(3) {
		case 0:
			// handed over by value: a non-addressable struct (its maps, slices and pointers are still the source's)
			vals[k] = reflect.ValueOf(vals[k].Interface())
			w.Count("inputs_handed_over_non_addressable", 1)
		case 1:
			if vals[k].CanAddr() {
				vals[k] = vals[k].Addr()
			}
		}
		for lr := range l.Vals {
			if lr.Leaf().Leaf.Caps&gen.CapRef != 0 {
				refSet = true
			}
		}
	}
	witness := func() any {
		return map[string]any{"type": spec.Describe(), "defaults": fmt.Sprintf("%+v", defaults), "layers": describeLayers(layers)}
	}
	defClone := gen.CloneValue(defPtr.Elem())
	valClones := make([]reflect.Value, nLayers)
	for k := range vals {
		valClones[k] = gen.CloneValue(vals[k])
	}
	r1, err1 := dials.VerifCompose(defPtr.Interface(), vals)
	r2, err2 := dials.VerifCompose(defPtr.Interface(), vals)
	if err1 != nil || err2 != nil {
		w.Violation(i, "compose-error-on-well-typed-layers", fmt.Sprint(err1, err2), witness())
		return
	}
	v1, v2 := reflect.ValueOf(r1), reflect.ValueOf(r2)
	if d := gen.Diff(v1.Elem(), v2.Elem()); d != "" {
		w.Violation(i, "stacking-twice-not-deeply-equal", d, witness())
		return
	}
	inputsUnchanged := func(when string) bool {
		if d := gen.Diff(defClone, defPtr.Elem()); d != "" {
			w.Violation(i, "defaults-modified:"+when, d, witness())
			return false
		}
		for k := range vals {
			if d := gen.Diff(valClones[k], vals[k]); d != "" {
				w.Violation(i, "source-value-modified:"+when, fmt.Sprintf("layer %d: %s", k, d), witness())
				return false
			}
		}
		return true
	}
	if !inputsUnchanged("by-stacking") {
		return
	}
	reg1, reg2 := gen.Regions(v1), gen.Regions(v2)
	regDef := gen.Regions(defPtr)
	w.Count("regions_walked", int64(len(reg1)+len(reg2)+len(regDef)))
	check := func(a, b []gen.Region, what string) bool {
		w.Count("region_pairs_checked", 1)
		if ov := gen.Overlap(a, b); ov != "" {
			w.Violation(i, "shared-memory:"+what, ov, witness())
			return false
		}
		return true
	}
	if !check(reg1, reg2, "result-vs-second-result") || !check(reg1, regDef, "result-vs-defaults") {
		return
	}
	for k := range vals {
		rk := gen.Regions(vals[k])
		w.Count("regions_walked", int64(len(rk)))
		if !check(reg1, rk, "result-vs-source-value") || !check(reg2, rk, "result-vs-source-value") {
			return
		}
	}
	// mutation probe: write through everything reachable from result 1
	v2clone := gen.CloneValue(v2.Elem())
	n := gen.Scribble(v1)
	w.Count("mutation_probe_writes", int64(n))
	if !inputsUnchanged("by-writing-through-a-result") {
		return
	}
	if d := gen.Diff(v2clone, v2.Elem()); d != "" {
		w.Violation(i, "second-result-changed-by-writing-through-first", d, witness())
		return
	}
	if nViews > 0 {
		w.Count("cases_with_slice_views_checked", 1)
		for f := range viewLeaves {
			if typeHoldsRefs(f.Leaf.Type.Elem()) {
				w.Count("cases_with_views_of_slices_whose_elements_hold_references", 1)
				break
			}
		}
	}
	if refSet {
		m, _ := setMatrix(leaves, layers)
		w.Distinct("A|" + spec.Signature() + "#" + m)
	}
	if i%301 == 0 {
		w.Sample(witness())
	}
}

// materializeShared is Layer.Materialize without cloning the values, so that
// reference content shared between leaves/layers stays shared in the input.
func materializeShared(l *gen.Layer, ptrType reflect.Type) reflect.Value {
	v := reflect.New(ptrType).Elem()
	for lr, val := range l.Vals {
		fv := v
		for _, f := range lr.Path {
			for fv.Kind() == reflect.Ptr {
				if fv.IsNil() {
					fv.Set(reflect.New(fv.Type().Elem()))
				}
				fv = fv.Elem()
			}
			fv = fv.FieldByName(f.Name)
		}
		switch {
		case fv.Type() == val.Type():
			fv.Set(val)
		case fv.Kind() == reflect.Ptr && fv.Type().Elem() == val.Type():
			p := reflect.New(val.Type())
			p.Elem().Set(val)
			fv.Set(p)
		default:
			panic("harness: materializeShared type mismatch")
		}
	}
	return v
}

func c02Restack(w *fw.Worker, i int, r *fw.Rand) {
	o := conc.Opts{NSrc: r.Range(2, 4), StaticFirst: r.Chance(70), Skip: r.Chance(20), SlowCB: r.Intn(2)}
	refLayer := func(e *conc.Env) *conc.Layer {
		l := e.NewLayer()
		for f := 0; f < conc.NumFields; f++ {
			if r.Chance(35) {
				l.Set[f] = true
			}
		}
		// reference-typed leaves M, L, P more often
		for _, f := range []int{5, 6, 7} {
			if r.Chance(60) {
				l.Set[f] = true
			}
		}
		return l
	}
	e, err := conc.Start(context.Background(), r.U64(), o, func(e *conc.Env, k int) *conc.Layer { return refLayer(e) })
	if err != nil {
		w.Violation(i, "config-failed", err.Error(), nil)
		return
	}
	defer e.Stop()
	ctx := e.S.Ctx
	if r.Bool() {
		// once Config has returned, the caller reuses (overwrites) its defaults object: later versions must not change
		e.ScribbleCallerDefaults()
		w.Count("histories_where_the_caller_overwrote_its_defaults", 1)
	}
	type seen struct {
		cfg   *conc.Cfg
		where string
	}
	var mu sync.Mutex
	var all []seen
	have := map[*conc.Cfg]bool{}
	add := func(c *conc.Cfg, where string) {
		if c == nil {
			return
		}
		mu.Lock()
		if !have[c] {
			have[c] = true
			all = append(all, seen{c, where})
		}
		mu.Unlock()
	}
	add(e.D.View(), "View")
	_, tok := e.D.ViewVersion()
	unreg := e.D.RegisterCallback(ctx, tok, e.RegisteredCB(1, func(old, nw *conc.Cfg) { add(old, "callback-old"); add(nw, "callback-new") }))
	n := r.Range(3, 12)
	var pattern string
	for k := 0; k < n; k++ {
		src := r.Intn(o.NSrc)
		if e.Srcs[src] == nil {
			src = o.NSrc - 1
		}
		l := refLayer(e)
		res, _ := e.Report(ctx, 0, src, l, true)
		pattern += fmt.Sprintf("%d%d", src, res)
		c, _ := e.D.ViewVersion()
		if fp := conc.FPOf(c); fp.C == -777 || fp.NX == -778 || fp.S == "scribbled-by-the-caller" || fp.NY == "scribbled-by-the-caller" {
			w.Violation(i, "callers-later-writes-to-its-defaults-show-up-in-a-version", fmt.Sprintf("after Config returned the caller overwrote its own defaults object; version installed by report %d shows %+v", k, fp), nil)
			return
		}
		add(c, "ViewVersion")
		add(e.D.View(), "View")
		select {
		case ev := <-e.D.Events():
			add(ev, "Events")
		default:
		}
	}
	e.Quiesce(ctx)
	if unreg != nil {
		unreg(ctx)
	}
	for _, ev := range e.CBLog() {
		if ev.Kind == "new" {
			add(ev.Old, "OnNewConfig-old")
			add(ev.New, "OnNewConfig-new")
		}
	}
	e.Stop()
	// inputs: every value every source handed over
	var inputs []reflect.Value
	var inputClones []reflect.Value
	if e.Static != nil {
		inputs = append(inputs, e.Static.Handed()...)
	}
	for _, s := range e.Srcs {
		if s != nil {
			inputs = append(inputs, s.Handed()...)
		}
	}
	for _, in := range inputs {
		inputClones = append(inputClones, gen.CloneValue(in))
	}
	regs := make([][]gen.Region, len(all))
	for k, s := range all {
		regs[k] = gen.Regions(reflect.ValueOf(s.cfg))
		w.Count("regions_walked", int64(len(regs[k])))
	}
	desc := map[string]any{"mode": "restack", "opts": fmt.Sprintf("%+v", o), "report_pattern": pattern, "versions": len(all)}
	for a := 0; a < len(all); a++ {
		for b := a + 1; b < len(all); b++ {
			w.Count("region_pairs_checked", 1)
			if ov := gen.Overlap(regs[a], regs[b]); ov != "" {
				w.Violation(i, "shared-memory:version-vs-version", fmt.Sprintf("configs from %s and %s: %s", all[a].where, all[b].where, ov), desc)
				return
			}
		}
		for k, in := range inputs {
			w.Count("region_pairs_checked", 1)
			if ov := gen.Overlap(regs[a], gen.Regions(in)); ov != "" {
				w.Violation(i, "shared-memory:version-vs-source-value", fmt.Sprintf("config from %s and source value #%d: %s", all[a].where, k, ov), desc)
				return
			}
		}
	}
	w.Count("restack_versions_compared", int64(len(all)))
	// race-detector oracle: scribble version k while reading version k+1 and all inputs
	for k := 0; k+1 < len(all) && k < 3; k++ {
		var wg sync.WaitGroup
		start := make(chan struct{})
		wg.Add(2)
		go func(c *conc.Cfg) {
			defer wg.Done()
			<-start
			gen.Scribble(reflect.ValueOf(c))
		}(all[k].cfg)
		go func(c *conc.Cfg) {
			defer wg.Done()
			<-start
			gen.ReadAll(reflect.ValueOf(c))
			for _, in := range inputs {
				gen.ReadAll(in)
			}
		}(all[k+1].cfg)
		close(start)
		wg.Wait()
		w.Count("scribble_vs_read_rounds", 1)
	}
	for k, in := range inputs {
		if d := gen.Diff(inputClones[k], in); d != "" {
			w.Violation(i, "source-value-modified:by-writing-through-a-version", fmt.Sprintf("source value #%d: %s", k, d), desc)
			return
		}
	}
	w.Distinct(fmt.Sprintf("B|%v%v%d|%s", o.StaticFirst, o.Skip, o.NSrc, pattern))
	if i%97 == 4 {
		w.Sample(desc)
	}
}

// ---- mode C: a static config type that points into itself and keeps views of its own lists (public API)

type c02Retry struct{ Max int }

type c02Limits struct {
	Max     int
	PerHost map[string]int
	Burst   *int
	Retry   *c02Retry
	Hosts   []string
}

type c02Backend struct {
	Name   string
	Tags   map[string]string
	Weight *int
}

// c02Self: exported pointers that may point at sibling fields (exported or not), into a sibling struct, at an element
// of a sibling list, at a separate object or at one another; two lists that may be views of one backing array.
type c02Self struct {
	Early    *c02Limits // declared before everything it may point at
	builtin  c02Limits  // compiled-in values, not exposed
	Shown    c02Limits
	Limits   *c02Limits
	Port     int
	Primary  []c02Backend
	Backends []c02Backend
	List     []c02Limits
	Alt      *c02Limits
	Count    *int
	Weights  []*int
}

// c02MkSelf builds the defaults from a seed; called twice with the same seed it builds two values that share nothing
// (the second is the untouched twin the first is compared with afterwards, unexported fields included).
func c02MkSelf(r *fw.Rand) (*c02Self, string) {
	uniq := 0
	next := func() int { uniq++; return uniq }
	mkLimits := func() c02Limits {
		b := next()
		return c02Limits{Max: next(), PerHost: map[string]int{"h": next(), "g": next()}, Burst: &b, Retry: &c02Retry{Max: next()},
			Hosts: append(make([]string, 0, 4), fmt.Sprint("host", next()), "x")}
	}
	d := &c02Self{builtin: mkLimits(), Shown: mkLimits(), Port: next()}
	d.List = []c02Limits{mkLimits(), mkLimits()}
	shape := ""
	all := c02MkBackends(next, r.Range(2, 4))
	switch r.Intn(4) {
	case 0:
		d.Primary, d.Backends = c02MkBackends(next, 1), all
	case 1:
		d.Primary, d.Backends = sliceViewOf(r, reflect.ValueOf(all)).Interface().([]c02Backend), all
		shape += fmt.Sprintf("Primary=view(%d/%d) Backends=all(%d/%d);", len(d.Primary), cap(d.Primary), len(all), cap(all))
	case 2:
		d.Primary, d.Backends = all, sliceViewOf(r, reflect.ValueOf(all)).Interface().([]c02Backend)
		shape += fmt.Sprintf("Primary=all(%d/%d) Backends=view(%d/%d);", len(all), cap(all), len(d.Backends), cap(d.Backends))
	case 3:
		d.Backends = all
	}
	target := func(name string) *c02Limits {
		k := r.Intn(7)
		shape += fmt.Sprintf("%s->%s;", name, [...]string{"nil", "separate", "&builtin", "&Shown", "&List[0]", "&List[1]", "&builtin"}[k])
		switch k {
		case 0:
			return nil
		case 1:
			l := mkLimits()
			return &l
		case 3:
			return &d.Shown
		case 4:
			return &d.List[0]
		case 5:
			return &d.List[1]
		}
		return &d.builtin
	}
	d.Early, d.Limits, d.Alt = target("Early"), target("Limits"), target("Alt")
	if r.Chance(25) {
		d.Alt = d.Limits
		shape += "Alt=Limits;"
	}
	k := r.Intn(7)
	shape += fmt.Sprintf("Count->%s;", [...]string{"nil", "separate", "&Port", "&Shown.Max", "&builtin.Max", "Shown.Burst", "&List[1].Max"}[k])
	switch k {
	case 1:
		x := next()
		d.Count = &x
	case 2:
		d.Count = &d.Port
	case 3:
		d.Count = &d.Shown.Max
	case 4:
		d.Count = &d.builtin.Max
	case 5:
		d.Count = d.Shown.Burst
	case 6:
		d.Count = &d.List[1].Max
	}
	if r.Bool() {
		// a list of pointers at the config's own numbers and at its backends' weights
		d.Weights = []*int{&d.Port, all[0].Weight, &d.Shown.Max, all[len(all)-1].Weight}
		shape += "Weights->own;"
	}
	return d, shape
}

func c02MkBackends(next func() int, n int) []c02Backend {
	out := make([]c02Backend, n)
	for k := range out {
		wt := next()
		out[k] = c02Backend{Name: fmt.Sprint("db", next()), Tags: map[string]string{"zone": fmt.Sprint("z", next())}, Weight: &wt}
	}
	return out
}

// c02Assign is one setting of a layer: the path (field names) in the type dials hands to sources, and the value.
type c02Assign struct {
	path string
	val  reflect.Value
}

// c02MkLayer draws one layer for c02Self; twice from one seed = two layers that share nothing.
func c02MkLayer(r *fw.Rand, base int) []c02Assign {
	uniq := base
	next := func() int { uniq++; return uniq }
	var out []c02Assign
	set := func(pct int, path string, mk func() any) {
		if r.Chance(pct) {
			out = append(out, c02Assign{path, reflect.ValueOf(mk())})
		}
	}
	for _, p := range []string{"Shown", "Limits", "Alt", "Early"} {
		p := p
		set(30, p+".Max", func() any { return next() })
		set(30, p+".Retry.Max", func() any { return next() })
		set(25, p+".PerHost", func() any { return map[string]int{"layer": next()} })
		set(25, p+".Burst", func() any { x := next(); return &x })
		set(20, p+".Hosts", func() any { return []string{fmt.Sprint("lh", next())} })
	}
	set(40, "Port", func() any { return next() })
	set(30, "Count", func() any { x := next(); return &x })
	set(25, "List", func() any {
		b := next()
		return []c02Limits{{Max: next(), PerHost: map[string]int{"l": next()}, Burst: &b, Retry: &c02Retry{Max: next()}}}
	})
	if r.Chance(50) {
		all := c02MkBackends(next, r.Range(2, 4))
		view := sliceViewOf(r, reflect.ValueOf(all))
		switch r.Intn(3) {
		case 0:
			out = append(out, c02Assign{"Primary", view}, c02Assign{"Backends", reflect.ValueOf(all)})
		case 1:
			out = append(out, c02Assign{"Primary", reflect.ValueOf(all)}, c02Assign{"Backends", view})
		case 2:
			out = append(out, c02Assign{"Backends", reflect.ValueOf(all)})
		}
	}
	return out
}

// c02BuildLayer materialises the settings into a value of the pointerified type t, by field name, without cloning.
func c02BuildLayer(t reflect.Type, as []c02Assign) reflect.Value {
	v := reflect.New(t).Elem()
	for _, a := range as {
		fv := v
		for _, name := range strings.Split(a.path, ".") {
			for fv.Kind() == reflect.Ptr {
				if fv.IsNil() {
					fv.Set(reflect.New(fv.Type().Elem()))
				}
				fv = fv.Elem()
			}
			fv = fv.FieldByName(name)
			if !fv.IsValid() {
				panic("harness: c02BuildLayer: no field " + a.path)
			}
		}
		switch {
		case fv.Type() == a.val.Type():
			fv.Set(a.val)
		case fv.Kind() == reflect.Ptr && fv.Type().Elem() == a.val.Type():
			p := reflect.New(a.val.Type())
			p.Elem().Set(a.val)
			fv.Set(p)
		default:
			panic(fmt.Sprintf("harness: c02BuildLayer: %s: cannot store %s into %s", a.path, a.val.Type(), fv.Type()))
		}
	}
	return v
}

// c02SelfSrc hands over one cached value object (every Config over it gets the very same object) and can report new ones.
type c02SelfSrc struct {
	seed uint64
	base int
	mu   sync.Mutex
	val  reflect.Value
	wa   dials.WatchArgs
	typ  *dials.Type
}

func (s *c02SelfSrc) Value(_ context.Context, t *dials.Type) (reflect.Value, error) {
	s.mu.Lock()
	defer s.mu.Unlock()
	if !s.val.IsValid() {
		s.val = c02BuildLayer(t.Type(), c02MkLayer(fw.NewRand(s.seed), s.base))
	}
	return s.val, nil
}

func (s *c02SelfSrc) Watch(_ context.Context, t *dials.Type, wa dials.WatchArgs) error {
	s.mu.Lock()
	s.wa, s.typ = wa, t
	s.mu.Unlock()
	return nil
}

type c02StaticOnly struct{ dials.Source } // hides Watch

func c02Interior(w *fw.Worker, i int, r *fw.Rand) {
	defSeed := r.U64()
	def, shape := c02MkSelf(fw.NewRand(defSeed))
	twin, _ := c02MkSelf(fw.NewRand(defSeed))
	nSrc := r.Range(1, 3)
	srcs := make([]*c02SelfSrc, nSrc)
	first := make([]dials.Source, nSrc)
	second := make([]dials.Source, nSrc)
	watcher := r.Intn(nSrc)
	for k := range srcs {
		srcs[k] = &c02SelfSrc{seed: r.U64(), base: 1000 * (k + 1)}
		first[k], second[k] = c02StaticOnly{srcs[k]}, c02StaticOnly{srcs[k]}
	}
	first[watcher] = srcs[watcher]
	desc := map[string]any{"mode": "self-referential static type", "defaults_shape": shape, "sources": nSrc, "defaults_seed": defSeed}
	ctx, cancel := context.WithCancel(context.Background())
	defer cancel()
	d1, err1 := dials.Config(ctx, def, first...)
	d2, err2 := dials.Config(ctx, def, second...)
	if err1 != nil || err2 != nil {
		w.Violation(i, "self-referential-config:config-failed", fmt.Sprint(err1, err2), desc)
		return
	}
	// inputs: the defaults and every value a source handed over, each with a twin built from the same seed
	type input struct {
		what      string
		val, twin reflect.Value
	}
	inputs := []input{{"defaults", reflect.ValueOf(def), reflect.ValueOf(twin)}}
	ptrType := srcs[0].val.Type()
	for k, s := range srcs {
		inputs = append(inputs, input{fmt.Sprintf("value of source %d", k), s.val, c02BuildLayer(ptrType, c02MkLayer(fw.NewRand(s.seed), s.base))})
	}
	type version struct {
		what string
		cfg  *c02Self
	}
	versions := []version{{"View of the first Config", d1.View()}, {"View of a second Config over the same inputs", d2.View()}}
	if df := gen.Diff(reflect.ValueOf(versions[0].cfg), reflect.ValueOf(versions[1].cfg)); df != "" {
		w.Violation(i, "self-referential-config:stacking-twice-not-deeply-equal", df, desc)
		return
	}
	// re-stacks: the watching source reports 1-3 new values
	s := srcs[watcher]
	for k, n := 0, r.Range(1, 3); k < n; k++ {
		seed, base := r.U64(), 10000*(k+1)
		val := c02BuildLayer(s.typ.Type(), c02MkLayer(fw.NewRand(seed), base))
		inputs = append(inputs, input{fmt.Sprintf("value %d reported by source %d", k, watcher), val, c02BuildLayer(ptrType, c02MkLayer(fw.NewRand(seed), base))})
		if err := s.wa.BlockingReportNewValue(ctx, val); err != nil {
			w.Violation(i, "self-referential-config:watcher-update-failed", err.Error(), desc)
			return
		}
		versions = append(versions, version{fmt.Sprintf("View after report %d", k), d1.View()})
		w.Count("self_referential_restacks", 1)
	}
	inputsUnchanged := func(when string) bool {
		for _, in := range inputs {
			if df := gen.Diff(in.twin, in.val); df != "" {
				what := "source-value"
				if in.what == "defaults" {
					what = "defaults"
				}
				w.Violation(i, "self-referential-config:"+what+"-modified:"+when, fmt.Sprintf("%s, untouched twin vs the object dials was given: %s", in.what, df), desc)
				return false
			}
		}
		return true
	}
	if !inputsUnchanged("by-stacking") {
		return
	}
	regs := make([][]gen.Region, len(versions))
	for k, v := range versions {
		regs[k] = gen.Regions(reflect.ValueOf(v.cfg))
		w.Count("regions_walked", int64(len(regs[k])))
	}
	for a := range versions {
		for b := a + 1; b < len(versions); b++ {
			w.Count("region_pairs_checked", 1)
			if ov := gen.Overlap(regs[a], regs[b]); ov != "" {
				w.Violation(i, "self-referential-config:shared-memory:version-vs-version", fmt.Sprintf("%s and %s: %s", versions[a].what, versions[b].what, ov), desc)
				return
			}
		}
		for _, in := range inputs {
			w.Count("region_pairs_checked", 1)
			if ov := gen.Overlap(regs[a], gen.Regions(in.val)); ov != "" {
				what := "source-value"
				if in.what == "defaults" {
					what = "defaults"
				}
				w.Violation(i, "self-referential-config:shared-memory:version-vs-"+what, fmt.Sprintf("%s and %s: %s", versions[a].what, in.what, ov), desc)
				return
			}
		}
	}
	// behavioural cross-check: write through everything reachable from one version
	k := r.Intn(len(versions))
	clones := make([]reflect.Value, len(versions))
	for j, v := range versions {
		clones[j] = gen.CloneValue(reflect.ValueOf(v.cfg))
	}
	w.Count("mutation_probe_writes", int64(gen.Scribble(reflect.ValueOf(versions[k].cfg))))
	if !inputsUnchanged("by-writing-through-a-version") {
		return
	}
	for j, v := range versions {
		if j == k {
			continue
		}
		if df := gen.Diff(clones[j], reflect.ValueOf(v.cfg)); df != "" {
			w.Violation(i, "self-referential-config:version-changed-by-writing-through-another", fmt.Sprintf("wrote through %s; %s changed: %s", versions[k].what, v.what, df), desc)
			return
		}
	}
	w.Count("self_referential_cases", 1)
	w.Count("self_referential_versions_compared", int64(len(versions)))
	for _, p := range strings.Split(shape, ";") {
		if p != "" {
			if strings.HasPrefix(p, "Primary=") {
				p = strings.SplitN(p, "(", 2)[0] + "..."
			}
			w.SetAdd("self_referential_default_shapes", p)
		}
	}
	w.Distinct("C|" + shape)
	if i%400 == 7 {
		w.Sample(desc)
	}
}

// c02hidden is embedded in c02Promo under its unexported type name: its exported fields are promoted, settable and part
// of the config like any other.
type c02hidden struct {
	Extra map[string]int
	Names []string
	Lvl   *int
	Inner c02Retry
}

type (
	c02MapA map[string]int
	c02MapB map[string]int
)

type c02Promo struct {
	c02hidden
	N    int
	A    c02MapA
	B    c02MapB // in half of the cases the very map A holds, under another defined type
	Tail *c02Limits
}

// c02Promoted: defaults with reference-typed fields promoted from an embedded struct of an unexported type, and one map
// reachable through two defined map types; the view must equal the defaults, share nothing with them, and writing
// through it must leave them as their untouched twin. (Before /repo commits de404d5 and 32c3b8d the first shape was
// copied shallowly and the second made Config panic.)
func c02Promoted(w *fw.Worker, i int, r *fw.Rand) {
	shared := r.Bool()
	seed := r.Intn(1000)
	mk := func() *c02Promo {
		lvl, b := seed, seed+1
		m := map[string]int{"k": seed + 2}
		p := &c02Promo{c02hidden: c02hidden{Extra: map[string]int{"e": seed + 3}, Names: append(make([]string, 0, 4), fmt.Sprint("n", seed), "x"), Lvl: &lvl, Inner: c02Retry{Max: seed + 4}},
			N: seed + 5, A: c02MapA(m), Tail: &c02Limits{Max: seed + 6, PerHost: map[string]int{"h": seed + 7}, Burst: &b}}
		if shared {
			p.B = c02MapB(m)
		} else {
			p.B = c02MapB{"z": seed + 8}
		}
		return p
	}
	def, twin := mk(), mk()
	desc := map[string]any{"mode": "promoted-fields-and-defined-map-types", "one_map_under_two_defined_types": shared}
	w.BeginDesc(i, fmt.Sprintf("%v", desc))
	ctx, cancel := context.WithCancel(context.Background())
	defer cancel()
	d, err := dials.Config(ctx, def)
	if err != nil {
		w.Violation(i, "promoted-config:config-failed", err.Error(), desc)
		return
	}
	w.Count("promoted_field_configs", 1)
	v := d.View()
	if !reflect.DeepEqual(v, twin) {
		w.Violation(i, "promoted-config:view-differs-from-defaults", gen.Diff(reflect.ValueOf(twin).Elem(), reflect.ValueOf(v).Elem()), desc)
		return
	}
	if ov := gen.Overlap(gen.Regions(reflect.ValueOf(v)), gen.Regions(reflect.ValueOf(def))); ov != "" {
		w.Violation(i, "promoted-config:shared-memory:view-vs-defaults", ov, desc)
		return
	}
	gen.Scribble(reflect.ValueOf(v).Elem())
	if !reflect.DeepEqual(def, twin) {
		w.Violation(i, "promoted-config:defaults-modified:by-writing-through-the-view", gen.Diff(reflect.ValueOf(twin).Elem(), reflect.ValueOf(def).Elem()), desc)
		return
	}
	w.Distinct(fmt.Sprintf("promoted|%v|%d", shared, seed%50))
}
