package checks

import (
	"context"
	"fmt"
	"reflect"
	"sync"

	"github.com/vimeo/dials"
	"github.com/vimeo/dials/ptrify"

	"verifharness/conc"
	"verifharness/fw"
	"verifharness/gen"
)

func init() {
	fw.Register(&fw.Check{
		ID:      "C02",
		Race:    true,
		RaceAny: true,
		Rule: "Mode A (reflect-built types as in C01, reference content weighted up, leaves and layers that share maps/slices/pointers on input): the same inputs are stacked twice by the real compose; an address-level alias walker (pointer targets, slice backing-array intervals incl. spare capacity, map headers, through exported fields) must find the two results, the defaults and every layer value pairwise disjoint, the two results deeply equal, and every input identical to its pre-call clone; " +
			"then a sentinel is written through every pointer/map/slice of result 1 and the inputs and result 2 are re-compared with their clones (behavioural cross-check of the walker). " +
			"Mode B (real Dials[Cfg] with a static first source and 1-3 fake watchers, 3-12 re-stacks): every config obtained from View, ViewVersion, Events, OnNewConfig and registered callbacks, the defaults and every value a source returned or reported must be pairwise disjoint; defaults and source values must equal their clones after the history; " +
			"finally one goroutine scribbles over version k while another reads version k+1, the defaults and the source values under the race detector (every race report is a violation). distinct_nontrivial = distinct (type-shape, set-pattern) signatures with >=1 reference-typed leaf set (mode A) and distinct (options, report-pattern) signatures (mode B).",
		Assumptions: []string{
			"memory reachable only through unexported fields (time.Time's *Location) is outside the statement and not walked",
			"two leaves sharing memory inside ONE version (because the input shared it) is not a violation; only sharing across versions/inputs is",
		},
		MinDistinct: map[string]int{"quick": 1500, "thorough": 40000},
		MinCounters: map[string]map[string]int64{
			"quick":    {"region_pairs_checked": 20000, "regions_walked": 100000, "mutation_probe_writes": 50000, "restack_versions_compared": 1500, "scribble_vs_read_rounds": 300},
			"thorough": {"region_pairs_checked": 800000},
		},
		Plan: func(tier string) fw.Plan {
			if tier == "thorough" {
				return fw.Plan{Shards: 48, CasesPerShard: 20000, Parallel: 16, TimeoutSec: 3000}
			}
			return fw.Plan{Shards: 16, CasesPerShard: 500, TimeoutSec: 900}
		},
		Run: runC02,
	})
}

func refLeaves() []*gen.Leaf {
	// reference content weighted up: every CapRef leaf twice, others once
	var out []*gen.Leaf
	for _, l := range gen.AllLeaves {
		out = append(out, l)
		if l.Caps&gen.CapRef != 0 {
			out = append(out, l, l)
		}
	}
	return out
}

func runC02(w *fw.Worker) {
	w.Cases(func(i int, r *fw.Rand) {
		if i%5 == 4 {
			c02Restack(w, i, r)
		} else {
			c02Compose(w, i, r)
		}
	})
}

func c02Compose(w *fw.Worker, i int, r *fw.Rand) {
	o := gen.GenOpts{MaxDepth: w.Pick(3, 4) - r.Intn(2), MaxFields: r.Range(2, 7), SkipPct: r.Range(0, 20), StructPct: r.Range(10, 40), Leaves: refLeaves(), InitialismPct: 10, HollowPct: 5}
	spec := gen.RandomSpec(r, o)
	c := &gen.Counter{}
	allLeaves := spec.LeafRefs()
	defaults := spec.RandomDefaults(r, c, r.Range(30, 90))
	// interface-typed leaves: per case either the defaults hold them (the pointerified type then devirtualises the
	// field, so no layer sets it) or only layers set them (nil default keeps the field an interface)
	anyInDefaults := r.Bool()
	var leaves []*gen.LeafRef
	for _, lr := range allLeaves {
		if lr.Leaf().Leaf.Caps&gen.CapIface != 0 {
			if anyInDefaults {
				continue
			}
			if fv := leafValue(defaults, lr); fv.IsValid() && fv.CanSet() {
				fv.Set(reflect.Zero(fv.Type()))
			}
		}
		leaves = append(leaves, lr)
	}
	defPtr := reflect.New(spec.Type())
	defPtr.Elem().Set(defaults)
	ptrType := ptrify.Pointerify(spec.Type(), defPtr.Elem())
	nLayers := r.Range(1, 4)
	layers := make([]*gen.Layer, nLayers)
	for k := range layers {
		layers[k] = gen.RandomLayer(r, c, leaves, r.Range(30, 80))
	}
	// make inputs share reference content: between leaves of one layer and between layers
	byType := map[reflect.Type][]reflect.Value{}
	for _, l := range layers {
		for lr, v := range l.Vals {
			if lr.Leaf().Leaf.Caps&gen.CapRef != 0 && r.Chance(30) {
				if prev := byType[v.Type()]; len(prev) > 0 {
					l.Vals[lr] = prev[r.Intn(len(prev))] // the very same map/slice/pointer again
					w.Count("inputs_sharing_reference_content", 1)
					continue
				}
			}
			byType[v.Type()] = append(byType[v.Type()], v)
		}
	}
	vals := make([]reflect.Value, nLayers)
	refSet := false
	for k, l := range layers {
		vals[k] = materializeShared(l, ptrType)
		switch r.Intn(3) {
		case 0:
			// handed over by value: a non-addressable struct (its maps, slices and pointers are still the source's)
			vals[k] = reflect.ValueOf(vals[k].Interface())
			w.Count("inputs_handed_over_non_addressable", 1)
		case 1:
			if vals[k].CanAddr() {
				vals[k] = vals[k].Addr()
			}
		}
		for lr := range l.Vals {
			if lr.Leaf().Leaf.Caps&gen.CapRef != 0 {
				refSet = true
			}
		}
	}
	witness := func() any {
		return map[string]any{"type": spec.Describe(), "defaults": fmt.Sprintf("%+v", defaults), "layers": describeLayers(layers)}
	}
	defClone := gen.CloneValue(defPtr.Elem())
	valClones := make([]reflect.Value, nLayers)
	for k := range vals {
		valClones[k] = gen.CloneValue(vals[k])
	}
	r1, err1 := dials.VerifCompose(defPtr.Interface(), vals)
	r2, err2 := dials.VerifCompose(defPtr.Interface(), vals)
	if err1 != nil || err2 != nil {
		w.Violation(i, "compose-error-on-well-typed-layers", fmt.Sprint(err1, err2), witness())
		return
	}
	v1, v2 := reflect.ValueOf(r1), reflect.ValueOf(r2)
	if d := gen.Diff(v1.Elem(), v2.Elem()); d != "" {
		w.Violation(i, "stacking-twice-not-deeply-equal", d, witness())
		return
	}
	inputsUnchanged := func(when string) bool {
		if d := gen.Diff(defClone, defPtr.Elem()); d != "" {
			w.Violation(i, "defaults-modified:"+when, d, witness())
			return false
		}
		for k := range vals {
			if d := gen.Diff(valClones[k], vals[k]); d != "" {
				w.Violation(i, "source-value-modified:"+when, fmt.Sprintf("layer %d: %s", k, d), witness())
				return false
			}
		}
		return true
	}
	if !inputsUnchanged("by-stacking") {
		return
	}
	reg1, reg2 := gen.Regions(v1), gen.Regions(v2)
	regDef := gen.Regions(defPtr)
	w.Count("regions_walked", int64(len(reg1)+len(reg2)+len(regDef)))
	check := func(a, b []gen.Region, what string) bool {
		w.Count("region_pairs_checked", 1)
		if ov := gen.Overlap(a, b); ov != "" {
			w.Violation(i, "shared-memory:"+what, ov, witness())
			return false
		}
		return true
	}
	if !check(reg1, reg2, "result-vs-second-result") || !check(reg1, regDef, "result-vs-defaults") {
		return
	}
	for k := range vals {
		rk := gen.Regions(vals[k])
		w.Count("regions_walked", int64(len(rk)))
		if !check(reg1, rk, "result-vs-source-value") || !check(reg2, rk, "result-vs-source-value") {
			return
		}
	}
	// mutation probe: write through everything reachable from result 1
	v2clone := gen.CloneValue(v2.Elem())
	n := gen.Scribble(v1)
	w.Count("mutation_probe_writes", int64(n))
	if !inputsUnchanged("by-writing-through-a-result") {
		return
	}
	if d := gen.Diff(v2clone, v2.Elem()); d != "" {
		w.Violation(i, "second-result-changed-by-writing-through-first", d, witness())
		return
	}
	if refSet {
		m, _ := setMatrix(leaves, layers)
		w.Distinct("A|" + spec.Signature() + "#" + m)
	}
	if i%301 == 0 {
		w.Sample(witness())
	}
}

// materializeShared is Layer.Materialize without cloning the values, so that
// reference content shared between leaves/layers stays shared in the input.
func materializeShared(l *gen.Layer, ptrType reflect.Type) reflect.Value {
	v := reflect.New(ptrType).Elem()
	for lr, val := range l.Vals {
		fv := v
		for _, f := range lr.Path {
			for fv.Kind() == reflect.Ptr {
				if fv.IsNil() {
					fv.Set(reflect.New(fv.Type().Elem()))
				}
				fv = fv.Elem()
			}
			fv = fv.FieldByName(f.Name)
		}
		switch {
		case fv.Type() == val.Type():
			fv.Set(val)
		case fv.Kind() == reflect.Ptr && fv.Type().Elem() == val.Type():
			p := reflect.New(val.Type())
			p.Elem().Set(val)
			fv.Set(p)
		default:
			panic("harness: materializeShared type mismatch")
		}
	}
	return v
}

func c02Restack(w *fw.Worker, i int, r *fw.Rand) {
	o := conc.Opts{NSrc: r.Range(2, 4), StaticFirst: r.Chance(70), Skip: r.Chance(20), SlowCB: r.Intn(2)}
	refLayer := func(e *conc.Env) *conc.Layer {
		l := e.NewLayer()
		for f := 0; f < conc.NumFields; f++ {
			if r.Chance(35) {
				l.Set[f] = true
			}
		}
		// reference-typed leaves M, L, P more often
		for _, f := range []int{5, 6, 7} {
			if r.Chance(60) {
				l.Set[f] = true
			}
		}
		return l
	}
	e, err := conc.Start(context.Background(), r.U64(), o, func(e *conc.Env, k int) *conc.Layer { return refLayer(e) })
	if err != nil {
		w.Violation(i, "config-failed", err.Error(), nil)
		return
	}
	defer e.Stop()
	ctx := e.S.Ctx
	if r.Bool() {
		// once Config has returned, the caller reuses (overwrites) its defaults object: later versions must not change
		e.ScribbleCallerDefaults()
		w.Count("histories_where_the_caller_overwrote_its_defaults", 1)
	}
	type seen struct {
		cfg   *conc.Cfg
		where string
	}
	var mu sync.Mutex
	var all []seen
	have := map[*conc.Cfg]bool{}
	add := func(c *conc.Cfg, where string) {
		if c == nil {
			return
		}
		mu.Lock()
		if !have[c] {
			have[c] = true
			all = append(all, seen{c, where})
		}
		mu.Unlock()
	}
	add(e.D.View(), "View")
	_, tok := e.D.ViewVersion()
	unreg := e.D.RegisterCallback(ctx, tok, e.RegisteredCB(1, func(old, nw *conc.Cfg) { add(old, "callback-old"); add(nw, "callback-new") }))
	n := r.Range(3, 12)
	var pattern string
	for k := 0; k < n; k++ {
		src := r.Intn(o.NSrc)
		if e.Srcs[src] == nil {
			src = o.NSrc - 1
		}
		l := refLayer(e)
		res, _ := e.Report(ctx, 0, src, l, true)
		pattern += fmt.Sprintf("%d%d", src, res)
		c, _ := e.D.ViewVersion()
		if fp := conc.FPOf(c); fp.C == -777 || fp.NX == -778 || fp.S == "scribbled-by-the-caller" || fp.NY == "scribbled-by-the-caller" {
			w.Violation(i, "callers-later-writes-to-its-defaults-show-up-in-a-version", fmt.Sprintf("after Config returned the caller overwrote its own defaults object; version installed by report %d shows %+v", k, fp), nil)
			return
		}
		add(c, "ViewVersion")
		add(e.D.View(), "View")
		select {
		case ev := <-e.D.Events():
			add(ev, "Events")
		default:
		}
	}
	e.Quiesce(ctx)
	if unreg != nil {
		unreg(ctx)
	}
	for _, ev := range e.CBLog() {
		if ev.Kind == "new" {
			add(ev.Old, "OnNewConfig-old")
			add(ev.New, "OnNewConfig-new")
		}
	}
	e.Stop()
	// inputs: every value every source handed over
	var inputs []reflect.Value
	var inputClones []reflect.Value
	if e.Static != nil {
		inputs = append(inputs, e.Static.Handed()...)
	}
	for _, s := range e.Srcs {
		if s != nil {
			inputs = append(inputs, s.Handed()...)
		}
	}
	for _, in := range inputs {
		inputClones = append(inputClones, gen.CloneValue(in))
	}
	regs := make([][]gen.Region, len(all))
	for k, s := range all {
		regs[k] = gen.Regions(reflect.ValueOf(s.cfg))
		w.Count("regions_walked", int64(len(regs[k])))
	}
	desc := map[string]any{"mode": "restack", "opts": fmt.Sprintf("%+v", o), "report_pattern": pattern, "versions": len(all)}
	for a := 0; a < len(all); a++ {
		for b := a + 1; b < len(all); b++ {
			w.Count("region_pairs_checked", 1)
			if ov := gen.Overlap(regs[a], regs[b]); ov != "" {
				w.Violation(i, "shared-memory:version-vs-version", fmt.Sprintf("configs from %s and %s: %s", all[a].where, all[b].where, ov), desc)
				return
			}
		}
		for k, in := range inputs {
			w.Count("region_pairs_checked", 1)
			if ov := gen.Overlap(regs[a], gen.Regions(in)); ov != "" {
				w.Violation(i, "shared-memory:version-vs-source-value", fmt.Sprintf("config from %s and source value #%d: %s", all[a].where, k, ov), desc)
				return
			}
		}
	}
	w.Count("restack_versions_compared", int64(len(all)))
	// race-detector oracle: scribble version k while reading version k+1 and all inputs
	for k := 0; k+1 < len(all) && k < 3; k++ {
		var wg sync.WaitGroup
		start := make(chan struct{})
		wg.Add(2)
		go func(c *conc.Cfg) {
			defer wg.Done()
			<-start
			gen.Scribble(reflect.ValueOf(c))
		}(all[k].cfg)
		go func(c *conc.Cfg) {
			defer wg.Done()
			<-start
			gen.ReadAll(reflect.ValueOf(c))
			for _, in := range inputs {
				gen.ReadAll(in)
			}
		}(all[k+1].cfg)
		close(start)
		wg.Wait()
		w.Count("scribble_vs_read_rounds", 1)
	}
	for k, in := range inputs {
		if d := gen.Diff(inputClones[k], in); d != "" {
			w.Violation(i, "source-value-modified:by-writing-through-a-version", fmt.Sprintf("source value #%d: %s", k, d), desc)
			return
		}
	}
	w.Distinct(fmt.Sprintf("B|%v%v%d|%s", o.StaticFirst, o.Skip, o.NSrc, pattern))
	if i%97 == 4 {
		w.Sample(desc)
	}
}
