package checks

import (
	"fmt"
	"os"
	"path/filepath"
	"reflect"
	"regexp"
	"runtime"
	"strings"
	"sync"
	"sync/atomic"
	"time"

	"github.com/vimeo/dials"
)

// ---------------------------------------------------------------------------
// C17 monitors: the process-wide file.read hook (dispatch by path), goroutine
// dump classification (is this watcher idle?), serial reading, inotify
// descriptor accounting.
// ---------------------------------------------------------------------------

// c17Gate holds the watcher between its read and everything that follows
// (event report, watch-set repair) until the history releases it.
type c17Gate struct {
	held    chan struct{} // closed when the watcher arrived
	release chan struct{} // closed by the history
	taken   bool
}

// c17HookState is the per-history state of the file.read hook.
type c17HookState struct {
	reads    atomic.Int64
	readErrs atomic.Int64
	blocked  atomic.Int64 // gates that actually held the watcher
	timedOut atomic.Int64
	mu       sync.Mutex
	gate     *c17Gate
	delays   []time.Duration
	off      atomic.Bool // no more delays/gates (final phase of the history)
	// swaps/swapsDone: symlink swaps the history has started / completed so
	// far (written by the history). startedAtLast, doneAtLast, doneAtPrev:
	// their values at the watcher's last and last-but-one read that found
	// the file (written by the watcher goroutine only).
	swaps         atomic.Int64
	swapsDone     atomic.Int64
	startedAtLast atomic.Int64
	doneAtLast    atomic.Int64
	doneAtPrev    atomic.Int64
	// gateTimeout: safety net of a gate (default 5s); the history always
	// releases its gates, the timeout only prevents a harness bug from
	// parking a watcher for ever.
	gateTimeout time.Duration
	// watchList, when set, returns the watcher's current fsnotify watch list;
	// wlAtLast is its value at the watcher's last read that found the file
	// (the hook runs after the read and before the watch set is repaired).
	watchList func() []string
	wlAtLast  []string
	// trail: what the watcher did, for witnesses (reads with error class,
	// library log lines), with microsecond offsets from the history's start.
	t0    time.Time
	trail []string
}

func (h *c17HookState) note(f string, a ...any) {
	h.mu.Lock()
	if len(h.trail) < 300 {
		h.trail = append(h.trail, fmt.Sprintf("+%dus ", time.Since(h.t0).Microseconds())+fmt.Sprintf(f, a...))
	}
	h.mu.Unlock()
}

func (h *c17HookState) trailCopy() []string {
	h.mu.Lock()
	defer h.mu.Unlock()
	return append([]string(nil), h.trail...)
}

// Printf/Print make the hook state usable as the WatchingSource's logger.
func (h *c17HookState) Printf(f string, a ...any) { h.note("watcher log: "+f, a...) }
func (h *c17HookState) Print(a ...any)            { h.note("watcher log: %s", fmt.Sprint(a...)) }

func c17ErrClass(err error) string {
	if err == nil {
		return "ok"
	}
	if os.IsNotExist(err) {
		return "not-exist"
	}
	s := fmt.Sprintf("%T", err)
	if strings.Contains(s, "unchangedCSumErr") {
		return "unchanged"
	}
	if strings.Contains(s, "DecoderErr") {
		return "decoder-error"
	}
	return s
}

func (h *c17HookState) onRead(err error) {
	n := h.reads.Add(1)
	if err != nil {
		h.readErrs.Add(1)
	}
	if !os.IsNotExist(err) {
		// reads that found the file are the ones after which the watcher
		// re-resolves the path and moves its directory watch
		h.doneAtPrev.Store(h.doneAtLast.Load())
		h.doneAtLast.Store(h.swapsDone.Load())
		h.startedAtLast.Store(h.swaps.Load())
		if h.watchList != nil {
			wl := h.watchList()
			h.mu.Lock()
			h.wlAtLast = wl
			h.mu.Unlock()
		}
	}
	h.note("watcher read #%d: %s (swaps started/done: %d/%d)", n, c17ErrClass(err), h.swaps.Load(), h.swapsDone.Load())
	if h.off.Load() {
		return
	}
	h.mu.Lock()
	g := h.gate
	if g != nil && !g.taken {
		g.taken = true
		close(g.held)
	} else {
		g = nil
	}
	h.mu.Unlock()
	if g != nil {
		h.blocked.Add(1)
		gt := h.gateTimeout
		if gt <= 0 {
			gt = 5 * time.Second
		}
		t := time.NewTimer(gt)
		select {
		case <-g.release:
		case <-t.C:
			// safety net only: the history always releases its gates
			h.timedOut.Add(1)
		}
		t.Stop()
		return
	}
	if len(h.delays) > 0 {
		if d := h.delays[int(n)%len(h.delays)]; d > 0 {
			time.Sleep(d)
		}
	}
}

func (h *c17HookState) arm() *c17Gate {
	g := &c17Gate{held: make(chan struct{}), release: make(chan struct{})}
	h.mu.Lock()
	h.gate = g
	h.mu.Unlock()
	return g
}

func (h *c17HookState) releaseGate() {
	h.mu.Lock()
	g := h.gate
	h.gate = nil
	h.mu.Unlock()
	if g != nil {
		close(g.release)
	}
}

var (
	c17HookOnce  sync.Once
	c17HookTable sync.Map // absolute watched path -> *c17HookState
	c17HookStray atomic.Int64
)

// c17InstallHook installs the process-wide hook function once.
func c17InstallHook() {
	c17HookOnce.Do(func() {
		dials.VerifSetHook(func(name string, args ...any) {
			if name != "file.read" || len(args) < 3 {
				return
			}
			path, _ := args[1].(string)
			var err error
			if args[2] != nil {
				err, _ = args[2].(error)
			}
			if st, ok := c17HookTable.Load(path); ok {
				st.(*c17HookState).onRead(err)
			} else {
				c17HookStray.Add(1)
			}
		})
	})
}

// c17Serial reads the unexported counter of an opaque CfgSerial.
func c17Serial(ser any) uint64 {
	v := reflect.ValueOf(ser)
	f := v.FieldByName("s")
	if !f.IsValid() {
		return ^uint64(0)
	}
	return f.Uint()
}

// ---- goroutine dumps -------------------------------------------------------

type c17Goroutine struct {
	state string // text between the brackets of the header
	top   string // first function line
	body  string
}

func c17Dump() []c17Goroutine {
	buf := make([]byte, 1<<20)
	for {
		n := runtime.Stack(buf, true)
		if n < len(buf) {
			buf = buf[:n]
			break
		}
		if len(buf) >= 64<<20 {
			break
		}
		buf = make([]byte, 2*len(buf))
	}
	var out []c17Goroutine
	for _, blk := range strings.Split(string(buf), "\n\n") {
		blk = strings.TrimSpace(blk)
		if !strings.HasPrefix(blk, "goroutine ") {
			continue
		}
		lines := strings.SplitN(blk, "\n", 3)
		g := c17Goroutine{body: blk}
		if i := strings.Index(lines[0], "["); i >= 0 {
			if j := strings.LastIndex(lines[0], "]"); j > i {
				g.state = lines[0][i+1 : j]
			}
		}
		if len(lines) > 1 {
			g.top = strings.TrimSpace(lines[1])
		}
		out = append(out, g)
	}
	return out
}

// c17Probe is what one dump says about one watcher.
type c17Probe struct {
	WatchLoop string `json:"watch_loop"` // "absent", "select" (parked in its own select) or the state/top frame
	Reader    string `json:"fsnotify_reader"`
	Monitor   string `json:"monitor"`
	Callbacks string `json:"callbacks"`
	Idle      bool   `json:"idle"`
}

type c17Ptrs struct {
	ws, backend uintptr
	// ctx is the data pointer of the context handed to Config: the receiver
	// of a generic method is not printed in tracebacks (the dictionary is),
	// so the monitor and callback goroutines are recognised by their context.
	ctx uintptr
}

func c17FrameArg(fn string, p uintptr) string { return fmt.Sprintf("%s(0x%x", fn, p) }

func c17HasFrame(body, fn string, p uintptr) bool {
	s := c17FrameArg(fn, p)
	i := strings.Index(body, s)
	if i < 0 {
		return false
	}
	rest := body[i+len(s):]
	return strings.HasPrefix(rest, ",") || strings.HasPrefix(rest, ")")
}

// c17HasCtxFrame: a frame line of function fn whose arguments contain the
// interface data word p (printed as "{0xTYPE, 0xDATA}").
func c17HasCtxFrame(body, fn string, p uintptr) bool {
	want := fmt.Sprintf(", 0x%x}", p)
	for _, l := range strings.Split(body, "\n") {
		if strings.Contains(l, fn) && strings.Contains(l, want) {
			return true
		}
	}
	return false
}

// c17Classify inspects one dump. The watcher is idle when its watchLoop
// goroutine is parked in watchLoop's own select, fsnotify's reader for the
// same watcher is parked in the inotify read, the Dials monitor is parked in
// its select, and the Dials callback goroutine is parked in its select.
func c17Classify(gs []c17Goroutine, p c17Ptrs) c17Probe {
	pr := c17Probe{WatchLoop: "absent", Reader: "absent", Monitor: "absent", Callbacks: "absent"}
	for _, g := range gs {
		switch {
		case c17HasFrame(g.body, "sources/file.(*WatchingSource).watchLoop", p.ws):
			if strings.HasPrefix(g.state, "select") && strings.Contains(g.top, ".watchLoop(") {
				pr.WatchLoop = "select"
			} else {
				pr.WatchLoop = g.state + " @ " + g.top
			}
		case p.backend != 0 && c17HasFrame(g.body, "fsnotify.(*inotify).readEvents", p.backend):
			if strings.HasPrefix(g.state, "IO wait") {
				pr.Reader = "IO wait"
			} else {
				pr.Reader = g.state + " @ " + g.top
			}
		case c17HasCtxFrame(g.body, ").monitor(", p.ctx):
			if strings.HasPrefix(g.state, "select") && strings.Contains(g.top, ").monitor(") {
				pr.Monitor = "select"
			} else {
				pr.Monitor = g.state + " @ " + g.top
			}
		case c17HasCtxFrame(g.body, ").runCBs(", p.ctx):
			if strings.HasPrefix(g.state, "select") && strings.Contains(g.top, ").runCBs(") {
				pr.Callbacks = "select"
			} else {
				pr.Callbacks = g.state + " @ " + g.top
			}
		}
	}
	pr.Idle = pr.WatchLoop == "select" && pr.Monitor == "select" && pr.Callbacks == "select" &&
		(p.backend == 0 || pr.Reader == "IO wait")
	return pr
}

// c17Present reports which of the watcher's goroutines are in the dump.
func c17Present(gs []c17Goroutine, p c17Ptrs) []string {
	var out []string
	for _, g := range gs {
		if c17HasFrame(g.body, "sources/file.(*WatchingSource).watchLoop", p.ws) {
			out = append(out, "watchLoop["+g.state+" @ "+g.top+"]")
		}
		if p.backend != 0 && c17HasFrame(g.body, "fsnotify.(*inotify).readEvents", p.backend) {
			out = append(out, "fsnotify.readEvents["+g.state+" @ "+g.top+"]")
		}
	}
	return out
}

// c17BlockedInReport: the dump shows this watcher's watchLoop goroutine parked
// (channel send or select) with one of dials' (*watchArgs).Report* methods as
// its innermost frame, and no monitor goroutine of this Dials (recognised by
// its context) exists any more. The report channel has exactly one receiver,
// the monitor, so in that state the hand-over can never complete.
func c17BlockedInReport(gs []c17Goroutine, p c17Ptrs) (string, bool) {
	found := ""
	for _, g := range gs {
		if c17HasCtxFrame(g.body, ").monitor(", p.ctx) {
			return "", false
		}
		if c17HasFrame(g.body, "sources/file.(*WatchingSource).watchLoop", p.ws) {
			if c17InReportFrame(g) && (strings.HasPrefix(g.state, "chan send") || strings.HasPrefix(g.state, "select")) {
				found = g.state + " @ " + g.top
			}
		}
	}
	return found, found != ""
}

// c17InReportFrame: the goroutine's innermost frame is a report method of
// dials' WatchArgs implementation.
func c17InReportFrame(g c17Goroutine) bool {
	return strings.Contains(g.top, "dials.(*watchArgs).Report") || strings.Contains(g.top, "dials.(*watchArgs).BlockingReport")
}

// c17WatchLoopState returns state and innermost frame of this watcher's
// watchLoop goroutine ("" when it is not in the dump).
func c17WatchLoopState(gs []c17Goroutine, p c17Ptrs) (c17Goroutine, bool) {
	for _, g := range gs {
		if c17HasFrame(g.body, "sources/file.(*WatchingSource).watchLoop", p.ws) {
			return g, true
		}
	}
	return c17Goroutine{}, false
}

// ---- inotify descriptors ---------------------------------------------------

func c17CountInotify() int {
	ents, err := os.ReadDir("/proc/self/fd")
	if err != nil {
		return -1
	}
	n := 0
	for _, e := range ents {
		l, err := os.Readlink("/proc/self/fd/" + e.Name())
		if err == nil && strings.Contains(l, "inotify") {
			n++
		}
	}
	return n
}

// c17Audit tracks how many inotify descriptors the process should hold:
// baseline + one per live watcher. Histories take the read side around the
// transitions (watcher creation; cancel..WG.Wait), the audit takes the write
// side so that it only counts when no transition is in flight.
type c17Audit struct {
	mu       sync.RWMutex
	baseline int
	live     int64 // guarded by liveMu
	liveMu   sync.Mutex
	excess   int // leaks already reported (so that one leak is reported once)
	broken   bool
}

func (a *c17Audit) addLive(n int64) {
	a.liveMu.Lock()
	a.live += n
	a.liveMu.Unlock()
}

// check returns (observed, expected, ok). Call without holding the read side.
func (a *c17Audit) check() (int, int, bool) {
	a.mu.Lock()
	defer a.mu.Unlock()
	if a.broken || a.baseline < 0 {
		return 0, 0, true
	}
	a.liveMu.Lock()
	live := int(a.live)
	a.liveMu.Unlock()
	got := c17CountInotify()
	want := a.baseline + live + a.excess
	if got != want {
		if got > want {
			a.excess += got - want
		} else {
			a.excess -= want - got
		}
		return got, want, false
	}
	return got, want, true
}

// ---- race log triage ---------------------------------------------------------

var (
	c17RaceSection = regexp.MustCompile(`(?m)^(Write|Read|Previous write|Previous read|Atomic|Previous atomic)[^\n]*by [^\n]*:$`)
	c17RaceFrame   = regexp.MustCompile(`(?m)^  (\S[^\n]*?)\(\)$`)
)

// c17RaceAccessFrames returns, for each access of a race report, the innermost
// frame outside the runtime, and whether the CALLER of the fsnotify code on any
// access stack is harness code. Only the frames from the access outwards up
// to the first frame that is neither runtime nor fsnotify are looked at: the
// race runtime (history_size=3) pads deep stacks with stale frames of earlier
// calls of the same goroutine (decoder frames "below" watchLoop, including a
// harness decoder), which say nothing about the access.
func c17RaceAccessFrames(blk string) (inner []string, harness bool) {
	locs := c17RaceSection.FindAllStringIndex(blk, -1)
	for i, loc := range locs {
		end := len(blk)
		if i+1 < len(locs) {
			end = locs[i+1][0]
		}
		sec := blk[loc[1]:end]
		if j := strings.Index(sec, "\n\n"); j >= 0 {
			sec = sec[:j]
		}
		first := ""
		for _, m := range c17RaceFrame.FindAllStringSubmatch(sec, -1) {
			fn := m[1]
			if strings.HasPrefix(fn, "runtime.") {
				continue
			}
			if first == "" {
				first = fn
			}
			if strings.HasPrefix(fn, "github.com/fsnotify/fsnotify.") {
				continue
			}
			// the caller of the fsnotify frames
			if strings.HasPrefix(fn, "verifharness/") {
				harness = true
			}
			break
		}
		inner = append(inner, first)
	}
	return inner, harness
}

// c17TriageRaceLog runs at the end of a shard. The framework classifies a
// race report by the innermost non-runtime frame of each access and calls a
// report without a dials frame there a harness bug. fsnotify v1.8.0 has a
// race of its own (readEvents reads watches.path without the mutex when it
// handles IN_DELETE_SELF, while Watcher.Add/Remove - called by watchLoop -
// write it): both innermost frames are fsnotify's and the caller of the
// fsnotify code is not harness code on either access stack. Those reports are neither a harness bug nor a
// violation of C17's statement; they are moved out of the race log into the
// evidence (counter, frame set, first report as a note). Every other report
// stays in the log for the framework to judge.
func c17TriageRaceLog(count func(string, int64), setAdd func(string, string), note func(string)) {
	logPath := ""
	for _, f := range strings.Fields(os.Getenv("GORACE")) {
		if strings.HasPrefix(f, "log_path=") {
			logPath = strings.TrimPrefix(f, "log_path=")
		}
	}
	if logPath == "" {
		return
	}
	file := fmt.Sprintf("%s.%d", logPath, os.Getpid())
	b, err := os.ReadFile(file)
	if err != nil {
		return
	}
	const sep = "=================="
	var kept []string
	moved := 0
	for _, blk := range strings.Split(string(b), sep) {
		if !strings.Contains(blk, "WARNING: DATA RACE") {
			continue
		}
		inner, harness := c17RaceAccessFrames(blk)
		dep := len(inner) > 0 && !harness
		for _, f := range inner {
			if !strings.HasPrefix(f, "github.com/fsnotify/fsnotify.") {
				dep = false
			}
		}
		if !dep {
			kept = append(kept, blk)
			continue
		}
		moved++
		setAdd("dependency_race_frames", strings.Join(inner, " | "))
		if moved == 1 {
			lines := strings.Split(strings.TrimSpace(blk), "\n")
			if len(lines) > 24 {
				lines = lines[:24]
			}
			note("data race inside fsnotify (not judged under C17): " + strings.Join(lines, " // "))
		}
	}
	if moved == 0 {
		return
	}
	count("dependency_race_reports_fsnotify", int64(moved))
	// the race runtime keeps its descriptor: unlink, and put what must still be judged into a sibling file
	os.Remove(file)
	if len(kept) > 0 {
		os.WriteFile(filepath.Join(filepath.Dir(file), filepath.Base(file)+".kept"), []byte(sep+strings.Join(kept, sep+"\n"+sep)+sep+"\n"), 0o644)
	}
}
