package checks

import (
	"runtime"
	"context"
	"errors"
	"fmt"
	"os"
	"path/filepath"
	"reflect"
	"strings"
	"sync"
	"sync/atomic"
	"time"

	"github.com/vimeo/dials"
	"github.com/vimeo/dials/ez"
	stdflagsrc "github.com/vimeo/dials/sources/flag"
	"github.com/vimeo/dials/sourcewrap"

	"verifharness/conc"
	"verifharness/fw"
)

func init() {
	fw.Register(&fw.Check{
		ID:   "C09",
		Race: true,
		Rule: "Delay state machine checked against real Dials instances for all 4 combinations of DelayInitialVerification x CallGlobalCallbacksAfterVerificationEnabled, with no watcher / a Blank / fake watchers. " +
			"Sequential walks (scripted edge coverage + seeded random walks of 4-25 steps) over {valid update, invalid update, ill-typed update, source-reported error, EnableVerification (failing, failing again, succeeding, again)}: after the walk the exact sequence of global callback deliveries, the Verify call log (receiver pointer, logical time), every EnableVerification result and the install log are compared with the state machine " +
			"(Verify never before the first EnableVerification call; enable verifies exactly the installed config and returns it with its serial; failure leaves the delay in force; after success every install was verified first; OnNewConfig and source errors withheld iff delay-in-force and suppress option, delivered otherwise). " +
			"ez episodes: one call of an ez entry point (JSON/YAML/TOML/by extension; private flag set; with and without WatchConfigFile; file valid, failing Verify, rescued or broken by a flag, missing, malformed, or no path) with global OnNewConfig/OnWatchedError callbacks; version stores (mon.stored hook), Verify calls and callback calls share one logical clock; after a state-based fence of the callback goroutine (its exit hook, or a registration round trip while it lives) no OnNewConfig call may be for a version installed before the first Verify call (= before EnableVerification: delay in force, suppress option set by ez), whether the entry point succeeds or fails; with watching, one later file change must be announced. " +
			"Concurrent walks: reporters race EnableVerification calls and the history is checked with porcupine against the model extended with Enable (an invalid update installs iff it linearizes before the successful enable). " +
			"distinct_nontrivial = distinct (options, source kind, step-kind sequence) signatures containing an EnableVerification and at least one update or source error.",
		Assumptions: []string{
			"'withheld only while X' is judged as: not X => delivered (OnNewConfig, OnWatchedError incl. source errors); X => OnNewConfig and source-reported errors withheld; a stacking/verification-failure OnWatchedError while X holds is recorded, not judged",
		},
		MinDistinct: map[string]int{"quick": 800, "thorough": 60000},
		MinCounters: map[string]map[string]int64{
			"quick":    {"walks_judged": 300, "enable_calls_judged": 400, "global_deliveries_compared": 800, "withheld_states_observed": 100, "linearizable_histories": 40, "ez_episodes_judged": 60, "ez_installs_observed": 40, "ez_callback_goroutine_exits_observed": 60, "enable_calls_abandoned_inside_verify": 30, "enable_calls_with_a_report_waiting_behind_them": 25},
			"thorough": {"walks_judged": 200000, "enable_calls_judged": 300000, "ez_episodes_judged": 10000, "ez_installs_observed": 5000},
		},
		Plan: func(tier string) fw.Plan {
			if tier == "thorough" {
				return fw.Plan{Shards: 16, CasesPerShard: 25000, TimeoutSec: 3000}
			}
			return fw.Plan{Shards: 8, CasesPerShard: 300, TimeoutSec: 900}
		},
		Run: runC09,
	})
}

var errSrcReported = errors.New("harness: source-reported error")

type c09Exp struct {
	kind string // "new" or "err"
	fp   conc.FP
	what string
}

func runC09(w *fw.Worker) {
	w.Cases(func(i int, r *fw.Rand) {
		g := i*w.Shards + w.Shard
		switch {
		case g%17 == 8:
			c09Ez(w, i, r)
		case g%5 == 4:
			c09Concurrent(w, i, r)
		case g%7 == 3:
			c09NoWatcher(w, i, r)
		case g%11 == 6:
			c09NoVerifyMethod(w, i, r, g/11)
		case g%13 == 5:
			c09AfterMonitorExit(w, i, r)
		case g%19 == 7:
			c09AbandonedEnable(w, i, r)
		case g%23 == 9:
			c09EnableReturnsWhatItVerified(w, i, r)
		default:
			c09Walk(w, i, r, g)
		}
	})
}

// scripted walks covering every edge of the state machine; the letters are
// v=valid update i=invalid update t=ill-typed update e=source error E=enable
var c09Scripts = []string{
	"vEv", "iEEvEvi", "eiEeEve", "iteEvEEie", "vieEtveEi", "EviEe", "iEiEvEive", "teEtvEte",
}

func c09Walk(w *fw.Worker, i int, r *fw.Rand, g int) {
	o := conc.Opts{NSrc: 2, Delay: g&1 == 0, Suppress: g&2 == 0, Skip: r.Chance(15)}
	if r.Chance(15) {
		o.Delay = r.Bool()
	}
	useBlank := r.Chance(30)
	c, err := c07Start(r, useBlank, o)
	if err != nil {
		w.Violation(i, "config-failed", err.Error(), nil)
		return
	}
	e := c.e
	defer e.Stop()
	ctx := e.S.Ctx
	tr := conc.NewCBTrace()
	e.ExtraHook = func(name string, hctx context.Context, args []any) { tr.OnHook(e.S, name, hctx, args) }
	var steps string
	if k := g / 4; k < len(c09Scripts)*4 {
		steps = c09Scripts[k%len(c09Scripts)]
	} else {
		n := r.Range(4, 25)
		var b strings.Builder
		for k := 0; k < n; k++ {
			b.WriteByte("vvviiteeEE"[r.Intn(10)])
		}
		steps = b.String()
	}
	desc := map[string]any{"opts": fmt.Sprintf("delay=%v suppress=%v skip=%v", o.Delay, o.Suppress, o.Skip), "blank": useBlank, "steps": steps}

	st := e.Model.Initial
	enabled := !o.Delay
	curPtr := e.D.View()
	var trace []string
	var expected []c09Exp
	firstEnableTick := int64(-1)
	enableSuccessTick := int64(-1)
	withheld := 0
	if len(e.S.VerifyLog()) != 0 && o.Delay {
		w.Violation(i, "verify-before-enable", "Verify was called during Config although verification is delayed", desc)
		return
	}
	for k, op := range steps {
		X := o.Delay && o.Suppress && !enabled
		switch op {
		case 'v', 'i', 't':
			src := r.Intn(2)
			var l *conc.Layer
			switch op {
			case 'v':
				l = e.RandLayer(r, 0, 0)
			case 'i':
				l = e.RandLayer(r, 100, 0)
			case 't':
				l = e.RandLayer(r, 0, 100)
			}
			res, rerr := c.report(ctx, 0, src, l, true)
			trace = append(trace, fmt.Sprintf("%d:%c src=%d %s -> %d", k, op, src, l, res))
			desc["trace"] = trace
			ns := e.Model.Step(st, conc.In{Kind: conc.OpReport, Src: src, Layer: l, Blocking: true}, conc.Out{Res: res})
			if len(ns) == 0 {
				key := "update-accepted-although-verification-enabled"
				if res != conc.ResNil {
					key = "update-rejected-although-model-installs"
				}
				w.Violation(i, key, fmt.Sprintf("step %d (%c): report %s returned res=%d err=%v; state enabled=%v", k, op, l, res, rerr, enabled), desc)
				return
			}
			nst := ns[0].(conc.State)
			if nst.Serial != st.Serial {
				fp, _ := modelFP(e.Model, nst.Cur)
				if !X {
					expected = append(expected, c09Exp{"new", fp, fmt.Sprintf("step %d install", k)})
				} else {
					withheld++
				}
				curPtr = e.D.View()
			} else if !X {
				// rejected: an error callback is due (judged only when not X)
				expected = append(expected, c09Exp{"err", conc.FP{}, fmt.Sprintf("step %d rejection", k)})
			} else {
				// X and rejected (stacking error while delayed): recorded, not judged
				expected = append(expected, c09Exp{"err?", conc.FP{}, fmt.Sprintf("step %d stacking error while withheld (not judged)", k)})
			}
			st = nst
		case 'e':
			es := r.Intn(2)
			if useBlank {
				es = 1
			}
			e.Srcs[es].WA().ReportError(ctx, errSrcReported)
			if !X {
				expected = append(expected, c09Exp{"err", conc.FP{}, fmt.Sprintf("step %d source error", k)})
			} else {
				withheld++
			}
		case 'E':
			if firstEnableTick < 0 {
				firstEnableTick = e.S.Tick()
			}
			if enabled && r.Chance(50) {
				// a redundant EnableVerification while Verify would fail for a reason outside the config (an impure
				// Verify): verification is already on, so the call must succeed and must not switch verification off
				e.S.ForceVerifyErr(func(*conc.Cfg) error {
					if e.S.MonInEnable() {
						return errors.New("harness: transient failure outside the config")
					}
					return nil
				})
				cfg, ser, eerr := e.Enable(ctx, 0)
				e.S.ForceVerifyErr(nil)
				w.Count("enable_calls_judged", 1)
				w.Count("redundant_enables_with_impure_verify", 1)
				if eerr != nil || cfg != curPtr || ser != st.Serial {
					w.Violation(i, "redundant-enable-not-a-noop-success", fmt.Sprintf("step %d: verification already enabled; EnableVerification returned err=%v cfg-is-current=%v serial=%d want %d; returned %+v view %+v cur %+v", k, eerr, cfg == curPtr, ser, st.Serial, conc.FPOf(cfg), conc.FPOf(e.D.View()), conc.FPOf(curPtr)), desc)
					return
				}
				// verification must still be on: an invalid update has to be rejected
				// reported by the LAST source so that no later source overrides the negative value: the stack is invalid for sure
				bad := e.NewLayer()
				bad.Set[0], bad.NegA = true, true
				src := 1
				res, _ := c.report(ctx, 0, src, bad, true)
				trace = append(trace, fmt.Sprintf("%d:redundant-enable then bad src=%d %s -> %d", k, src, bad, res))
				desc["trace"] = trace
				ns := e.Model.Step(st, conc.In{Kind: conc.OpReport, Src: src, Layer: bad, Blocking: true}, conc.Out{Res: res})
				if len(ns) == 0 {
					w.Violation(i, "verification-switched-off-by-a-later-enable", fmt.Sprintf("step %d: after a redundant EnableVerification an invalid update %s was installed", k, bad), desc)
					return
				}
				st = ns[0].(conc.State)
				X := o.Delay && o.Suppress && !enabled
				if !X {
					expected = append(expected, c09Exp{"err", conc.FP{}, fmt.Sprintf("step %d rejection after redundant enable", k)})
				}
				continue
			}
			nVerBefore := len(e.S.VerifyLog())
			cfg, ser, eerr := e.Enable(ctx, 0)
			trace = append(trace, fmt.Sprintf("%d:E enabled-before=%v model-verifying=%v -> err=%v", k, enabled, st.Verifying, eerr))
			desc["trace"] = trace
			fp, _ := modelFP(e.Model, st.Cur)
			w.Count("enable_calls_judged", 1)
			vl := e.S.VerifyLog()[nVerBefore:]
			if o.Delay && !enabled {
				if len(vl) != 1 || vl[0].Cfg != curPtr {
					w.Violation(i, "enable-did-not-verify-exactly-the-installed-config", fmt.Sprintf("step %d: EnableVerification made %d Verify calls; receiver is installed config: %v", k, len(vl), len(vl) == 1 && vl[0].Cfg == curPtr), desc)
					return
				}
				if conc.ValidFP(fp) {
					if eerr != nil {
						w.Violation(i, "enable-failed-on-valid-config", fmt.Sprintf("step %d: %v", k, eerr), desc)
						return
					}
					if cfg != curPtr || ser != st.Serial {
						w.Violation(i, "enable-returned-other-config-or-serial", fmt.Sprintf("step %d: returned (%+v, serial %d), installed (%+v, serial %d)", k, conc.FPOf(cfg), ser, fp, st.Serial), desc)
						return
					}
					enabled = true
					st.Verifying = true
					enableSuccessTick = e.S.Tick()
				} else {
					if eerr == nil {
						w.Violation(i, "enable-succeeded-on-invalid-config", fmt.Sprintf("step %d: installed %+v fails Verify", k, fp), desc)
						return
					}
					if !errors.Is(eerr, conc.ErrInvalid) {
						w.Violation(i, "enable-error-not-the-verify-error", eerr.Error(), desc)
					}
				}
			} else {
				// no delay in force: plain success with the installed pair
				if eerr != nil || cfg != curPtr || ser != st.Serial {
					w.Violation(i, "enable-without-delay-not-a-noop-success", fmt.Sprintf("step %d: err=%v cfg-is-current=%v serial=%d want %d", k, eerr, cfg == curPtr, ser, st.Serial), desc)
					return
				}
			}
		}
	}
	// settle: two monitor fences (sentinel source errors) then a callback fence
	lastSentinelExpected := false
	for k := 0; k < 2; k++ {
		X := o.Delay && o.Suppress && !enabled
		if !e.SendSentinel(ctx) {
			w.Inconclusive(i, "sentinel failed")
			return
		}
		if !X {
			expected = append(expected, c09Exp{"err", conc.FP{}, "sentinel"})
			lastSentinelExpected = true
		}
	}
	if !e.FenceCallbacks(ctx) {
		w.Inconclusive(i, "callback fence failed")
		return
	}
	expSentinels := 0
	for _, x := range expected {
		if x.what == "sentinel" {
			expSentinels++
		}
	}
	if lastSentinelExpected {
		// the last sentinel's event may still be in flight: wait for it (a
		// watchdog expiry leaves the verdict to the comparison below, which
		// reports the tail sentinel as inconclusive, not as a violation)
		conc.WaitUntil(func() bool {
			n := 0
			for _, ev := range e.CBLog() {
				if ev.Kind == "err" && strings.Contains(ev.Err, "sentinel") {
					n++
				}
			}
			return n >= expSentinels
		}, 5*time.Second)
	}
	// compare deliveries
	var actual []conc.CBEvent
	for _, ev := range e.CBLog() {
		if ev.Kind == "new" || ev.Kind == "err" {
			actual = append(actual, ev)
		}
	}
	ai := 0
	for xi, x := range expected {
		if x.kind == "err?" {
			// optional: consume an err if present at this position
			if ai < len(actual) && actual[ai].Kind == "err" && !strings.Contains(actual[ai].Err, "sentinel") && !strings.Contains(actual[ai].Err, "source-reported") {
				ai++
				w.Count("stacking_error_callbacks_while_withheld_observed", 1)
			}
			continue
		}
		if ai >= len(actual) {
			key := "global-callback-missing:" + x.kind
			if x.what == "sentinel" && xi == len(expected)-1 {
				w.Inconclusive(i, "last sentinel's callback not yet observed")
				break
			}
			if strings.Contains(x.what, "source error") || x.what == "sentinel" {
				key = "source-error-not-delivered"
			}
			w.Violation(i, key, fmt.Sprintf("expected delivery #%d (%s %s) never happened; %d deliveries in total", xi, x.kind, x.what, len(actual)), desc)
			return
		}
		a := actual[ai]
		if a.Kind != x.kind || (x.kind == "new" && a.NewFP != x.fp) {
			key := "global-callback-sequence-diff:expected-" + x.kind + "-got-" + a.Kind
			if a.Kind == "new" && x.kind == "err" {
				key = "onnewconfig-delivered-while-withheld-or-unexpected"
			}
			w.Violation(i, key, fmt.Sprintf("delivery #%d: expected %s (%s, %+v), got %s new=%+v err=%q", ai, x.kind, x.what, x.fp, a.Kind, a.NewFP, a.Err), desc)
			return
		}
		ai++
	}
	if ai < len(actual) {
		a := actual[ai]
		key := "global-callback-unexpected:" + a.Kind
		w.Violation(i, key, fmt.Sprintf("unexpected delivery #%d: %s new=%+v err=%q (withheld state or never due)", ai, a.Kind, a.NewFP, a.Err), desc)
		return
	}
	w.Count("global_deliveries_compared", int64(len(actual)))
	w.Count("withheld_states_observed", int64(withheld))
	// Verify-call timing
	vlog := e.S.VerifyLog()
	if o.Delay {
		for _, vc := range vlog {
			if firstEnableTick < 0 || vc.T < firstEnableTick {
				w.Violation(i, "verify-before-enable", fmt.Sprintf("Verify called at logical time %d, first EnableVerification call at %d", vc.T, firstEnableTick), desc)
				return
			}
		}
	}
	// after a successful enable every install was verified first
	if enableSuccessTick >= 0 || !o.Delay {
		for _, in := range e.Installs() {
			if o.Delay && in.T < enableSuccessTick {
				continue
			}
			ok := false
			for _, vc := range vlog {
				if vc.Cfg == in.Cfg && vc.T < in.T {
					ok = true
					break
				}
			}
			if !ok {
				w.Violation(i, "install-without-verify-after-enable", fmt.Sprintf("version %d (%+v) was installed without a preceding Verify call although verification is enabled", in.Serial, in.FP), desc)
				return
			}
		}
	}
	// suppression flag on dequeued new-config events agrees with the state machine at announce time (observed only)
	w.Count("walks_judged", 1)
	if strings.Contains(steps, "E") && strings.ContainsAny(steps, "viet") {
		w.Distinct(fmt.Sprintf("%v%v%v|%v|%s", o.Delay, o.Suppress, o.Skip, useBlank, steps))
	}
	if i%19 == 0 {
		w.Sample(map[string]any{"case": desc, "deliveries": len(actual), "verify_calls": len(vlog)})
	}
}

// c09NoWatcher: Dials without watching sources (no monitor goroutine).
func c09NoWatcher(w *fw.Worker, i int, r *fw.Rand) {
	delay := r.Chance(75)
	skip := r.Chance(30)
	invalid := r.Bool()
	s := conc.NewScenario(context.Background())
	defer s.Cancel()
	l := &conc.Layer{ID: 1}
	l.Set[0] = true
	l.Set[2] = true
	l.NegA = invalid
	var srcs []dials.Source
	kind := "static"
	if r.Chance(30) {
		kind = "none"
	} else {
		srcs = append(srcs, &conc.Src{Name: "static", Init: l})
	}
	if kind == "none" {
		invalid = false
	}
	desc := map[string]any{"mode": "no-watcher", "delay": delay, "skip": skip, "initial_invalid": invalid, "source": kind}
	d, err := dials.Params[conc.Cfg]{DelayInitialVerification: delay, SkipInitialVerification: skip,
		CallGlobalCallbacksAfterVerificationEnabled: r.Bool()}.Config(s.Ctx, s.Defaults(), srcs...)
	if err != nil {
		if delay || skip || !invalid {
			w.Violation(i, "config-failed", err.Error(), desc)
		}
		return
	}
	if !delay && !skip && invalid {
		w.Violation(i, "config-succeeded-on-invalid-initial-stack", "no-watcher Config accepted an invalid stack", desc)
		return
	}
	s.SetDials(d)
	if delay && len(s.VerifyLog()) != 0 {
		w.Violation(i, "verify-before-enable", "Verify called during Config although verification is delayed", desc)
		return
	}
	cur, tok := d.ViewVersion()
	for k := 0; k < r.Range(1, 3); k++ {
		before := len(s.VerifyLog())
		cfg, etok, eerr := d.EnableVerification(s.Ctx)
		vl := s.VerifyLog()[before:]
		w.Count("enable_calls_judged", 1)
		if delay {
			if len(vl) != 1 || vl[0].Cfg != cur {
				w.Violation(i, "enable-did-not-verify-exactly-the-installed-config", fmt.Sprintf("no-watcher: %d Verify calls", len(vl)), desc)
				return
			}
			if invalid {
				if eerr == nil {
					w.Violation(i, "enable-succeeded-on-invalid-config", "no-watcher", desc)
					return
				}
				continue
			}
		}
		if eerr != nil {
			w.Violation(i, "enable-failed-on-valid-config", eerr.Error(), desc)
			return
		}
		if cfg != cur || conc.SerialOf(etok) != conc.SerialOf(tok) {
			w.Violation(i, "enable-no-watcher-returned-other-config", fmt.Sprintf("returned cfg==current: %v (nil: %v), serial %d want %d", cfg == cur, cfg == nil, conc.SerialOf(etok), conc.SerialOf(tok)), desc)
			return
		}
	}
	w.Count("no_watcher_cases", 1)
	w.Distinct(fmt.Sprintf("nowatch|%v%v%v%s", delay, skip, invalid, kind))
}

func c09Concurrent(w *fw.Worker, i int, r *fw.Rand) {
	o := conc.Opts{NSrc: r.Range(2, 3), Delay: true, Suppress: r.Bool()}
	e, err := conc.Start(context.Background(), r.U64(), o, nil)
	if err != nil {
		w.Violation(i, "config-failed", err.Error(), nil)
		return
	}
	defer e.Stop()
	e.Jitter = r.Range(0, 60)
	ctx := e.S.Ctx
	var wg sync.WaitGroup
	for s := 0; s < o.NSrc; s++ {
		rr := r.Fork()
		wg.Add(1)
		go func(s int, rr *fw.Rand) {
			defer wg.Done()
			for k := rr.Range(3, 8); k > 0; k-- {
				l := e.RandLayer(rr, 40, 4)
				res, _ := e.Report(ctx, s, s, l, rr.Chance(70))
				if res == conc.ResNil {
					e.Read(s)
				}
			}
		}(s, rr)
	}
	nEn := r.Range(1, 2)
	for k := 0; k < nEn; k++ {
		rr := r.Fork()
		wg.Add(1)
		go func(k int, rr *fw.Rand) {
			defer wg.Done()
			for n := rr.Range(1, 4); n > 0; n-- {
				time.Sleep(time.Duration(rr.Intn(200)) * time.Microsecond)
				e.Enable(ctx, 10+k)
			}
		}(k, rr)
	}
	wg.Wait()
	last := e.NewLayer()
	last.Set[2] = true
	e.Report(ctx, 0, 0, last, true)
	e.Read(0)
	switch e.H.Check(e.Model, 20*time.Second) {
	case "ok":
		w.Count("linearizable_histories", 1)
	case "illegal":
		w.Violation(i, "enable-history-not-linearizable", "no linearization of reports/reads/EnableVerification: the switch-on was not atomic with respect to updates, or an EnableVerification result does not match the installed pair", e.H.Describe())
	default:
		w.Inconclusive(i, "porcupine timeout")
	}
	// Verify never before the first enable call
	first := int64(-1)
	for _, op := range e.H.Ops() {
		if op.Input.(conc.In).Kind == conc.OpEnable && (first < 0 || op.Call < first) {
			first = op.Call
		}
	}
	for _, vc := range e.S.VerifyLog() {
		if first < 0 || vc.T < first {
			w.Violation(i, "verify-before-enable", fmt.Sprintf("Verify at %d before first EnableVerification call at %d", vc.T, first), e.H.Describe())
			break
		}
	}
	w.Distinct(fmt.Sprintf("conc|%d%v|%d", o.NSrc, o.Suppress, e.H.Len()))
}

var _ = sourcewrap.Blank{}

// ---- a config type without a Verify method

// c09Plain has no Verify method: every config is valid, and EnableVerification must still end the delay.
type c09Plain struct {
	A int
	B string
}

type c09PlainSrc struct {
	mu  sync.Mutex
	wa  dials.WatchArgs
	typ *dials.Type
	a   int
}

func (s *c09PlainSrc) val(t *dials.Type, a int) reflect.Value {
	v := reflect.New(t.Type()).Elem()
	v.FieldByName("A").Set(reflect.ValueOf(&a))
	return v
}

func (s *c09PlainSrc) Value(_ context.Context, t *dials.Type) (reflect.Value, error) {
	return s.val(t, s.a), nil
}

func (s *c09PlainSrc) Watch(_ context.Context, t *dials.Type, wa dials.WatchArgs) error {
	s.mu.Lock()
	s.wa, s.typ = wa, t
	s.mu.Unlock()
	return nil
}

// c09NoVerifyMethod: the four option combinations on a config type without Verify(): updates and source errors
// before / after EnableVerification; global callbacks withheld only while the delay is in force and suppress is set.
func c09NoVerifyMethod(w *fw.Worker, i int, r *fw.Rand, g int) {
	delay, suppress := g&1 == 0, g&2 == 0
	desc := map[string]any{"mode": "config-type-without-verify-method", "delay": delay, "suppress": suppress}
	w.BeginDesc(i, fmt.Sprintf("no-verify-method delay=%v suppress=%v", delay, suppress))
	var mu sync.Mutex
	var newA []int
	var errs []string
	p := dials.Params[c09Plain]{DelayInitialVerification: delay, CallGlobalCallbacksAfterVerificationEnabled: suppress,
		OnNewConfig: func(_ context.Context, _, n *c09Plain) { mu.Lock(); newA = append(newA, n.A); mu.Unlock() },
		OnWatchedError: func(_ context.Context, err error, _, _ *c09Plain) {
			mu.Lock()
			errs = append(errs, err.Error())
			mu.Unlock()
		},
	}
	ctx, cancel := context.WithCancel(context.Background())
	defer cancel()
	src := &c09PlainSrc{a: 1}
	d, err := p.Config(ctx, &c09Plain{B: "b"}, src)
	if err != nil {
		w.Violation(i, "config-failed", err.Error(), desc)
		return
	}
	typ := src.typ
	next := 1
	counts := func() (int, int) { mu.Lock(); defer mu.Unlock(); return len(newA), len(errs) }
	// step: one update and one source error; expect delivered iff !(inForce && suppress)
	step := func(phase string, inForce bool) bool {
		n0, e0 := counts()
		next++
		if rerr := src.wa.BlockingReportNewValue(ctx, src.val(typ, next)); rerr != nil {
			w.Violation(i, "report-failed:no-verify-method", rerr.Error(), desc)
			return false
		}
		if d.View().A != next {
			w.Violation(i, "view-not-updated:no-verify-method", fmt.Sprintf("%s: view.A=%d after a nil blocking report of %d", phase, d.View().A, next), desc)
			return false
		}
		src.wa.ReportError(ctx, fmt.Errorf("plain-src-error-%d", next))
		// fence: a callback registration round trip orders us after everything queued so far
		_, tok := d.ViewVersion()
		if un := d.RegisterCallback(ctx, tok, func(context.Context, *c09Plain, *c09Plain) {}); un != nil {
			un(ctx)
		}
		withheld := inForce && suppress
		ok := conc.WaitUntil(func() bool {
			n1, e1 := counts()
			if withheld {
				return true
			}
			return n1 == n0+1 && e1 == e0+1
		}, 5*time.Second)
		n1, e1 := counts()
		switch {
		case withheld && (n1 != n0 || e1 != e0):
			w.Violation(i, "global-callback-delivered-while-withheld:no-verify-method", fmt.Sprintf("%s: OnNewConfig +%d, OnWatchedError +%d", phase, n1-n0, e1-e0), desc)
			return false
		case !withheld && !ok:
			key := "global-callback-missing:new:no-verify-method"
			if n1 == n0+1 {
				key = "global-callback-missing:err:no-verify-method"
			}
			w.Violation(i, key, fmt.Sprintf("%s (delay in force=%v, suppress=%v): OnNewConfig +%d, OnWatchedError +%d, expected +1/+1", phase, inForce, suppress, n1-n0, e1-e0), desc)
			return false
		}
		w.Count("global_deliveries_compared", 2)
		if withheld {
			w.Count("withheld_states_observed", 1)
		}
		return true
	}
	for k := r.Range(1, 3); k > 0; k-- {
		if !step("before EnableVerification", delay) {
			return
		}
	}
	cfg, tok, eerr := d.EnableVerification(ctx)
	cur, curTok := d.ViewVersion()
	if eerr != nil || cfg != cur || tok != curTok {
		w.Violation(i, "enable-on-type-without-verify-method", fmt.Sprintf("EnableVerification returned (%p, %v); installed %p", cfg, eerr, cur), desc)
		return
	}
	w.Count("enable_calls_judged", 1)
	for k := r.Range(1, 3); k > 0; k-- {
		if !step("after EnableVerification", false) {
			return
		}
	}
	if r.Bool() {
		// a redundant enable is a no-op success
		if _, _, e2 := d.EnableVerification(ctx); e2 != nil {
			w.Violation(i, "redundant-enable-not-a-noop-success", e2.Error(), desc)
			return
		}
		if !step("after a second EnableVerification", false) {
			return
		}
	}
	w.Distinct(fmt.Sprintf("noverify|%v|%v|%d", delay, suppress, next))
	w.Count("walks_judged", 1)
}

// c09AfterMonitorExit: the delay is still in force when the monitor goroutine goes away (every watcher called Done, or
// the Config context ended). An EnableVerification made then may fail or give up with its context, but it may not
// report success unless Verify actually ran on the installed config and accepted it.
func c09AfterMonitorExit(w *fw.Worker, i int, r *fw.Rand) {
	how := []string{"all-done", "cancel"}[r.Intn(2)]
	invalid := r.Chance(70)
	desc := map[string]any{"mode": "enable-after-monitor-exit", "shutdown": how, "installed_config_invalid": invalid}
	w.BeginDesc(i, fmt.Sprintf("%v", desc))
	e, err := conc.Start(context.Background(), r.U64(), conc.Opts{NSrc: 2, Delay: true, Suppress: r.Bool()}, nil)
	if err != nil {
		w.Violation(i, "config-failed", err.Error(), desc)
		return
	}
	defer e.Stop()
	ctx := e.S.Ctx
	l := e.RandLayer(r, 0, 0)
	if invalid {
		l.Set[0], l.NegA = true, true
	}
	if res, rerr := e.Report(ctx, 0, 1, l, true); res != conc.ResNil {
		w.Violation(i, "update-rejected-while-verification-is-delayed", fmt.Sprintf("%v", rerr), desc)
		return
	}
	if n := len(e.S.VerifyLog()); n != 0 {
		w.Violation(i, "verify-before-enable", fmt.Sprintf("%d Verify calls before EnableVerification", n), desc)
		return
	}
	if how == "cancel" {
		e.S.Cancel()
	} else {
		for _, s := range e.Srcs {
			if s != nil {
				s.WA().Done(ctx)
			}
		}
	}
	select {
	case <-dials.VerifMonitorDone(e.D):
	case <-time.After(10 * time.Second):
		w.Inconclusive(i, "monitor exit not observed")
		return
	}
	for k := r.Range(1, 3); k > 0; k-- {
		before := len(e.S.VerifyLog())
		cur := e.D.View()
		ectx, cancel := context.WithTimeout(context.Background(), 100*time.Millisecond)
		cfg, _, eerr := e.D.EnableVerification(ectx)
		cancel()
		vl := e.S.VerifyLog()[before:]
		w.Count("enable_calls_judged", 1)
		w.Count("enable_calls_after_monitor_exit", 1)
		if eerr != nil {
			continue // refused, or gave up with its context
		}
		switch {
		case invalid:
			w.Violation(i, "enable-succeeded-on-invalid-config:after-monitor-exit", fmt.Sprintf("EnableVerification returned success (%d Verify calls) although the installed config %+v fails Verify", len(vl), conc.FPOf(cur)), desc)
			return
		case len(vl) == 0 || vl[len(vl)-1].Cfg != cur || cfg != cur:
			w.Violation(i, "enable-did-not-verify-exactly-the-installed-config:after-monitor-exit", fmt.Sprintf("success with %d Verify calls after the monitor exited", len(vl)), desc)
			return
		}
	}
	w.Distinct(fmt.Sprintf("after-exit|%s|%v", how, invalid))
}

// ---- the ez entry points: they run dials with the delay in force and the suppress option set, plug the config file
// into a Blank (a re-stack while the delay is in force) and only then call EnableVerification

type c09EzVerify struct {
	t   int64
	cfg *c09EzCfg
	val int
	err bool
}

type c09EzInstall struct {
	t      int64
	serial uint64
	cfg    *c09EzCfg
	val    int
}

type c09EzNew struct {
	t        int64
	old, new *c09EzCfg
	oldVal   int
	newVal   int
	newMark  string
}

// c09EzRec is the log of one ez episode: Verify calls, version stores (mon.stored hook) and global callback calls, on
// one logical clock.
type c09EzRec struct {
	clock    atomic.Int64
	mu       sync.Mutex
	verifies []c09EzVerify
	installs []c09EzInstall
	news     []c09EzNew
	errs     []string
	// pathAlwaysSet: ConfigPath reports true even for an empty path (the common 'return c.Path, true' pattern)
	pathAlwaysSet bool
}

type c09EzCfg struct {
	Path string `dials:"ezpath"`
	Val  int    `dials:"ezval"`
	Mark string `dials:"ezmark"`
	rec  *c09EzRec
}

var errC09EzInvalid = errors.New("harness: ez config invalid (ezval < 0)")

// ConfigPath implements ez.ConfigWithConfigPath.
func (c *c09EzCfg) ConfigPath() (string, bool) {
	if c.rec != nil && c.rec.pathAlwaysSet {
		return c.Path, true
	}
	return c.Path, c.Path != ""
}

// Verify implements dials.VerifiedConfig.
func (c *c09EzCfg) Verify() error {
	bad := c.Val < 0
	if r := c.rec; r != nil {
		r.mu.Lock()
		r.verifies = append(r.verifies, c09EzVerify{t: r.clock.Add(1), cfg: c, val: c.Val, err: bad})
		r.mu.Unlock()
	}
	if bad {
		return fmt.Errorf("%w: %d", errC09EzInvalid, c.Val)
	}
	return nil
}

func c09EzRender(format string, val int, mark string) []byte {
	switch format {
	case "json":
		return []byte(fmt.Sprintf("{\"ezval\": %d, \"ezmark\": %q}\n", val, mark))
	case "toml":
		return []byte(fmt.Sprintf("ezval = %d\nezmark = %q\n", val, mark))
	}
	return []byte(fmt.Sprintf("ezval: %d\nezmark: %q\n", val, mark))
}

// c09Ez: one call of an ez entry point with global callbacks, with and without file watching, over files that are valid,
// fail Verify (alone, or only once a flag overrides them), are rescued by a flag, are missing or malformed, or with no
// path at all. ez keeps the delay in force with the suppress option set until it has called EnableVerification, so a
// version installed before the first Verify call (Verify is never called before EnableVerification) was installed while
// global callbacks are withheld: OnNewConfig must never be called for it, whether the entry point then succeeds or fails.
// The callback goroutine is fenced state-based (its exit hook after the monitor has gone, or a registration round trip
// while it lives) before the logs are judged.
func c09Ez(w *fw.Worker, i int, r *fw.Rand) {
	format := []string{"json", "yaml", "toml"}[r.Intn(3)]
	byExt := r.Chance(30)
	watch := r.Chance(30)
	mode := []string{"valid", "valid", "valid", "verify-fails", "verify-fails", "flag-rescues", "flag-breaks", "missing-file", "malformed-file", "no-path"}[r.Intn(10)]
	pathFrom := []string{"default", "flag"}[r.Intn(2)]
	rec := &c09EzRec{pathAlwaysSet: mode != "no-path" && r.Chance(25)}
	path := filepath.Join(w.Scratch, fmt.Sprintf("c09ez_%d_%d.%s", w.Shard, i, format))
	fileVal, flagVal := 100+r.Intn(800), 1000+r.Intn(800)
	var argv []string
	cfg := &c09EzCfg{Val: 1 + r.Intn(50), rec: rec}
	switch mode {
	case "verify-fails":
		fileVal = -fileVal
	case "flag-rescues":
		fileVal = -fileVal
		argv = append(argv, fmt.Sprintf("--ezval=%d", flagVal))
	case "flag-breaks":
		flagVal = -flagVal
		argv = append(argv, fmt.Sprintf("--ezval=%d", flagVal))
	}
	wantErr := mode == "verify-fails" || mode == "flag-breaks" || mode == "missing-file" || mode == "malformed-file"
	if mode != "no-path" {
		if pathFrom == "default" {
			cfg.Path = path
		} else {
			argv = append(argv, "--ezpath="+path)
		}
	}
	switch mode {
	case "missing-file", "no-path":
	case "malformed-file":
		os.WriteFile(path, []byte("{{{ : not valid in any format ]]]\n\t- x"), 0o644)
	default:
		os.WriteFile(path, c09EzRender(format, fileVal, "file-1"), 0o644)
	}
	// (the file stays until the scratch directory goes: removing a file that may still be watched is C17's subject)
	desc := map[string]any{"mode": "ez:" + mode, "format": format, "by_extension": byExt, "watch": watch, "path_from": pathFrom, "argv": argv, "path_always_reported_set": rec.pathAlwaysSet}
	w.BeginDesc(i, fmt.Sprintf("%v", desc))
	fs, ferr := stdflagsrc.NewSetWithArgs(stdflagsrc.DefaultFlagNameConfig(), cfg, argv)
	if ferr != nil {
		w.Violation(i, "config-failed", "flag registration: "+ferr.Error(), desc)
		return
	}
	params := ez.Params[c09EzCfg]{WatchConfigFile: watch, FlagSource: fs,
		OnNewConfig: func(_ context.Context, old, nw *c09EzCfg) {
			n := c09EzNew{t: rec.clock.Add(1), old: old, new: nw}
			if old != nil {
				n.oldVal = old.Val
			}
			if nw != nil {
				n.newVal, n.newMark = nw.Val, nw.Mark
			}
			rec.mu.Lock()
			rec.news = append(rec.news, n)
			rec.mu.Unlock()
		},
		OnWatchedError: func(_ context.Context, err error, _, _ *c09EzCfg) {
			rec.mu.Lock()
			rec.errs = append(rec.errs, err.Error())
			rec.mu.Unlock()
		},
	}
	conc.InstallHooks()
	cs := conc.NewScenario(context.Background())
	defer cs.Cancel()
	cbExit := make(chan struct{})
	var exitOnce sync.Once
	cs.Hook = func(name string, _ context.Context, args []any) {
		switch name {
		case "mon.stored":
			if len(args) >= 3 {
				serial, _ := args[1].(uint64)
				if c, ok := args[2].(*c09EzCfg); ok && c != nil {
					in := c09EzInstall{t: rec.clock.Add(1), serial: serial, cfg: c, val: c.Val}
					rec.mu.Lock()
					rec.installs = append(rec.installs, in)
					rec.mu.Unlock()
				}
			}
		case "cb.exit":
			exitOnce.Do(func() { close(cbExit) })
		}
	}
	ctx := cs.Ctx
	var d *dials.Dials[c09EzCfg]
	var err error
	switch {
	case byExt:
		d, err = ez.FileExtensionDecoderConfigEnvFlag(ctx, cfg, params)
	case format == "json":
		d, err = ez.JSONConfigEnvFlag(ctx, cfg, params)
	case format == "toml":
		d, err = ez.TOMLConfigEnvFlag(ctx, cfg, params)
	default:
		d, err = ez.YAMLConfigEnvFlag(ctx, cfg, params)
	}
	desc["ez_error"] = fmt.Sprint(err)
	w.Count("ez_calls", 1)
	if err == nil && d == nil {
		w.Violation(i, "ez:nil-dials-without-error", "the entry point returned (nil, nil)", desc)
		return
	}
	if err == nil && d.View().Val < 0 {
		w.Violation(i, "ez:succeeded-although-the-installed-config-fails-verify", fmt.Sprintf("the entry point returned no error; the visible config has ezval=%d, which Verify rejects", d.View().Val), desc)
		return
	}
	if err != nil && !wantErr {
		// not C09's to judge in general (C18 does); but a Verify failure here means Verify ran on a config that is valid
		// once the file/flags are in, i.e. too early
		if errors.Is(err, errC09EzInvalid) {
			w.Violation(i, "ez:verify-failed-on-a-setup-whose-full-stack-is-valid", err.Error(), desc)
			return
		}
		w.Note("c09 ez: unexpected entry-point error (not judged here): " + err.Error())
	}
	alive := err == nil && watch
	rewritten, converged := false, false
	newVal := 5000 + r.Intn(1000)
	fence := func() bool {
		fctx, cancel := context.WithTimeout(ctx, 10*time.Second)
		defer cancel()
		_, tok := d.ViewVersion()
		un := d.RegisterCallback(fctx, tok, func(context.Context, *c09EzCfg, *c09EzCfg) {})
		return un != nil && un(fctx)
	}
	if alive {
		// the instance keeps watching: fence the callback goroutine, then change the file once (verification is on and
		// the delay is over: that version is announced)
		if !fence() {
			w.Inconclusive(i, "ez: callback fence (register/unregister round trip) failed on a watching instance")
			return
		}
		if mode != "flag-rescues" && mode != "no-path" { // (a flag overrides the file's leaf / there is no file)
			rewritten = true
			os.WriteFile(path, c09EzRender(format, newVal, "file-2"), 0o644)
			converged = conc.WaitUntil(func() bool { v := d.View(); return v.Val == newVal && v.Mark == "file-2" }, 15*time.Second)
			if converged {
				w.Count("ez_watched_rewrites_converged", 1)
				// the version is visible before the monitor announces it: wait for the announcement to be handled; if it
				// does not show up, the monitor must be back idle in its loop (it announces before it takes the next
				// message) and a registration round trip must have passed the callback goroutine's queue before the
				// absence is judged
				delivered := func() bool {
					rec.mu.Lock()
					defer rec.mu.Unlock()
					for _, n := range rec.news {
						if n.newVal == newVal && n.newMark == "file-2" {
							return true
						}
					}
					return false
				}
				if !conc.WaitUntil(delivered, 10*time.Second) {
					s1, _ := monitorState()
					time.Sleep(300 * time.Millisecond)
					s2, _ := monitorState()
					if s1 != "idle" || s2 != "idle" || !fence() {
						w.Inconclusive(i, "ez: announcement of the watched change not observed; monitor state "+s1+"/"+s2)
						return
					}
				}
			} else {
				w.Count("ez_watched_rewrites_not_observed_in_time", 1)
			}
		}
		cs.Cancel()
	} else if err != nil {
		// a failed entry point leaves shutting down to the caller's context
		cs.Cancel()
	}
	// without watching the entry point itself has called Done on the Blank: the monitor goes away and the callback
	// goroutine handles what is queued, then exits
	select {
	case <-cbExit:
		w.Count("ez_callback_goroutine_exits_observed", 1)
	case <-time.After(15 * time.Second):
		g := dialsGoroutines([]string{").monitor(", ").runCBs("})
		if len(g) > 0 && !watch && err == nil {
			time.Sleep(300 * time.Millisecond)
			if g2 := dialsGoroutines([]string{").monitor(", ").runCBs("}); len(g2) > 0 {
				w.Note("c09 ez: background goroutines still alive 15s after a non-watching entry point returned (C08 judges shutdown)")
			}
		}
		w.Inconclusive(i, "ez: exit of the callback goroutine not observed")
		return
	}
	rec.mu.Lock()
	verifies := append([]c09EzVerify(nil), rec.verifies...)
	installs := append([]c09EzInstall(nil), rec.installs...)
	news := append([]c09EzNew(nil), rec.news...)
	nErrs := len(rec.errs)
	rec.mu.Unlock()
	firstVerify := int64(1) << 62
	if len(verifies) > 0 {
		firstVerify = verifies[0].t
	}
	w.Count("ez_installs_observed", int64(len(installs)))
	w.Count("ez_watched_error_calls_recorded", int64(nErrs))
	desc["onnewconfig_calls"] = fmt.Sprintf("%+v", func() (out []string) {
		for _, n := range news {
			out = append(out, fmt.Sprintf("t=%d old.ezval=%d new.ezval=%d new.ezmark=%q", n.t, n.oldVal, n.newVal, n.newMark))
		}
		return
	}())
	for _, n := range news {
		var in *c09EzInstall
		for k := range installs {
			if installs[k].cfg == n.new {
				in = &installs[k]
			}
		}
		if in == nil {
			w.Count("ez_deliveries_without_install_record", 1)
			continue
		}
		w.Count("global_deliveries_compared", 1)
		if in.t < firstVerify {
			what := "the entry point then succeeded"
			if err != nil {
				what = "the entry point then failed: " + err.Error()
			}
			w.Violation(i, "ez:onnewconfig-delivered-for-a-version-installed-while-the-delay-was-in-force", fmt.Sprintf("OnNewConfig(old.ezval=%d, new.ezval=%d) was called for version %d, which was installed before the first Verify call, i.e. before EnableVerification (delay in force, global callbacks withheld); %s", n.oldVal, n.newVal, in.serial, what), desc)
			return
		}
	}
	// a version installed during the set-up was withheld
	for _, in := range installs {
		if in.t < firstVerify {
			w.Count("withheld_states_observed", 1)
		}
	}
	if converged {
		// delay over: the watched change must have been announced
		found := false
		for _, n := range news {
			if n.newVal == newVal && n.newMark == "file-2" {
				found = true
			}
		}
		if !found {
			w.Violation(i, "ez:onnewconfig-not-delivered-after-verification-was-enabled", fmt.Sprintf("the watched file change (ezval=%d) became visible after the entry point returned, but OnNewConfig was never called for it (%d calls in total)", newVal, len(news)), desc)
			return
		}
		w.Count("global_deliveries_compared", 1)
	}
	w.Count("ez_episodes_judged", 1)
	w.Distinct(fmt.Sprintf("ez|%s|%s|%v|%v|%s|%v|%v", mode, format, byExt, watch, pathFrom, rec.pathAlwaysSet, rewritten))
}

// c09AbandonedEnable: the delay is in force and the installed config fails Verify; an EnableVerification call is given
// up by its caller while the monitor is inside Verify for it (that attempt fails: the delay stays in force). Then the
// last source reports a valid value (installed unverified, the delay still being in force) and EnableVerification is
// called again: it must be answered for itself - success, the installed (valid) config, verification on from then on:
// the next invalid report is refused. The answer to the abandoned call belongs to nobody.
func c09AbandonedEnable(w *fw.Worker, i int, r *fw.Rand) {
	o := conc.Opts{Delay: true, Suppress: r.Bool(), NSrc: r.Range(1, 3)}
	last := o.NSrc - 1
	e, err := conc.StartWith(context.Background(), r.U64(), o, func(e *conc.Env, k int) *conc.Layer {
		l := e.NewLayer()
		if k == last {
			l.Set[0], l.NegA = true, true // fails Verify whatever the others hold
		}
		return l
	}, nil)
	desc := map[string]any{"mode": "enable-abandoned-inside-verify-then-called-again", "opts": fmt.Sprintf("%+v", o)}
	w.BeginDesc(i, fmt.Sprintf("%v", desc))
	if err != nil {
		w.Violation(i, "config-failed-with-verification-delayed", err.Error(), desc)
		return
	}
	defer e.Stop()
	ctx := e.S.Ctx
	abandoned, _ := e.AbandonFnInVerify(func(c context.Context) error {
		_, _, eerr := e.D.EnableVerification(c)
		return eerr
	})
	if !abandoned {
		w.Count("enable_not_abandoned_inside_verify", 1)
		return
	}
	w.Count("enable_calls_abandoned_inside_verify", 1)
	good := e.RandLayer(r, 0, 0)
	if res, _ := e.Report(ctx, 0, last, good, true); res != conc.ResNil {
		w.Violation(i, "valid-report-refused-while-the-delay-is-in-force", fmt.Sprintf("after a failed (abandoned) EnableVerification a valid report of the last source returned res=%d", res), desc)
		return
	}
	ectx, ecancel := context.WithTimeout(ctx, 20*time.Second) // watchdog only
	cfg, _, eerr := e.D.EnableVerification(ectx)
	if eerr == nil {
		// ... and so must every other caller be, wherever it runs: a burst of calls from many goroutines (whatever the
		// library keeps per call - reply channels, requests - may be recycled per processor)
		var wg sync.WaitGroup
		errs := make([]error, 32)
		for g := range errs {
			wg.Add(1)
			go func(g int) {
				defer wg.Done()
				_, _, errs[g] = e.D.EnableVerification(ectx)
			}(g)
		}
		wg.Wait()
		for _, be := range errs {
			if be != nil {
				eerr = be
			}
		}
		w.Count("enable_calls_in_bursts_after_an_abandoned_call", int64(len(errs)))
	}
	timedOut := ectx.Err() != nil
	ecancel()
	if timedOut && eerr != nil {
		w.Inconclusive(i, "second EnableVerification took more than 20s")
		return
	}
	if eerr != nil {
		w.Violation(i, "enable-failed-on-valid-config:after-an-abandoned-call", fmt.Sprintf("the installed config %+v passes Verify, yet EnableVerification (called after an earlier call had been abandoned inside Verify) returned: %v", conc.FPOf(e.D.View()), eerr), desc)
		return
	}
	if cfg != e.D.View() || !conc.Valid(cfg) {
		w.Violation(i, "enable-returned-other-config:after-an-abandoned-call", fmt.Sprintf("returned %+v, view %+v", conc.FPOf(cfg), conc.FPOf(e.D.View())), desc)
		return
	}
	bad := e.NewLayer()
	bad.Set[0], bad.NegA = true, true
	if res, _ := e.Report(ctx, 0, last, bad, true); res != conc.ResRejected {
		w.Violation(i, "invalid-report-not-refused-after-verification-was-enabled", fmt.Sprintf("res=%d", res), desc)
		return
	}
	w.Distinct(fmt.Sprintf("abandoned-enable|%d|%v", o.NSrc, o.Suppress))
}

// c09EnableReturnsWhatItVerified: "EnableVerification verifies exactly the installed config and on success returns
// that config and its serial". While the monitor is inside Verify for an EnableVerification request, another source's
// blocking report is already waiting at the monitor's door; with one processor the monitor answers the request and goes
// straight on to install that report before the caller gets to run. The caller must still come back with the config
// Verify was given (and its serial) - not with whatever is installed by the time it looks.
func c09EnableReturnsWhatItVerified(w *fw.Worker, i int, r *fw.Rand) {
	o := conc.Opts{Delay: true, Suppress: r.Bool(), NSrc: r.Range(2, 3)}
	e, err := conc.StartWith(context.Background(), r.U64(), o, func(e *conc.Env, k int) *conc.Layer { return e.RandLayer(r, 0, 0) }, nil)
	desc := map[string]any{"mode": "enable-answered-then-overtaken-by-an-update", "opts": fmt.Sprintf("%+v", o)}
	w.BeginDesc(i, fmt.Sprintf("%v", desc))
	if err != nil {
		w.Violation(i, "config-failed-with-verification-delayed", err.Error(), desc)
		return
	}
	defer e.Stop()
	ctx := e.S.Ctx
	reached, release := make(chan struct{}), make(chan struct{})
	var verified atomic.Pointer[conc.Cfg]
	var armed atomic.Bool
	armed.Store(true)
	e.S.SetOnVerify(func(c *conc.Cfg) {
		if armed.CompareAndSwap(true, false) {
			verified.Store(c)
			close(reached)
			<-release
		}
	})
	defer e.S.SetOnVerify(nil)
	_, tok0 := e.D.ViewVersion()
	type eres struct {
		cfg *conc.Cfg
		ser uint64
		err error
	}
	ech := make(chan eres, 1)
	go func() {
		c, t, eerr := e.D.EnableVerification(ctx)
		ech <- eres{c, conc.SerialOf(t), eerr}
	}()
	select {
	case <-reached:
	case <-time.After(10 * time.Second):
		close(release)
		w.Inconclusive(i, "Verify was not reached for the EnableVerification request")
		return
	}
	// another source's blocking report, waiting for the monitor to take it
	src := r.Intn(o.NSrc)
	rch := make(chan int, 1)
	go func() { res, _ := e.Report(ctx, 1, src, e.RandLayer(r, 0, 0), true); rch <- res }()
	waiting := false
	for k := 0; k < 400 && !waiting; k++ {
		for _, g := range dialsGoroutines([]string{"BlockingReportNewValue"}) {
			if strings.Contains(strings.SplitN(g, "\n", 2)[0], "[select") {
				waiting = true
			}
		}
		if !waiting {
			time.Sleep(5 * time.Millisecond)
		}
	}
	prev := runtime.GOMAXPROCS(1)
	close(release)
	var er eres
	select {
	case er = <-ech:
	case <-time.After(20 * time.Second):
		runtime.GOMAXPROCS(prev)
		w.Inconclusive(i, "EnableVerification did not return within 20s")
		return
	}
	<-rch
	runtime.GOMAXPROCS(prev)
	if !waiting {
		w.Count("enable_overtake_report_not_seen_waiting", 1)
	}
	w.Count("enable_calls_with_a_report_waiting_behind_them", 1)
	if er.err != nil {
		w.Violation(i, "enable-failed-on-valid-config:report-waiting-behind-it", er.err.Error(), desc)
		return
	}
	if v := verified.Load(); er.cfg != v || er.ser != conc.SerialOf(tok0) {
		w.Violation(i, "enable-returned-a-config-other-than-the-one-it-verified", fmt.Sprintf("Verify was given config %p %+v (serial %d, the installed one when the request was handled); EnableVerification returned %p %+v with serial %d; installed now: serial %d", v, conc.FPOf(v), conc.SerialOf(tok0), er.cfg, conc.FPOf(er.cfg), er.ser, func() uint64 { _, t := e.D.ViewVersion(); return conc.SerialOf(t) }()), desc)
		return
	}
	w.Distinct(fmt.Sprintf("enable-overtaken|%d|%v|%v", o.NSrc, o.Suppress, waiting))
}
