package checks

// C03 monitors. Both are plain reflect walks written for the harness; neither
// calls into dials.
//
//   - c03Walk: single-graph walk collecting pointer and map identities (with
//     where they were found), sharing and cycle statistics.
//   - c03Iso: simultaneous walk of an expected graph and the graph dials
//     produced, building a bijection expected-identity <-> actual-identity
//     over pointer-typed and map-typed locations.
//
// "Judged" locations are exactly the ones the property statement lists:
// struct fields, slice/array elements and map values whose static type is a
// pointer or a map. A pointer or map that is the dynamic value of an
// interface, the pointee of a pointer-to-pointer, or the root handle is only
// measured (identity kept / lost counters), never judged.

import (
	"fmt"
	"reflect"
	"sort"
	"strconv"
	"strings"
)

type c03Ident struct {
	kind byte // 'p' pointer, 'm' map, 's' slice (slices: visit guard only)
	addr uintptr
	typ  reflect.Type
	n    int // slices: length
}

type c03IdentInfo struct {
	refs   int
	direct bool // found at least once in a judged location
	held   bool // found at least once as the dynamic value of an interface
	// outsideSkip: reached at least once on a path that does not pass a
	// dials:"-" struct field
	outsideSkip bool
}

// c03Span is the backing array of a non-nil slice with capacity > 0.
type c03Span struct {
	lo, hi uintptr
	typ    reflect.Type
	held   bool
	tag    string // inputs: tag of the walk the span came from
}

type c03Frame struct {
	id        c03Ident
	crossings int
}

type c03Walk struct {
	idents        map[c03Ident]*c03IdentInfo
	onStack       map[c03Ident]int
	stack         []c03Frame
	crossings     int // interface boundaries crossed on the current path
	cycles        int
	cyclesIface   int
	selfLoops     int
	sliceCycles   int
	ifaceHeldRefs int
	typedNilIface int
	locations     int
	feats         map[string]bool
	inSkip        int    // dials:"-" struct fields on the current path
	tag           string // form of the input this walk belongs to (see c03Input)
	spans         []c03Span
	emptyMaps     int // non-nil maps without entries
	spareSlices   int // zero-length slices with capacity > 0
}

func newC03Walk() *c03Walk {
	return &c03Walk{idents: map[c03Ident]*c03IdentInfo{}, onStack: map[c03Ident]int{}, feats: map[string]bool{}}
}

// enter returns false when the identity was seen before (do not descend).
func (w *c03Walk) enter(id c03Ident, direct, held bool) bool {
	info := w.idents[id]
	first := info == nil
	if first {
		info = &c03IdentInfo{}
		w.idents[id] = info
	}
	info.refs++
	if direct {
		info.direct = true
	}
	if held {
		info.held = true
	}
	if w.inSkip == 0 {
		info.outsideSkip = true
	}
	if idx, ok := w.onStack[id]; ok {
		if id.kind == 's' {
			w.sliceCycles++
			w.feats["cycle-closing-at-a-slice"] = true
		} else {
			w.cycles++
			l := 0
			for _, fr := range w.stack[idx:] {
				if fr.id.kind != 's' {
					l++
				}
			}
			switch {
			case l == 1:
				w.selfLoops++
				w.feats["self-loop"] = true
			case l == 2:
				w.feats["2-cycle"] = true
			default:
				w.feats["long-cycle"] = true
			}
			if w.crossings > w.stack[idx].crossings {
				w.cyclesIface++
				w.feats["cycle-through-interface"] = true
			}
			if id.kind == 'm' {
				w.feats["map-cycle"] = true
			}
		}
	}
	return first
}

func (w *c03Walk) push(id c03Ident) {
	w.onStack[id] = len(w.stack)
	w.stack = append(w.stack, c03Frame{id: id, crossings: w.crossings})
}

func (w *c03Walk) pop() {
	id := w.stack[len(w.stack)-1].id
	w.stack = w.stack[:len(w.stack)-1]
	delete(w.onStack, id)
}

// walk visits v. direct: v sits in a judged location kind (struct field,
// slice/array element, map value). held: v is the dynamic value of an interface.
func (w *c03Walk) walk(v reflect.Value, direct, held bool) {
	w.locations++
	switch v.Kind() {
	case reflect.Pointer:
		if v.IsNil() {
			if held {
				w.typedNilIface++
				w.feats["typed-nil-pointer-in-interface"] = true
			}
			return
		}
		if held {
			w.ifaceHeldRefs++
			w.feats["interface-holds:"+v.Type().String()] = true
		}
		id := c03Ident{kind: 'p', addr: v.Pointer(), typ: v.Type()}
		if !w.enter(id, direct, held) {
			return
		}
		w.push(id)
		w.walk(v.Elem(), false, false)
		w.pop()
	case reflect.Map:
		if v.IsNil() {
			if held {
				w.feats["typed-nil-map-in-interface"] = true
			}
			return
		}
		if held {
			w.ifaceHeldRefs++
			w.feats["interface-holds:"+v.Type().String()] = true
		}
		id := c03Ident{kind: 'm', addr: v.Pointer(), typ: v.Type()}
		if !w.enter(id, direct, held) {
			return
		}
		if v.Len() == 0 {
			w.emptyMaps++
			if held {
				w.feats["empty-non-nil-map-in-interface"] = true
			} else {
				w.feats["empty-non-nil-map"] = true
			}
		}
		w.push(id)
		it := v.MapRange()
		for it.Next() {
			w.walk(it.Value(), true, false)
		}
		w.pop()
	case reflect.Slice:
		if v.IsNil() {
			return
		}
		if held {
			w.feats["interface-holds:"+v.Type().String()] = true
		}
		id := c03Ident{kind: 's', addr: v.Pointer(), typ: v.Type(), n: v.Len()}
		if sz := v.Type().Elem().Size(); v.Cap() > 0 && sz > 0 {
			// a real backing array (zero-capacity and zero-size-element
			// slices all point at runtime.zerobase and are skipped)
			w.spans = append(w.spans, c03Span{lo: v.Pointer(), hi: v.Pointer() + uintptr(v.Cap())*sz, typ: v.Type(), held: held})
			if v.Len() == 0 {
				w.spareSlices++
				if held {
					w.feats["zero-length-slice-with-capacity-in-interface"] = true
				} else {
					w.feats["zero-length-slice-with-capacity"] = true
				}
			}
		}
		if v.Len() == 0 {
			return
		}
		if !w.enter(id, false, false) {
			return
		}
		w.push(id)
		for i := 0; i < v.Len(); i++ {
			w.walk(v.Index(i), true, false)
		}
		w.pop()
	case reflect.Array:
		if held {
			w.feats["interface-holds:"+v.Type().String()] = true
		}
		for i := 0; i < v.Len(); i++ {
			w.walk(v.Index(i), true, false)
		}
	case reflect.Struct:
		if held {
			w.feats["interface-holds:"+v.Type().String()] = true
		}
		t := v.Type()
		for i := 0; i < v.NumField(); i++ {
			if !t.Field(i).IsExported() {
				continue
			}
			skip := t.Field(i).Tag.Get("dials") == "-"
			if skip {
				w.inSkip++
				w.feats["dials-skipped-field-walked"] = true
			}
			w.walk(v.Field(i), true, false)
			if skip {
				w.inSkip--
			}
		}
	case reflect.Interface:
		if v.IsNil() {
			return
		}
		w.crossings++
		w.walk(v.Elem(), false, true)
		w.crossings--
	}
}

// shared counts judged-kind identities referenced from two or more locations.
func (w *c03Walk) shared() (ptr, mp int) {
	for id, info := range w.idents {
		if info.refs >= 2 {
			switch id.kind {
			case 'p':
				ptr++
			case 'm':
				mp++
			}
		}
	}
	return
}

// nonTrivial: the graph has a reference cycle or an identity referenced twice.
func (w *c03Walk) nonTrivial() bool {
	p, m := w.shared()
	return w.cycles > 0 || p > 0 || m > 0
}

// ---------------------------------------------------------------------------

type c03IsoErr struct {
	Kind   string // split:ptr, merge:map, nil-mismatch, ...
	Path   string
	Detail string
}

func (e *c03IsoErr) String() string { return e.Kind + " at " + e.Path + ": " + e.Detail }

type c03Pair struct{ a, b c03Ident }

type c03Iso struct {
	// judged bijection (direct locations only)
	fwd, rev map[c03Ident]c03Ident
	// measured relation (all locations)
	afwd, arev map[c03Ident]c03Ident
	visited    map[c03Pair]struct{}
	path       []string
	err        *c03IsoErr

	locations    int64
	ptrJudged    int64
	mapJudged    int64
	heldMeasured int64
	heldKept     int64
	heldLost     int64
	// interior pointers (a Leaf pointing at another node's ID field) are
	// outside the property's quantifier: measured only.
	interiorMeasured int64
	interiorLost     int64
	// unexported struct fields compared (scalars by value, pointers by nil-ness)
	unexportedCompared int64
	// addressable by-value struct locations entered into the judged bijection
	byValueLocs int64
	// interior: addresses (in the expected graph) that lie inside a node
	// struct (Leaf pointers to another node's ID); lets the key say so.
	interior      map[uintptr]bool
	nextHeld      bool              // the value walked next is the dynamic value of an interface
	nextSliceElem bool              // the value walked next is an element of a slice
	viewsMeasured int64             // by-value struct met again through an overlapping slice view (not judged)
	nextDeref     bool              // the value walked next is the pointee of the pointer just related
	byValue       map[c03Ident]bool // expected-side identities of by-value struct locations
}

func newC03Iso() *c03Iso {
	return &c03Iso{fwd: map[c03Ident]c03Ident{}, rev: map[c03Ident]c03Ident{}, afwd: map[c03Ident]c03Ident{},
		arev: map[c03Ident]c03Ident{}, visited: map[c03Pair]struct{}{}}
}

func (s *c03Iso) fail(kind, detail string) {
	if s.err == nil {
		path := strings.Join(s.path, "")
		if strings.Contains(path, ".MA[") || strings.Contains(path, ".(map[string][2]") {
			// in a value of an array-valued map (map[string][2]*node)
			kind += "-in-array-valued-map"
		}
		if strings.Contains(path, ".Skip") {
			// the mismatch sits in or below a dials:"-" field (Skip, SkipM, SkipS, SkipAny)
			kind += "-at-dials-skipped-field"
		}
		s.err = &c03IsoErr{Kind: kind, Path: path, Detail: detail}
	}
}

func (s *c03Iso) with(seg string, f func()) {
	s.path = append(s.path, seg)
	f()
	s.path = s.path[:len(s.path)-1]
}

func c03KindName(k byte) string {
	if k == 'm' {
		return "map"
	}
	return "ptr"
}

// relate records exp<->act for a reference found at the current location and
// returns false if the pair was already walked.
func (s *c03Iso) relate(e, a c03Ident, direct bool) bool {
	isInterior := e.kind == 'p' && s.interior[e.addr] && e.typ.Elem().Kind() == reflect.Int
	if isInterior {
		// an edge into the interior of a node is not one of the edge kinds
		// the property quantifies over: never judged.
		direct = false
		s.interiorMeasured++
	}
	if direct {
		if e.kind == 'p' {
			s.ptrJudged++
		} else {
			s.mapJudged++
		}
		suffix := c03KindName(e.kind)
		if s.byValue[e] {
			suffix = "pointer-to-by-value-struct"
		}
		if prev, ok := s.fwd[e]; ok && prev != a {
			s.fail("split:"+suffix, fmt.Sprintf("references identical in the input (%s %#x) are distinct in the result (%#x here, %#x at an earlier location)", e.typ, e.addr, a.addr, prev.addr))
			return false
		}
		if prev, ok := s.rev[a]; ok && prev != e {
			s.fail("merge:"+suffix, fmt.Sprintf("references distinct in the input (%s %#x and %#x) are identical in the result (%#x)", e.typ, e.addr, prev.addr, a.addr))
			return false
		}
		s.fwd[e] = a
		s.rev[a] = e
	} else if !isInterior {
		s.heldMeasured++
	}
	// measured relation over all locations
	pe, okE := s.afwd[e]
	pa, okA := s.arev[a]
	switch {
	case (okE && pe != a) || (okA && pa != e):
		if isInterior {
			s.interiorLost++
		} else if !direct {
			s.heldLost++
		}
	default:
		if !direct && !isInterior && (okE || okA) {
			s.heldKept++
		}
		s.afwd[e] = a
		s.arev[a] = e
	}
	p := c03Pair{e, a}
	if _, ok := s.visited[p]; ok {
		return false
	}
	s.visited[p] = struct{}{}
	return true
}

// walk compares expected e with actual a.
func (s *c03Iso) walk(e, a reflect.Value, direct bool) {
	if s.err != nil {
		return
	}
	s.locations++
	held := s.nextHeld
	s.nextHeld = false
	viaDeref := s.nextDeref
	s.nextDeref = false
	sliceElem := s.nextSliceElem
	s.nextSliceElem = false
	if e.Type() != a.Type() {
		s.fail("type-mismatch", fmt.Sprintf("expected %s, got %s", e.Type(), a.Type()))
		return
	}
	switch e.Kind() {
	case reflect.Pointer:
		if e.IsNil() != a.IsNil() {
			s.fail("nil-mismatch:ptr", fmt.Sprintf("expected nil=%v, got nil=%v (%s)", e.IsNil(), a.IsNil(), e.Type()))
			return
		}
		if e.IsNil() {
			return
		}
		ie := c03Ident{kind: 'p', addr: e.Pointer(), typ: e.Type()}
		ia := c03Ident{kind: 'p', addr: a.Pointer(), typ: a.Type()}
		if !s.relate(ie, ia, direct) {
			return
		}
		s.with("->", func() { s.nextDeref = true; s.walk(e.Elem(), a.Elem(), false) })
	case reflect.Map:
		if e.IsNil() != a.IsNil() {
			s.fail("nil-mismatch:map", fmt.Sprintf("expected nil=%v, got nil=%v (%s)", e.IsNil(), a.IsNil(), e.Type()))
			return
		}
		if e.IsNil() {
			return
		}
		ie := c03Ident{kind: 'm', addr: e.Pointer(), typ: e.Type()}
		ia := c03Ident{kind: 'm', addr: a.Pointer(), typ: a.Type()}
		if !s.relate(ie, ia, direct) {
			return
		}
		if e.Len() != a.Len() {
			s.fail("len-mismatch:map", fmt.Sprintf("expected %d entries, got %d", e.Len(), a.Len()))
			return
		}
		it := e.MapRange()
		for it.Next() {
			k := it.Key()
			av := a.MapIndex(k)
			if !av.IsValid() {
				s.fail("missing-map-key", fmt.Sprintf("key %v missing in the result", k))
				return
			}
			ev := it.Value()
			s.with("["+fmt.Sprint(k)+"]", func() { s.walk(ev, av, true) })
		}
	case reflect.Slice:
		if e.IsNil() != a.IsNil() {
			s.fail("nil-mismatch:slice", fmt.Sprintf("expected nil=%v, got nil=%v (%s)", e.IsNil(), a.IsNil(), e.Type()))
			return
		}
		if e.Len() != a.Len() {
			kind := "len-mismatch:slice"
			if held {
				kind += "-in-interface"
			}
			s.fail(kind, fmt.Sprintf("expected len %d, got %d (%s)", e.Len(), a.Len(), e.Type()))
			return
		}
		if e.Len() == 0 {
			return
		}
		p := c03Pair{c03Ident{kind: 's', addr: e.Pointer(), typ: e.Type(), n: e.Len()}, c03Ident{kind: 's', addr: a.Pointer(), typ: a.Type(), n: a.Len()}}
		if _, ok := s.visited[p]; ok {
			return
		}
		s.visited[p] = struct{}{}
		for i := 0; i < e.Len(); i++ {
			i := i
			s.with("["+strconv.Itoa(i)+"]", func() { s.nextSliceElem = true; s.walk(e.Index(i), a.Index(i), true) })
		}
	case reflect.Array:
		for i := 0; i < e.Len(); i++ {
			i := i
			s.with("["+strconv.Itoa(i)+"]", func() { s.walk(e.Index(i), a.Index(i), true) })
		}
	case reflect.Struct:
		t := e.Type()
		if !viaDeref && e.CanAddr() && a.CanAddr() && t.Size() > 0 {
			// A struct held by value in an addressable place (struct field,
			// array/slice element, pointee): pointers to it are pointers to
			// THIS location, so its address takes part in the judged
			// bijection: a pointer to the expected struct must come out as a
			// pointer to the struct walked here (cycles stay cycles), and a
			// pointer to something else must not.
			pt := reflect.PointerTo(t)
			ie := c03Ident{kind: 'p', addr: e.Addr().Pointer(), typ: pt}
			ia := c03Ident{kind: 'p', addr: a.Addr().Pointer(), typ: pt}
			s.byValueLocs++
			if prev, ok := s.fwd[ie]; ok && prev != ia && sliceElem && s.byValue[ie] {
				// the same element met again through another (overlapping)
				// view of its backing array, whose copy is a separate array:
				// what copies of overlapping views share is not judged.
				s.viewsMeasured++
			} else {
				if ok && prev != ia {
					s.fail("split:pointer-to-by-value-struct", fmt.Sprintf("a pointer to this %s (input %#x) met earlier resolves to %#x, not to the struct's own copy at %#x", t, ie.addr, prev.addr, ia.addr))
					return
				}
				if prev, ok := s.rev[ia]; ok && prev != ie {
					s.fail("merge:pointer-to-by-value-struct", fmt.Sprintf("a pointer met earlier resolves to this %s's copy (%#x) but pointed at %#x, not at the struct (%#x), in the input", t, ia.addr, prev.addr, ie.addr))
					return
				}
				s.fwd[ie] = ia
				s.rev[ia] = ie
				if s.byValue == nil {
					s.byValue = map[c03Ident]bool{}
				}
				s.byValue[ie] = true
			}
		}
		for i := 0; i < e.NumField(); i++ {
			if !t.Field(i).IsExported() {
				// unexported fields travel with the shallow whole-struct
				// assignment; compare what reflect lets us read.
				if d := c03UnexportedDiff(e.Field(i), a.Field(i)); d != "" {
					s.unexportedCompared++
					s.with("."+t.Field(i).Name, func() { s.fail("unexported-field-lost:"+t.String(), d) })
					return
				}
				s.unexportedCompared++
				continue
			}
			i := i
			s.with("."+t.Field(i).Name, func() { s.walk(e.Field(i), a.Field(i), true) })
		}
	case reflect.Interface:
		if e.IsNil() != a.IsNil() {
			s.fail("nil-mismatch:interface", fmt.Sprintf("expected nil=%v, got nil=%v", e.IsNil(), a.IsNil()))
			return
		}
		if e.IsNil() {
			return
		}
		s.with(".("+e.Elem().Type().String()+")", func() { s.nextHeld = true; s.walk(e.Elem(), a.Elem(), false) })
	case reflect.Int, reflect.Int8, reflect.Int16, reflect.Int32, reflect.Int64:
		if e.Int() != a.Int() {
			s.fail("value-mismatch", fmt.Sprintf("expected %d, got %d", e.Int(), a.Int()))
		}
	case reflect.String:
		if e.String() != a.String() {
			s.fail("value-mismatch", fmt.Sprintf("expected %q, got %q", e.String(), a.String()))
		}
	default:
		s.fail("harness-unsupported-kind", e.Kind().String())
	}
}

// overlappingSpans counts the slice locations whose backing array overlaps
// that of a slice location visited before (views of one array, or one header
// met twice). Measured only.
func (w *c03Walk) overlappingSpans() int {
	sp := append([]c03Span(nil), w.spans...)
	sort.Slice(sp, func(i, j int) bool { return sp[i].lo < sp[j].lo })
	n := 0
	var hi uintptr
	for i, x := range sp {
		if i > 0 && x.lo < hi {
			n++
		}
		if x.hi > hi {
			hi = x.hi
		}
	}
	return n
}

// c03UnexportedDiff compares two unexported struct fields as far as reflect
// allows reading them: scalars by value, pointers/maps/slices by nil-ness.
func c03UnexportedDiff(e, a reflect.Value) string {
	switch e.Kind() {
	case reflect.Int, reflect.Int8, reflect.Int16, reflect.Int32, reflect.Int64:
		if e.Int() != a.Int() {
			return fmt.Sprintf("expected %d, got %d", e.Int(), a.Int())
		}
	case reflect.Uint, reflect.Uint8, reflect.Uint16, reflect.Uint32, reflect.Uint64, reflect.Uintptr:
		if e.Uint() != a.Uint() {
			return fmt.Sprintf("expected %d, got %d", e.Uint(), a.Uint())
		}
	case reflect.String:
		if e.String() != a.String() {
			return fmt.Sprintf("expected %q, got %q", e.String(), a.String())
		}
	case reflect.Bool:
		if e.Bool() != a.Bool() {
			return fmt.Sprintf("expected %v, got %v", e.Bool(), a.Bool())
		}
	case reflect.Pointer, reflect.Map, reflect.Slice:
		if e.IsNil() != a.IsNil() {
			return fmt.Sprintf("expected nil=%v, got nil=%v (%s)", e.IsNil(), a.IsNil(), e.Type())
		}
	}
	return ""
}

// c03FreshHit is one class of non-fresh reference found in a result.
type c03FreshHit struct {
	Label  string // ptr, map, slice, each optionally -in-interface / -indirect
	Tag    string // tag of the input the reference is shared with
	Detail string
}

// c03NotFresh compares the identity set of a result with those of every
// input: pointers, maps (empty ones too: an empty map is a real allocation)
// and slice backing arrays with capacity > 0, wherever they were found
// (struct field, element, map value, interface payload, pointee). One hit per
// label, sorted by label.
func c03NotFresh(out *c03Walk, ins ...*c03Walk) []c03FreshHit {
	hits := map[string]c03FreshHit{}
	for id, info := range out.idents {
		if id.kind == 's' {
			continue
		}
		for _, in := range ins {
			if _, ok := in.idents[id]; ok {
				label := c03KindName(id.kind)
				switch {
				case info.direct:
				case info.held:
					label += "-in-interface"
				default:
					label += "-indirect"
				}
				if !info.outsideSkip {
					label += "-under-dials-skipped-field"
				}
				if _, seen := hits[label+"|"+in.tag]; !seen {
					hits[label+"|"+in.tag] = c03FreshHit{Label: label, Tag: in.tag, Detail: fmt.Sprintf("%s %s %#x is reachable from the result and from an input %s", c03KindName(id.kind), id.typ, id.addr, in.tag)}
				}
				break
			}
		}
	}
	if len(out.spans) > 0 {
		var all []c03Span
		for _, in := range ins {
			for _, sp := range in.spans {
				sp.tag = in.tag
				all = append(all, sp)
			}
		}
		sort.Slice(all, func(i, j int) bool { return all[i].lo < all[j].lo })
		// merge into disjoint intervals
		var merged []c03Span
		for _, sp := range all {
			if n := len(merged); n > 0 && sp.lo < merged[n-1].hi {
				if sp.hi > merged[n-1].hi {
					merged[n-1].hi = sp.hi
				}
				continue
			}
			merged = append(merged, sp)
		}
		for _, sp := range out.spans {
			k := sort.Search(len(merged), func(i int) bool { return merged[i].hi > sp.lo })
			if k < len(merged) && merged[k].lo < sp.hi {
				label := "slice"
				if sp.held {
					label += "-in-interface"
				}
				tag := merged[k].tag
				if _, seen := hits[label+"|"+tag]; !seen {
					hits[label+"|"+tag] = c03FreshHit{Label: label, Tag: tag, Detail: fmt.Sprintf("backing array of a %s [%#x,%#x) in the result overlaps a slice of an input %s", sp.typ, sp.lo, sp.hi, tag)}
				}
			}
		}
	}
	labels := make([]string, 0, len(hits))
	for l := range hits {
		labels = append(labels, l)
	}
	sort.Strings(labels)
	res := make([]c03FreshHit, 0, len(labels))
	for _, l := range labels {
		res = append(res, hits[l])
	}
	return res
}
