package checks

// C13 large-document corpus: a handful of documents well over 4 MiB in every
// format (shard 0, case 3), rendered from one data tree like every other case
// and judged the same four ways. Nothing in the statement bounds the size of
// a document, and ordinary generated documents are a few hundred bytes, so a
// decoder that buffers, limits or truncates its input would otherwise never
// be exercised. Each document has a long collection followed/preceded by
// ordinary keys, so a cut anywhere shows up as a shortened collection, keys
// left at their defaults, or a spurious error.

import (
	"fmt"
	"reflect"
	"strings"
	"time"

	"verifharness/fw"
)

// c13LargeMin is the size every large document must exceed in every format
// (4 MiB plus a margin); a smaller one is a harness failure, not a pass.
const c13LargeMin = 4<<20 + 256<<10

func c13MkField(name, key string, node *c13Node) *c13Field {
	f := &c13Field{name: name, dialsKey: key, node: node, tag: reflect.StructTag(fmt.Sprintf("dials:%q", key))}
	for fm := c13JSON; fm <= c13Cue; fm++ {
		f.keys[fm] = key
	}
	return f
}

func c13Filler(r *fw.Rand, n int) string {
	const alpha = "abcdefghijklmnopqrstuvwxyz0123456789"
	var b strings.Builder
	for b.Len() < n {
		b.WriteByte(alpha[r.Intn(len(alpha))])
	}
	return b.String()
}

func c13FixedLarge(w *fw.Worker, idx int) {
	r := fw.NewRand(fw.Mix(w.Seed, 0xc13b16))
	str := c13Leaf(c13String, 0)
	sval := func(s string) *c13Val { return &c13Val{node: str, s: s} }

	// shared small members: present in every document, with defaults that differ
	limits := func() (*c13Field, *c13Val, *c13Val) {
		fm, ft := c13MkField("MaxConns", "max_conns", c13Leaf(c13Int, 0)), c13MkField("Timeout", "timeout", c13Leaf(c13Duration, 0))
		st := c13StructOf([]*c13Field{fm, ft})
		f := c13MkField("Limits", "limits", st)
		val := &c13Val{node: st, fields: []*c13Field{fm, ft}, fvals: []*c13Val{{node: fm.node, i: 64}, {node: ft.node, d: 90 * time.Second}}}
		dfl := &c13Val{node: st, fields: []*c13Field{fm, ft}, fvals: []*c13Val{{node: fm.node, i: 1}, {node: ft.node, d: time.Second}}}
		return f, val, dfl
	}
	type doc struct {
		name   string
		fields []*c13Field
		vals   []*c13Val
		dfl    []*c13Val // defaults, nil = unset
	}
	var docs []doc

	{ // A: a long list of strings
		fh, fn, fp := c13MkField("Hosts", "hosts", c13SliceOf(str)), c13MkField("Name", "name", str), c13MkField("Ports", "ports", c13SliceOf(c13Leaf(c13Int, 32)))
		fl, lv, ld := limits()
		hosts := &c13Val{node: fh.node}
		for k := 0; k < 40000; k++ {
			hosts.list = append(hosts.list, sval(fmt.Sprintf("host-%06d.%s.example.com", k, c13Filler(r, 100))))
		}
		ports := &c13Val{node: fp.node, list: []*c13Val{{node: fp.node.elem, i: 80}, {node: fp.node.elem, i: 443}}}
		docs = append(docs, doc{"long-string-list", []*c13Field{fn, fh, fl, fp}, []*c13Val{sval("svc-a"), hosts, lv, ports},
			[]*c13Val{sval("default"), {node: fh.node, list: []*c13Val{sval("localhost")}}, ld, nil}})
	}
	{ // B: a big string-keyed map
		fm := c13MkField("Labels", "labels", c13MapOf(str))
		fn, fw2 := c13MkField("Name", "name", str), c13MkField("Weights", "weights", c13SliceOf(c13Leaf(c13Float, 64)))
		fl, lv, ld := limits()
		labels := &c13Val{node: fm.node}
		for k := 0; k < 25000; k++ {
			labels.mkeys = append(labels.mkeys, fmt.Sprintf("k%06d", k))
			labels.mvals = append(labels.mvals, sval(c13Filler(r, 180)))
		}
		weights := &c13Val{node: fw2.node, list: []*c13Val{{node: fw2.node.elem, f: 0.5, ftext: "0.5"}, {node: fw2.node.elem, f: 2.25, ftext: "2.25"}}}
		docs = append(docs, doc{"big-map", []*c13Field{fl, fm, fn, fw2}, []*c13Val{lv, labels, sval("svc-b"), weights},
			[]*c13Val{ld, nil, sval("default"), nil}})
	}
	{ // C: a long list of structs
		fid, fnote := c13MkField("ID", "id", c13Leaf(c13Int, 64)), c13MkField("Note", "note", str)
		est := c13StructOf([]*c13Field{fid, fnote})
		fi := c13MkField("Items", "items", c13SliceOfStruct(est))
		fn := c13MkField("Name", "name", str)
		fl, lv, ld := limits()
		items := &c13Val{node: fi.node}
		for k := 0; k < 20000; k++ {
			items.list = append(items.list, &c13Val{node: est, fields: []*c13Field{fid, fnote},
				fvals: []*c13Val{{node: fid.node, i: int64(k) * 1000003}, sval(c13Filler(r, 230))}})
		}
		docs = append(docs, doc{"long-struct-list", []*c13Field{fn, fi, fl}, []*c13Val{sval("svc-c"), items, lv},
			[]*c13Val{sval("default"), nil, ld}})
	}

	for k, d := range docs {
		schema := c13StructOf(d.fields)
		c := &c13Run{w: w, i: idx, r: r.Fork(), schema: schema, T: schema.typ, family: "large-document(" + d.name + ")", wrap: k%2 == 1}
		c.defaults = &c13Val{node: schema}
		for j, dv := range d.dfl {
			if dv != nil {
				c.defaults.fields = append(c.defaults.fields, d.fields[j])
				c.defaults.fvals = append(c.defaults.fvals, dv)
			}
		}
		c.pt = ptrifyFor(c)
		tree := &c13Val{node: schema, fields: d.fields, fvals: d.vals}
		res := c.judgeValid(tree)
		for fm := c13JSON; fm <= c13Cue; fm++ {
			if len(res[fm].doc) <= c13LargeMin {
				w.Note(fmt.Sprintf("HARNESS BUG: large document %s/%s is only %d bytes", d.name, c13FmtNames[fm], len(res[fm].doc)))
				continue
			}
			w.Count("large_documents_judged", 1)
			w.SetAdd("large_document_sizes", fmt.Sprintf("%s/%s: %d bytes", d.name, c13FmtNames[fm], len(res[fm].doc)))
		}
	}
}
