package checks

import (
	"context"
	"errors"
	"fmt"
	"os"
	"path/filepath"
	"reflect"
	"strconv"
	"strings"
	"syscall"
	"time"
	"unsafe"

	"github.com/vimeo/dials"
	jsondec "github.com/vimeo/dials/decoders/json"
	"github.com/vimeo/dials/sources/file"

	"verifharness/fw"
)

// ---------------------------------------------------------------------------
// C17 scripted history: inotify event-queue overflow (a fault sequence).
//
//   1. plain layout, watcher started on C0;
//   2. the watcher is parked at the file.read hook WITHOUT any file event
//      pending (manual reload through file.WithSignalChannel, gate armed);
//   3. 2 x fs.inotify.max_queued_events create+remove pairs of an unrelated
//      file in the watched directory; the kernel queue is confirmed full and
//      dropping by state: the inotify descriptor's FIONREAD byte count does not
//      grow any more although further events are generated;
//   4. the config is replaced by write-temp + rename-over with C2 (its events
//      are dropped by the kernel);
//   5. the watcher is released. It drains the (name-filtered) junk events, gets
//      fsnotify's ErrEventOverflow on Errors and must re-read the file.
//
// Oracle: the view converges to the config decoded from C2 (state-based
// verdict as everywhere in C17). Key: no-converge:after-queue-overflow.
// The case index of this history is w.N (one past the generated histories),
// so `./run replay` re-executes exactly it.
// ---------------------------------------------------------------------------

// c17OverflowShards: how many shards (the first ones) run the scripted history.
func c17OverflowShards(w *fw.Worker) int { return w.Pick(1, 4) }

func c17MaxQueuedEvents() int {
	b, err := os.ReadFile("/proc/sys/fs/inotify/max_queued_events")
	if err != nil {
		return 16384
	}
	n, err := strconv.Atoi(strings.TrimSpace(string(b)))
	if err != nil || n <= 0 {
		return 16384
	}
	return n
}

// c17InotifyFD reads the inotify descriptor of the WatchingSource's fsnotify backend.
func c17InotifyFD(ws *file.WatchingSource) (fd int) {
	defer func() {
		if recover() != nil {
			fd = -1
		}
	}()
	v := reflect.ValueOf(ws).Elem().FieldByName("watcher")
	if !v.IsValid() || v.IsNil() {
		return -1
	}
	b := v.Elem().FieldByName("b")
	if b.Kind() == reflect.Interface {
		b = b.Elem()
	}
	if b.Kind() == reflect.Ptr {
		b = b.Elem()
	}
	f := b.FieldByName("fd")
	if !f.IsValid() {
		return -1
	}
	return int(f.Int())
}

// c17QueuedBytes: bytes waiting in the kernel's queue of an inotify descriptor.
func c17QueuedBytes(fd int) int {
	var n int32
	_, _, e := syscall.Syscall(syscall.SYS_IOCTL, uintptr(fd), uintptr(syscall.TIOCINQ), uintptr(unsafe.Pointer(&n)))
	if e != 0 {
		return -1
	}
	return int(n)
}

func (e *c17Env) runOverflowCase(i int) {
	w := e.w
	defer func() {
		if p := recover(); p != nil {
			w.Violation(i, "panic:queue-overflow-history", fmt.Sprintf("panic: %v", p), nil)
		}
	}()
	for attempt := 0; attempt < 2; attempt++ {
		r := &c17Run{env: e, w: w, idx: i, attempt: attempt}
		r.executeOverflow()
		if r.inconclusive == "" {
			break
		}
		if attempt == 0 {
			w.Count("inconclusive_retried", 1)
			continue
		}
		w.Inconclusive(i, r.inconclusive)
	}
	w.Eval(1)
}

func (r *c17Run) executeOverflow() {
	w := r.w
	limit := c17MaxQueuedEvents()
	pairs := 2 * limit
	c0 := []byte(`{"alpha": 4200, "beta": "before-overflow"}` + "\n")
	c2 := []byte(`{"alpha": 4700, "beta": "after-overflow", "gamma": ["final"]}` + "\n")
	r.h = &c17Hist{Layout: "plain", Decoder: "json", Flavor: "queue-overflow",
		Contents: []c17Content{
			{ID: 0, Kind: "valid", Bytes: c0, Fresh: true, Text: string(c0)},
			{ID: 1, Kind: "valid", Bytes: c2, Fresh: true, Text: string(c2)},
		},
		Ops: []c17Op{{Kind: "gate-arm"}, {Kind: "manual-reload"}, {Kind: "gate-wait"},
			{Kind: fmt.Sprintf("create+remove x %d in the watched directory (max_queued_events=%d)", pairs, limit)},
			{Kind: "rename-over", Content: 1}, {Kind: "gate-release"}},
	}
	root := filepath.Join(w.Scratch, fmt.Sprintf("overflow%d_%d", r.idx, r.attempt))
	defer os.RemoveAll(root)
	dec := &jsondec.Decoder{}
	r.refs = []c17Ref{c17Reference(c0, dec), c17Reference(c2, dec)}
	if r.refs[0].err != nil || r.refs[1].err != nil {
		r.inconclusive = "harness: overflow history contents rejected by the reference decode"
		return
	}
	fs, err := newC17FS(root, "plain", "json", false, c0)
	if err != nil {
		r.inconclusive = "harness: layout setup failed: " + err.Error()
		return
	}
	r.fs = fs
	r.hook = &c17HookState{t0: time.Now(), gateTimeout: 10 * time.Minute} // the storm may take many seconds on a loaded machine
	c17HookTable.Store(fs.cfgPath, r.hook)
	defer c17HookTable.Delete(fs.cfgPath)

	reload := make(chan os.Signal, 1)
	ws, err := file.NewWatchingSource(fs.cfgPath, dec, file.WithLogger(r.hook), file.WithSignalChannel(reload))
	if err != nil {
		r.inconclusive = "NewWatchingSource: " + err.Error()
		return
	}
	r.ws = ws
	ctx, cancel := context.WithCancel(context.Background())
	r.cancel = cancel
	params := dials.Params[c17Cfg]{
		OnWatchedError: func(_ context.Context, err error, _, _ *c17Cfg) {
			var de *file.DecoderErr
			r.mu.Lock()
			if errors.As(err, &de) {
				r.decErrs++
			} else if len(r.otherErrs) < 16 {
				r.otherErrs = append(r.otherErrs, err.Error())
			}
			r.mu.Unlock()
		},
		OnNewConfig: func(_ context.Context, _, _ *c17Cfg) {
			r.mu.Lock()
			r.newCfgs++
			r.mu.Unlock()
		},
	}
	a := r.env.audit
	a.mu.RLock()
	d, err := params.Config(ctx, c17Defaults(), ws)
	if err == nil {
		a.addLive(1)
	}
	a.mu.RUnlock()
	if err != nil {
		cancel()
		a.check()
		r.inconclusive = "dials.Config failed for the overflow history: " + err.Error()
		return
	}
	r.d = d
	r.ptrs = c17Ptrs{ws: reflect.ValueOf(ws).Pointer(), backend: c17BackendPtr(ws), ctx: reflect.ValueOf(ctx).Pointer()}
	released := false
	defer func() {
		if !released {
			r.release(false)
		}
	}()

	// 2. park the watcher at the hook with no file event pending
	gate := r.hook.arm()
	reload <- syscall.SIGHUP
	t := time.NewTimer(c17Watchdog)
	select {
	case <-gate.held:
		t.Stop()
	case <-t.C:
		r.inconclusive = "overflow history: the manual reload never brought the watcher to the file.read hook"
		return
	}
	r.logf("watcher parked at the file.read hook after a manual reload (read #%d)", r.hook.reads.Load())

	// 3. overflow the kernel queue
	junk := filepath.Join(fs.cfgDir, "j")
	storm := func(n int) error {
		for k := 0; k < n; k++ {
			fh, err := os.OpenFile(junk, os.O_CREATE|os.O_WRONLY, 0o644)
			if err != nil {
				return err
			}
			fh.Close()
			if err := os.Remove(junk); err != nil {
				return err
			}
		}
		return nil
	}
	if err := storm(pairs); err != nil {
		r.inconclusive = "harness: overflow storm failed: " + err.Error()
		return
	}
	w.Count("queue_overflow_file_operations", int64(2*pairs))
	confirmed := false
	fd := c17InotifyFD(ws)
	var q1 int
	if fd >= 0 {
		q1 = c17QueuedBytes(fd)
		for k := 0; k < 20 && q1 >= 0; k++ {
			if err := storm(64); err != nil {
				break
			}
			q2 := c17QueuedBytes(fd)
			if q2 == q1 && q2 > 0 {
				confirmed = true // 128 more events were generated, none was queued: the kernel is dropping
				break
			}
			q1 = q2
		}
	}
	r.logf("kernel queue after the storm: %d bytes, full-and-dropping confirmed=%v", q1, confirmed)
	if r.hook.timedOut.Load() > 0 {
		confirmed = false // the watcher was not parked throughout
	}
	if !confirmed {
		w.Count("queue_overflow_not_established", 1)
		r.inconclusive = fmt.Sprintf("overflow history: could not establish that the inotify queue is full and dropping (fd=%d, queued bytes=%d)", fd, q1)
		return
	}

	// 4. the final change, whose events the kernel drops
	if err := fs.renameOver(c2); err != nil {
		r.inconclusive = "harness: rename-over failed: " + err.Error()
		return
	}
	r.executed = []string{"queue-overflow", "rename-over"}
	r.logf("config replaced by rename-over while the queue is full")
	readsBefore := r.hook.reads.Load()

	// 5. release and judge
	r.hook.releaseGate()
	exp := r.refs[1].cfg
	v, wit := r.await("after-queue-overflow", func() bool { return reflect.DeepEqual(r.d.View(), exp) })
	switch v {
	case c17Inconclusive:
		r.inconclusive = fmt.Sprintf("overflow history: %v", wit["why"])
		return
	case c17Violated:
		wit["expected"] = c17TrimCfg(exp)
		wit["watcher_reads_after_release"] = r.hook.reads.Load() - readsBefore
		wit["max_queued_events"] = limit
		r.violation("no-converge:after-queue-overflow",
			fmt.Sprintf("the inotify queue overflowed (%d create+remove pairs in the watched directory while the watcher was stalled, max_queued_events=%d), the config was then replaced by rename-over, the watcher was released and is idle again, and the view still differs from the config decoded from the final content", pairs, limit), wit)
		return
	}
	w.Count("queue_overflow_histories", 1)
	w.Count("queue_overflow_confirmed", 1)
	w.Count("queue_overflow_reads_after_release", r.hook.reads.Load()-readsBefore)
	w.Distinct("scripted|queue-overflow|plain|json")
	released = true
	r.release(true)
	r.finishEvidence(1)
}
