package checks

import (
	"bytes"
	"context"
	"encoding/json"
	"errors"
	stdflag "flag"
	"fmt"
	"os"
	"path/filepath"
	"reflect"
	"strings"
	"sync"
	"time"

	toml "github.com/pelletier/go-toml"
	"github.com/vimeo/dials"
	"github.com/vimeo/dials/ez"
	stdflagsrc "github.com/vimeo/dials/sources/flag"
	pflagsrc "github.com/vimeo/dials/sources/pflag"
	"github.com/vimeo/dials/tagformat/caseconversion"
	yaml "gopkg.in/yaml.v2"

	"verifharness/conc"
	"verifharness/fw"
	"verifharness/gen"
)

func init() {
	fw.Register(&fw.Check{
		ID:   "C18",
		Race: true,
		Rule: "Each case runs one ez entry point (YAML/JSON/TOML/Cue named entry points and the by-extension one) on a static config type with 10 leaves (plus an embedded struct of three leaves, each of which is assigned to its own subset of the four layers; the file layer of those through YAML with FlattenAnonymousFields): every leaf is assigned to a seeded subset of {default, file, environment, flag} with distinct values, the file path is supplied by default, environment or flag (and the file also tries to set the path leaf), FlagSource is a std-flag or pflag NewSetWithArgs set or the default flag.CommandLine path (re-created per case; some cases call the entry point twice on the same CommandLine), with and without file watching. " +
			"Oracles: the first visible config equals the reference stack default < file < env < flag; the harness Verify() logs the file-marker leaf of every receiver - it must be set in every logged call when a file is configured and there must be at least one call; after return a non-blocking receive on Events() finds nothing and the OnNewConfig/OnWatchedError logs are empty; configs valid only with the file must succeed; a missing or malformed file and a failing Verify must return errors (wrapping the cause); with watching on, the file is rewritten and the new view must again follow the precedence, every new Verify call sees the file layer, and OnNewConfig now fires. " +
			"distinct_nontrivial = distinct (entry point, flag source, path origin, watch, assignment matrix) signatures with >=1 leaf assigned to >=2 layers.",
		Assumptions: []string{"the environment is the worker process's own (cleared at start; cases run serially within a worker)"},
		MinDistinct: map[string]int{"quick": 1000, "thorough": 150000},
		MinCounters: map[string]map[string]int64{
			"quick":    {"first_views_compared": 700, "verify_calls_with_file_layer": 700, "error_cases_checked": 150, "watched_rewrites_converged": 100, "events_channel_checked_empty": 700, "yaml_files_setting_some_but_not_all_leaves_of_the_embedded_struct": 60},
			"thorough": {"first_views_compared": 200000},
		},
		Plan: func(tier string) fw.Plan {
			if tier == "thorough" {
				return fw.Plan{Shards: 16, CasesPerShard: 25000, TimeoutSec: 3000}
			}
			return fw.Plan{Shards: 8, CasesPerShard: 300, TimeoutSec: 900}
		},
		Run: runC18,
	})
}

type c18Nest struct {
	X int    `dials:"x_val"`
	Y string `dials:"y_val"`
}

type c18Limits struct {
	Burst int `dials:"burst"`
}

// c18Server: a leaf followed by a struct-typed sibling (two levels below the config)
type c18Server struct {
	Port   int       `dials:"port"`
	Limits c18Limits `dials:"limits"`
}

type c18Scn struct {
	mu          sync.Mutex
	verifyCalls []c18Verify
	needMarker  bool
	failVerify  bool
	newCfg      int
	// pathAlwaysSet: ConfigPath reports true even for an empty path
	pathAlwaysSet bool
	watchedErr    []string
	// newCfgOldMarkers: the file marker of the OLD config of every OnNewConfig call
	newCfgOldMarkers []string
	// holdMarker: Verify parks (once) on the config whose marker this is
	holdMarker  string
	holdReached chan struct{}
	holdRelease chan struct{}
}

type c18Verify struct {
	marker string
	alpha  int
}

// C18Emb is embedded in the config: with FlattenAnonymousFields its leaves' YAML keys move to the top level.
// It has three leaves so that a file can set any subset of them (the first only, a middle one, all but the last, ...).
type C18Emb struct {
	Omega int     `dials:"omega"`
	Psi   string  `dials:"psi"`
	Tau   float64 `dials:"tau"`
}

type c18Cfg struct {
	C18Emb
	ConfigFile string        `dials:"config_file"`
	Marker     string        `dials:"marker"`
	Alpha      int           `dials:"alpha"`
	Beta       string        `dials:"beta"`
	Gamma      bool          `dials:"gamma"`
	Delta      float64       `dials:"delta"`
	Eps        time.Duration `dials:"eps"`
	Phi        []string      `dials:"phi"`
	Chi        uint16        `dials:"chi"`
	Nest       c18Nest       `dials:"nest"`
	Server     c18Server     `dials:"server"`
	// a set: files spell it as a list (ez adds the set-to-slice conversion unless told not to)
	Tags map[string]struct{} `dials:"tags"`
	// two optional settings whose defaults may point at one variable; only the file sets them
	PtrA *int `dials:"ptr_a"`
	PtrB *int `dials:"ptr_b"`
	scn  *c18Scn
}

var errC18Invalid = errors.New("harness: c18 config invalid")

// ConfigPath implements ez.ConfigWithConfigPath.
func (c *c18Cfg) ConfigPath() (string, bool) {
	if c.scn != nil && c.scn.pathAlwaysSet {
		// the common 'return c.Path, true' pattern
		return c.ConfigFile, true
	}
	return c.ConfigFile, c.ConfigFile != ""
}

// Verify implements dials.VerifiedConfig.
func (c *c18Cfg) Verify() error {
	s := c.scn
	if s == nil {
		return nil
	}
	s.mu.Lock()
	s.verifyCalls = append(s.verifyCalls, c18Verify{marker: c.Marker, alpha: c.Alpha})
	need, fail := s.needMarker, s.failVerify
	var reached, release chan struct{}
	if s.holdMarker != "" && c.Marker == s.holdMarker {
		reached, release = s.holdReached, s.holdRelease
		s.holdMarker = ""
	}
	s.mu.Unlock()
	if reached != nil {
		close(reached)
		<-release
	}
	if fail {
		return fmt.Errorf("%w: forced", errC18Invalid)
	}
	if need && c.Marker == "" {
		return fmt.Errorf("%w: marker missing (file layer absent)", errC18Invalid)
	}
	return nil
}

// the leaves that take part in the precedence matrix (flattened key, env name, flag name)
var c18Leaves = []struct{ key, env, flag string }{
	{"alpha", "ALPHA", "alpha"}, {"beta", "BETA", "beta"}, {"gamma", "GAMMA", "gamma"}, {"delta", "DELTA", "delta"},
	{"eps", "EPS", "eps"}, {"phi", "PHI", "phi"}, {"chi", "CHI", "chi"}, {"nest.x_val", "NEST_X_VAL", "nest-x_val"}, {"nest.y_val", "NEST_Y_VAL", "nest-y_val"},
	{"server.port", "SERVER_PORT", "server-port"}, {"server.limits.burst", "SERVER_LIMITS_BURST", "server-limits-burst"},
}

// c18Set assigns leaf k of cfg the value numbered n; returns its text form and the JSON-able file value.
func c18Set(cfg *c18Cfg, k int, n int) (text string, fileVal any) {
	switch k {
	case 0:
		cfg.Alpha = n
		return fmt.Sprint(n), n
	case 1:
		cfg.Beta = fmt.Sprintf("b%d", n)
		return cfg.Beta, cfg.Beta
	case 2:
		cfg.Gamma = n%2 == 0
		return fmt.Sprint(cfg.Gamma), cfg.Gamma
	case 3:
		cfg.Delta = float64(n) + 0.5
		return fmt.Sprint(cfg.Delta), cfg.Delta
	case 4:
		cfg.Eps = time.Duration(n) * time.Second
		return cfg.Eps.String(), cfg.Eps.String()
	case 5:
		cfg.Phi = []string{fmt.Sprintf("p%d", n), "q"}
		return fmt.Sprintf("%q,%q", cfg.Phi[0], cfg.Phi[1]), cfg.Phi
	case 6:
		cfg.Chi = uint16(n)
		return fmt.Sprint(n), n
	case 7:
		cfg.Nest.X = n
		return fmt.Sprint(n), n
	case 8:
		cfg.Nest.Y = fmt.Sprintf("y%d", n)
		return cfg.Nest.Y, cfg.Nest.Y
	case 9:
		cfg.Server.Port = n
		return fmt.Sprint(n), n
	default:
		cfg.Server.Limits.Burst = n
		return fmt.Sprint(n), n
	}
}

func c18PutFile(doc map[string]any, key string, v any) {
	parts := strings.Split(key, ".")
	m := doc
	for _, p := range parts[:len(parts)-1] {
		nm, ok := m[p].(map[string]any)
		if !ok {
			nm = map[string]any{}
			m[p] = nm
		}
		m = nm
	}
	m[parts[len(parts)-1]] = v
}

func c18Render(format string, doc map[string]any) []byte {
	switch format {
	case "yaml":
		b, _ := yaml.Marshal(doc)
		return b
	case "toml":
		var b bytes.Buffer
		toml.NewEncoder(&b).Encode(doc)
		return b.Bytes()
	}
	b, _ := json.Marshal(doc) // JSON is also valid Cue
	return b
}

// c18Recase renders the document's keys in kebab case (the FileFieldNameEncoder of the case).
func c18Recase(doc map[string]any) map[string]any {
	out := map[string]any{}
	for k, v := range doc {
		if m, ok := v.(map[string]any); ok {
			v = c18Recase(m)
		}
		out[strings.ReplaceAll(k, "_", "-")] = v
	}
	return out
}

func c18WriteAtomic(path string, data []byte) error {
	tmp := path + ".tmp"
	if err := os.WriteFile(tmp, data, 0o644); err != nil {
		return err
	}
	return os.Rename(tmp, path)
}

func runC18(w *fw.Worker) {
	os.Clearenv()
	savedArgs := os.Args
	defer func() { os.Args = savedArgs }()
	w.Cases(func(i int, r *fw.Rand) {
		os.Clearenv()
		format := []string{"yaml", "json", "toml", "cue"}[r.Intn(4)]
		byExt := r.Chance(30)
		flagKind := []string{"std", "pflag", "cmdline"}[r.Intn(3)]
		watch := r.Chance(35)
		pathFrom := []string{"default", "env", "flag"}[r.Intn(3)]
		mode := "ok"
		switch r.Intn(10) {
		case 0:
			mode = "missing-file"
		case 1:
			mode = "malformed-file"
		case 2:
			mode = "verify-fails"
		case 3:
			mode = "no-file"
		case 4:
			mode = "empty-path-reported-set"
		}
		ext := map[string]string{"yaml": ".yaml", "json": ".json", "toml": ".toml", "cue": ".cue"}[format]
		path := filepath.Join(w.Scratch, fmt.Sprintf("c18_%d%s", i, ext))
		scn := &c18Scn{needMarker: mode != "no-file" && r.Chance(70), failVerify: mode == "verify-fails", pathAlwaysSet: mode == "empty-path-reported-set" || (mode != "no-file" && r.Chance(20))}
		cfg := &c18Cfg{scn: scn}
		want := c18Cfg{}
		doc := map[string]any{"marker": "from-file"}
		var argv []string
		n := 10
		var matrix strings.Builder
		multi := 0
		for k := range c18Leaves {
			layers := 0
			mask := r.Intn(16)
			matrix.WriteString(fmt.Sprintf("%x", mask))
			if mask&1 != 0 { // default
				n++
				c18Set(cfg, k, n)
				c18Set(&want, k, n)
				layers++
			}
			if mask&2 != 0 && mode != "no-file" && mode != "empty-path-reported-set" { // file
				n++
				_, fv := c18Set(&want, k, n)
				c18PutFile(doc, c18Leaves[k].key, fv)
				layers++
			}
			if mask&4 != 0 { // env
				n++
				text, _ := c18Set(&want, k, n)
				if k == 1 && n%4 == 0 {
					// present but empty: the environment sets the string leaf to "", which outranks file and default
					text, want.Beta = "", ""
					w.Count("env_sets_a_string_leaf_to_the_empty_string", 1)
				}
				os.Setenv(c18Leaves[k].env, text)
				layers++
			}
			if mask&8 != 0 { // flag
				n++
				text, _ := c18Set(&want, k, n)
				argv = append(argv, "--"+c18Leaves[k].flag+"="+text)
				layers++
			}
			if layers >= 2 {
				multi++
			}
		}
		// the path leaf: where it comes from; the file also tries to set it
		if mode != "no-file" && mode != "empty-path-reported-set" {
			switch pathFrom {
			case "default":
				cfg.ConfigFile = path
				want.ConfigFile = path
				if r.Bool() {
					doc["config_file"] = "/nonexistent/from-file"
					want.ConfigFile = "/nonexistent/from-file" // file > default for the leaf itself; the path used is not re-evaluated
				}
			case "env":
				os.Setenv("CONFIG_FILE", path)
				want.ConfigFile = path
				doc["config_file"] = "/nonexistent/from-file"
			case "flag":
				argv = append(argv, "--config_file="+path)
				want.ConfigFile = path
				doc["config_file"] = "/nonexistent/from-file"
			}
			want.Marker = "from-file"
		}
		// the set-typed leaf comes from the file only
		if mode != "no-file" && mode != "empty-path-reported-set" && r.Chance(60) {
			n++
			doc["tags"] = []string{fmt.Sprintf("t%d", n), "u"}
			want.Tags = map[string]struct{}{fmt.Sprintf("t%d", n): {}, "u": {}}
			if r.Chance(30) {
				// the default is a non-empty set
				cfg.Tags = map[string]struct{}{"from-default": {}}
			}
			if r.Chance(25) {
				// the file empties the set: an empty list is a value, not an absent key
				doc["tags"] = []string{}
				want.Tags = map[string]struct{}{}
				w.Count("file_sets_an_empty_set", 1)
			}
		}
		// the embedded struct's leaf: default / file (YAML, flattened to the top level) / env / flag
		flattenAnon := false
		{
			if r.Bool() {
				n++
				cfg.Omega, want.Omega = n, n
			}
			if format == "yaml" && mode != "no-file" && mode != "empty-path-reported-set" && r.Chance(60) {
				flattenAnon = true
				n++
				doc["omega"] = n
				want.Omega = n
				w.Count("yaml_files_setting_a_flattened_embedded_leaf", 1)
			}
			if r.Chance(25) {
				n++
				os.Setenv("OMEGA", fmt.Sprint(n))
				want.Omega = n
			}
			if r.Chance(25) {
				n++
				argv = append(argv, fmt.Sprintf("--omega=%d", n))
				want.Omega = n
			}
		}
		// the embedded struct's other two leaves: each assigned to a subset of {default, file, env, flag} drawn from a
		// stream of its own (so that the file sets any subset of the embedded struct's leaves); the file layer needs
		// YAML with FlattenAnonymousFields, which these draws may switch on as well
		{
			r2 := fw.NewRand(fw.Mix(w.CaseSeed(i), 0xe3bedded))
			fileOK := format == "yaml" && mode != "no-file" && mode != "empty-path-reported-set"
			if fileOK && !flattenAnon && r2.Chance(50) {
				flattenAnon = true
			}
			n2 := 700000 + 16*i
			fileSet := 0
			if _, ok := doc["omega"]; ok {
				fileSet |= 1
			}
			for k, leaf := range []string{"psi", "tau"} {
				set := func(c *c18Cfg) (string, any) {
					n2++
					if leaf == "psi" {
						c.Psi = fmt.Sprintf("s%d", n2)
						return c.Psi, c.Psi
					}
					c.Tau = float64(n2) + 0.25
					return fmt.Sprint(c.Tau), c.Tau
				}
				mask := r2.Intn(16)
				if mask&1 != 0 {
					set(cfg)
					if leaf == "psi" {
						want.Psi = cfg.Psi
					} else {
						want.Tau = cfg.Tau
					}
				}
				if mask&2 != 0 && fileOK && flattenAnon {
					_, fv := set(&want)
					doc[leaf] = fv
					fileSet |= 2 << k
				}
				if mask&4 != 0 {
					text, _ := set(&want)
					os.Setenv(strings.ToUpper(leaf), text)
				}
				if mask&8 != 0 {
					text, _ := set(&want)
					argv = append(argv, "--"+leaf+"="+text)
				}
			}
			if fileOK && flattenAnon {
				w.Count("yaml_flattened_embedded_struct_cases", 1)
				w.SetAdd("embedded_struct_leaves_set_by_the_file(bit0=first..bit2=last)", fmt.Sprintf("%03b", fileSet))
				if fileSet != 0 && fileSet != 7 {
					w.Count("yaml_files_setting_some_but_not_all_leaves_of_the_embedded_struct", 1)
				}
			}
		}
		// pointer leaves: defaults share one variable in some cases; the file sets at most one of them
		{
			shared := 5000 + i
			a, b := shared, shared
			switch r.Intn(3) {
			case 0:
				cfg.PtrA, cfg.PtrB = &shared, &shared
				want.PtrA, want.PtrB = &a, &b
				w.Count("pointer_defaults_sharing_a_variable", 1)
			case 1:
				cfg.PtrA, cfg.PtrB = &a, &b
				a2, b2 := a, b
				want.PtrA, want.PtrB = &a2, &b2
			}
			if mode != "no-file" && mode != "empty-path-reported-set" && r.Chance(50) {
				n++
				v := n
				if r.Bool() {
					doc["ptr_a"] = v
					want.PtrA = &v
				} else {
					doc["ptr_b"] = v
					want.PtrB = &v
				}
			}
		}
		// some applications spell file keys differently from the dials tags
		kebab := r.Chance(35)
		if kebab {
			doc = c18Recase(doc)
		}
		text := c18Render(format, doc)
		switch mode {
		case "malformed-file":
			text = []byte("{{{ : not valid in any format ]]]\n\t- x")
			os.WriteFile(path, text, 0o644)
		case "missing-file", "no-file", "empty-path-reported-set":
		default:
			os.WriteFile(path, text, 0o644)
		}
		defer os.Remove(path)
		desc := map[string]any{"format": format, "by_extension": byExt, "flag_source": flagKind, "watch": watch, "path_from": pathFrom, "mode": mode, "argv": argv, "document": string(text), "env": os.Environ(), "need_marker": scn.needMarker, "file_keys_kebab": kebab}
		params := ez.Params[c18Cfg]{WatchConfigFile: watch,
			OnNewConfig: func(_ context.Context, old, _ *c18Cfg) {
				scn.mu.Lock()
				scn.newCfg++
				if old != nil {
					scn.newCfgOldMarkers = append(scn.newCfgOldMarkers, old.Marker)
				}
				scn.mu.Unlock()
			},
			OnWatchedError: func(_ context.Context, err error, _, _ *c18Cfg) {
				scn.mu.Lock()
				scn.watchedErr = append(scn.watchedErr, err.Error())
				scn.mu.Unlock()
			},
		}
		params.FlattenAnonymousFields = flattenAnon
		if kebab {
			params.DialsTagNameDecoder = caseconversion.DecodeLowerSnakeCase
			params.FileFieldNameEncoder = caseconversion.EncodeKebabCase
		}
		twice := false
		switch flagKind {
		case "std":
			fs, err := stdflagsrc.NewSetWithArgs(stdflagsrc.DefaultFlagNameConfig(), cfg, argv)
			if err != nil {
				w.Violation(i, "flag-registration-error", err.Error(), desc)
				return
			}
			params.FlagSource = fs
		case "pflag":
			// pflag's own StringSlice reads CSV
			pargv := append([]string{}, argv...)
			for k, a := range pargv {
				if strings.HasPrefix(a, "--phi=") {
					pargv[k] = "--phi=" + strings.ReplaceAll(strings.TrimPrefix(a, "--phi="), `"`, "")
				}
			}
			fs, err := pflagsrc.NewSetWithArgs(pflagsrc.DefaultFlagNameConfig(), cfg, pargv)
			if err != nil {
				w.Violation(i, "flag-registration-error", err.Error(), desc)
				return
			}
			params.FlagSource = fs
		case "cmdline":
			stdflag.CommandLine = stdflag.NewFlagSet("c18", stdflag.ContinueOnError)
			stdflag.CommandLine.SetOutput(discard{})
			os.Args = append([]string{"c18"}, argv...)
			twice = r.Chance(25) && !watch
		}
		ctx, cancel := context.WithCancel(context.Background())
		defer cancel()
		// in some watching cases the callback goroutine is held at its first dequeue (the version that brought the
		// file in, announced while the global callbacks are still suppressed) until the first watched change has
		// been installed: that version must stay hidden from OnNewConfig whenever it is processed
		var releaseCB func()
		if watch && mode == "ok" && r.Chance(40) {
			conc.InstallHooks()
			cs := conc.NewScenario(ctx)
			ctx = cs.Ctx
			release := make(chan struct{})
			var once, relOnce sync.Once
			releaseCB = func() { relOnce.Do(func() { close(release) }) }
			defer releaseCB()
			cs.Hook = func(name string, _ context.Context, _ []any) {
				if name == "cb.dequeue" {
					once.Do(func() {
						select {
						case <-release:
						case <-time.After(5 * time.Second):
						}
					})
				}
			}
			w.Count("cases_with_the_callback_goroutine_held_at_its_first_dequeue", 1)
		}
		call := func(c *c18Cfg) (*dials.Dials[c18Cfg], error) {
			if byExt {
				return ez.FileExtensionDecoderConfigEnvFlag(ctx, c, params)
			}
			switch format {
			case "yaml":
				return ez.YAMLConfigEnvFlag(ctx, c, params)
			case "json":
				return ez.JSONConfigEnvFlag(ctx, c, params)
			case "toml":
				return ez.TOMLConfigEnvFlag(ctx, c, params)
			}
			return ez.CueConfigEnvFlag(ctx, c, params)
		}
		d, err := call(cfg)
		if twice && err == nil {
			// the application (or a library) runs the entry point again on the same flag.CommandLine
			cfg2 := *cfg
			d, err = call(&cfg2)
			desc["called_twice"] = true
		}
		if mode == "empty-path-reported-set" {
			// ConfigPath said "there is a file" with an empty path: that file cannot be read, so the entry point must fail,
			// and Verify must not have been run on the file-less config
			if err == nil {
				w.Violation(i, "ez-succeeded-with-empty-config-path", "ConfigPath returned (\"\", true) and the entry point succeeded without reading a file", desc)
				return
			}
			scn.mu.Lock()
			nv := len(scn.verifyCalls)
			scn.mu.Unlock()
			if nv > 0 {
				w.Violation(i, "verify-saw-config-without-file-layer:empty-path", fmt.Sprintf("Verify was called %d time(s) although the configured file was never read", nv), desc)
				return
			}
			w.Count("error_cases_checked", 1)
			return
		}
		switch mode {
		case "missing-file", "malformed-file":
			if err == nil {
				w.Violation(i, "ez-succeeded-with-"+mode, "the entry point returned no error", desc)
			} else {
				w.Count("error_cases_checked", 1)
			}
			return
		case "verify-fails":
			if err == nil {
				w.Violation(i, "ez-succeeded-although-verify-fails", "Verify returned an error on the full stack but the entry point succeeded", desc)
			} else if !errors.Is(err, errC18Invalid) {
				w.Violation(i, "ez-error-does-not-wrap-verify-error", err.Error(), desc)
			} else {
				w.Count("error_cases_checked", 1)
			}
			c18VerifyLog(w, i, scn, mode, desc)
			return
		}
		if err != nil {
			key := "ez-error-on-valid-setup"
			if errors.Is(err, errC18Invalid) {
				key = "ez-verified-a-config-without-the-file-layer"
			}
			w.Violation(i, key, err.Error(), desc)
			return
		}
		got := *d.View()
		got.scn, want.scn = nil, nil
		if df := gen.Diff(reflect.ValueOf(want), reflect.ValueOf(got)); df != "" {
			leaf := strings.SplitN(strings.TrimPrefix(df, "."), ":", 2)[0]
			w.Violation(i, "precedence-violated:"+strings.SplitN(leaf, "[", 2)[0]+":flags="+flagKind, "reference (default<file<env<flag) vs view at "+df, desc)
			return
		}
		w.Count("first_views_compared", 1)
		if !c18VerifyLog(w, i, scn, mode, desc) {
			return
		}
		// neither Events nor the global callbacks expose the intermediate config
		select {
		case c := <-d.Events():
			w.Violation(i, "events-exposes-a-config-after-return", fmt.Sprintf("Events() delivered a config (marker=%q) right after the entry point returned", c.Marker), desc)
			return
		default:
			w.Count("events_channel_checked_empty", 1)
		}
		scn.mu.Lock()
		nc, we := scn.newCfg, len(scn.watchedErr)
		scn.mu.Unlock()
		if nc != 0 || we != 0 {
			w.Violation(i, "global-callback-fired-during-setup", fmt.Sprintf("OnNewConfig calls: %d, OnWatchedError calls: %d before the entry point returned", nc, we), desc)
			return
		}
		if watch && mode == "ok" {
			// rewrite the file: new values for the file-assigned leaves; precedence must hold again
			doc2 := map[string]any{"marker": "from-file-2"}
			if want.Tags != nil {
				n++
				doc2["tags"] = []string{fmt.Sprintf("t%d", n)}
			}
			want2 := want
			want2.Marker = "from-file-2"
			if l, ok := doc2["tags"].([]string); ok {
				want2.Tags = map[string]struct{}{l[0]: {}}
			}
			for k, v := range doc {
				if k == "config_file" || k == "config-file" {
					doc2["config_file"] = v
				}
				if sk := strings.ReplaceAll(k, "-", "_"); sk == "ptr_a" || sk == "ptr_b" || sk == "omega" || sk == "psi" || sk == "tau" {
					doc2[sk] = v // the rewritten file keeps the pointer leaves as they were
				}
			}
			// recompute: a leaf currently showing the file's value (no env/flag override) changes
			cfgProbe := c18Cfg{}
			m := matrix.String()
			for k := range c18Leaves {
				mask := int(strings.IndexByte("0123456789abcdef", m[k]))
				if mask&2 != 0 {
					n++
					_, fv := c18Set(&cfgProbe, k, n)
					c18PutFile(doc2, c18Leaves[k].key, fv)
					if mask&12 == 0 {
						c18Set(&want2, k, n)
					}
				}
			}
			before := len(scn.verifyCalls)
			if kebab {
				doc2 = c18Recase(doc2)
			}
			if err := c18WriteAtomic(path, c18Render(format, doc2)); err != nil {
				w.Note("rewrite failed: " + err.Error())
				return
			}
			ok := conc.WaitUntil(func() bool {
				g := *d.View()
				g.scn = nil
				return gen.Diff(reflect.ValueOf(want2), reflect.ValueOf(g)) == ""
			}, 15*time.Second)
			if !ok {
				g := *d.View()
				g.scn = nil
				if g.Marker == "from-file-2" {
					w.Violation(i, "precedence-violated-after-watched-change", gen.Diff(reflect.ValueOf(want2), reflect.ValueOf(g)), desc)
				} else {
					w.Inconclusive(i, "watched rewrite not observed within the watchdog (C17 judges convergence)")
				}
				return
			}
			w.Count("watched_rewrites_converged", 1)
			if releaseCB != nil {
				releaseCB()
			}
			scn.mu.Lock()
			calls := append([]c18Verify(nil), scn.verifyCalls[before:]...)
			scn.mu.Unlock()
			for _, vc := range calls {
				if vc.marker == "" {
					w.Violation(i, "verify-saw-config-without-file-layer:after-watched-change", "a re-stack was verified without the file layer", desc)
					return
				}
			}
			if !conc.WaitUntil(func() bool { scn.mu.Lock(); defer scn.mu.Unlock(); return scn.newCfg > 0 }, 5*time.Second) {
				w.Violation(i, "onnewconfig-not-delivered-after-watched-change", "the file change was installed but OnNewConfig never fired", desc)
				return
			}
			scn.mu.Lock()
			olds := append([]string(nil), scn.newCfgOldMarkers...)
			scn.mu.Unlock()
			for _, m := range olds {
				if m == "" {
					w.Violation(i, "global-callback-exposed-the-file-less-intermediate-config", fmt.Sprintf("an OnNewConfig call had the config without the file layer as its old config (old markers of all calls: %q)", olds), desc)
					return
				}
			}
		}
		if watch && mode == "ok" && r.Chance(8) {
			// the monitor is busy (a slow Verify) for a while, and the file changes again meanwhile: the later change
			// must still arrive
			mk := func(marker string) []byte {
				d := map[string]any{"marker": marker}
				if kebab {
					d = c18Recase(d)
				}
				return c18Render(format, d)
			}
			scn.mu.Lock()
			scn.holdMarker, scn.holdReached, scn.holdRelease = "from-file-3", make(chan struct{}), make(chan struct{})
			reached, release := scn.holdReached, scn.holdRelease
			scn.mu.Unlock()
			c18WriteAtomic(path, mk("from-file-3"))
			select {
			case <-reached:
			case <-time.After(15 * time.Second):
				close(release)
				w.Inconclusive(i, "the watched change did not reach Verify within the watchdog")
				return
			}
			c18WriteAtomic(path, mk("from-file-4"))
			time.Sleep(time.Duration(r.Range(600, 900)) * time.Millisecond)
			close(release)
			if !conc.WaitUntil(func() bool { return d.View().Marker == "from-file-4" }, 15*time.Second) {
				w.Violation(i, "watched-change-lost-while-the-monitor-was-busy", fmt.Sprintf("the file holds marker from-file-4; the view still shows %q 15s after the slow Verify returned", d.View().Marker), desc)
				return
			}
			w.Count("changes_during_a_slow_verify_converged", 1)
		}
		if watch && mode == "ok" && r.Chance(20) {
			// deploy tools that preserve timestamps (rsync -t, cp -p, reproducible packages): the file is replaced
			// twice by files of the same length carrying the same old mtime; each replacement must be noticed
			old := time.Unix(1_000_000_000, 0)
			mk := func(marker string) []byte {
				d := map[string]any{"marker": marker}
				if kebab {
					d = c18Recase(d)
				}
				return c18Render(format, d)
			}
			okAll := true
			for _, marker := range []string{"from-file-6", "from-file-7"} {
				tmp := path + ".pre"
				if err := os.WriteFile(tmp, mk(marker), 0o644); err != nil {
					okAll = false
					break
				}
				os.Chtimes(tmp, old, old)
				if err := os.Rename(tmp, path); err != nil {
					okAll = false
					break
				}
				if !conc.WaitUntil(func() bool { return d.View().Marker == marker }, 15*time.Second) {
					w.Violation(i, "watched-change-not-installed:same-size-and-preserved-mtime", fmt.Sprintf("the file was replaced (rename-over) by one of the same length with the same, old, modification time; it holds marker %s, the view still shows %q after 15s", marker, d.View().Marker), desc)
					return
				}
			}
			if okAll {
				w.Count("same_size_same_mtime_replacements_converged", 2)
			}
		}
		if multi > 0 {
			w.Distinct(fmt.Sprintf("%s|%v|%s|%s|%v|%v|%v|%s", format, byExt, flagKind, pathFrom, watch, kebab, want.Tags != nil, matrix.String()))
		}
		if i%67 == 0 {
			w.Sample(desc)
		}
	})
}

// c18VerifyLog: Verify ran at least once and only ever on configs that include the file layer.
func c18VerifyLog(w *fw.Worker, i int, scn *c18Scn, mode string, desc any) bool {
	scn.mu.Lock()
	calls := append([]c18Verify(nil), scn.verifyCalls...)
	scn.mu.Unlock()
	if len(calls) == 0 {
		w.Violation(i, "verify-never-called", "the entry point returned without ever calling Verify", desc)
		return false
	}
	if mode == "no-file" {
		return true
	}
	for _, vc := range calls {
		if vc.marker == "" {
			w.Violation(i, "verify-saw-config-without-file-layer", fmt.Sprintf("Verify was called on the file-less intermediate config (%d calls)", len(calls)), desc)
			return false
		}
	}
	w.Count("verify_calls_with_file_layer", int64(len(calls)))
	return true
}
