package checks

import (
	"bytes"
	"io"
	"reflect"
	"sync/atomic"

	"github.com/vimeo/dials"
)

// ---------------------------------------------------------------------------
// C17 reader-style decoders. A dials.Decoder is handed an io.Reader and is free
// to drain it any legitimate way. The stock decoders use io.ReadAll; these
// harness decoders read the same bytes differently and then delegate to the
// stock JSON/YAML decoder:
//
//   io.Copy       io.Copy(&buf, r)            (uses r's WriterTo when it has one)
//   io.WriterTo   r.(io.WriterTo).WriteTo(&buf) when available, else io.ReadAll
//   io.ReaderAt   r.(io.ReaderAt).ReadAt at growing offsets when available
//                 (rewinding through io.Seeker is not needed), else io.ReadAll
//
// Whatever the file source puts between the file and the decoder (checksum
// tee), the content that was decoded is the content whose checksum must be
// recorded. The expected config is as for the stock decoders.
// ---------------------------------------------------------------------------

var c17ReadModes = []string{"io.Copy", "io.WriterTo", "io.ReaderAt"}

var (
	c17ReadViaRead     atomic.Int64
	c17ReadViaWriterTo atomic.Int64
	c17ReadViaReaderAt atomic.Int64
	c17ReadViaCopy     atomic.Int64
)

type c17ReadDecoder struct {
	inner dials.Decoder
	mode  string
}

func (d *c17ReadDecoder) slurp(r io.Reader) ([]byte, error) {
	switch d.mode {
	case "io.Copy":
		var buf bytes.Buffer
		c17ReadViaCopy.Add(1)
		_, err := io.Copy(&buf, r)
		return buf.Bytes(), err
	case "io.WriterTo":
		if wt, ok := r.(io.WriterTo); ok {
			var buf bytes.Buffer
			c17ReadViaWriterTo.Add(1)
			_, err := wt.WriteTo(&buf)
			return buf.Bytes(), err
		}
	case "io.ReaderAt":
		if ra, ok := r.(io.ReaderAt); ok {
			c17ReadViaReaderAt.Add(1)
			var out []byte
			chunk := make([]byte, 700)
			for {
				n, err := ra.ReadAt(chunk, int64(len(out)))
				out = append(out, chunk[:n]...)
				if err == io.EOF {
					return out, nil
				}
				if err != nil {
					return out, err
				}
				if n == 0 {
					return out, io.ErrNoProgress
				}
			}
		}
	}
	c17ReadViaRead.Add(1)
	return io.ReadAll(r)
}

// Decode implements dials.Decoder.
func (d *c17ReadDecoder) Decode(r io.Reader, t *dials.Type) (reflect.Value, error) {
	b, err := d.slurp(r)
	if err != nil {
		return reflect.Value{}, err
	}
	return d.inner.Decode(bytes.NewReader(b), t)
}
