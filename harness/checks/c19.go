package checks

import (
	"fmt"
	"reflect"
	"runtime/debug"
	"strings"
	"sync"
	"sync/atomic"

	"github.com/vimeo/dials/tagformat/caseconversion"

	"verifharness/fw"
	"verifharness/gen"
)

type caseScheme struct {
	name string
	enc  caseconversion.EncodeCasingFunc
	dec  caseconversion.DecodeCasingFunc
}

var caseSchemes = []caseScheme{
	{"UpperCamelCase", caseconversion.EncodeUpperCamelCase, caseconversion.DecodeUpperCamelCase},
	{"lowerCamelCase", caseconversion.EncodeLowerCamelCase, caseconversion.DecodeLowerCamelCase},
	{"lower_snake_case", caseconversion.EncodeLowerSnakeCase, caseconversion.DecodeLowerSnakeCase},
	{"UPPER_SNAKE_CASE", caseconversion.EncodeUpperSnakeCase, caseconversion.DecodeUpperSnakeCase},
	{"kebab-case", caseconversion.EncodeKebabCase, caseconversion.DecodeKebabCase},
	{"case_Preserving_snake", caseconversion.EncodeCasePreservingSnakeCase, caseconversion.DecodeCasePreservingSnakeCase},
}

func init() {
	fw.Register(&fw.Check{
		ID: "C19",
		Rule: "Part A: every list (length 1..2 quick, 1..3 thorough) of words over the alphabet {a,b,z,0,9}, word length <=3, first char a letter (93 words) is enumerated " +
			"exhaustively for each of the 6 encoder/decoder pairs and Decode(Encode(list)) must equal list; plus seeded long lists (up to 8 words of up to 10 chars over [a-z0-9]), plus a length sweep: for every ENCODED length from 1 to 200 bytes a list of 1..4 words that encodes to exactly that length, for every scheme. " +
			"Part B: Go identifiers assembled from the harness's own vocabulary (71 capitalised ordinary words of length >=2, five of them ending in digits (Sha256, Md5, Base64, Port2, Ab1), 38 initialisms, 9 plural initialisms such as IDs/URLs used only as the last word after an ordinary word): exhaustive for 1..2 items, seeded for 3..5 items; " +
			"only names whose runs of initialisms have a unique segmentation are judged; DecodeGoCamelCase(name) must equal the generating words. " +
			"distinct_nontrivial counts distinct (scheme, list) pairs with >=2 words (Part A, distinct by construction for the exhaustive part, hashed for seeded) plus distinct judged identifiers with >=2 items (Part B).",
		Assumptions: []string{
			"the empty word list is excluded (it encodes to the empty string, which no scheme can decode to an identifier)",
			"single-letter-plus-digits words (V2, S3) are not in the vocabulary: capitalised they are all upper-case and their split from a neighbouring initialism is not fixed by the statement",
		},
		MinDistinct: map[string]int{"quick": 40000, "thorough": 3000000},
		MinCounters: map[string]map[string]int64{"quick": {"length_sweep_round_trips": 4000}, "thorough": {"length_sweep_round_trips": 4000}},
		Plan: func(tier string) fw.Plan {
			if tier == "thorough" {
				return fw.Plan{Shards: 16, CasesPerShard: 500000, TimeoutSec: 3000}
			}
			return fw.Plan{Shards: 8, CasesPerShard: 4000, TimeoutSec: 600}
		},
		Run: runC19,
	})
}

func c19Words() []string {
	letters := []string{"a", "b", "z"}
	all := []string{"a", "b", "z", "0", "9"}
	var out []string
	for _, l := range letters {
		out = append(out, l)
		for _, x := range all {
			out = append(out, l+x)
			for _, y := range all {
				out = append(out, l+x+y)
			}
		}
	}
	return out
}

func c19CheckRoundTrip(w *fw.Worker, idx int, sc caseScheme, words []string) {
	enc := sc.enc(caseconversion.DecodedIdentifier(words))
	dec, err := sc.dec(enc)
	if err != nil {
		w.Violation(idx, "roundtrip-error:"+sc.name, fmt.Sprintf("%s: Decode(Encode(%q)=%q) returned error: %v", sc.name, words, enc, err),
			map[string]any{"scheme": sc.name, "words": words, "encoded": enc})
		return
	}
	if !reflect.DeepEqual([]string(dec), words) {
		w.Violation(idx, "roundtrip-mismatch:"+sc.name, fmt.Sprintf("%s: Decode(Encode(%q)=%q) = %q", sc.name, words, enc, []string(dec)),
			map[string]any{"scheme": sc.name, "words": words, "encoded": enc, "decoded": []string(dec)})
	}
}

func c19CheckGoName(w *fw.Worker, idx int, words []string) bool {
	if !gen.UniqueSegmentation(words) || !gen.PluralPlacementOK(words) {
		w.Count("goident_skipped_ambiguous", 1)
		return false
	}
	name := gen.GoName(words)
	dec, err := caseconversion.DecodeGoCamelCase(name)
	w.Count("goident_judged", 1)
	if err != nil {
		w.Violation(idx, "goident-error", fmt.Sprintf("DecodeGoCamelCase(%q) error: %v (words %q)", name, err, words), map[string]any{"name": name, "words": words})
		return true
	}
	if !reflect.DeepEqual([]string(dec), words) {
		// key: which item class is mis-split, so distinct defects stay distinct
		key := "goident-mismatch:" + c19Classify(words, dec)
		w.Violation(idx, key, fmt.Sprintf("DecodeGoCamelCase(%q) = %q, want %q", name, []string(dec), words),
			map[string]any{"name": name, "words": words, "decoded": []string(dec)})
		return true
	}
	// the decoded words belong to the caller: overwriting them must not change what the name decodes to next
	for k := range dec {
		dec[k] = "#overwritten-by-the-caller"
	}
	dec2, err2 := caseconversion.DecodeGoCamelCase(name)
	w.Count("goident_decoded_again_after_overwriting_the_result", 1)
	if err2 != nil || !reflect.DeepEqual([]string(dec2), words) {
		w.Violation(idx, "goident-result-shared-between-calls", fmt.Sprintf("DecodeGoCamelCase(%q) = %q (err %v) after the caller overwrote the words of the previous result; want %q", name, []string(dec2), err2, words),
			map[string]any{"name": name, "words": words})
	}
	return true
}

// c19Classify names the class of the mismatch. The one known class: the name
// ends in <run of initialisms><two-letter capitalised word> and the decoder
// returned that run and the final word glued together as one token, everything
// before it being right (a trailing Upper+lower pair is deliberately not a
// boundary so that plurals like IDs and URLs stay one word).
func c19Classify(words []string, dec []string) string {
	n := len(words)
	if n >= 2 && len(words[n-1]) == 2 && !gen.IsInitialism(words[n-1]) && gen.IsInitialism(words[n-2]) {
		k := n - 2
		for k > 0 && gen.IsInitialism(words[k-1]) {
			k--
		}
		// the glued token is the final word and the initialisms of the run
		// before it, from some point j of the run on (the whole run, or the
		// part after a digit-terminated initialism such as UTF8, after which
		// the decoder does see a boundary)
		for j := k; j <= n-2; j++ {
			glued := strings.Join(words[j:], "")
			if len(dec) != j+1 || dec[j] != glued {
				continue
			}
			same := true
			for i := 0; i < j; i++ {
				if dec[i] != words[i] {
					same = false
				}
			}
			if same {
				return "initialism-run-then-final-two-letter-word"
			}
		}
	}
	for i, wd := range words {
		if i >= len(dec) || dec[i] != wd {
			kind := "word"
			if gen.IsInitialism(wd) {
				kind = "initialism=" + strings.ToUpper(wd)
			} else if len(wd) == 2 {
				kind = "two-letter-word"
			}
			pos := "middle"
			if i == len(words)-1 {
				pos = "last"
			} else if i == 0 {
				pos = "first"
			}
			prev := "start"
			if i > 0 {
				if gen.IsInitialism(words[i-1]) {
					prev = "after-initialism"
				} else {
					prev = "after-word"
				}
			}
			return kind + "," + pos + "," + prev
		}
	}
	return "extra-words"
}

func runC19(w *fw.Worker) {
	words := c19Words()
	nw := len(words)
	maxLen := w.Pick(2, 3)
	// ---- Part A exhaustive: enumerate list index space, sharded by modulo
	total := 0
	pow := 1
	for l := 1; l <= maxLen; l++ {
		pow *= nw
		total += pow
	}
	if w.ReplayCase < 0 && w.Shard == 0 {
		// ---- Part A length sweep: every ENCODED length from 1 to 200 bytes, with 1..4 words, for every scheme (length
		// boundaries of the implementations - buffer sizes, fast paths - are invisible to a sweep over word lists)
		for total := 1; total <= 200; total++ {
			for n := 1; n <= 4 && n <= total; n++ {
				for _, sc := range caseSchemes {
					sep := 0
					if e := sc.enc(caseconversion.DecodedIdentifier{"a", "b"}); len(e) == 3 {
						sep = 1
					}
					letters := total - sep*(n-1)
					if letters < n {
						continue
					}
					ws := make([]string, n)
					rest := letters
					for k := 0; k < n; k++ {
						l := rest / (n - k)
						if k == n-1 {
							l = rest
						}
						b := make([]byte, l)
						for j := range b {
							b[j] = byte('a' + (j+k+total)%26)
						}
						if l > 1 && (k+total)%3 == 0 {
							b[l-1] = byte('0' + total%10) // a digit at the end of the word
						}
						ws[k] = string(b)
						rest -= l
					}
					if enc := sc.enc(caseconversion.DecodedIdentifier(ws)); len(enc) != total {
						continue
					}
					c19CheckRoundTrip(w, -1, sc, ws)
					w.Eval(1)
					w.Count("length_sweep_round_trips", 1)
				}
			}
		}
	}
	if w.ReplayCase < 0 {
		idx := 0
		var list []string
		for l := 1; l <= maxLen; l++ {
			n := 1
			for i := 0; i < l; i++ {
				n *= nw
			}
			for k := 0; k < n; k++ {
				if idx%w.Shards == w.Shard {
					list = list[:0]
					x := k
					for i := 0; i < l; i++ {
						list = append(list, words[x%nw])
						x /= nw
					}
					for _, sc := range caseSchemes {
						c19CheckRoundTrip(w, -1, sc, append([]string{}, list...))
					}
					w.Eval(int64(len(caseSchemes)))
					if l >= 2 {
						w.DistinctN(int64(len(caseSchemes)))
					}
					if idx%100003 == 7 && w.WantSample() {
						w.Sample(map[string]any{"part": "A-exhaustive", "words": append([]string{}, list...), "UpperCamelCase": caseconversion.EncodeUpperCamelCase(list), "kebab": caseconversion.EncodeKebabCase(list)})
					}
				}
				idx++
			}
		}
		w.Count("partA_exhaustive_lists_total_space", int64(total/w.Shards))

		// ---- Part B exhaustive for 1..2 items
		vocab := gen.Vocabulary()
		idx = 0
		for _, a := range vocab {
			if idx%w.Shards == w.Shard {
				c19CheckGoName(w, -1, []string{a})
				w.Eval(1)
			}
			idx++
			for _, b := range vocab {
				if idx%w.Shards == w.Shard {
					if c19CheckGoName(w, -1, []string{a, b}) {
						w.DistinctN(1)
					}
					w.Eval(1)
				}
				idx++
			}
		}
	}
	// ---- alignment sweep: every initialism at every byte offset 0..80 inside one run of adjacent initialisms (the
	// filler is made of ID (2 bytes) and API (3 bytes)), followed by nothing, by another initialism or by an ordinary word
	if w.ReplayCase < 0 {
		idx := 0
		for off := 0; off <= 80; off++ {
			var filler []string
			rem := off
			if rem == 1 {
				continue
			}
			for rem > 0 {
				if rem%2 == 1 {
					filler = append(filler, "api")
					rem -= 3
				} else {
					filler = append(filler, "id")
					rem -= 2
				}
			}
			for _, ini := range gen.Initialisms {
				for tail := 0; tail < 3; tail++ {
					idx++
					if idx%w.Shards != w.Shard {
						continue
					}
					ws := append(append([]string{}, filler...), strings.ToLower(ini))
					switch tail {
					case 1:
						ws = append(ws, "url")
					case 2:
						ws = append(ws, "port")
					}
					func() {
						defer func() {
							if p := recover(); p != nil {
								st := string(debug.Stack())
								w.Violation(-1, "panic:"+fw.TopDialsFrame(st), fmt.Sprintf("DecodeGoCamelCase(%q) panicked: %v", gen.GoName(ws), p), map[string]any{"words": ws, "stack": fw.TrimStack(st)})
							}
						}()
						if c19CheckGoName(w, -1, ws) {
							w.DistinctN(1)
							w.Count("goident_alignment_sweep_names", 1)
						}
					}()
					w.Eval(1)
				}
			}
		}
	}
	// ---- concurrent round trips: the encoders and decoders are plain functions and must be safe to call from
	// many goroutines at once (sources and decoders of several Dials instances do exactly that)
	if w.ReplayCase < 0 {
		var wg sync.WaitGroup
		var bad atomic.Int64
		var firstBad atomic.Value
		nG, per := 12, w.Pick(6000, 60000)
		for g := 0; g < nG; g++ {
			rr := fw.NewRand(fw.Mix(w.Seed, uint64(w.Shard*1000+g)))
			wg.Add(1)
			go func(rr *fw.Rand) {
				defer wg.Done()
				defer func() {
					if p := recover(); p != nil {
						bad.Add(1)
						firstBad.CompareAndSwap(nil, fmt.Sprintf("panic in a concurrent encode/decode: %v", p))
					}
				}()
				for k := 0; k < per; k++ {
					ws := gen.RandomWords(rr, rr.Range(1, 4), 0)
					sc := caseSchemes[rr.Intn(2)] // the two camel-case schemes share the title caser
					enc := sc.enc(caseconversion.DecodedIdentifier(ws))
					dec, err := sc.dec(enc)
					if err != nil || !reflect.DeepEqual([]string(dec), ws) {
						bad.Add(1)
						firstBad.CompareAndSwap(nil, fmt.Sprintf("%s: %q -> %q -> %q (err %v) under %d concurrent goroutines", sc.name, ws, enc, []string(dec), err, nG))
					}
				}
			}(rr)
		}
		wg.Wait()
		w.Eval(int64(nG * per))
		w.Count("concurrent_roundtrips", int64(nG*per))
		if bad.Load() > 0 {
			msg, _ := firstBad.Load().(string)
			w.Violation(-1, "roundtrip-mismatch-under-concurrency", fmt.Sprintf("%d of %d concurrent camel-case round trips failed; first: %s", bad.Load(), nG*per, msg), nil)
		}
	}
	// ---- seeded part (replayable by case index)
	alphabet := "abcdefghijklmnopqrstuvwxyz0123456789"
	w.Cases(func(i int, r *fw.Rand) {
		if r.Bool() {
			n := r.Range(2, 8)
			list := make([]string, n)
			for j := range list {
				l := r.Range(1, 10)
				b := make([]byte, l)
				b[0] = alphabet[r.Intn(26)]
				for k := 1; k < l; k++ {
					b[k] = alphabet[r.Intn(len(alphabet))]
				}
				list[j] = string(b)
			}
			sc := caseSchemes[r.Intn(len(caseSchemes))]
			c19CheckRoundTrip(w, i, sc, list)
			w.Distinct("A|" + sc.name + "|" + strings.Join(list, ","))
			if i%997 == 3 {
				w.Sample(map[string]any{"part": "A-seeded", "scheme": sc.name, "words": list, "encoded": sc.enc(list)})
			}
		} else {
			n := r.Range(3, 5)
			ws := gen.MaybeUnicode(r, gen.RandomWords(r, n, 45), 10)
			if r.Chance(12) {
				// a long run of adjacent initialisms (JSONAPIURLHTTPSSH...), optionally between ordinary words
				k := r.Range(4, 16)
				if r.Chance(25) {
					k = r.Range(17, 48) // runs well beyond 64 bytes
				}
				ws = ws[:0]
				if r.Bool() {
					ws = append(ws, fw.Pick(r, gen.OrdinaryWords))
				}
				for ; k > 0; k-- {
					ws = append(ws, strings.ToLower(fw.Pick(r, gen.Initialisms)))
				}
				if r.Bool() {
					ws = append(ws, fw.Pick(r, gen.OrdinaryWords))
				}
				w.Count("goident_long_initialism_runs_drawn", 1)
			}
			if c19CheckGoName(w, i, ws) {
				w.Distinct("B|" + strings.Join(ws, ","))
				if i%997 == 5 {
					w.Sample(map[string]any{"part": "B-seeded", "words": ws, "name": gen.GoName(ws)})
				}
			}
		}
	})
}
