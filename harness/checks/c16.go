package checks

import (
	"bytes"
	"context"
	"encoding/json"
	"fmt"
	"os"
	"reflect"
	"runtime"
	"runtime/debug"
	"strings"
	"sync/atomic"
	"time"

	"github.com/vimeo/dials"
	cuedec "github.com/vimeo/dials/decoders/cue"
	jsondec "github.com/vimeo/dials/decoders/json"
	tomldec "github.com/vimeo/dials/decoders/toml"
	yamldec "github.com/vimeo/dials/decoders/yaml"
	"github.com/vimeo/dials/parse"
	"github.com/vimeo/dials/ptrify"
	"github.com/vimeo/dials/sources/env"
	"github.com/vimeo/dials/sources/flag/flaghelper"
	"github.com/vimeo/dials/sourcewrap"
	"github.com/vimeo/dials/tagformat/caseconversion"
	"github.com/vimeo/dials/transform"

	"verifharness/fw"
	"verifharness/gen"
)

func init() {
	fw.Register(&fw.Check{
		ID: "C16",
		Rule: "Crash/hang monitor around every textual entry point and every source/decoder/mangler on types made of user-defined named leaves. " +
			"Text part: seeded byte strings - uniform random, and grammar-aware mutations of valid inputs with a dictionary (quotes, backquotes, backslashes, commas, colons, NUL, control bytes, invalid UTF-8, 400-digit numbers, deep nesting) - are fed to parse.String for 60 target types, every parse.* entry point, the flag helpers' Set, all eight case decoders and six encoders, environment values and flag/pflag arguments of fixed rich types, and as file content to the four decoders; every call must return (value of the requested type | error): a recovered panic, a fatal error of the process or a call that makes no progress (heartbeat watchdog + two goroutine dumps in a dials frame) is a violation. " +
			"Type part: seeded reflect.StructOf types with distinct flattened leaf names in which every leaf is a user-defined named scalar/slice/map type, user-declared pointer or embedded struct go through env, both flag sources, the four decoders (well-formed documents) and every shipped mangler chain; no panic, and a successful result must be accepted by the real compose; every fourth type case is followed by one whose type also has user-declared pointers to pointers to scalars (**int, **Level, ***int, ...) and every fourth by one with user-declared pointers to slices and maps (*[]string, *map[string]string, ...), each given well-formed text (violation keys of these carry +ptr-to-ptr-leaves / +ptr-to-collection-leaves). " +
			"distinct_nontrivial = distinct (target, input) pairs for the text part (hashed) plus distinct (family, type-shape) signatures for the type part.",
		Assumptions: []string{"inputs containing NUL cannot be placed in the process environment (os.Setenv rejects them); they reach the env chain through parse.String instead"},
		MinDistinct: map[string]int{"quick": 250000, "thorough": 1200000},
		MinCounters: map[string]map[string]int64{
			"quick":    {"text_calls_returned": 1000000, "type_cases_returned": 4000, "success_results_type_checked": 100000, "env_values_for_top_level_ptr-to-ptr_leaves": 500},
			"thorough": {"text_calls_returned": 15000000},
		},
		Plan: func(tier string) fw.Plan {
			if tier == "thorough" {
				return fw.Plan{Shards: 64, CasesPerShard: 60000, Parallel: 16, TimeoutSec: 3300}
			}
			return fw.Plan{Shards: 16, CasesPerShard: 30000, TimeoutSec: 900}
		},
		Run: runC16,
	})
}

var c16Dict = []string{`"`, "`", `\`, ",", ":", "'", "\x00", "\x01", "\x7f", "\xff", "\xc3\x28", "\xed\xa0\x80", " ", "\t", "\n", "=", "-", "--", "+", "0x", "0b", "0o", "_", "e", "E", "i", "(", ")", "[", "]", "{", "}", "null", "true", "nan", "inf", "1e999", "-0", ".", "..", "é", "日本", "\u2028", "İ", "\u212a", "\u212b", "\u2126", "ẞ", "Ǆ", "ǅ", "ß", "ﬁ", "//", "/*", "#", "<<", "&", "*", "!", "|", ">", "%", "@"}

var c16Valid = []string{
	"42", "-7", "0x1F", "0b101", "1_000", "3.25", "1e10", "(1+2i)", "true", "false", "1h2m3s", "2020-01-02T03:04:05Z", "10.0.0.1", "3:4",
	`"a","b"`, "a,b,c", `"k":"v","k2":"v2"`, "k:v", `"x\ty"`, "1,2,3", "-128,127", "0,65535",
	"JSONFilePath", "userID", "tKK", "İİİA", "ÅngströmUnit", "ΩmegaValue", "straßeName", "KelvinKScale", "lower_snake_case", "UPPER_SNAKE_CASE", "kebab-case-string", "Case_Preserving_Snake", "lowerCamelCase", "HTTPSPort2",
	`{"a":1,"b":{"c":[1,2,3],"d":"x"}}`,
	`{"waits":["1s",null,"3s"],"wait_by":{"a":null,"b":"2s"},"pair":[null,"1ms"],"elems":[{"X":1},{"X":2},{"X":3},{"X":4},{"X":5}]}`,
	`{"waits":[1000,"2s",3],"wait_by":{"a":7},"pair":[0,0],"elems":[{"X":1},{"X":2},{"X":3}]}`,
	"waits: [1s, null, 3s]\nwait_by: {a: null, b: 2s}\npair: [null, 1ms]\nelems:\n  - x: 1\n  - x: 2\n  - x: 3\n",
	`{"port":1,"level":2,"tags":["a"],"nested":{"depth":3,"names":["n"]},"elems":[{"X":1,"Y":"y"}],"hidden":[{"X":2,"Y":"z"}],"pair":[{"X":1},{"Y":"q"}],"labels":{"k":"v"},"wait":"3s","when":"2020-01-02T03:04:05Z"}`,
	"port: 1\ntags: [a, b]\nnested:\n  depth: 2\nelems:\n  - x: 1\n    y: w\nhidden:\n  - x: 2\nlabels:\n  k: v\nwait: 3s\n",
	"port = 1\ntags = [\"a\"]\nwait = \"3s\"\n[nested]\ndepth = 2\n[[elems]]\nX = 1\n[[hidden]]\nX = 2\nY = \"h\"\n[labels]\nk = \"v\"\n",
	"port: 1\ntags: [\"a\"]\nnested: {depth: 2}\nelems: [{X: 1, Y: \"y\"}]\nhidden: [{X: 2}]\nwait: \"3s\"\n", "a: 1\nb:\n  c: [1, 2]\n  d: x\n", "a = 1\n[b]\nc = [1,2]\nd = \"x\"\n", "a: 1\nb: { c: [1,2], d: \"x\" }\n",
}

func c16Input(r *fw.Rand) string {
	switch r.Intn(10) {
	case 0: // uniform random bytes
		n := r.Intn(24)
		b := make([]byte, n)
		for i := range b {
			b[i] = byte(r.U64())
		}
		return string(b)
	case 1: // long digits
		return strings.Repeat(string(rune('0'+r.Intn(10))), r.Range(20, 400)) + fw.Pick(r, c16Dict)
	case 2: // deep nesting
		open, cls := fw.Pick(r, []string{"[", "{", "(", `{"a":`, "a:\n  ", "[["}), ""
		switch open {
		case "[":
			cls = "]"
		case "{":
			cls = "}"
		case "(":
			cls = ")"
		case `{"a":`:
			cls = "}"
		}
		n := r.Range(5, 300)
		return strings.Repeat(open, n) + fw.Pick(r, c16Valid) + strings.Repeat(cls, n-r.Intn(2))
	default: // mutate a valid input with dictionary items
		s := []byte(fw.Pick(r, c16Valid))
		for k := r.Range(0, 4); k > 0; k-- {
			d := fw.Pick(r, c16Dict)
			pos := r.Intn(len(s) + 1)
			switch r.Intn(4) {
			case 0: // insert
				s = append(s[:pos:pos], append([]byte(d), s[pos:]...)...)
			case 1: // replace a byte
				if len(s) > 0 {
					s[r.Intn(len(s))] = d[0]
				}
			case 2: // delete a span
				if len(s) > 1 {
					a := r.Intn(len(s))
					b := a + r.Intn(len(s)-a)
					s = append(s[:a:a], s[b:]...)
				}
			case 3: // duplicate
				s = append(s, s[r.Intn(len(s)+1):]...)
			}
		}
		return string(s)
	}
}

type c16Rich struct {
	Port   int                 `dials:"port"`
	Level  gen.Level           `dials:"level"`
	Name   gen.Name            `dials:"name"`
	Ratio  gen.Ratio           `dials:"ratio"`
	On     bool                `dials:"on"`
	Wait   time.Duration       `dials:"wait"`
	When   time.Time           `dials:"when"`
	Tags   []string            `dials:"tags"`
	Nums   []int16             `dials:"nums"`
	Labels map[string]string   `dials:"labels"`
	Set    map[string]struct{} `dials:"set"`
	Multi  map[string][]string `dials:"multi"`
	Cx     complex64           `dials:"cx"`
	Nested struct {
		Depth uint8     `dials:"depth"`
		Names gen.Names `dials:"names"`
	} `dials:"nested"`
	Elems  []gen.Elem        `dials:"elems"`
	Hidden []gen.ElemHidden  `dials:"hidden"`
	Pair   [2]gen.ElemHidden `dials:"pair"`
}

// c16DurColl: durations inside collections (the file decoders substitute a parsing type for time.Duration wherever
// it occurs) and a list of structs, for the decoders only.
type c16DurColl struct {
	Waits  []time.Duration          `dials:"waits"`
	WaitBy map[string]time.Duration `dials:"wait_by"`
	Pair   [2]time.Duration         `dials:"pair"`
	Elems  []gen.Elem               `dials:"elems"`
}

var c16RichFields = []string{"PORT", "LEVEL", "NAME", "RATIO", "ON", "WAIT", "WHEN", "TAGS", "NUMS", "LABELS", "SET", "MULTI", "CX", "NESTED_DEPTH", "NESTED_NAMES"}
var c16RichFlags = []string{"port", "level", "name", "ratio", "on", "wait", "when", "tags", "nums", "labels", "set", "multi", "cx", "nested-depth"}

type c16Target struct {
	name string
	call func(s string) (ok bool, typeOK bool)
	// every: run the target only on every n-th eligible input (expensive targets)
	every int
}

func c16Targets() []c16Target {
	var ts []c16Target
	// parse.String for every leaf type and slices of scalars
	var types []reflect.Type
	for _, l := range gen.Leaves {
		if l.Caps&gen.CapEnv != 0 || l.Type.Kind() == reflect.Array {
			types = append(types, l.Type)
			if l.Type.Kind() != reflect.Slice && l.Type.Kind() != reflect.Map {
				types = append(types, reflect.SliceOf(l.Type))
				if l.Type.Comparable() {
					types = append(types, reflect.MapOf(l.Type, reflect.TypeOf(gen.Level(0))))
				}
			}
		}
	}
	types = append(types, reflect.TypeOf(struct{}{}), reflect.TypeOf((*int)(nil)), reflect.TypeOf(make(chan int)), reflect.TypeOf(uintptr(0)), reflect.TypeOf([]gen.Elem{}), reflect.TypeOf(map[string]gen.Names{}))
	for _, t := range types {
		t := t
		ts = append(ts, c16Target{name: "parse.String:" + t.String(), call: func(s string) (bool, bool) {
			v, err := parse.String(s, t)
			if err != nil {
				return false, true
			}
			want := t
			if t.Kind() != reflect.Slice && t.Kind() != reflect.Map {
				want = reflect.PtrTo(t)
			}
			return true, v.IsValid() && v.Type() == want
		}})
	}
	e := func(name string, f func(s string) error) {
		ts = append(ts, c16Target{name: name, call: func(s string) (bool, bool) { return f(s) == nil, true }})
	}
	e("parse.StringSlice", func(s string) error { _, err := parse.StringSlice(s); return err })
	e("parse.StringSet", func(s string) error { _, err := parse.StringSet(s); return err })
	e("parse.StringStringSliceMap", func(s string) error { _, err := parse.StringStringSliceMap(s); return err })
	e("parse.Map[string]string", func(s string) error { _, err := parse.Map(s, reflect.TypeOf(map[string]string{})); return err })
	e("parse.Map[Name]Level", func(s string) error { _, err := parse.Map(s, reflect.TypeOf(map[gen.Name]gen.Level{})); return err })
	e("parse.Map[int]float32", func(s string) error { _, err := parse.Map(s, reflect.TypeOf(map[int]float32{})); return err })
	e("parse.SignedIntegralSlice[int8]", func(s string) error { _, err := parse.SignedIntegralSlice[int8](s); return err })
	e("parse.SignedIntegralSlice[int64]", func(s string) error { _, err := parse.SignedIntegralSlice[int64](s); return err })
	e("parse.UnsignedIntegralSlice[uint16]", func(s string) error { _, err := parse.UnsignedIntegralSlice[uint16](s); return err })
	e("parse.UnsignedIntegralSlice[uintptr]", func(s string) error { _, err := parse.UnsignedIntegralSlice[uintptr](s); return err })
	e("parse.Complex64", func(s string) error { _, err := parse.Complex64(s); return err })
	e("parse.Complex128", func(s string) error { _, err := parse.Complex128(s); return err })
	// flag helpers
	e("flaghelper.StringSliceFlag", func(s string) error {
		var x []string
		f := flaghelper.NewStringSliceFlag(&x)
		err := f.Set(s)
		_ = f.String()
		f.Set(s)
		return err
	})
	e("flaghelper.StringSetFlag", func(s string) error {
		x := map[string]struct{}{}
		f := flaghelper.NewStringSetFlag(&x)
		err := f.Set(s)
		_ = f.String()
		f.Set(s)
		return err
	})
	e("flaghelper.MapStringStringFlag", func(s string) error {
		x := map[string]string{}
		f := flaghelper.NewMapStringStringFlag(&x)
		err := f.Set(s)
		_ = f.String()
		f.Set(s)
		return err
	})
	e("flaghelper.MapStringStringSliceFlag", func(s string) error {
		x := map[string][]string{}
		f := flaghelper.NewMapStringStringSliceFlag(&x)
		err := f.Set(s)
		_ = f.String()
		f.Set(s)
		return err
	})
	e("flaghelper.SignedIntegralSlice[int16]", func(s string) error {
		var x []int16
		f := flaghelper.NewSignedIntegralSlice(&x)
		err := f.Set(s)
		_ = f.String()
		return err
	})
	e("flaghelper.UnsignedIntegralSlice[uint8]", func(s string) error {
		var x []uint8
		f := flaghelper.NewUnsignedIntegralSlice(&x)
		err := f.Set(s)
		_ = f.String()
		return err
	})
	e("flaghelper.Complex64Var", func(s string) error {
		var x complex64
		f := flaghelper.NewComplex64Var(&x)
		err := f.Set(s)
		_ = f.String()
		return err
	})
	e("flaghelper.Complex128Var", func(s string) error {
		var x complex128
		f := flaghelper.NewComplex128Var(&x)
		err := f.Set(s)
		_ = f.String()
		return err
	})
	e("flaghelper.TimeWrapper", func(s string) error {
		f := flaghelper.NewTimeWrapper(time.Time{})
		err := f.Set(s)
		_ = f.String()
		return err
	})
	e("flaghelper.MarshalWrapper(TU)", func(s string) error {
		x := &gen.TU{}
		f := flaghelper.NewMarshalWrapper(x)
		err := f.Set(s)
		_ = f.String()
		return err
	})
	// case conversion
	decs := map[string]caseconversion.DecodeCasingFunc{"DecodeUpperCamelCase": caseconversion.DecodeUpperCamelCase, "DecodeLowerCamelCase": caseconversion.DecodeLowerCamelCase,
		"DecodeGoCamelCase": caseconversion.DecodeGoCamelCase, "DecodeGoTags": caseconversion.DecodeGoTags, "DecodeLowerSnakeCase": caseconversion.DecodeLowerSnakeCase,
		"DecodeKebabCase": caseconversion.DecodeKebabCase, "DecodeUpperSnakeCase": caseconversion.DecodeUpperSnakeCase, "DecodeCasePreservingSnakeCase": caseconversion.DecodeCasePreservingSnakeCase}
	encs := []caseconversion.EncodeCasingFunc{caseconversion.EncodeUpperCamelCase, caseconversion.EncodeLowerCamelCase, caseconversion.EncodeKebabCase,
		caseconversion.EncodeLowerSnakeCase, caseconversion.EncodeUpperSnakeCase, caseconversion.EncodeCasePreservingSnakeCase}
	for n, d := range decs {
		d := d
		e("caseconversion."+n, func(s string) error {
			words, err := d(s)
			for _, enc := range encs {
				_ = enc(words)
				_ = enc(caseconversion.DecodedIdentifier(strings.Split(s, ","))) // arbitrary words, possibly empty / non-ASCII
			}
			return err
		})
	}
	// environment values
	richPtr := ptrify.Pointerify(reflect.TypeOf(c16Rich{}), reflect.Value{})
	e("env.Source(rich type)", func(s string) error {
		if strings.ContainsRune(s, 0) {
			return fmt.Errorf("NUL cannot be placed in the environment")
		}
		f := c16RichFields[len(s)%len(c16RichFields)]
		os.Clearenv()
		os.Setenv("FZ_"+f, s)
		_, err := (&env.Source{Prefix: "FZ"}).Value(context.Background(), dials.NewType(richPtr))
		return err
	})
	for _, pk := range flagPkgs {
		pk := pk
		e(pk.name+".Set(rich type) --flag=<input>", func(s string) error {
			var firstErr error
			f := c16RichFlags[len(s)%len(c16RichFlags)]
			// one occurrence in both spellings, stray arguments, and repeated occurrences (the flag helpers merge them)
			argvs := [][]string{{"--" + f + "=" + s}, {"--" + f, s}, {s}, {"-" + s},
				{"--" + f + "=", "--" + f + "=" + s}, {"--" + f + "=" + s, "--" + f + "="}, {"--" + f + "=" + s, "--" + f + "=" + s}}
			argv := argvs[(len(s)/len(c16RichFlags))%len(argvs)]
			src, _, err := pk.build(false, &c16Rich{}, argv)
			if err == nil {
				_, err = src.Value(context.Background(), dials.NewType(richPtr))
			}
			if err != nil && firstErr == nil {
				firstErr = err
			}
			return firstErr
		})
	}
	// file content
	aliasSet := []transform.Mangler{transform.NewAliasMangler("dials"), &transform.SetSliceMangler{}}
	for n, dec := range map[string]dials.Decoder{"json": &jsondec.Decoder{}, "yaml": &yamldec.Decoder{}, "yaml-anon": &yamldec.Decoder{FlattenAnonymous: true}, "toml": &tomldec.Decoder{}, "cue": &cuedec.Decoder{}} {
		dec := dec
		wrapped := sourcewrap.NewTransformingDecoder(dec, aliasSet...)
		every := 2
		if n == "cue" {
			every = 6 // cue compilation costs ~1ms
		}
		durPtr := ptrify.Pointerify(reflect.TypeOf(c16DurColl{}), reflect.Value{})
		ts = append(ts, c16Target{name: "decoder(durations in collections):" + n, every: every + 1, call: func(s string) (bool, bool) {
			v, err := dec.Decode(strings.NewReader(s), dials.NewType(durPtr))
			if err != nil {
				return false, true
			}
			return true, v.IsValid() && v.Type() == durPtr
		}})
		ts = append(ts, c16Target{name: "decoder:" + n, every: every, call: func(s string) (bool, bool) {
			v, err := dec.Decode(strings.NewReader(s), dials.NewType(richPtr))
			if len(s)%2 == 0 {
				_, _ = wrapped.Decode(strings.NewReader(s), dials.NewType(richPtr))
			}
			if err != nil {
				return false, true
			}
			return true, v.IsValid() && v.Type() == richPtr
		}})
	}
	return ts
}

// heartbeat watchdog: a call that makes no progress for 30s while both of two
// goroutine dumps show a dials frame on the worker goroutine is a hang.
type c16Watch struct {
	beat    atomic.Int64
	current atomic.Value // string
}

func (cw *c16Watch) start(w *fw.Worker) {
	go func() {
		last := int64(-1)
		stuck := 0
		for {
			time.Sleep(5 * time.Second)
			b := cw.beat.Load()
			if b != last {
				last, stuck = b, 0
				continue
			}
			stuck++
			if stuck < 6 {
				continue
			}
			d1 := mainGoroutineDump()
			time.Sleep(300 * time.Millisecond)
			d2 := mainGoroutineDump()
			cur, _ := cw.current.Load().(string)
			if strings.Contains(d1, "github.com/vimeo/dials") && strings.Contains(d2, "github.com/vimeo/dials") && cw.beat.Load() == b {
				w.Violation(int(b), "hang:"+fw.TopDialsFrame(d2), "call made no progress for 30s: "+cur, map[string]any{"goroutine": fw.TrimStack(d2)})
				w.Finish(false)
				os.Exit(3)
			}
			stuck = 0
		}
	}()
}

func mainGoroutineDump() string {
	buf := make([]byte, 1<<20)
	n := runtime.Stack(buf, true)
	for _, g := range strings.Split(string(buf[:n]), "\n\n") {
		if strings.Contains(g, "checks.runC16") {
			return g
		}
	}
	return ""
}

func runC16(w *fw.Worker) {
	targets := c16Targets()
	cw := &c16Watch{}
	cw.start(w)
	w.Count("text_targets", int64(len(targets)))
	w.Cases(func(i int, r *fw.Rand) {
		cw.beat.Store(int64(i))
		if i%7 == 6 {
			c16Types(w, i, r, cw, "")
			// every fourth type case is followed by an episode of its own (own PRNG stream) on a type that also has
			// user-declared pointers to pointers (**int, **Level, ...), each given well-formed text
			switch (i / 7) % 4 {
			case 0:
				c16Types(w, i, fw.NewRand(fw.Mix(w.CaseSeed(i), 0x2b7e1516)), cw, "ptr-to-ptr")
			case 2:
				// ... and every fourth by one with user-declared pointers to slices and maps (*[]string, *map[string]string)
				if c16PtrToCollectionEpisodes {
					c16Types(w, i, fw.NewRand(fw.Mix(w.CaseSeed(i), 0x28aed2a6)), cw, "ptr-to-collection")
				}
			}
			return
		}
		if i%500 == 11 {
			c16Homonyms(w, i, r, cw)
		}
		in := c16Input(r)
		// each input goes to a seeded third of the targets (every target sees thousands of inputs)
		off := r.Intn(3)
		if i%256 == 0 {
			w.BeginDesc(i, fmt.Sprintf("text input %q", in))
		}
		for k := off; k < len(targets); k += 3 {
			t := targets[k]
			if t.every > 1 && (i/3)%t.every != 0 {
				continue
			}
			cw.current.Store(t.name)
			func() {
				defer func() {
					if p := recover(); p != nil {
						st := string(debug.Stack())
						w.Violation(i, "panic:"+strings.SplitN(t.name, "(", 2)[0]+":"+fw.TopDialsFrame(st), fmt.Sprintf("%s panicked on input %q: %v", t.name, in, p), map[string]any{"target": t.name, "input": in, "input_bytes": fmt.Sprintf("%x", in), "stack": fw.TrimStack(st)})
					}
				}()
				ok, typeOK := t.call(in)
				w.Count("text_calls_returned", 1)
				if ok {
					w.Count("success_results_type_checked", 1)
					if !typeOK {
						w.Violation(i, "result-not-of-requested-type:"+t.name, fmt.Sprintf("%s returned a value of another type for input %q", t.name, in), nil)
					}
				}
			}()
		}
		w.Distinct(fmt.Sprintf("%d|%s", off, in))
		if i%4001 == 0 {
			w.Sample(map[string]any{"part": "text", "input": in, "targets_called": (len(targets) - off + 2) / 3})
		}
	})
}

func namedLeaves() []*gen.Leaf {
	out := gen.LeavesWith(gen.CapNamed, 0)
	// user-declared pointers too
	out = append(out, gen.LeafByName("*int"), gen.LeafByName("*string"), gen.LeafByName("*TU"))
	// durations (substituted by the file decoders) alone and in fixed-size arrays, and a plain array
	out = append(out, gen.LeafByName("duration"), gen.LeafByName("[2]duration"), gen.LeafByName("[3]int"))
	// lists of structs: plain, with an unexported field, embedding another struct, holding a time.Time by value
	out = append(out, gen.LeafByName("[]Elem"), gen.LeafByName("[]ElemHidden"), gen.LeafByName("[]ElemEmb"), gen.LeafByName("[]ElemT"))
	// and every builtin-typed leaf the flag sources support (each has its own registration branch)
	seen := map[*gen.Leaf]bool{}
	for _, l := range out {
		seen[l] = true
	}
	for _, l := range gen.LeavesWith(gen.CapFlag, 0) {
		if !seen[l] {
			out = append(out, l)
		}
	}
	return out
}

// c16PtrPtrLeaves: user-declared pointers to pointers to scalars (pointerification leaves every pointer to a
// non-struct alone, so these reach the sources as they are), with the text of the innermost value.
var c16PtrPtrLeaves = func() []*gen.Leaf {
	innermost := func(v reflect.Value) reflect.Value {
		for v.Kind() == reflect.Ptr {
			v = v.Elem()
		}
		return v
	}
	mk := func(name string, zero any, val func(r *fw.Rand, uniq int) any, text func(v reflect.Value) string) *gen.Leaf {
		t := reflect.TypeOf(zero)
		return &gen.Leaf{Name: name, Type: t, Caps: gen.CapRef,
			Gen: func(r *fw.Rand, uniq int) reflect.Value {
				// wrap the value in as many pointers as the type has
				depth := 0
				for e := t; e.Kind() == reflect.Ptr; e = e.Elem() {
					depth++
				}
				v := reflect.ValueOf(val(r, uniq))
				for ; depth > 0; depth-- {
					p := reflect.New(v.Type())
					p.Elem().Set(v)
					v = p
				}
				return v
			},
			Text: func(v reflect.Value) string { return text(innermost(v)) }}
	}
	itoa := func(v reflect.Value) string { return fmt.Sprint(v.Int()) }
	return []*gen.Leaf{
		mk("**int", (**int)(nil), func(_ *fw.Rand, u int) any { return u }, itoa),
		mk("***int", (***int)(nil), func(_ *fw.Rand, u int) any { return -u }, itoa),
		mk("**Level", (**gen.Level)(nil), func(_ *fw.Rand, u int) any { return gen.Level(u%250 + 1) }, func(v reflect.Value) string { return fmt.Sprint(v.Uint()) }),
		mk("**Mode", (**gen.Mode)(nil), func(_ *fw.Rand, u int) any { return gen.Mode(u) }, itoa),
		mk("**string", (**string)(nil), func(_ *fw.Rand, u int) any { return fmt.Sprintf("s%d", u) }, func(v reflect.Value) string { return v.String() }),
		mk("**bool", (**bool)(nil), func(_ *fw.Rand, u int) any { return u%2 == 0 }, func(v reflect.Value) string { return fmt.Sprint(v.Bool()) }),
		mk("**float64", (**float64)(nil), func(_ *fw.Rand, u int) any { return float64(u) + 0.5 }, func(v reflect.Value) string { return fmt.Sprint(v.Float()) }),
	}
}()

// c16PtrCollLeaves: user-declared pointers to slices and maps (left alone by pointerification as well), with the text
// of the collection.
var c16PtrCollLeaves = func() []*gen.Leaf {
	mk := func(name string, base *gen.Leaf) *gen.Leaf {
		return &gen.Leaf{Name: name, Type: reflect.PtrTo(base.Type), Caps: gen.CapRef,
			Gen: func(r *fw.Rand, uniq int) reflect.Value {
				p := reflect.New(base.Type)
				p.Elem().Set(base.Gen(r, uniq))
				return p
			},
			Text: func(v reflect.Value) string { return base.Text(v.Elem()) }}
	}
	return []*gen.Leaf{
		mk("*[]string", gen.LeafByName("[]string")), mk("*[]int", gen.LeafByName("[]int")),
		mk("*map[string]string", gen.LeafByName("map[string]string")), mk("*Names", gen.LeafByName("Names")), mk("*Labels", gen.LeafByName("Labels")),
	}
}()

// The usual named-leaf pool, with about one leaf in three one of the extra pointer kinds.
func c16PoolWith(extra []*gen.Leaf) []*gen.Leaf {
	out := namedLeaves()
	n := len(out)
	for len(out) < n*3/2 {
		out = append(out, extra...)
	}
	return out
}

var c16ExtraPools = map[string][]*gen.Leaf{"ptr-to-ptr": c16PoolWith(c16PtrPtrLeaves), "ptr-to-collection": c16PoolWith(c16PtrCollLeaves)}

var c16ExtraLeaf = func() map[*gen.Leaf]bool {
	m := map[*gen.Leaf]bool{}
	for _, l := range append(append([]*gen.Leaf{}, c16PtrPtrLeaves...), c16PtrCollLeaves...) {
		m[l] = true
	}
	return m
}()

// Findings of these episodes on the pinned tree:
//   - flag and pflag register a flag for a pointer-to-pointer field and panic in (*Set).Value when it is given
//     (--retries=3 for Retries **int: reflect.Value.OverflowInt on ptr Value / Convert: int cannot be converted to **int):
//     repaired by /repo commit bb64858 (was listed under the key "panic:types:flag-sources+ptr-to-ptr-leaves:(*Set).Value");
//   - the env source panicked for a top-level pointer to a slice or map whose variable is set (TAGS=a,b for Tags *[]string):
//     repaired by /repo commit d738c86.
//
// The switches take episodes out of the run (all on: nothing is taken out).
const (
	c16PtrPtrThroughFlagSources  = true
	c16PtrToCollectionEpisodes   = true
	c16PtrToCollectionThroughEnv = true
)

// c16Types: every leaf a user-defined named type; well-formed inputs through every family; only crashes and result types are judged.
// mode "" is the plain population; "ptr-to-ptr" adds the pointer-to-pointer leaves, "ptr-to-collection" the pointers to slices and maps.
func c16Types(w *fw.Worker, i int, r *fw.Rand, cw *c16Watch, mode string) {
	o := gen.GenOpts{MaxDepth: 3 - r.Intn(2), MaxFields: r.Range(2, 6), StructPct: r.Range(10, 45), TagPct: r.Range(0, 60), SkipPct: r.Range(0, 20), Leaves: namedLeaves(), InitialismPct: 15, TagStyles: []string{"snake"}}
	fam := []string{"env", "flag", "pflag", "json", "yaml", "toml", "cue", "chains"}[r.Intn(8)]
	modeTag := ""
	if mode != "" {
		modeTag = "+" + mode + "-leaves"
		o.Leaves = c16ExtraPools[mode]
		if r.Chance(40) {
			fam = "env" // the string-casting chain is where text meets the declared pointer depth
		}
		if mode == "ptr-to-ptr" && !c16PtrPtrThroughFlagSources && (fam == "flag" || fam == "pflag") {
			fam = "chains"
		}
		if mode == "ptr-to-collection" && !c16PtrToCollectionThroughEnv && fam == "env" {
			fam = "chains"
		}
	}
	isFile := fam == "json" || fam == "yaml" || fam == "toml" || fam == "cue"
	if isFile {
		// keys come from dials tags; an embedded field's own key (its lower-cased name) could collide with a tag, so no embedding here
		o.TagPct = 100
		o.NoEmbedded = true
	}
	spec := gen.RandomSpec(r, o)
	leaves := spec.LeafRefs()
	seen := map[string]bool{}
	for _, lr := range leaves {
		// the statement's precondition: distinct flattened leaf names (by Go names and by name/tag words)
		flat := ""
		for _, f := range lr.Path {
			if !f.IsEmbedded() {
				flat += f.Name
			}
		}
		for _, n := range []string{"w:" + envName("", lr), "n:" + flat, "l:" + strings.ToLower(flat)} {
			if seen[n] {
				return
			}
			seen[n] = true
		}
	}
	c := &gen.Counter{}
	zero := reflect.New(spec.Type())
	ptrType := ptrify.Pointerify(spec.Type(), zero.Elem())
	desc := map[string]any{"part": "types" + modeTag, "family": fam, "type": spec.Describe()}
	cw.current.Store("types:" + fam + modeTag)
	w.BeginDesc(i, fmt.Sprintf("%v", desc))
	var got reflect.Value
	var err error
	func() {
		defer func() {
			if p := recover(); p != nil {
				st := string(debug.Stack())
				top := fw.TopDialsFrame(st)
				key := "panic:types:" + fam + modeTag + ":" + top
				if mode == "ptr-to-ptr" && (fam == "flag" || fam == "pflag") && (strings.Contains(top, "sources/flag.") || strings.Contains(top, "sources/pflag.")) {
					// one defect, one key: the flag sources' (*Set).Value (its visitor closure and willOverflow)
					// assumes a single pointer level when a flag was given for a pointer-to-pointer field
					key = "panic:types:flag-sources+ptr-to-ptr-leaves:(*Set).Value"
				}
				w.Violation(i, key, fmt.Sprintf("panic: %v", p), map[string]any{"case": desc, "stack": fw.TrimStack(st)})
				err = fmt.Errorf("panicked")
			}
		}()
		switch {
		case fam == "env":
			os.Clearenv()
			envSet := map[string]string{}
			setPct := 60
			if mode != "" {
				// few variables at a time: the first field that cannot be converted ends the call with an error
				setPct = r.Range(10, 60)
			}
			for _, lr := range leaves {
				lf := lr.Leaf().Leaf
				if lf.Text != nil && r.Chance(setPct) {
					text := lf.Text(lf.Gen(r, c.Next()))
					os.Setenv(envName("TY", lr), text)
					if mode != "" {
						envSet[envName("TY", lr)] = text
						if c16ExtraLeaf[lf] {
							w.Count("env_values_for_"+mode+"_leaves", 1)
							if len(lr.Path) == 1 {
								w.Count("env_values_for_top_level_"+mode+"_leaves", 1)
							}
						}
					}
				}
			}
			if mode != "" {
				desc["environment"] = envSet
			}
			got, err = (&env.Source{Prefix: "TY"}).Value(context.Background(), dials.NewType(ptrType))
		case fam == "flag" || fam == "pflag":
			pk := flagPkgs[0]
			if fam == "pflag" {
				pk = flagPkgs[1]
			}
			var argv []string
			for _, lr := range leaves {
				lf := lr.Leaf().Leaf
				if lf.Text != nil && r.Chance(60) {
					if k := lf.Type.Kind(); (k == reflect.Slice || k == reflect.Map) && lf.Caps&gen.CapTextU == 0 && r.Chance(25) {
						// an empty occurrence first; the next one is merged into it
						argv = append(argv, "--"+flagName(pk.tagKey, false, lr)+"=")
					}
					argv = append(argv, "--"+flagName(pk.tagKey, false, lr)+"="+lf.Text(lf.Gen(r, c.Next())))
				}
			}
			tmpl := reflect.New(spec.Type())
			tmpl.Elem().Set(spec.RandomDefaults(r, c, 50))
			var src dials.Source
			src, _, err = pk.build(false, tmpl.Interface(), argv)
			if err == nil {
				got, err = src.Value(context.Background(), dials.NewType(ptrify.Pointerify(spec.Type(), tmpl.Elem())))
				if err == nil {
					ptrType = got.Type()
				}
			}
		case isFile:
			doc := map[string]any{}
			for _, lr := range leaves {
				lf := lr.Leaf().Leaf
				if !r.Chance(60) {
					continue
				}
				m := doc
				ok := true
				for k, f := range lr.Path {
					key := f.Tags["dials"]
					if key == "" {
						ok = false
						break
					}
					if k == len(lr.Path)-1 {
						m[key] = c16JSONable(lf.Gen(r, c.Next()))
					} else {
						nm, isMap := m[key].(map[string]any)
						if !isMap {
							nm = map[string]any{}
							m[key] = nm
						}
						m = nm
					}
				}
				_ = ok
			}
			text, _ := json.Marshal(doc)
			var dec dials.Decoder
			switch fam {
			case "json":
				dec = &jsondec.Decoder{}
			case "cue":
				dec = &cuedec.Decoder{}
			case "yaml":
				dec = &yamldec.Decoder{FlattenAnonymous: r.Bool()}
			case "toml":
				dec = &tomldec.Decoder{}
				text = jsonToTOMLish(doc)
			}
			desc["document"] = string(text)
			if r.Bool() {
				dec = sourcewrap.NewTransformingDecoder(dec, transform.NewAliasMangler("dials"), &transform.SetSliceMangler{})
			}
			got, err = dec.Decode(bytes.NewReader(text), dials.NewType(ptrType))
		default:
			ch := c10Chains(r)
			desc["chain"] = ch.name
			tfm := transform.NewTransformer(ptrType, ch.manglers...)
			var tt reflect.Type
			tt, err = tfm.TranslateType()
			if err == nil {
				got, err = tfm.ReverseTranslate(reflect.New(tt).Elem())
			}
		}
	}()
	w.Count("type_cases_returned", 1)
	if mode != "" {
		w.Count("type_cases_returned:"+mode+":"+fam, 1)
	}
	if err == nil {
		w.Count("success_results_type_checked", 1)
		if !got.IsValid() || (got.Type() != ptrType && !(got.Kind() == reflect.Ptr && got.Type().Elem() == ptrType)) {
			w.Violation(i, "result-not-of-requested-type:types:"+fam+modeTag, fmt.Sprintf("got %v", got), desc)
			return
		}
		func() {
			defer func() {
				if p := recover(); p != nil {
					st := string(debug.Stack())
					w.Violation(i, "panic:types:compose:"+fw.TopDialsFrame(st), fmt.Sprintf("stacking the %s result panicked: %v", fam, p), map[string]any{"case": desc, "stack": fw.TrimStack(st)})
				}
			}()
			if _, cerr := dials.VerifCompose(reflect.New(spec.Type()).Interface(), []reflect.Value{got}); cerr != nil {
				w.Violation(i, "result-not-accepted-by-compose:types:"+fam+modeTag, cerr.Error(), desc)
			}
		}()
	} else {
		w.Count("type_cases_error_returned:"+fam, 1)
	}
	w.Distinct("types|" + fam + modeTag + spec.Signature())
	if i%997 == 6 && mode == "" {
		w.Sample(desc)
	}
}

func c16JSONable(v reflect.Value) any {
	for v.Kind() == reflect.Ptr {
		if v.IsNil() {
			return nil
		}
		v = v.Elem()
	}
	switch v.Kind() {
	case reflect.Complex64, reflect.Complex128:
		return fmt.Sprint(v.Complex())
	}
	if tu, ok := v.Interface().(gen.TU); ok {
		b, _ := tu.MarshalText()
		return string(b)
	}
	return v.Interface()
}

// jsonToTOMLish renders a nested map as TOML (tables for maps of maps); good enough for well-formed named-type documents.
func jsonToTOMLish(doc map[string]any) []byte {
	var b bytes.Buffer
	var tables []string
	var write func(prefix string, m map[string]any)
	write = func(prefix string, m map[string]any) {
		var subs []string
		keys := make([]string, 0, len(m))
		for k := range m {
			keys = append(keys, k)
		}
		for i := 1; i < len(keys); i++ {
			for j := i; j > 0 && keys[j] < keys[j-1]; j-- {
				keys[j], keys[j-1] = keys[j-1], keys[j]
			}
		}
		for _, k := range keys {
			switch v := m[k].(type) {
			case map[string]any:
				subs = append(subs, k)
			default:
				jb, _ := json.Marshal(v)
				s := string(jb)
				if rv := reflect.ValueOf(v); rv.IsValid() && rv.Kind() == reflect.Map {
					// inline table
					parts := []string{}
					for _, mk := range rv.MapKeys() {
						kb, _ := json.Marshal(fmt.Sprint(mk.Interface()))
						vb, _ := json.Marshal(rv.MapIndex(mk).Interface())
						parts = append(parts, string(kb)+" = "+string(vb))
					}
					s = "{" + strings.Join(parts, ", ") + "}"
				}
				if v == nil {
					continue
				}
				fmt.Fprintf(&b, "%q = %s\n", k, s)
			}
		}
		for _, k := range subs {
			name := fmt.Sprintf("%q", k)
			if prefix != "" {
				name = prefix + "." + name
			}
			tables = append(tables, name)
			fmt.Fprintf(&b, "[%s]\n", name)
			write(name, m[k].(map[string]any))
		}
	}
	write("", doc)
	return b.Bytes()
}

// Two config types that print identically - same type name, same field names and tags, and a leaf whose user-defined
// named types are homonyms (one Level is a uint8, the other a string) - as two components of one program may well
// declare them. c16HomTypes returns both, with well-formed text for the Level leaf of each.
func c16HomTypes() [2]struct {
	t    reflect.Type
	text string
} {
	a := func() reflect.Type {
		type Level uint8
		type Cfg struct {
			Verbosity Level  `dials:"verbosity"`
			Name      string `dials:"name"`
		}
		return reflect.TypeOf(Cfg{})
	}()
	b := func() reflect.Type {
		type Level string
		type Cfg struct {
			Verbosity Level  `dials:"verbosity"`
			Name      string `dials:"name"`
		}
		return reflect.TypeOf(Cfg{})
	}()
	return [2]struct {
		t    reflect.Type
		text string
	}{{a, "3"}, {b, "debug"}}
}

// c16Homonyms: the env, flag and pflag sources are used for both types in one process, in a seeded order; each call
// must return a value of the type it was asked for, holding the text's value, without panicking.
func c16Homonyms(w *fw.Worker, i int, r *fw.Rand, cw *c16Watch) {
	types := c16HomTypes()
	order := []int{0, 1}
	if r.Bool() {
		order = []int{1, 0}
	}
	fam := []string{"env", "flag", "pflag"}[r.Intn(3)]
	cw.current.Store("homonymous-types:" + fam)
	for _, k := range order {
		tt := types[k]
		desc := map[string]any{"part": "homonymous-types", "family": fam, "type": tt.t.String(), "level_kind": tt.t.Field(0).Type.Kind().String(), "text": tt.text}
		zero := reflect.New(tt.t)
		ptrType := ptrify.Pointerify(tt.t, zero.Elem())
		var got reflect.Value
		var err error
		func() {
			defer func() {
				if p := recover(); p != nil {
					st := string(debug.Stack())
					w.Violation(i, "panic:homonymous-types:"+fam+":"+fw.TopDialsFrame(st), fmt.Sprintf("panic: %v", p), map[string]any{"case": desc, "stack": fw.TrimStack(st)})
					err = fmt.Errorf("panicked")
				}
			}()
			switch fam {
			case "env":
				os.Clearenv()
				os.Setenv("HM_VERBOSITY", tt.text)
				got, err = (&env.Source{Prefix: "HM"}).Value(context.Background(), dials.NewType(ptrType))
			default:
				pk := flagPkgs[0]
				if fam == "pflag" {
					pk = flagPkgs[1]
				}
				var src dials.Source
				src, _, err = pk.build(false, zero.Interface(), []string{"--verbosity=" + tt.text})
				if err == nil {
					got, err = src.Value(context.Background(), dials.NewType(ptrType))
				}
			}
		}()
		w.Count("homonymous_type_loads", 1)
		if err != nil {
			if err.Error() != "panicked" {
				w.Violation(i, "error-on-well-formed-text:homonymous-types:"+fam, fmt.Sprintf("%s for %s (Level is a %s): %v", fam, tt.text, tt.t.Field(0).Type.Kind(), err), desc)
			}
			return
		}
		res, cerr := dials.VerifCompose(zero.Interface(), []reflect.Value{got})
		if cerr != nil {
			w.Violation(i, "result-not-of-the-requested-type:homonymous-types:"+fam, cerr.Error(), desc)
			return
		}
		if lv := reflect.ValueOf(res).Elem().Field(0); fmt.Sprint(lv.Interface()) != tt.text {
			w.Violation(i, "wrong-value:homonymous-types:"+fam, fmt.Sprintf("Verbosity = %v, text %q", lv.Interface(), tt.text), desc)
			return
		}
	}
	w.Distinct(fmt.Sprintf("homonyms|%s|%v", fam, order))
}
