package checks

import (
	"context"
	"fmt"
	"reflect"
	"runtime"
	"sync"
	"time"

	"github.com/vimeo/dials"
	cuedec "github.com/vimeo/dials/decoders/cue"
	jsondec "github.com/vimeo/dials/decoders/json"
	tomldec "github.com/vimeo/dials/decoders/toml"
	yamldec "github.com/vimeo/dials/decoders/yaml"
	"github.com/vimeo/dials/sources/static"

	"verifharness/fw"
)

type c13ConcInner struct {
	X int    `dials:"x"`
	Y string `dials:"y"`
}

type c13Conc struct {
	Name  string        `dials:"name"`
	Count int           `dials:"count"`
	Wait  time.Duration `dials:"wait"`
	Tags  []string      `dials:"tags"`
	Inner c13ConcInner  `dials:"inner"`
}

// c13Concurrent: several goroutines load documents of all four formats into one config type at the same time (several
// Dials instances in one process, or one file watched while another is loaded). Every load must give its own
// document's values - the decoders are shared, stateless values.
func c13Concurrent(w *fw.Worker) {
	prev := runtime.GOMAXPROCS(8)
	defer runtime.GOMAXPROCS(prev)
	decs := map[string]dials.Decoder{"json": &jsondec.Decoder{}, "yaml": &yamldec.Decoder{}, "toml": &tomldec.Decoder{}, "cue": &cuedec.Decoder{}}
	formats := []string{"json", "toml", "yaml", "toml", "cue", "toml"}
	doc := func(format string, k int) string {
		switch format {
		case "yaml":
			return fmt.Sprintf("name: n%d\ncount: %d\nwait: %ds\ntags: [a%d, b]\ninner:\n  x: %d\n  y: y%d\n", k, k, k%50+1, k, k, k)
		case "toml":
			return fmt.Sprintf("name = \"n%d\"\ncount = %d\nwait = \"%ds\"\ntags = [\"a%d\", \"b\"]\n[inner]\nx = %d\ny = \"y%d\"\n", k, k, k%50+1, k, k, k)
		}
		return fmt.Sprintf(`{"name": "n%d", "count": %d, "wait": "%ds", "tags": ["a%d", "b"], "inner": {"x": %d, "y": "y%d"}}`, k, k, k%50+1, k, k, k)
	}
	nG, per := 12, w.Pick(120, 1200)
	var wg sync.WaitGroup
	var mu sync.Mutex
	bad := map[string]string{}
	var loads int64
	for g := 0; g < nG; g++ {
		wg.Add(1)
		go func(g int) {
			defer wg.Done()
			for it := 0; it < per; it++ {
				format := formats[(g+it)%len(formats)]
				k := 1 + g*per + it
				want := c13Conc{Name: fmt.Sprintf("n%d", k), Count: k, Wait: time.Duration(k%50+1) * time.Second, Tags: []string{fmt.Sprintf("a%d", k), "b"}, Inner: c13ConcInner{X: k, Y: fmt.Sprintf("y%d", k)}}
				d, err := dials.Config(context.Background(), &c13Conc{}, &static.StringSource{Data: doc(format, k), Decoder: decs[format]})
				mu.Lock()
				loads++
				if err != nil {
					if _, seen := bad["error:"+format]; !seen {
						bad["error:"+format] = fmt.Sprintf("document %d: %v", k, err)
					}
				} else if got := *d.View(); !reflect.DeepEqual(got, want) {
					if _, seen := bad["differs:"+format]; !seen {
						bad["differs:"+format] = fmt.Sprintf("document %d gave %+v, want %+v", k, got, want)
					}
				}
				mu.Unlock()
			}
		}(g)
	}
	wg.Wait()
	w.Eval(loads)
	w.Count("concurrent_loads_compared", loads)
	for key, detail := range bad {
		w.Violation(-1, "concurrent-load-"+key, detail+fmt.Sprintf(" (%d goroutines loading all four formats into one type at once)", nG), nil)
	}
}
