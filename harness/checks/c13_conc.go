package checks

import (
	"context"
	"fmt"
	"reflect"
	"runtime"
	"strings"
	"sync"
	"time"

	"github.com/vimeo/dials"
	cuedec "github.com/vimeo/dials/decoders/cue"
	jsondec "github.com/vimeo/dials/decoders/json"
	tomldec "github.com/vimeo/dials/decoders/toml"
	yamldec "github.com/vimeo/dials/decoders/yaml"
	"github.com/vimeo/dials/ptrify"
	"github.com/vimeo/dials/sources/static"

	"verifharness/fw"
)

type c13ConcInner struct {
	X int    `dials:"x"`
	Y string `dials:"y"`
}

type c13Conc2 struct {
	Backoffs []time.Duration          `dials:"backoffs"`
	Limit    map[string]time.Duration `dials:"limit"`
	Label    string                   `dials:"label"`
	N        int                      `dials:"n"`
}

type c13Conc struct {
	Name  string        `dials:"name"`
	Count int           `dials:"count"`
	Wait  time.Duration `dials:"wait"`
	Tags  []string      `dials:"tags"`
	Inner c13ConcInner  `dials:"inner"`
}

// c13Concurrent: several goroutines load documents of all four formats into one config type at the same time (several
// Dials instances in one process, or one file watched while another is loaded). Every load must give its own
// document's values - the decoders are shared, stateless values.
func c13Concurrent(w *fw.Worker) {
	prev := runtime.GOMAXPROCS(8)
	defer runtime.GOMAXPROCS(prev)
	decs := map[string]dials.Decoder{"json": &jsondec.Decoder{}, "yaml": &yamldec.Decoder{}, "toml": &tomldec.Decoder{}, "cue": &cuedec.Decoder{}}
	formats := []string{"json", "toml", "yaml", "toml", "cue", "toml"}
	doc := func(format string, k int) string {
		switch format {
		case "yaml":
			return fmt.Sprintf("name: n%d\ncount: %d\nwait: %ds\ntags: [a%d, b]\ninner:\n  x: %d\n  y: y%d\n", k, k, k%50+1, k, k, k)
		case "toml":
			return fmt.Sprintf("name = \"n%d\"\ncount = %d\nwait = \"%ds\"\ntags = [\"a%d\", \"b\"]\n[inner]\nx = %d\ny = \"y%d\"\n", k, k, k%50+1, k, k, k)
		}
		return fmt.Sprintf(`{"name": "n%d", "count": %d, "wait": "%ds", "tags": ["a%d", "b"], "inner": {"x": %d, "y": "y%d"}}`, k, k, k%50+1, k, k, k)
	}
	nG, per := 12, w.Pick(120, 1200)
	var wg sync.WaitGroup
	var mu sync.Mutex
	bad := map[string]string{}
	var loads, loads2 int64
	for g := 0; g < nG; g++ {
		wg.Add(1)
		go func(g int) {
			defer wg.Done()
			for it := 0; it < per; it++ {
				format := formats[(g+it)%len(formats)]
				k := 1 + g*per + it
				want := c13Conc{Name: fmt.Sprintf("n%d", k), Count: k, Wait: time.Duration(k%50+1) * time.Second, Tags: []string{fmt.Sprintf("a%d", k), "b"}, Inner: c13ConcInner{X: k, Y: fmt.Sprintf("y%d", k)}}
				d, err := dials.Config(context.Background(), &c13Conc{}, &static.StringSource{Data: doc(format, k), Decoder: decs[format]})
				mu.Lock()
				loads++
				if err != nil {
					if _, seen := bad["error:"+format]; !seen {
						bad["error:"+format] = fmt.Sprintf("document %d: %v", k, err)
					}
				} else if got := *d.View(); !reflect.DeepEqual(got, want) {
					if _, seen := bad["differs:"+format]; !seen {
						bad["differs:"+format] = fmt.Sprintf("document %d gave %+v, want %+v", k, got, want)
					}
				}
				mu.Unlock()
			}
		}(g)
	}
	// ... and, at the same time, loads into a SECOND config type with other duration-bearing shapes through the JSON and
	// Cue decoders (the two that substitute durations): whatever a decoder package keeps between calls must not carry
	// over from one type to another
	for g := 0; g < 6; g++ {
		wg.Add(1)
		go func(g int) {
			defer wg.Done()
			for it := 0; it < per; it++ {
				format := []string{"json", "cue"}[(g+it)%2]
				k := 1 + g*per + it
				want := c13Conc2{Backoffs: []time.Duration{time.Duration(k%40+1) * time.Second, 2 * time.Millisecond}, Limit: map[string]time.Duration{"a": time.Duration(k%30+1) * time.Minute}, Label: fmt.Sprintf("l%d", k), N: k}
				data := fmt.Sprintf(`{"backoffs": ["%ds", "2ms"], "limit": {"a": "%dm"}, "label": "l%d", "n": %d}`, k%40+1, k%30+1, k, k)
				d, err := dials.Config(context.Background(), &c13Conc2{}, &static.StringSource{Data: data, Decoder: decs[format]})
				mu.Lock()
				loads++
				loads2++
				if err != nil {
					if _, seen := bad["error:"+format+":second-type"]; !seen {
						bad["error:"+format+":second-type"] = fmt.Sprintf("document %d: %v", k, err)
					}
				} else if got := *d.View(); !reflect.DeepEqual(got, want) {
					if _, seen := bad["differs:"+format+":second-type"]; !seen {
						bad["differs:"+format+":second-type"] = fmt.Sprintf("document %d gave %+v, want %+v", k, got, want)
					}
				}
				mu.Unlock()
			}
		}(g)
	}
	wg.Wait()
	c13DirectDecoders(w, decs, bad)
	w.Eval(loads)
	w.Count("concurrent_loads_compared", loads)
	w.Count("concurrent_loads_into_a_second_type_compared", loads2)
	for key, detail := range bad {
		w.Violation(-1, "concurrent-load-"+key, detail+fmt.Sprintf(" (%d goroutines loading all four formats into one type at once)", nG), nil)
	}
}

type c13Dir2 struct {
	Waits []time.Duration          `dials:"waits"`
	Per   map[string]time.Duration `dials:"per"`
	Arr   [2]time.Duration         `dials:"arr"`
	Pair  []map[string]int         `dials:"pair"`
}

type c13Dir3 struct {
	Tags  []string          `dials:"tags"`
	Nums  []int             `dials:"nums"`
	M     map[string]int    `dials:"m"`
	Names map[string]string `dials:"names"`
	Grid  [2]int            `dials:"grid"`
}

// c13DirectDecoders: eight goroutines call Decode of the JSON and Cue decoder values directly, in tight loops, for
// three config types whose composite fields differ (lists, maps and arrays of durations; of plain values): what a
// decoder (or a mangler it shares between calls) learnt for one type must never answer for another.
func c13DirectDecoders(w *fw.Worker, decs map[string]dials.Decoder, bad map[string]string) {
	per := w.Pick(1500, 12000)
	type kind struct {
		def  any
		typ  *dials.Type
		doc  func(k int) string
		want func(k int) any
	}
	mkType := func(def any) *dials.Type {
		v := reflect.ValueOf(def).Elem()
		return dials.NewType(ptrify.Pointerify(v.Type(), v))
	}
	kinds := []kind{
		{&c13Conc2{}, mkType(&c13Conc2{}), func(k int) string {
			return fmt.Sprintf(`{"backoffs": ["%ds", "2ms"], "limit": {"a": "%dm"}, "label": "l%d", "n": %d}`, k%40+1, k%30+1, k, k)
		}, func(k int) any {
			return &c13Conc2{Backoffs: []time.Duration{time.Duration(k%40+1) * time.Second, 2 * time.Millisecond}, Limit: map[string]time.Duration{"a": time.Duration(k%30+1) * time.Minute}, Label: fmt.Sprintf("l%d", k), N: k}
		}},
		{&c13Dir2{}, mkType(&c13Dir2{}), func(k int) string {
			return fmt.Sprintf(`{"waits": ["%dms"], "per": {"p": "%ds"}, "arr": ["1s", "%dh"], "pair": [{"x": %d}]}`, k%90+1, k%70+1, k%20+1, k)
		}, func(k int) any {
			return &c13Dir2{Waits: []time.Duration{time.Duration(k%90+1) * time.Millisecond}, Per: map[string]time.Duration{"p": time.Duration(k%70+1) * time.Second}, Arr: [2]time.Duration{time.Second, time.Duration(k%20+1) * time.Hour}, Pair: []map[string]int{{"x": k}}}
		}},
		{&c13Dir3{}, mkType(&c13Dir3{}), func(k int) string {
			return fmt.Sprintf(`{"tags": ["t%d"], "nums": [%d, 2], "m": {"k": %d}, "names": {"n": "v%d"}, "grid": [%d, 4]}`, k, k, k, k, k)
		}, func(k int) any {
			return &c13Dir3{Tags: []string{fmt.Sprintf("t%d", k)}, Nums: []int{k, 2}, M: map[string]int{"k": k}, Names: map[string]string{"n": fmt.Sprintf("v%d", k)}, Grid: [2]int{k, 4}}
		}},
	}
	var wg sync.WaitGroup
	var mu sync.Mutex
	var n int64
	for g := 0; g < 8; g++ {
		wg.Add(1)
		go func(g int) {
			defer wg.Done()
			kd := kinds[g%len(kinds)]
			format := []string{"json", "cue"}[(g/len(kinds))%2]
			for it := 0; it < per; it++ {
				k := 1 + g*per + it
				note := func(key, detail string) {
					mu.Lock()
					if _, seen := bad[key]; !seen {
						bad[key] = detail
					}
					mu.Unlock()
				}
				func() {
					defer func() {
						if p := recover(); p != nil {
							note("panic:"+format+":direct-decode", fmt.Sprintf("document %d into %T: panic: %v", k, kd.def, p))
						}
					}()
					v, err := decs[format].Decode(strings.NewReader(kd.doc(k)), kd.typ)
					if err != nil {
						note("error:"+format+":direct-decode", fmt.Sprintf("document %d into %T: %v", k, kd.def, err))
						return
					}
					got, cerr := dials.VerifCompose(kd.def, []reflect.Value{v})
					if cerr != nil {
						note("error:"+format+":direct-decode", fmt.Sprintf("document %d into %T: decoded value does not stack: %v", k, kd.def, cerr))
						return
					}
					if want := kd.want(k); !reflect.DeepEqual(got, want) {
						note("differs:"+format+":direct-decode", fmt.Sprintf("document %d into %T gave %+v, want %+v", k, kd.def, got, want))
					}
				}()
			}
			mu.Lock()
			n += int64(per)
			mu.Unlock()
		}(g)
	}
	wg.Wait()
	w.Count("concurrent_direct_decodes_compared", n)
}
