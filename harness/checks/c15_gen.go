package checks

// C15 generators: boundary-biased values, integer literals whose exact value
// is known by construction (math/big), float literals whose exact value is
// re-read with math/big (never with strconv), hostile strings.

import (
	"math"
	"math/big"
	"reflect"
	"strconv"
	"strings"
	"time"

	"verifharness/fw"
)

// ---------------------------------------------------------------- integers

func c15RandBig(r *fw.Rand, maxBits int) *big.Int {
	k := r.Intn(maxBits + 1)
	x := new(big.Int)
	for got := 0; got < k; got += 64 {
		x.Lsh(x, 64)
		x.Or(x, new(big.Int).SetUint64(r.U64()))
	}
	if x.BitLen() > k {
		x.Rsh(x, uint(x.BitLen()-k))
	}
	return x
}

// c15IntIn returns an in-range value with boundary bias.
func c15IntIn(r *fw.Rand, bits int, signed bool) *big.Int {
	min, max := c15IntBounds(bits, signed)
	small := big.NewInt(int64(r.Intn(4)))
	var x *big.Int
	switch r.Intn(12) {
	case 0:
		x = new(big.Int).Set(min)
	case 1:
		x = new(big.Int).Set(max)
	case 2:
		x = new(big.Int).Add(min, small)
	case 3:
		x = new(big.Int).Sub(max, small)
	case 4:
		x = new(big.Int)
	case 5:
		x = big.NewInt(int64(r.Intn(21) - 10))
	case 6:
		// power of two +-1
		x = new(big.Int).Lsh(big.NewInt(1), uint(r.Intn(bits)))
		x.Add(x, big.NewInt(int64(r.Intn(3)-1)))
		if signed && r.Bool() {
			x.Neg(x)
		}
	default:
		x = c15RandBig(r, bits)
		if signed && r.Bool() {
			x.Neg(x)
		}
	}
	if x.Cmp(min) < 0 || x.Cmp(max) > 0 {
		// fold into range without wrapping semantics mattering: fall back to a bound
		if x.Sign() < 0 {
			x = new(big.Int).Set(min)
		} else {
			x = new(big.Int).Set(max)
		}
	}
	return x
}

// c15IntOut returns a value just or far outside the range.
func c15IntOut(r *fw.Rand, bits int, signed bool) *big.Int {
	min, max := c15IntBounds(bits, signed)
	one := big.NewInt(1)
	small := big.NewInt(int64(1 + r.Intn(300)))
	for {
		var x *big.Int
		switch r.Intn(10) {
		case 0, 1:
			x = new(big.Int).Add(max, one)
		case 2, 3:
			x = new(big.Int).Sub(min, one)
		case 4:
			x = new(big.Int).Add(max, small)
		case 5:
			x = new(big.Int).Sub(min, small)
		case 6:
			// a multiple of 2^bits away: wraps back to an innocent value
			x = c15IntIn(r, bits, signed)
			k := new(big.Int).Lsh(one, uint(bits))
			k.Mul(k, big.NewInt(int64(1+r.Intn(3))))
			if r.Bool() {
				k.Neg(k)
			}
			x.Add(x, k)
		case 7:
			// powers of two at the machine-word boundaries
			x = new(big.Int).Lsh(one, uint([]int{7, 8, 15, 16, 31, 32, 63, 64, 65}[r.Intn(9)]))
			if r.Bool() {
				x.Neg(x)
				x.Sub(x, one)
			}
		default:
			x = c15RandBig(r, 80)
			if r.Bool() {
				x.Neg(x)
			}
		}
		if x.Cmp(min) < 0 || x.Cmp(max) > 0 {
			return x
		}
	}
}

// c15IntLit writes x as a Go integer literal: base 2/8/10/16 prefixes in
// either case, the legacy 0 octal prefix, extra leading zeros after a
// prefix, '_' only where the Go spec allows it (between digits, after a
// base prefix), mixed-case hex digits. form<0 picks randomly.
func c15IntLit(r *fw.Rand, x *big.Int, form int) (string, string) {
	if form < 0 {
		form = r.Intn(8)
	}
	abs := new(big.Int).Abs(x)
	var prefix, digits, fname string
	switch form {
	case 0:
		prefix, digits, fname = "", abs.Text(10), "dec"
	case 1:
		prefix, digits, fname = "0x", abs.Text(16), "0x"
	case 2:
		prefix, digits, fname = "0X", strings.ToUpper(abs.Text(16)), "0X"
	case 3:
		prefix, digits, fname = "0b", abs.Text(2), "0b"
	case 4:
		prefix, digits, fname = "0B", abs.Text(2), "0B"
	case 5:
		prefix, digits, fname = "0o", abs.Text(8), "0o"
	case 6:
		prefix, digits, fname = "0O", abs.Text(8), "0O"
	default:
		prefix, digits, fname = "0", abs.Text(8), "0-octal"
	}
	if prefix != "" && r.Chance(20) {
		digits = strings.Repeat("0", 1+r.Intn(3)) + digits
	}
	if (form == 1 || form == 2) && r.Chance(30) {
		// mixed-case hex digits
		b := []byte(digits)
		for i := range b {
			if r.Bool() {
				b[i] = byte(strings.ToUpper(string(b[i]))[0])
			} else {
				b[i] = byte(strings.ToLower(string(b[i]))[0])
			}
		}
		digits = string(b)
	}
	if r.Chance(40) {
		// digit separators
		var sb strings.Builder
		for i := 0; i < len(digits); i++ {
			if i > 0 && r.Chance(35) {
				sb.WriteByte('_')
			}
			sb.WriteByte(digits[i])
		}
		digits = sb.String()
		if prefix != "" && r.Chance(30) {
			digits = "_" + digits
		}
		fname += "+sep"
	}
	s := prefix + digits
	if x.Sign() < 0 {
		s = "-" + s
	}
	return s, fname
}

var c15Spaces = []string{" ", "  ", "\t", "\n", "\r\n", " \t ", "\r"}

func c15Pad(r *fw.Rand, s string) string {
	if r.Chance(35) {
		s = fw.Pick(r, c15Spaces) + s
	}
	if r.Chance(35) {
		s = s + fw.Pick(r, c15Spaces)
	}
	return s
}

// ------------------------------------------------------------------ floats

var c15F32Edges = []uint32{
	0x00000000, 0x80000000, // +-0
	0x00000001, 0x80000001, // min denormal
	0x007fffff, 0x807fffff, // max denormal
	0x00800000, 0x80800000, // min normal
	0x7f7fffff, 0xff7fffff, // max
	0x7f7ffffe, 0x3f800000, 0x3f7fffff, 0x3f800001,
	0x7f800000, 0xff800000, // +-Inf
	0x7fc00000,             // NaN
	0x4b800000, 0x4b7fffff, // 2^24 neighbourhood
}

var c15F64Edges = []uint64{
	0x0000000000000000, 0x8000000000000000,
	0x0000000000000001, 0x8000000000000001,
	0x000fffffffffffff, 0x800fffffffffffff,
	0x0010000000000000, 0x8010000000000000,
	0x7fefffffffffffff, 0xffefffffffffffff,
	0x7feffffffffffffe, 0x3ff0000000000000, 0x3fefffffffffffff, 0x3ff0000000000001,
	0x7ff0000000000000, 0xfff0000000000000,
	0x7ff8000000000000,
	0x47efffffe0000000, 0x47efffffefffffff, 0x47effffff0000000, 0x47efffffe0000001, // around MaxFloat32 as a float64
	0x36a0000000000000, 0x369fffffffffffff, // around the smallest float32 denormal
	0x4340000000000000, 0x433fffffffffffff, // 2^53 neighbourhood
}

var c15NiceFloats = []float64{0.1, 0.2, 0.3, 1.5, -2.25, 1e10, 1e21, 1e-7, 123.456, 100, 1e6, 1e20, 1e22, 5e-324, 3.14159, -1, 2, 1e38, 1e-38, 16777216, 9007199254740993}

func c15Float(r *fw.Rand, bits int) float64 {
	if bits == 32 {
		switch r.Intn(10) {
		case 0, 1, 2:
			return float64(math.Float32frombits(fw.Pick(r, c15F32Edges)))
		case 3:
			return float64(float32(fw.Pick(r, c15NiceFloats)))
		case 4:
			return float64(float32(int32(r.U64())))
		case 5:
			// denormals
			return float64(math.Float32frombits(uint32(r.U64()) & 0x807fffff))
		default:
			return float64(math.Float32frombits(uint32(r.U64())))
		}
	}
	switch r.Intn(10) {
	case 0, 1, 2:
		return math.Float64frombits(fw.Pick(r, c15F64Edges))
	case 3:
		return fw.Pick(r, c15NiceFloats)
	case 4:
		return float64(int64(r.U64()))
	case 5:
		return math.Float64frombits(r.U64() & 0x800fffffffffffff)
	case 6:
		// a float32 value held in a float64, and its neighbours
		f := float64(math.Float32frombits(uint32(r.U64())))
		if math.IsNaN(f) || math.IsInf(f, 0) {
			return f
		}
		return math.Float64frombits(math.Float64bits(f) + uint64(r.Intn(3)) - 1)
	default:
		return math.Float64frombits(r.U64())
	}
}

// overflow thresholds of round-to-nearest-even: the smallest magnitude that
// does not round to a finite value (max + half an ulp).
var (
	c15Thresh32 = func() *big.Rat {
		a := new(big.Int).Lsh(big.NewInt(1), 128)
		a.Sub(a, new(big.Int).Lsh(big.NewInt(1), 103))
		return new(big.Rat).SetInt(a)
	}()
	c15Thresh64 = func() *big.Rat {
		a := new(big.Int).Lsh(big.NewInt(1), 1024)
		a.Sub(a, new(big.Int).Lsh(big.NewInt(1), 970))
		return new(big.Rat).SetInt(a)
	}()
)

func c15Thresh(bits int) *big.Rat {
	if bits == 32 {
		return c15Thresh32
	}
	return c15Thresh64
}

// c15FloatLit produces a decimal float literal near (or far beyond) the
// overflow threshold of the width, and its exact value.
func c15FloatLit(r *fw.Rand, bits int) (string, *big.Rat) {
	var lit string
	neg := r.Chance(40)
	switch r.Intn(6) {
	case 0:
		// exact integers around the threshold: threshold + d, d in [-3,3] scaled
		t := new(big.Int).Set(c15Thresh(bits).Num())
		d := big.NewInt(int64(r.Intn(7) - 3))
		if r.Bool() {
			d.Lsh(d, uint(r.Intn(100)))
		}
		t.Add(t, d)
		lit = t.Text(10)
	case 1:
		// mantissa digits close to the maximum, exponent at the edge
		var mant string
		var exp int
		if bits == 32 {
			mant, exp = "3.4028", 38
		} else {
			mant, exp = "1.7976931348623", 308
		}
		n := r.Intn(14)
		for i := 0; i < n; i++ {
			mant += strconv.Itoa(r.Intn(10))
		}
		if r.Chance(30) {
			exp += r.Intn(3) - 1
		}
		lit = mant + "e" + fw.Pick(r, []string{"", "+"}) + strconv.Itoa(exp)
	case 2:
		// random mantissa, exponent at or beyond the edge
		mant := strconv.Itoa(1+r.Intn(9)) + "."
		n := 1 + r.Intn(18)
		for i := 0; i < n; i++ {
			mant += strconv.Itoa(r.Intn(10))
		}
		base := 38
		if bits == 64 {
			base = 308
		}
		exp := base + r.Intn(5) - 2
		if r.Chance(25) {
			exp = base + 1 + r.Intn(5000)
		}
		lit = mant + fw.Pick(r, []string{"e", "E"}) + strconv.Itoa(exp)
	case 3:
		// huge plain integers
		lit = "1" + strings.Repeat("0", []int{38, 39, 40, 45, 308, 309, 310, 400}[r.Intn(8)])
	case 4:
		// exactly the maximum's decimal expansion, and its successor in the last digit
		if bits == 32 {
			lit = fw.Pick(r, []string{"340282346638528859811704183484516925440", "340282346638528859811704183484516925441", "3.4028235e38", "3.4028236e38", "3.40282357e38", "3.40282356e38"})
		} else {
			lit = fw.Pick(r, []string{"1.7976931348623157e308", "1.7976931348623158e308", "1.7976931348623159e308", "1.797693134862315807e308", "1.797693134862315808e308", "1.8e308", "2e308"})
		}
	default:
		// the other width's limits (a float32 overflow is a perfectly good float64)
		lit = fw.Pick(r, []string{"3.5e38", "1e39", "4e38", "3.4028235e39", "6.8e38", "1e308", "1e309", "1.7976931348623157e309"})
	}
	if neg {
		lit = "-" + lit
	}
	x, ok := new(big.Rat).SetString(lit)
	if !ok {
		panic("c15FloatLit: big.Rat cannot read " + lit)
	}
	return lit, x
}

func c15FloatOutOfRange(x *big.Rat, bits int) bool {
	a := new(big.Rat).Abs(x)
	return a.Cmp(c15Thresh(bits)) >= 0
}

// --------------------------------------------------------------- durations

var c15DurEdges = []int64{0, 1, -1, 999, 1000, 1001, 999999, 1000000, 999999999, 1000000000, 59999999999, 60000000000, 3600000000000,
	math.MaxInt64, math.MinInt64, math.MaxInt64 - 1, math.MinInt64 + 1, 1500, 1500000, 90 * 60 * 1e9, 1e18}

func c15Duration(r *fw.Rand) time.Duration {
	switch r.Intn(8) {
	case 0, 1:
		return time.Duration(fw.Pick(r, c15DurEdges))
	case 2:
		units := []time.Duration{time.Nanosecond, time.Microsecond, time.Millisecond, time.Second, time.Minute, time.Hour}
		return time.Duration(int64(r.Intn(2001)-1000)) * fw.Pick(r, units)
	case 3:
		return time.Duration(int64(r.U64()) >> uint(r.Intn(63)))
	default:
		return time.Duration(int64(r.U64()))
	}
}

var c15DurUnits = []struct {
	name string
	ns   int64
}{{"ns", 1}, {"us", 1e3}, {"µs", 1e3}, {"ms", 1e6}, {"s", 1e9}, {"m", 60e9}, {"h", 3600e9}}

// c15DurLit writes an integer count of one unit (optionally followed by a
// second, smaller component) and returns the exact nanosecond value.
func c15DurLit(r *fw.Rand) (string, *big.Int) {
	min, max := c15IntBounds(64, true)
	u := fw.Pick(r, c15DurUnits)
	unit := big.NewInt(u.ns)
	var total *big.Int
	switch r.Intn(6) {
	case 0:
		// smallest count of the unit that is beyond max
		total = new(big.Int).Div(max, unit)
		total.Add(total, big.NewInt(1))
		total.Mul(total, unit)
	case 1:
		// largest count of the unit that is within max
		total = new(big.Int).Div(max, unit)
		total.Mul(total, unit)
	case 2:
		total = new(big.Int).Mul(c15RandBig(r, 70), unit)
	case 3:
		total = new(big.Int).Mul(new(big.Int).Lsh(big.NewInt(1), uint(60+r.Intn(8))), unit)
	default:
		total = new(big.Int).Mul(c15RandBig(r, 40), unit)
	}
	count := new(big.Int).Div(total, unit)
	lit := count.Text(10) + u.name
	if u.ns > 1 && r.Chance(40) {
		// add a nanosecond component
		extra := int64(r.Intn(1000))
		if r.Chance(30) {
			// the exact distance to max+1
			d := new(big.Int).Sub(max, total)
			if d.Sign() >= 0 && d.IsInt64() && d.Int64() < 1e18 {
				extra = d.Int64() + int64(r.Intn(2))
			}
		}
		lit += strconv.FormatInt(extra, 10) + "ns"
		total = new(big.Int).Add(total, big.NewInt(extra))
	}
	if r.Chance(40) {
		lit = "-" + lit
		total = new(big.Int).Neg(total)
	}
	_ = min
	return lit, total
}

// ----------------------------------------------------------------- strings

var c15HostilePieces = []string{
	"", ",", ":", "\"", "'", "`", "\\", "\x00", "\n", "\t", "\r", " ", "  ", "\x01", "\x7f", "\x1b",
	"a", "b", "Z", "0", "9", "-", "+", ".", "/", "$", "%", "_", "=", "(", ")", "[", "]", "{", "}", "#", "//", "/*", "*/",
	"é", "ß", "日本", "語", "😀", "\u200b", "\ufeff", "\u00a0", "\u2028", "\u0085", "\u0301", "\U0010ffff", "\ufffd", "\u202e",
	"\xff", "\xc0\xaf", "\xe2\x82", "\xf0\x9f", "\xed\xa0\x80",
	"\\n", "\\x00", "\\u00e9", "\\\"", "\\\\", "\\'",
	"\",\"", "\":\"", "\"\"", "a,b", "k:v", "a:b,c:d", ",,", "::",
	"true", "false", "nil", "NaN", "+Inf", "1e5", "0x", "0x1F", "-1", "1_000", "1h0m0s", "(1+2i)",
	"key", "value", "host", "port", "name",
}

// c15Str returns a hostile string.
func c15Str(r *fw.Rand) string {
	switch r.Intn(10) {
	case 0:
		return fw.Pick(r, c15HostilePieces)
	case 1:
		// plain word with a case-local number so values are distinguishable
		return fw.Pick(r, []string{"alpha", "beta", "gamma", "delta"}) + strconv.Itoa(r.Intn(1000))
	case 2:
		// arbitrary bytes
		n := r.Intn(12)
		b := make([]byte, n)
		for i := range b {
			b[i] = byte(r.U64())
		}
		return string(b)
	case 3:
		// arbitrary runes
		n := r.Intn(8)
		rs := make([]rune, n)
		for i := range rs {
			switch r.Intn(4) {
			case 0:
				rs[i] = rune(r.Intn(0x80))
			case 1:
				rs[i] = rune(r.Intn(0x800))
			case 2:
				rs[i] = rune(r.Intn(0x10000))
			default:
				rs[i] = rune(r.Intn(0x110000))
			}
		}
		return string(rs)
	default:
		n := 1 + r.Intn(5)
		if r.Chance(3) {
			n = 20 + r.Intn(80)
		}
		var sb strings.Builder
		for i := 0; i < n; i++ {
			sb.WriteString(fw.Pick(r, c15HostilePieces))
		}
		return sb.String()
	}
}

func c15CollLen(r *fw.Rand) int {
	switch r.Intn(20) {
	case 0:
		return 0
	case 1:
		return 1
	case 2:
		return 20 + r.Intn(180)
	default:
		return 1 + r.Intn(8)
	}
}

// --------------------------------------------------------- scalar values

// c15ScalarValue generates a value of the scalar type. forKey excludes
// values that cannot be told apart or found again as Go map keys (NaN, -0).
func c15ScalarValue(r *fw.Rand, s c15Scalar, forKey bool) reflect.Value {
	v := reflect.New(s.typ).Elem()
	switch {
	case s.dur:
		v.SetInt(int64(c15Duration(r)))
	case s.isInt():
		v.SetInt(c15IntIn(r, s.bits(), true).Int64())
	case s.isUint():
		v.SetUint(c15IntIn(r, s.bits(), false).Uint64())
	case s.isFloat():
		for {
			f := c15Float(r, s.floatBits())
			if forKey && (math.IsNaN(f) || (f == 0 && math.Signbit(f))) {
				continue
			}
			v.SetFloat(f)
			break
		}
	case s.isComplex():
		for {
			re, im := c15Float(r, s.floatBits()), c15Float(r, s.floatBits())
			if forKey && (math.IsNaN(re) || math.IsNaN(im) || (re == 0 && math.Signbit(re)) || (im == 0 && math.Signbit(im))) {
				continue
			}
			v.SetComplex(complex(re, im))
			break
		}
	case s.kind == reflect.Bool:
		v.SetBool(r.Bool())
	case s.kind == reflect.String:
		v.SetString(c15Str(r))
	default:
		panic("c15ScalarValue: " + s.name)
	}
	return v
}
