package checks

import (
	"context"
	"fmt"
	"math"
	"os"
	"reflect"
	"strconv"
	"strings"
	"sync"

	"github.com/vimeo/dials"
	"github.com/vimeo/dials/ptrify"
	"github.com/vimeo/dials/sources/env"

	"verifharness/fw"
	"verifharness/gen"
)

func init() {
	fw.Register(&fw.Check{
		ID: "C11",
		Rule: "Each case: a seeded reflect.StructOf config type (nested, pointer and embedded structs, depth <=3; string-castable leaves of 30 kinds incl. named scalar/slice/map types, plus text-unmarshalable leaves that are never set; `dials` tags in snake/kebab/lowerCamel/UpperCamel on any level, `dialsenv` tags on some leaves, initialisms and single-letter words in names), a unique Prefix (all earlier cases' variables stay in the environment as noise, plus near-miss names: no prefix, extra suffix, lower case, doubled underscore) or no prefix (serial, cleaned up), a seeded subset of variables set to the canonical text of typed values. " +
			"The expected variable name is computed from the generator's WORD LISTS (never by calling caseconversion); env.Source.Value's result, stacked over zero defaults by the real compose, must equal the reference stack of exactly the set leaves; unparsable and just-out-of-range literals must make Value return an error. " +
			"In about a third of the compared cases the SAME Source object is then asked again, once or twice, after the environment changed (variables removed - at least one -, changed, added; sometimes emptied), and after a rejected literal was corrected or removed: every call must equal the reference stack of the variables present at THAT call. " +
			"distinct_nontrivial = distinct (type-shape, set-pattern, prefix?) signatures with >=1 variable set and >=1 left unset.",
		Assumptions: []string{
			"ALL-CAPS dials tags are not generated (how an all-caps run splits into words is not fixed by the statement)",
			"names falling into the open C19 finding (initialism run + final two-letter word) are not generated here; C19 reports that defect",
			"text-unmarshalable leaves (time.Time, net.IP) appear in the types but their variables are never set: the env chain has no text-unmarshaler step, which is outside the statement's domain",
		},
		MinDistinct: map[string]int{"quick": 10000, "thorough": 300000},
		MinCounters: map[string]map[string]int64{
			"quick":    {"variables_set_and_compared": 20000, "leaves_expected_unset": 20000, "bad_literal_probes_rejected": 400, "noise_variables_present": 40000,
				"same_source_asked_again_after_the_environment_changed": 5000, "variables_removed_before_a_later_call": 5000},
			"thorough": {"variables_set_and_compared": 800000, "same_source_asked_again_after_the_environment_changed": 100000, "variables_removed_before_a_later_call": 100000},
		},
		Plan: func(tier string) fw.Plan {
			if tier == "thorough" {
				return fw.Plan{Shards: 64, CasesPerShard: 15000, Parallel: 16, TimeoutSec: 3000}
			}
			return fw.Plan{Shards: 16, CasesPerShard: 2500, TimeoutSec: 600}
		},
		Run: runC11,
	})
}

func envLeaves() []*gen.Leaf {
	out := gen.LeavesWith(gen.CapEnv, 0)
	// text-unmarshalable leaves are present in types but never set
	out = append(out, gen.LeafByName("time"), gen.LeafByName("ip"))
	return out
}

// pathWords: the words along a leaf's path as the statement describes them.
func pathWords(lr *gen.LeafRef) []string {
	var words []string
	for _, f := range lr.Path {
		if f.TagWords != nil {
			words = append(words, f.TagWords...)
		} else if !f.IsEmbedded() {
			words = append(words, f.Words...)
		}
	}
	return words
}

func envName(prefix string, lr *gen.LeafRef) string {
	name := ""
	if t, ok := lr.Leaf().Tags["dialsenv"]; ok {
		name = t
	} else {
		name = gen.UpperSnake(pathWords(lr))
	}
	if prefix != "" {
		name = prefix + "_" + name
	}
	return name
}

// badLiteral returns an unparsable or just-out-of-range literal for numeric leaves ("" if none applies).
func badLiteral(r *fw.Rand, lf *gen.Leaf) (string, string) {
	t := lf.Type
	switch t.Kind() {
	case reflect.Int8, reflect.Int16, reflect.Int32, reflect.Int64, reflect.Int, reflect.Uint8, reflect.Uint16, reflect.Uint32, reflect.Uint64, reflect.Uint,
		reflect.Float32, reflect.Float64, reflect.Bool:
		if r.Chance(12) {
			// the variable is present and empty: the empty text is no number (a present-but-empty variable is a value, not
			// an absent one)
			return "", "empty-text"
		}
	}
	switch t.Kind() {
	case reflect.Int8, reflect.Int16, reflect.Int32, reflect.Int64, reflect.Int:
		if lf.Name == "duration" {
			return "12parsecs", "unparsable-duration"
		}
		bits := t.Bits()
		switch r.Intn(3) {
		case 0:
			if bits == 64 {
				return "9223372036854775808", "int-max+1"
			}
			return fmt.Sprint(int64(1) << (bits - 1)), "int-max+1"
		case 1:
			if bits == 64 {
				return "-9223372036854775809", "int-min-1"
			}
			return fmt.Sprint(-(int64(1) << (bits - 1)) - 1), "int-min-1"
		}
		return "12abc", "unparsable-int"
	case reflect.Uint8, reflect.Uint16, reflect.Uint32, reflect.Uint64, reflect.Uint:
		bits := t.Bits()
		switch r.Intn(3) {
		case 0:
			if bits == 64 {
				return "18446744073709551616", "uint-max+1"
			}
			return fmt.Sprint(uint64(1) << bits), "uint-max+1"
		case 1:
			return "-1", "uint-negative"
		}
		return "0xZZ", "unparsable-uint"
	case reflect.Float32:
		if r.Bool() {
			return "3.5e38", "float32-overflow"
		}
		return "1.2.3", "unparsable-float"
	case reflect.Float64:
		if r.Bool() {
			return "1e309", "float64-overflow"
		}
		return "one", "unparsable-float"
	case reflect.Bool:
		return "maybe", "unparsable-bool"
	case reflect.Complex64:
		return "(1e39+0i)", "complex64-overflow"
	case reflect.Map:
		if t.Key().Kind() == reflect.Int {
			// one key named twice: the code rejects a repeated key, and which literal spells the key cannot matter
			switch r.Intn(3) {
			case 0:
				return `429:"a",429:"b"`, "map-key-repeated"
			case 1:
				return `429:"a",0x1AD:"b"`, "map-key-repeated-in-another-spelling"
			}
			return `7:"a", 0b111 :"b"`, "map-key-repeated-in-another-spelling"
		}
		if t.Key().Kind() == reflect.String && t.Elem().Kind() != reflect.Struct && r.Chance(30) { // (map[string]struct{} is a set: its text is a list)
			// an entry is key:value; a second unquoted colon inside one entry is unparsable (host:port, URLs), whatever
			// the value type: an error, not the text after the last colon
			lits := []string{`"a":1:2`, `"a"::1`, `"a":1:`, `a:1:2`, `"a":"1":"2"`, `"b":7,"a":1:2`}
			return fw.Pick(r, lits), "map-entry-with-a-second-colon"
		}
		if t.Elem().Kind() != reflect.Int {
			return "", ""
		}
		// entries whose value text is not an int: missing (the empty string is not a number, wherever the entry
		// stands in the list), unparsable, out of range
		switch r.Intn(5) {
		case 0:
			return `"a":1,"b"`, "map-entry-without-a-number-after-a-complete-entry"
		case 1:
			return `"a":1,"b":`, "map-entry-without-a-number-after-a-complete-entry"
		case 2:
			return `"b","a":1`, "map-entry-without-a-number-first"
		case 3:
			return `"a":1,"b":x2`, "map-entry-unparsable-int"
		}
		return `"a":1,"b":9223372036854775808`, "map-entry-int-max+1"
	case reflect.Slice:
		if t.Elem().Kind() == reflect.Int16 || t.Elem().Kind() == reflect.Int {
			return "1,2x,3", "slice-element-unparsable-int"
		}
	}
	_ = math.MaxInt8
	return "", ""
}

// c11AltInt spells one integer with a base prefix or digit separators.
func c11AltInt(r *fw.Rand, neg bool, abs uint64) string {
	sign := ""
	if neg {
		sign = "-"
	}
	switch r.Intn(5) {
	case 0:
		return sign + "0x" + strconv.FormatUint(abs, 16)
	case 1:
		return sign + "0o" + strconv.FormatUint(abs, 8)
	case 2:
		return sign + "0b" + strconv.FormatUint(abs, 2)
	case 3:
		return sign + "0" + strconv.FormatUint(abs, 8) // legacy octal (also "00" for zero)
	}
	d := strconv.FormatUint(abs, 10)
	if len(d) > 3 {
		d = d[:len(d)-3] + "_" + d[len(d)-3:]
	}
	return sign + d
}

// c11AltIntText: another spelling of an integer leaf's value (scalars and integer slices; not durations, not ip).
func c11AltIntText(r *fw.Rand, lf *gen.Leaf, v reflect.Value) (string, bool) {
	one := func(x reflect.Value) (string, bool) {
		switch x.Kind() {
		case reflect.Int, reflect.Int8, reflect.Int16, reflect.Int32, reflect.Int64:
			i := x.Int()
			if i < 0 {
				return c11AltInt(r, true, uint64(-(i+1))+1), true
			}
			return c11AltInt(r, false, uint64(i)), true
		case reflect.Uint, reflect.Uint8, reflect.Uint16, reflect.Uint32, reflect.Uint64:
			return c11AltInt(r, false, x.Uint()), true
		}
		return "", false
	}
	if lf.Name == "duration" || lf.Caps&gen.CapTextU != 0 {
		return "", false
	}
	if v.Kind() == reflect.Slice {
		if v.Len() == 0 {
			return "", false
		}
		parts := make([]string, v.Len())
		for k := range parts {
			p, ok := one(v.Index(k))
			if !ok {
				return "", false
			}
			parts[k] = p
			if r.Chance(30) {
				parts[k] = " " + p
			}
		}
		return strings.Join(parts, ","), true
	}
	return one(v)
}

func runC11(w *fw.Worker) {
	// the worker's own environment must not supply variables (PATH, HOME, ...)
	os.Clearenv()
	if w.ReplayCase < 0 && w.Shard < 4 {
		c11Concurrent(w)
	}
	var noPrefixVars []string
	envVars := 0
	noise := int64(0)
	w.Cases(func(i int, r *fw.Rand) {
		o := gen.GenOpts{MaxDepth: 3 - r.Intn(2), MaxFields: r.Range(2, 6), StructPct: r.Range(10, 45), TagPct: r.Range(0, 50), SkipPct: r.Range(0, 15),
			Leaves: envLeaves(), InitialismPct: 25, SingleLetterPct: 4, UnicodePct: 12}
		spec := gen.RandomSpec(r, o)
		leaves := spec.LeafRefs()
		// dialsenv tags on some leaves (before the type is built)
		for k, lr := range leaves {
			if r.Chance(12) {
				lr.Leaf().Tags["dialsenv"] = fmt.Sprintf("CUSTOM_%s_%d", gen.UpperSnake(lr.Leaf().Words), k)
			}
		}
		prefix := fmt.Sprintf("V%dS%dC%d", w.Seed%1000000, w.Shard, i)
		usePrefix := !r.Chance(15)
		if !usePrefix {
			prefix = ""
		}
		// sometimes the prefix is the very word a leaf's own name starts with (Prefix "APP", field AppName -> APP_APP_NAME)
		wordPrefix := usePrefix && r.Chance(12)
		if wordPrefix {
			if pw := pathWords(fw.Pick(r, leaves)); len(pw) > 0 {
				prefix = strings.ToUpper(pw[0])
				w.Count("prefix_equal_to_a_leafs_first_word", 1)
			} else {
				wordPrefix = false
			}
		}
		for _, v := range noPrefixVars {
			os.Unsetenv(v)
		}
		noPrefixVars = noPrefixVars[:0]
		if envVars > 60000 {
			envVars = 0
			// the noise of earlier cases is kept bounded (lookups and os.Environ() cost grows with it)
			os.Clearenv()
			w.Count("environment_resets", 1)
		}
		if !gen.FlattenedNamesDistinct(leaves) {
			w.Count("skipped_ambiguous_variable_names", 1)
			return
		}
		// the statement's naming rule must be unambiguous for this type
		names := map[string]bool{}
		for _, lr := range leaves {
			n := envName(prefix, lr)
			if names[n] {
				w.Count("skipped_ambiguous_variable_names", 1)
				return
			}
			names[n] = true
		}
		c := &gen.Counter{}
		layer := &gen.Layer{Vals: map[*gen.LeafRef]reflect.Value{}}
		texts := map[string]string{}
		setPct := r.Range(20, 80)
		var probeLeaf *gen.LeafRef
		probeClass := ""
		unquotedMap := false
		for _, lr := range leaves {
			lf := lr.Leaf().Leaf
			if lf.Caps&gen.CapEnv == 0 || lf.Text == nil {
				continue // text-unmarshalable: never set
			}
			if !r.Chance(setPct) {
				continue
			}
			if probeLeaf == nil && r.Chance(6) {
				if lit, cls := badLiteral(r, lf); cls != "" {
					probeLeaf, probeClass = lr, cls+":"+lf.Name
					texts[envName(prefix, lr)] = lit
					continue
				}
			}
			v := gen.GenLeafValue(r, c, lf)
			if lf.Type.Kind() == reflect.String && lf.Caps&gen.CapTextU == 0 && r.Chance(6) {
				// present and empty: the leaf is set to the empty string (it is not an absent variable)
				layer.Vals[lr] = reflect.Zero(lf.Type)
				texts[envName(prefix, lr)] = ""
				w.Count("string_leaves_set_by_a_present_but_empty_variable", 1)
				continue
			}
			if lf.Type == reflect.TypeOf(map[string]string{}) && !unquotedMap && r.Chance(8) {
				// unquoted key and value, the value with blanks inside: the source may refuse such text (the README asks
				// for quotes around anything but alphanumeric values), but it may not silently set a truncated value
				unquotedMap = true
				layer.Vals[lr] = reflect.ValueOf(map[string]string{"zone": "alpha beta 7"})
				texts[envName(prefix, lr)] = "zone:alpha beta 7"
				continue
			}
			layer.Vals[lr] = v
			texts[envName(prefix, lr)] = lf.Text(v)
			if alt, ok := c11AltIntText(r, lf, v); ok && r.Chance(20) {
				// integers (and integer list elements) may be spelled with a base prefix, digit separators, spaces
				texts[envName(prefix, lr)] = alt
				w.Count("integers_in_another_spelling", 1)
			}
		}
		set := func(k, v string) {
			os.Setenv(k, v)
			envVars++
			if prefix == "" || wordPrefix {
				noPrefixVars = append(noPrefixVars, k)
			}
		}
		for k, v := range texts {
			set(k, v)
		}
		// near-miss noise for every leaf
		for _, lr := range leaves {
			n := envName(prefix, lr)
			if prefix != "" {
				set("ZZ"+strings.TrimPrefix(n, prefix), "7") // wrong prefix
			}
			set(n+"_ZZNOISE", "7")
			set(strings.ToLower(n)+"zz", "7")
			set(strings.Replace(n, "_", "__", 1)+"_", "7")
			noise += 3
		}
		w.Count("noise_variables_present", noise)
		noise = 0
		witness := func() any {
			return map[string]any{"type": spec.Describe(), "prefix": prefix, "variables": texts}
		}
		zero := reflect.New(spec.Type())
		ptrType := ptrify.Pointerify(spec.Type(), zero.Elem())
		src := &env.Source{Prefix: prefix}
		got, err := src.Value(context.Background(), dials.NewType(ptrType))
		if probeLeaf != nil {
			if err == nil {
				w.Violation(i, "bad-literal-accepted:"+probeClass, fmt.Sprintf("variable %s=%q for leaf %s did not produce an error", envName(prefix, probeLeaf), texts[envName(prefix, probeLeaf)], probeLeaf), witness())
				return
			}
			w.Count("bad_literal_probes_rejected", 1)
			w.SetAdd("bad_literal_classes", probeClass)
			if !unquotedMap && r.Chance(50) {
				// the operator corrects (or removes) the offending variable and the SAME source object is asked again
				n := envName(prefix, probeLeaf)
				if r.Bool() {
					v := gen.GenLeafValue(r, c, probeLeaf.Leaf().Leaf)
					layer.Vals[probeLeaf] = v
					texts[n] = probeLeaf.Leaf().Leaf.Text(v)
					set(n, texts[n])
				} else {
					delete(texts, n)
					os.Unsetenv(n)
				}
				got2, err2 := src.Value(context.Background(), dials.NewType(ptrType))
				if c11Judge(w, i, spec, leaves, layer, got2, err2, "-on-a-later-call-of-the-same-source", func() any {
					return map[string]any{"first_call": "rejected a bad literal (" + probeClass + ")", "second_call": witness()}
				}) {
					w.Count("same_source_asked_again_after_a_rejected_literal_was_corrected", 1)
				}
			}
			return
		}
		if err != nil && unquotedMap {
			w.Count("unquoted_map_text_refused", 1)
			return
		}
		if err != nil {
			w.Violation(i, "value-error-on-well-formed-environment", err.Error(), witness())
			return
		}
		if unquotedMap {
			w.Count("unquoted_map_text_accepted_and_compared", 1)
		}
		res, cerr := dials.VerifCompose(zero.Interface(), []reflect.Value{got})
		if cerr != nil {
			w.Violation(i, "compose-error-on-env-value", cerr.Error(), witness())
			return
		}
		want := gen.ReferenceStack(reflect.New(spec.Type()).Elem(), []*gen.Layer{layer})
		if d := gen.Diff(want, reflect.ValueOf(res).Elem()); d != "" {
			key := "env-result-differs:" + c11Classify(spec, leaves, layer, d)
			w.Violation(i, key, "reference vs env source at "+d, witness())
			return
		}
		w.Count("variables_set_and_compared", int64(len(layer.Vals)))
		w.Count("leaves_expected_unset", int64(len(leaves)-len(layer.Vals)))
		for lr := range layer.Vals {
			w.SetAdd("leaf_kinds_set", lr.Leaf().Leaf.Name)
		}
		if len(layer.Vals) > 0 && len(layer.Vals) < len(leaves) {
			m, _ := setMatrix(leaves, []*gen.Layer{layer})
			w.Distinct(spec.Signature() + "#" + m + fmt.Sprint(usePrefix))
		}
		if i%173 == 0 {
			w.Sample(witness())
		}
		if unquotedMap || !r.Chance(c11RereadPct) {
			return
		}
		// The SAME source object is asked again (a re-read of the environment, e.g. Blank.SetSource with the source that is
		// already installed) after the environment changed: some variables removed, some changed, some added. Every call
		// must reflect the environment as it is at that call.
		first := witness()
		tyArg := dials.NewType(ptrType)
		for round, rounds := 1, r.Range(1, 2); round <= rounds; round++ {
			removed, changed, added := 0, 0, 0
			drop := func(lr *gen.LeafRef) {
				n := envName(prefix, lr)
				delete(layer.Vals, lr)
				delete(texts, n)
				os.Unsetenv(n)
				removed++
			}
			emptyAll := r.Chance(10)
			for _, lr := range leaves {
				lf := lr.Leaf().Leaf
				if lf.Caps&gen.CapEnv == 0 || lf.Text == nil {
					continue
				}
				n := envName(prefix, lr)
				if _, isSet := layer.Vals[lr]; isSet {
					switch k := r.Intn(10); {
					case k < 4 || emptyAll:
						drop(lr)
					case k < 6:
						v := gen.GenLeafValue(r, c, lf)
						layer.Vals[lr] = v
						texts[n] = lf.Text(v)
						set(n, texts[n])
						changed++
					}
				} else if !emptyAll && r.Chance(20) {
					v := gen.GenLeafValue(r, c, lf)
					layer.Vals[lr] = v
					texts[n] = lf.Text(v)
					set(n, texts[n])
					added++
				}
			}
			if removed == 0 && len(layer.Vals) > 0 {
				// at least one variable that was present is gone
				for _, lr := range leaves {
					if _, isSet := layer.Vals[lr]; isSet {
						drop(lr)
						break
					}
				}
			}
			if r.Bool() {
				tyArg = dials.NewType(ptrType)
			}
			gotN, errN := src.Value(context.Background(), tyArg)
			if !c11Judge(w, i, spec, leaves, layer, gotN, errN, "-on-a-later-call-of-the-same-source", func() any {
				return map[string]any{"call": round + 1, "first_call": first, "this_call": witness(), "variables_removed": removed, "variables_changed": changed, "variables_added": added}
			}) {
				return
			}
			w.Count("same_source_asked_again_after_the_environment_changed", 1)
			w.Count("variables_removed_before_a_later_call", int64(removed))
			w.Count("variables_changed_before_a_later_call", int64(changed))
			w.Count("variables_added_before_a_later_call", int64(added))
			w.Count("leaves_expected_unset_on_a_later_call", int64(len(leaves)-len(layer.Vals)))
		}
	})
}

// c11RereadPct: share of the compared cases whose source object is asked again after the environment changed.
const c11RereadPct = 30

// c11Judge compares one Value result of an environment source, stacked over zero defaults, with the reference stack of
// exactly the leaves whose variables are present now; suffix names the episode in the violation key.
func c11Judge(w *fw.Worker, i int, spec *gen.Spec, leaves []*gen.LeafRef, layer *gen.Layer, got reflect.Value, err error, suffix string, witness func() any) bool {
	if err != nil {
		w.Violation(i, "value-error-on-well-formed-environment"+suffix, err.Error(), witness())
		return false
	}
	res, cerr := dials.VerifCompose(reflect.New(spec.Type()).Interface(), []reflect.Value{got})
	if cerr != nil {
		w.Violation(i, "compose-error-on-env-value"+suffix, cerr.Error(), witness())
		return false
	}
	want := gen.ReferenceStack(reflect.New(spec.Type()).Elem(), []*gen.Layer{layer})
	if d := gen.Diff(want, reflect.ValueOf(res).Elem()); d != "" {
		w.Violation(i, "env-result-differs"+suffix+":"+c11Classify(spec, leaves, layer, d), "reference vs env source at "+d, witness())
		return false
	}
	return true
}

// c11Classify: was the differing leaf expected set (its variable was present) or unset, and what shape is its name.
func c11Classify(spec *gen.Spec, leaves []*gen.LeafRef, layer *gen.Layer, d string) string {
	kind := c01Classify(spec, d)
	for _, lr := range leaves {
		p := ""
		for _, f := range lr.Path {
			p += "." + f.Name
		}
		if strings.HasPrefix(d, p+":") || strings.HasPrefix(d, p+"*") || strings.HasPrefix(d, p+"[") || strings.HasPrefix(d, p+".") {
			state := "expected-unset"
			if _, ok := layer.Vals[lr]; ok {
				state = "expected-set"
			}
			shape := "plain"
			if _, ok := lr.Leaf().Tags["dialsenv"]; ok {
				shape = "dialsenv-tag"
			} else {
				for _, f := range lr.Path {
					if f.TagWords != nil {
						shape = "dials-tag:" + f.TagStyle
					}
					for _, wd := range f.Words {
						if len(wd) == 1 && f.TagWords == nil && !f.IsEmbedded() {
							shape = "single-letter-word"
						}
					}
				}
			}
			return state + ":" + shape + ":" + kind
		}
	}
	return "unknown-leaf:" + kind
}

// ---- concurrent use of the environment source

type c11UniInner struct {
	ÖlStand int
	Name    string
}

// c11Uni: field names that start with, contain and end in non-ASCII letters.
type c11Uni struct {
	Übertragung   int
	ÉcouteAdresse string
	Inner         c11UniInner
	CaféID        int
}

// c11Concurrent: several goroutines (several Dials instances of one process) ask environment sources for their values
// at the same time; each must get exactly what a single caller gets.
func c11Concurrent(w *fw.Worker) {
	vars := map[string]string{"UNI_ÜBERTRAGUNG": "11", "UNI_ÉCOUTE_ADRESSE": "[::1]:80", "UNI_INNER_ÖL_STAND": "7", "UNI_INNER_NAME": "n", "UNI_CAFÉ_ID": "3"}
	for k, v := range vars {
		os.Setenv(k, v)
	}
	defer func() {
		for k := range vars {
			os.Unsetenv(k)
		}
	}()
	load := func() (c11Uni, error) {
		d, err := dials.Config(context.Background(), &c11Uni{}, &env.Source{Prefix: "UNI"})
		if err != nil {
			return c11Uni{}, err
		}
		return *d.View(), nil
	}
	want := c11Uni{Übertragung: 11, ÉcouteAdresse: "[::1]:80", Inner: c11UniInner{ÖlStand: 7, Name: "n"}, CaféID: 3}
	if got, err := load(); err != nil || got != want {
		w.Violation(-1, "env-result-differs:non-ascii-names", fmt.Sprintf("single caller: got %+v err %v, want %+v", got, err, want), map[string]any{"variables": vars})
		return
	}
	nG, per := 8, w.Pick(150, 1500)
	var wg sync.WaitGroup
	var mu sync.Mutex
	first := ""
	for g := 0; g < nG; g++ {
		wg.Add(1)
		go func() {
			defer wg.Done()
			defer func() {
				if p := recover(); p != nil {
					mu.Lock()
					if first == "" {
						first = fmt.Sprintf("panic: %v", p)
					}
					mu.Unlock()
				}
			}()
			for k := 0; k < per; k++ {
				got, err := load()
				if err != nil || got != want {
					mu.Lock()
					if first == "" {
						first = fmt.Sprintf("got %+v err %v", got, err)
					}
					mu.Unlock()
					return
				}
			}
		}()
	}
	wg.Wait()
	w.Eval(int64(nG * per))
	w.Count("concurrent_env_loads_compared", int64(nG*per))
	if first != "" {
		w.Violation(-1, "env-result-differs:concurrent-callers", fmt.Sprintf("%d goroutines loading the same environment at once: %s; a single caller gets %+v", nG, first, want), map[string]any{"variables": vars})
	}
}
