package checks

// C03 graph plans: a JSON-serialisable description of an object graph over one
// of two recursive node families, a deterministic materialiser (building the
// same plan twice gives two disjoint, isomorphic graphs: one is handed to
// dials, the twin is the oracle's expectation) and a seeded plan generator.

import (
	"fmt"
	"reflect"
	"sort"
	"time"

	"verifharness/fw"
)

// c03Node is family "A": the type recurses through a direct *c03Node field,
// so it can only be given to the deep copier (ptrify.Pointerify recurses on
// such a type itself).
type c03Node struct {
	ID   int
	Next *c03Node
	Kids []*c03Node
	Pair [2]*c03Node
	M    map[string]*c03Node
	MM   map[string]map[string]*c03Node
	Any  any
	Leaf *int
	MA   map[string][2]*c03Node // array-valued map: the values hold references
	// exported but opted out of configuration: dials never lets a source set
	// these, but every copy of a value carries them along.
	Skip    *c03Node            `dials:"-"`
	SkipM   map[string]*c03Node `dials:"-"`
	SkipS   []*c03Node          `dials:"-"`
	SkipAny any                 `dials:"-"`
}

// c03BNode is family "B": type-level recursion only through slices, arrays
// (of pointers), maps and interfaces, so dials.Config accepts it as a config type.
type c03BNode struct {
	ID    int
	Kids  []*c03BNode
	Pair  [2]*c03BNode
	Pairs [][2]*c03BNode
	M     map[string]*c03BNode
	MM    map[string]map[string]*c03BNode
	Any   any
	Leaf  *int
	MA    map[string][2]*c03BNode
	// (ptrify.Pointerify drops dials:"-" fields before looking at their type,
	// so the direct *c03BNode here does not make the type recurse)
	Skip    *c03BNode            `dials:"-"`
	SkipM   map[string]*c03BNode `dials:"-"`
	SkipS   []*c03BNode          `dials:"-"`
	SkipAny any                  `dials:"-"`
}

// c03RNode is family "R": like family A, but every reference between nodes is
// of the DEFINED pointer type c03RRef (type c03RRef *c03RNode) instead of the
// unnamed *c03RNode: struct fields, slice/array elements, map values and the
// pointers held in interface values. A defined pointer type is a pointer type
// like any other (reflect.Kind Pointer), but reflect.PointerTo(node) is a
// different type. Deep copier only (the type recurses through a direct field).
type c03RRef *c03RNode

type c03RNode struct {
	ID      int
	Next    c03RRef
	Kids    []c03RRef
	Pair    [2]c03RRef
	M       map[string]c03RRef
	MM      map[string]map[string]c03RRef
	Any     any
	Leaf    *int
	MA      map[string][2]c03RRef
	Skip    c03RRef            `dials:"-"`
	SkipM   map[string]c03RRef `dials:"-"`
	SkipS   []c03RRef          `dials:"-"`
	SkipAny any                `dials:"-"`
}

// c03Holder / c03BHolder hold nodes BY VALUE (a struct-typed field, the
// elements of an array and of a slice arena) ahead of the fields that refer
// to them by pointer. The deep copier registers a by-value struct's address
// before copying its fields, so pointers to it from inside its own subtree
// (self-loops, cycles re-entering it) and from anything copied later must
// resolve to the copy itself.
type c03Holder struct {
	Head  c03Node
	Arr   [2]c03Node
	Arena []c03Node
	All   []*c03Node
	Idx   map[string]*c03Node
	Any   any
}

type c03BHolder struct {
	Head  c03BNode
	Arr   [2]c03BNode
	Arena []c03BNode
	All   []*c03BNode
	Idx   map[string]*c03BNode
	Any   any
}

// c03Priv is held BY VALUE in interface values: a struct with non-zero
// unexported fields (which only a whole-struct assignment carries over) and
// an exported reference that must still be deep-copied.
type c03Priv struct {
	Label  string
	Ref    any
	secret int
	note   string
}

// c03Zone gives time.Time payloads a non-nil unexported *Location.
var c03Zone = time.FixedZone("C03", 3600)

type c03Fam struct {
	name                                                   string
	node                                                   reflect.Type // struct
	ptr                                                    reflect.Type // *node
	slice                                                  reflect.Type // []*node
	arr                                                    reflect.Type // [2]*node
	arrSlice                                               reflect.Type // [][2]*node
	mp                                                     reflect.Type // map[string]*node
	mm                                                     reflect.Type // map[string]map[string]*node
	ma                                                     reflect.Type // map[string][2]*node
	holder                                                 reflect.Type // c03Holder / c03BHolder
	fMA                                                    int
	hasNext                                                bool
	hasPairs                                               bool
	fID, fNext, fKids, fPair, fPairs, fM, fMM, fAny, fLeaf int
	fSkip, fSkipM, fSkipS, fSkipAny                        int
}

func idx0(t reflect.Type, n string) int {
	sf, ok := t.FieldByName(n)
	if !ok {
		return -1
	}
	return sf.Index[0]
}

// c03MakeFam: ptr is the type every reference to a node has (nil: *node).
func c03MakeFam(name string, node reflect.Type, ptr reflect.Type) *c03Fam {
	if ptr == nil {
		ptr = reflect.PointerTo(node)
	}
	f := &c03Fam{name: name, node: node, ptr: ptr}
	f.slice = reflect.SliceOf(f.ptr)
	f.arr = reflect.ArrayOf(2, f.ptr)
	f.arrSlice = reflect.SliceOf(f.arr)
	f.mp = reflect.MapOf(reflect.TypeOf(""), f.ptr)
	f.mm = reflect.MapOf(reflect.TypeOf(""), f.mp)
	f.ma = reflect.MapOf(reflect.TypeOf(""), f.arr)
	f.fMA = idx0(node, "MA")
	if name == "B" {
		f.holder = reflect.TypeOf(c03BHolder{})
	} else {
		f.holder = reflect.TypeOf(c03Holder{})
	}
	idx := func(n string) int {
		sf, ok := node.FieldByName(n)
		if !ok {
			return -1
		}
		return sf.Index[0]
	}
	f.fID, f.fNext, f.fKids, f.fPair, f.fPairs = idx("ID"), idx("Next"), idx("Kids"), idx("Pair"), idx("Pairs")
	f.fM, f.fMM, f.fAny, f.fLeaf = idx("M"), idx("MM"), idx("Any"), idx("Leaf")
	f.fSkip, f.fSkipM, f.fSkipS, f.fSkipAny = idx("Skip"), idx("SkipM"), idx("SkipS"), idx("SkipAny")
	f.hasNext = f.fNext >= 0
	f.hasPairs = f.fPairs >= 0
	return f
}

var (
	c03FamA = c03MakeFam("A", reflect.TypeOf(c03Node{}), nil)
	c03FamB = c03MakeFam("B", reflect.TypeOf(c03BNode{}), nil)
	c03FamR = c03MakeFam("R", reflect.TypeOf(c03RNode{}), reflect.TypeOf(c03RRef(nil)))
)

func c03FamOf(name string) *c03Fam {
	switch name {
	case "B":
		return c03FamB
	case "R":
		return c03FamR
	}
	return c03FamA
}

// c03AnyPlan describes the dynamic value of an interface (field Any, values
// of map[string]any and elements of []any).
//
//	nil | ptr I | node I (struct value copy) | slice L | arr L[0:2] | map I | mm I |
//	amap I | aslice I | nilptr | nilmap | nilslice | int I | str I | leaf I | pp I |
//	time I (time.Time by value; odd I: with a *Location) | priv I (c03Priv by value, Ref -> node I) |
//	ma I (map[string][2]*node object) |
//	view I L[lo,hi] ([]*node window Backs[I][lo:hi]) | aview I L[lo,hi] ([]any window ASlices[I][lo:hi])
type c03AnyPlan struct {
	K string `json:"k"`
	I int    `json:"i,omitempty"`
	L []int  `json:"l,omitempty"`
	C int    `json:"c,omitempty"` // slice: spare capacity beyond len(L)
}

type c03NodePlan struct {
	Next   int        `json:"next"` // family A only; -1 nil
	Kids   []int      `json:"kids"` // nil => nil slice; -1 => nil element
	Hidden []int      `json:"hidden,omitempty"`
	Spare  int        `json:"spare,omitempty"`  // Kids: extra (zero) capacity; Kids=[] with Spare>0 is make([]*node, 0, Spare)
	PSpare int        `json:"pspare,omitempty"` // Pairs: extra capacity
	Pair   [2]int     `json:"pair"`
	Pairs  [][2]int   `json:"pairs,omitempty"` // family B only
	M      int        `json:"m"`               // index into Maps, -1 nil
	MM     int        `json:"mm"`              // index into MMaps, -1 nil
	Any    c03AnyPlan `json:"any"`
	// Leaf: -1 nil; 0..Leafs-1 a shared heap int; 1000+j the address of node j's ID field.
	Leaf int `json:"leaf"`
	MA   int `json:"ma"` // index into MAs, -1 nil
	// the dials:"-" fields
	Skip    int        `json:"skip"`  // node index, -1 nil
	SkipM   int        `json:"skipm"` // index into Maps, -1 nil
	SkipS   []int      `json:"skips,omitempty"`
	SkipAny c03AnyPlan `json:"skipany"`
}

type c03Plan struct {
	Fam     string                  `json:"fam"`
	Leafs   int                     `json:"leafs"`
	Nodes   []c03NodePlan           `json:"nodes"`
	Maps    []map[string]int        `json:"maps,omitempty"`    // map[string]*node objects
	MMaps   []map[string]int        `json:"mmaps,omitempty"`   // map[string]map[string]*node objects: key -> Maps index
	AMaps   []map[string]c03AnyPlan `json:"amaps,omitempty"`   // map[string]any objects
	ASlices [][]c03AnyPlan          `json:"aslices,omitempty"` // []any objects
	ASpare  []int                   `json:"aspare,omitempty"`  // spare capacity of each []any object
	// MAs: map[string][2]*node objects (array-valued maps), key -> two node indices
	MAs []map[string][2]int `json:"mas,omitempty"`
	// ByVal: plan nodes that live BY VALUE in a holder struct instead of on
	// the heap: ByVal[0] is holder.Head, ByVal[1..2] holder.Arr[0..1],
	// ByVal[3..] the elements of holder.Arena. Only used with the holder
	// entry shapes; see c03AddByValueNodes for the edge discipline.
	ByVal []int `json:"byval,omitempty"`
	// Backs: backing arrays of []*node; interface payloads of kind "view"
	// are windows [lo:hi] into them (overlapping views of one array).
	Backs [][]int `json:"backs,omitempty"`
}

// c03Built is a materialised plan.
type c03Built struct {
	fam     *c03Fam
	nodes   []reflect.Value // *node values
	maps    []reflect.Value
	mmaps   []reflect.Value
	amaps   []map[string]any
	aslices [][]any
	leafs   []*int
	backs   []reflect.Value // []*node of full length
	mas     []reflect.Value
	holder  reflect.Value // *holder, valid when the plan has by-value nodes
}

func (b *c03Built) nodeOrNil(i int) reflect.Value {
	if i < 0 || i >= len(b.nodes) {
		return reflect.Zero(b.fam.ptr)
	}
	return b.nodes[i]
}

func (b *c03Built) root() reflect.Value { return b.nodes[0] }

func c03SortedKeys[V any](m map[string]V) []string {
	ks := make([]string, 0, len(m))
	for k := range m {
		ks = append(ks, k)
	}
	sort.Strings(ks)
	return ks
}

// c03Build materialises a plan. It is deterministic in everything but
// addresses: two builds of one plan are isomorphic and share nothing.
func c03Build(p *c03Plan) *c03Built {
	f := c03FamOf(p.Fam)
	b := &c03Built{fam: f}
	b.nodes = make([]reflect.Value, len(p.Nodes))
	if len(p.ByVal) > 0 {
		b.holder = reflect.New(f.holder)
		h := b.holder.Elem()
		if n := len(p.ByVal) - 3; n > 0 {
			h.FieldByName("Arena").Set(reflect.MakeSlice(reflect.SliceOf(f.node), n, n))
		}
		for k, ni := range p.ByVal {
			var loc reflect.Value
			switch {
			case k == 0:
				loc = h.FieldByName("Head")
			case k <= 2:
				loc = h.FieldByName("Arr").Index(k - 1)
			default:
				loc = h.FieldByName("Arena").Index(k - 3)
			}
			b.nodes[ni] = loc.Addr().Convert(f.ptr)
		}
	}
	for i := range p.Nodes {
		if !b.nodes[i].IsValid() {
			b.nodes[i] = reflect.New(f.node).Convert(f.ptr)
		}
		b.nodes[i].Elem().Field(f.fID).SetInt(int64(100 + i))
	}
	for i := 0; i < p.Leafs; i++ {
		x := new(int)
		*x = 9000 + i
		b.leafs = append(b.leafs, x)
	}
	for range p.Maps {
		b.maps = append(b.maps, reflect.MakeMap(f.mp))
	}
	for range p.MMaps {
		b.mmaps = append(b.mmaps, reflect.MakeMap(f.mm))
	}
	for range p.AMaps {
		b.amaps = append(b.amaps, map[string]any{})
	}
	for i, s := range p.ASlices {
		spare := 0
		if i < len(p.ASpare) {
			spare = p.ASpare[i]
		}
		b.aslices = append(b.aslices, make([]any, len(s), len(s)+spare))
	}
	for _, m := range p.MAs {
		mv := reflect.MakeMap(f.ma)
		for _, k := range c03SortedKeys(m) {
			arr := reflect.New(f.arr).Elem()
			arr.Index(0).Set(b.nodeOrNil(m[k][0]))
			arr.Index(1).Set(b.nodeOrNil(m[k][1]))
			mv.SetMapIndex(reflect.ValueOf(k), arr)
		}
		b.mas = append(b.mas, mv)
	}
	for _, bk := range p.Backs {
		s := reflect.MakeSlice(f.slice, len(bk), len(bk))
		for j, k := range bk {
			s.Index(j).Set(b.nodeOrNil(k))
		}
		b.backs = append(b.backs, s)
	}
	for mi, m := range p.Maps {
		for _, k := range c03SortedKeys(m) {
			b.maps[mi].SetMapIndex(reflect.ValueOf(k), b.nodeOrNil(m[k]))
		}
	}
	for mi, m := range p.MMaps {
		for _, k := range c03SortedKeys(m) {
			v := reflect.Zero(f.mp)
			if m[k] >= 0 && m[k] < len(b.maps) {
				v = b.maps[m[k]]
			}
			b.mmaps[mi].SetMapIndex(reflect.ValueOf(k), v)
		}
	}
	// pass 1: everything but interface payloads
	for i, np := range p.Nodes {
		n := b.nodes[i].Elem()
		if f.hasNext && np.Next >= 0 {
			n.Field(f.fNext).Set(b.nodeOrNil(np.Next))
		}
		if np.Kids != nil {
			s := reflect.MakeSlice(f.slice, len(np.Kids)+len(np.Hidden), len(np.Kids)+len(np.Hidden)+np.Spare)
			for j, k := range np.Kids {
				s.Index(j).Set(b.nodeOrNil(k))
			}
			for j, k := range np.Hidden {
				s.Index(len(np.Kids) + j).Set(b.nodeOrNil(k))
			}
			n.Field(f.fKids).Set(s.Slice(0, len(np.Kids)))
		}
		for j := 0; j < 2; j++ {
			n.Field(f.fPair).Index(j).Set(b.nodeOrNil(np.Pair[j]))
		}
		if f.hasPairs && np.Pairs != nil {
			s := reflect.MakeSlice(f.arrSlice, len(np.Pairs), len(np.Pairs)+np.PSpare)
			for j, pr := range np.Pairs {
				s.Index(j).Index(0).Set(b.nodeOrNil(pr[0]))
				s.Index(j).Index(1).Set(b.nodeOrNil(pr[1]))
			}
			n.Field(f.fPairs).Set(s)
		}
		if np.M >= 0 && np.M < len(b.maps) {
			n.Field(f.fM).Set(b.maps[np.M])
		}
		if np.MM >= 0 && np.MM < len(b.mmaps) {
			n.Field(f.fMM).Set(b.mmaps[np.MM])
		}
		if np.MA >= 0 && np.MA < len(b.mas) {
			n.Field(f.fMA).Set(b.mas[np.MA])
		}
		if np.Skip >= 0 {
			n.Field(f.fSkip).Set(b.nodeOrNil(np.Skip))
		}
		if np.SkipM >= 0 && np.SkipM < len(b.maps) {
			n.Field(f.fSkipM).Set(b.maps[np.SkipM])
		}
		if np.SkipS != nil {
			s := reflect.MakeSlice(f.slice, len(np.SkipS), len(np.SkipS))
			for j, k := range np.SkipS {
				s.Index(j).Set(b.nodeOrNil(k))
			}
			n.Field(f.fSkipS).Set(s)
		}
		switch {
		case np.Leaf >= 1000 && np.Leaf-1000 < len(b.nodes):
			n.Field(f.fLeaf).Set(b.nodes[np.Leaf-1000].Elem().Field(f.fID).Addr())
		case np.Leaf >= 0 && np.Leaf < len(b.leafs):
			n.Field(f.fLeaf).Set(reflect.ValueOf(b.leafs[np.Leaf]))
		}
	}
	// pass 2: interface payloads of nodes (in node order), then of the
	// map[string]any and []any objects.
	for i, np := range p.Nodes {
		if v := b.anyValue(&np.Any); v != nil {
			b.nodes[i].Elem().Field(f.fAny).Set(reflect.ValueOf(v))
		}
		if v := b.anyValue(&np.SkipAny); v != nil {
			b.nodes[i].Elem().Field(f.fSkipAny).Set(reflect.ValueOf(v))
		}
	}
	for mi, m := range p.AMaps {
		for _, k := range c03SortedKeys(m) {
			ap := m[k]
			b.amaps[mi][k] = b.anyValue(&ap)
		}
	}
	for si, s := range p.ASlices {
		for j := range s {
			v := b.anyValue(&s[j])
			if s[j].K == "node" {
				// a struct copy inside a []any carries no interface payload of
				// its own, so that no slice reaches itself through values only
				// (that topology is kept to the fixed corpus).
				c := reflect.New(f.node).Elem()
				c.Set(reflect.ValueOf(v))
				c.Field(f.fAny).Set(reflect.Zero(c.Field(f.fAny).Type()))
				c.Field(f.fSkipAny).Set(reflect.Zero(c.Field(f.fSkipAny).Type()))
				v = c.Interface()
			}
			b.aslices[si][j] = v
		}
	}
	return b
}

func (b *c03Built) anyValue(a *c03AnyPlan) any {
	f := b.fam
	switch a.K {
	case "", "nil":
		return nil
	case "ptr":
		return b.nodeOrNil(a.I).Interface()
	case "node":
		if a.I < 0 || a.I >= len(b.nodes) {
			return reflect.Zero(f.node).Interface()
		}
		return b.nodes[a.I].Elem().Interface()
	case "slice":
		s := reflect.MakeSlice(f.slice, len(a.L), len(a.L)+a.C)
		for j, k := range a.L {
			s.Index(j).Set(b.nodeOrNil(k))
		}
		return s.Interface()
	case "arr":
		arr := reflect.New(f.arr).Elem()
		for j := 0; j < 2 && j < len(a.L); j++ {
			arr.Index(j).Set(b.nodeOrNil(a.L[j]))
		}
		return arr.Interface()
	case "map":
		if a.I < 0 || a.I >= len(b.maps) {
			return reflect.Zero(f.mp).Interface()
		}
		return b.maps[a.I].Interface()
	case "mm":
		if a.I < 0 || a.I >= len(b.mmaps) {
			return reflect.Zero(f.mm).Interface()
		}
		return b.mmaps[a.I].Interface()
	case "amap":
		if a.I < 0 || a.I >= len(b.amaps) {
			return map[string]any(nil)
		}
		return b.amaps[a.I]
	case "aslice":
		if a.I < 0 || a.I >= len(b.aslices) {
			return []any(nil)
		}
		return b.aslices[a.I]
	case "time":
		t := time.Date(2024, 1, 2, 3, 4, 5, 600+a.I, time.UTC)
		if a.I%2 == 1 {
			t = t.In(c03Zone)
		}
		return t
	case "priv":
		return c03Priv{Label: fmt.Sprintf("p%d", a.I), Ref: b.nodeOrNil(a.I).Interface(), secret: 4200 + a.I, note: "private"}
	case "view":
		if a.I < 0 || a.I >= len(b.backs) || len(a.L) != 2 {
			return reflect.Zero(f.slice).Interface()
		}
		return b.backs[a.I].Slice(a.L[0], a.L[1]).Interface()
	case "aview":
		if a.I < 0 || a.I >= len(b.aslices) || len(a.L) != 2 {
			return []any(nil)
		}
		return b.aslices[a.I][a.L[0]:a.L[1]]
	case "ma":
		if a.I < 0 || a.I >= len(b.mas) {
			return reflect.Zero(f.ma).Interface()
		}
		return b.mas[a.I].Interface()
	case "nilptr":
		return reflect.Zero(f.ptr).Interface()
	case "nilmap":
		return reflect.Zero(f.mp).Interface()
	case "nilslice":
		return reflect.Zero(f.slice).Interface()
	case "int":
		return 7000 + a.I
	case "str":
		return fmt.Sprintf("s%d", a.I)
	case "leaf":
		if a.I < 0 || a.I >= len(b.leafs) {
			return (*int)(nil)
		}
		return b.leafs[a.I]
	case "pp":
		pp := reflect.New(f.ptr)
		pp.Elem().Set(b.nodeOrNil(a.I))
		return pp.Interface()
	}
	panic("c03: unknown any-plan kind " + a.K)
}

// c03GenOpts tunes the plan generator.
type c03GenOpts struct {
	MaxNodes int
	// Interior: percentage chance that a Leaf points at another node's ID field.
	Interior int
}

func c03GenAny(r *fw.Rand, p *c03Plan, n int, asliceBelow int) c03AnyPlan {
	type wk struct {
		k string
		w int
	}
	ks := []wk{{"ptr", 25}, {"node", 8}, {"slice", 10}, {"arr", 6}, {"nilptr", 5}, {"nilmap", 2}, {"nilslice", 2}, {"int", 4}, {"str", 3}, {"pp", 4}, {"time", 5}, {"priv", 6}}
	if len(p.Maps) > 0 {
		ks = append(ks, wk{"map", 8})
	}
	if len(p.MMaps) > 0 {
		ks = append(ks, wk{"mm", 3})
	}
	if len(p.AMaps) > 0 {
		ks = append(ks, wk{"amap", 8})
	}
	if asliceBelow > 0 {
		ks = append(ks, wk{"aslice", 5}, wk{"aview", 6})
	}
	if len(p.Backs) > 0 {
		ks = append(ks, wk{"view", 14})
	}
	if len(p.MAs) > 0 {
		ks = append(ks, wk{"ma", 7})
	}
	if p.Leafs > 0 {
		ks = append(ks, wk{"leaf", 4})
	}
	tot := 0
	for _, k := range ks {
		tot += k.w
	}
	x := r.Intn(tot)
	kind := ""
	for _, k := range ks {
		if x < k.w {
			kind = k.k
			break
		}
		x -= k.w
	}
	a := c03AnyPlan{K: kind}
	switch kind {
	case "ptr", "node", "pp", "priv":
		a.I = r.Intn(n)
	case "time":
		a.I = r.Intn(4)
	case "slice":
		l := r.Range(0, 3)
		a.L = make([]int, l)
		for j := range a.L {
			a.L[j] = r.Intn(n+1) - 1
		}
		if l >= 2 && r.Chance(40) {
			a.L[1] = a.L[0]
		}
		a.C = c03GenSpare(r, l)
	case "arr":
		a.L = []int{r.Intn(n+1) - 1, r.Intn(n+1) - 1}
	case "map":
		a.I = r.Intn(len(p.Maps))
	case "mm":
		a.I = r.Intn(len(p.MMaps))
	case "amap":
		a.I = r.Intn(len(p.AMaps))
	case "ma":
		a.I = r.Intn(len(p.MAs))
	case "aslice":
		a.I = r.Intn(asliceBelow)
	case "aview":
		a.I = r.Intn(asliceBelow)
		a.L = c03GenWindow(r, len(p.ASlices[a.I]))
	case "view":
		a.I = r.Intn(len(p.Backs))
		a.L = c03GenWindow(r, len(p.Backs[a.I]))
	case "leaf":
		a.I = r.Intn(p.Leafs)
	case "int", "str":
		a.I = r.Intn(5)
	}
	return a
}

// c03GenWindow draws a window [lo,hi] of a backing array of length n: the
// whole array, a prefix (same start, shorter: what append within capacity
// gives the other way round), a suffix (different start) or a middle part.
func c03GenWindow(r *fw.Rand, n int) []int {
	if n == 0 {
		return []int{0, 0}
	}
	switch r.Intn(4) {
	case 0:
		return []int{0, n}
	case 1:
		return []int{0, r.Intn(n)}
	case 2:
		return []int{r.Range(1, n), n}
	}
	lo := r.Intn(n)
	return []int{lo, r.Range(lo, n)}
}

// c03GenSpare draws the spare capacity of a slice of length l: zero-length
// slices mostly get a real backing array (make([]T, 0, n)).
func c03GenSpare(r *fw.Rand, l int) int {
	if l == 0 {
		if r.Chance(60) {
			return r.Range(1, 4)
		}
		return 0
	}
	if r.Chance(10) {
		return r.Range(1, 3)
	}
	return 0
}

// c03GenPlan draws a random graph plan. []any objects only reference []any
// objects with a smaller index (a slice reaching itself through interface
// values only is kept to the fixed corpus, see c03Fixed).
func c03GenPlan(r *fw.Rand, fam string, o c03GenOpts) *c03Plan {
	p := &c03Plan{Fam: fam}
	n := 1
	switch x := r.Intn(10); {
	case x < 4:
		n = r.Range(1, 3)
	case x < 8:
		n = r.Range(2, 7)
	default:
		n = r.Range(4, o.MaxNodes)
	}
	if n > o.MaxNodes {
		n = o.MaxNodes
	}
	p.Leafs = r.Intn(4)
	nm, nmm, nam, nas := r.Intn(4), r.Intn(3), r.Intn(3), r.Intn(3)
	keys := []string{"a", "b", "c", "d"}
	for i := 0; i < nm; i++ {
		m := map[string]int{}
		for _, k := range keys[:r.Range(0, 3)] {
			m[k] = r.Intn(n+1) - 1
			if r.Chance(85) && m[k] < 0 {
				m[k] = r.Intn(n)
			}
		}
		p.Maps = append(p.Maps, m)
	}
	for i := 0; i < nmm && nm > 0; i++ {
		m := map[string]int{}
		for _, k := range keys[:r.Range(0, 3)] {
			m[k] = r.Intn(nm+1) - 1
		}
		p.MMaps = append(p.MMaps, m)
	}
	for i := 0; i < nam; i++ {
		p.AMaps = append(p.AMaps, nil)
	}
	for i := r.Intn(3); i > 0; i-- {
		m := map[string][2]int{}
		for _, k := range keys[:r.Range(0, 3)] {
			m[k] = [2]int{r.Intn(n+1) - 1, r.Intn(n+1) - 1}
		}
		p.MAs = append(p.MAs, m)
	}
	for i := 0; i < nas; i++ {
		// lengths are fixed now so that windows ("aview") can be drawn
		// before the elements are
		p.ASlices = append(p.ASlices, make([]c03AnyPlan, r.Range(0, 3)))
	}
	for i := r.Intn(3); i > 0; i-- {
		bk := make([]int, r.Range(1, 4))
		for j := range bk {
			bk[j] = r.Intn(n+1) - 1
		}
		p.Backs = append(p.Backs, bk)
	}
	density := []int{15, 35, 60}[r.Intn(3)]
	p.Nodes = make([]c03NodePlan, n)
	pick := func() int {
		if r.Chance(8) {
			return -1
		}
		return r.Intn(n)
	}
	for i := range p.Nodes {
		np := &p.Nodes[i]
		np.Next, np.M, np.MM, np.Leaf, np.Skip, np.SkipM, np.MA = -1, -1, -1, -1, -1, -1, -1
		np.SkipAny = c03AnyPlan{K: "nil"}
		np.Pair = [2]int{-1, -1}
		if fam != "B" && r.Chance(density+20) {
			np.Next = r.Intn(n)
		}
		if r.Chance(density + 25) {
			l := r.Range(0, 4)
			np.Kids = make([]int, l)
			for j := range np.Kids {
				np.Kids[j] = pick()
			}
			if l >= 2 && r.Chance(30) {
				np.Kids[l-1] = np.Kids[0]
			}
			np.Spare = c03GenSpare(r, l)
			if r.Chance(6) {
				for j := r.Range(1, 2); j > 0; j-- {
					np.Hidden = append(np.Hidden, r.Intn(n))
				}
			}
		}
		for j := 0; j < 2; j++ {
			if r.Chance(density) {
				np.Pair[j] = r.Intn(n)
			}
		}
		if fam == "B" && r.Chance(density) {
			np.Pairs = [][2]int{}
			if !r.Chance(20) {
				for j := r.Range(1, 2); j > 0; j-- {
					np.Pairs = append(np.Pairs, [2]int{pick(), pick()})
				}
			}
			np.PSpare = c03GenSpare(r, len(np.Pairs))
		}
		if len(p.Maps) > 0 && r.Chance(density+10) {
			np.M = r.Intn(len(p.Maps))
		}
		if len(p.MMaps) > 0 && r.Chance(density) {
			np.MM = r.Intn(len(p.MMaps))
		}
		if r.Chance(density + 20) {
			np.Any = c03GenAny(r, p, n, len(p.ASlices))
		} else {
			np.Any = c03AnyPlan{K: "nil"}
		}
		if len(p.MAs) > 0 && r.Chance(density) {
			np.MA = r.Intn(len(p.MAs))
		}
		// the dials:"-" fields carry edges like any other field
		if r.Chance(density) {
			np.Skip = r.Intn(n)
		}
		if len(p.Maps) > 0 && r.Chance(density/2+5) {
			np.SkipM = r.Intn(len(p.Maps))
		}
		if r.Chance(density/2 + 5) {
			np.SkipS = make([]int, r.Range(0, 3))
			for j := range np.SkipS {
				np.SkipS[j] = pick()
			}
		}
		if r.Chance(density/2 + 10) {
			np.SkipAny = c03GenAny(r, p, n, len(p.ASlices))
		}
		if r.Chance(35) {
			if o.Interior > 0 && r.Chance(o.Interior) {
				np.Leaf = 1000 + r.Intn(n)
			} else if p.Leafs > 0 {
				np.Leaf = r.Intn(p.Leafs)
			}
		}
	}
	for i := range p.AMaps {
		m := map[string]c03AnyPlan{}
		for _, k := range keys[:r.Range(0, 3)] {
			m[k] = c03GenAny(r, p, n, len(p.ASlices))
		}
		if r.Chance(30) {
			m["self"] = c03AnyPlan{K: "amap", I: i}
		}
		p.AMaps[i] = m
	}
	for i := range p.ASlices {
		s := p.ASlices[i]
		l := len(s)
		for j := range s {
			s[j] = c03GenAny(r, p, n, i) // only []any objects with a smaller index
		}
		p.ASpare = append(p.ASpare, c03GenSpare(r, l))
	}
	return p
}

// c03TrivialPlan is a single node without references (used as "empty"
// defaults for source-only scenarios).
func c03TrivialPlan(fam string) *c03Plan {
	return &c03Plan{Fam: fam, Nodes: []c03NodePlan{{Next: -1, M: -1, MM: -1, Leaf: -1, Skip: -1, SkipM: -1, MA: -1, Pair: [2]int{-1, -1}, Any: c03AnyPlan{K: "nil"}, SkipAny: c03AnyPlan{K: "nil"}}}}
}

// c03AddByValueNodes appends k (1..6) nodes that live by value in a holder
// (Head, Arr[0..1], Arena[...]) to a plan generated over heap nodes only.
//
// Edge discipline (what the deep copier preserves today, by registering a
// by-value struct's address before it copies the struct's fields, in holder
// field order Head, Arr, Arena, then All, Idx, Any):
//   - a by-value node may point at itself, at by-value nodes placed before it
//     and at heap nodes;
//   - anything may point at Head (it is registered before anything else is copied);
//   - heap nodes, shared maps and slices otherwise never point at by-value
//     nodes (such a pointer could be met before its target was registered:
//     then the copier allocates a stand-alone duplicate, which is the
//     order dependence that is only measured, see interior pointers);
//   - the holder's trailing fields All/Idx/Any refer to every node.
func c03AddByValueNodes(r *fw.Rand, p *c03Plan, k int) {
	nHeap := len(p.Nodes)
	head := nHeap
	for j := 0; j < k; j++ {
		self := nHeap + j
		np := c03NodePlan{Next: -1, M: -1, MM: -1, Leaf: -1, Skip: -1, SkipM: -1, MA: -1, Pair: [2]int{-1, -1},
			Any: c03AnyPlan{K: "nil"}, SkipAny: c03AnyPlan{K: "nil"}}
		pick := func() int {
			switch x := r.Intn(10); {
			case x < 4:
				return self
			case x < 7:
				return nHeap + r.Intn(j+1) // itself or an earlier by-value node
			}
			return r.Intn(nHeap)
		}
		if p.Fam == "A" && r.Chance(70) {
			np.Next = pick()
		}
		if r.Chance(60) {
			np.Kids = make([]int, r.Range(1, 3))
			for i := range np.Kids {
				np.Kids[i] = pick()
			}
		}
		if r.Chance(40) {
			np.Pair = [2]int{pick(), pick()}
		}
		if r.Chance(40) {
			np.Skip = pick()
		}
		if r.Chance(30) {
			np.SkipS = []int{pick(), pick()}
		}
		switch r.Intn(6) {
		case 0:
			np.Any = c03AnyPlan{K: "ptr", I: pick()}
		case 1:
			np.Any = c03AnyPlan{K: "slice", L: []int{pick(), pick()}}
		case 2:
			np.Any = c03AnyPlan{K: "arr", L: []int{pick(), pick()}}
		case 3:
			np.Any = c03AnyPlan{K: "pp", I: pick()}
		case 4:
			np.Any = c03AnyPlan{K: "priv", I: pick()}
		}
		if len(p.Maps) > 0 && r.Chance(30) {
			np.M = r.Intn(len(p.Maps))
		}
		if len(p.MAs) > 0 && r.Chance(30) {
			np.MA = r.Intn(len(p.MAs))
		}
		if p.Leafs > 0 && r.Chance(30) {
			np.Leaf = r.Intn(p.Leafs)
		}
		p.Nodes = append(p.Nodes, np)
		p.ByVal = append(p.ByVal, self)
	}
	// a few heap nodes point at Head
	for i := 0; i < nHeap; i++ {
		if r.Chance(20) {
			if p.Fam == "A" && r.Bool() {
				p.Nodes[i].Next = head
			} else {
				p.Nodes[i].Kids = append(p.Nodes[i].Kids, head)
			}
		}
	}
}

// c03FillHolder sets the holder's trailing fields: All refers to every node
// (by-value ones first, then the heap nodes), Idx to the by-value ones, Any to
// a slice of them.
func c03FillHolder(b *c03Built, p *c03Plan) {
	h := b.holder.Elem()
	nh := len(b.nodes) - len(p.ByVal)
	all := reflect.MakeSlice(b.fam.slice, len(b.nodes), len(b.nodes))
	for j := range b.nodes {
		all.Index(j).Set(b.nodes[(j+nh)%len(b.nodes)])
	}
	h.FieldByName("All").Set(all)
	idx := reflect.MakeMap(b.fam.mp)
	sl := reflect.MakeSlice(b.fam.slice, 0, len(p.ByVal))
	for k, ni := range p.ByVal {
		idx.SetMapIndex(reflect.ValueOf(fmt.Sprintf("v%d", k)), b.nodes[ni])
		sl = reflect.Append(sl, b.nodes[ni])
	}
	h.FieldByName("Idx").Set(idx)
	h.FieldByName("Any").Set(sl)
}
