package checks

// C15 support: the table of types the property quantifies over, the
// harness's own canonical formatters and its own equality.  Nothing in this
// file calls into github.com/vimeo/dials/parse; the flag helpers are only
// used where the statement itself defines the canonical text as "what the
// flag helpers print".

import (
	"fmt"
	"math"
	"math/big"
	"reflect"
	"sort"
	"strconv"
	"strings"
	"time"
	"unicode/utf8"

	"github.com/vimeo/dials/parse"
	"github.com/vimeo/dials/sources/flag/flaghelper"
)

// user-defined named versions of every scalar kind
type (
	c15Tiny   int8
	c15Offset int16
	c15Count  int32
	c15Big    int64
	c15Num    int
	c15Level  uint8
	c15Port   uint16
	c15Mask   uint32
	c15Serial uint64
	c15Word   uint
	c15Ratio  float32
	c15Score  float64
	c15Phasor complex64
	c15Wave   complex128
	c15Flag   bool
	c15Name   string
)

// c15Scalar describes one scalar type.
type c15Scalar struct {
	name  string
	typ   reflect.Type
	kind  reflect.Kind
	dur   bool // exactly time.Duration
	named bool
}

func c15MkScalar(v any, named bool) c15Scalar {
	t := reflect.TypeOf(v)
	_, isDur := v.(time.Duration)
	return c15Scalar{name: t.String(), typ: t, kind: t.Kind(), dur: isDur, named: named}
}

var c15Scalars = []c15Scalar{
	c15MkScalar(int(0), false), c15MkScalar(int8(0), false), c15MkScalar(int16(0), false), c15MkScalar(int32(0), false), c15MkScalar(int64(0), false),
	c15MkScalar(uint(0), false), c15MkScalar(uint8(0), false), c15MkScalar(uint16(0), false), c15MkScalar(uint32(0), false), c15MkScalar(uint64(0), false),
	c15MkScalar(float32(0), false), c15MkScalar(float64(0), false), c15MkScalar(complex64(0), false), c15MkScalar(complex128(0), false),
	c15MkScalar(false, false), c15MkScalar("", false), c15MkScalar(time.Duration(0), false),
	c15MkScalar(c15Tiny(0), true), c15MkScalar(c15Offset(0), true), c15MkScalar(c15Count(0), true), c15MkScalar(c15Big(0), true), c15MkScalar(c15Num(0), true),
	c15MkScalar(c15Level(0), true), c15MkScalar(c15Port(0), true), c15MkScalar(c15Mask(0), true), c15MkScalar(c15Serial(0), true), c15MkScalar(c15Word(0), true),
	c15MkScalar(c15Ratio(0), true), c15MkScalar(c15Score(0), true), c15MkScalar(c15Phasor(0), true), c15MkScalar(c15Wave(0), true),
	c15MkScalar(c15Flag(false), true), c15MkScalar(c15Name(""), true),
	c15LocalInt8(), c15LocalUint16(), c15LocalInt64(), c15LocalFloat32(),
}

// Function-local types: distinct types that share package path and name ("Level") but not width or kind. A parser
// must treat each by its own reflect.Type.
func c15LocalInt8() c15Scalar {
	type Level int8
	s := c15MkScalar(Level(0), true)
	s.name = "Level(local int8)"
	return s
}

func c15LocalUint16() c15Scalar {
	type Level uint16
	s := c15MkScalar(Level(0), true)
	s.name = "Level(local uint16)"
	return s
}

func c15LocalInt64() c15Scalar {
	type Level int64
	s := c15MkScalar(Level(0), true)
	s.name = "Level(local int64)"
	return s
}

func c15LocalFloat32() c15Scalar {
	type Level float32
	s := c15MkScalar(Level(0), true)
	s.name = "Level(local float32)"
	return s
}

func c15ScalarsWhere(f func(s c15Scalar) bool) []c15Scalar {
	var out []c15Scalar
	for _, s := range c15Scalars {
		if f(s) {
			out = append(out, s)
		}
	}
	return out
}

func (s c15Scalar) isInt() bool {
	if s.dur {
		return false
	}
	switch s.kind {
	case reflect.Int, reflect.Int8, reflect.Int16, reflect.Int32, reflect.Int64:
		return true
	}
	return false
}

func (s c15Scalar) isUint() bool {
	switch s.kind {
	case reflect.Uint, reflect.Uint8, reflect.Uint16, reflect.Uint32, reflect.Uint64:
		return true
	}
	return false
}

func (s c15Scalar) isFloat() bool { return s.kind == reflect.Float32 || s.kind == reflect.Float64 }
func (s c15Scalar) isComplex() bool {
	return s.kind == reflect.Complex64 || s.kind == reflect.Complex128
}
func (s c15Scalar) bits() int { return s.typ.Bits() }

// floatBits is the width of the float (or of each part of the complex).
func (s c15Scalar) floatBits() int {
	switch s.kind {
	case reflect.Float32, reflect.Complex64:
		return 32
	}
	return 64
}

var (
	c15IntScalars     = c15ScalarsWhere(func(s c15Scalar) bool { return s.isInt() || s.isUint() })
	c15FloatScalars   = c15ScalarsWhere(func(s c15Scalar) bool { return s.isFloat() })
	c15ComplexScalars = c15ScalarsWhere(func(s c15Scalar) bool { return s.isComplex() })
	c15NonStrScalars  = c15ScalarsWhere(func(s c15Scalar) bool { return s.kind != reflect.String })
)

// c15IntBounds returns [min,max] of an integer type of the given width.
func c15IntBounds(bits int, signed bool) (*big.Int, *big.Int) {
	one := big.NewInt(1)
	if signed {
		max := new(big.Int).Lsh(one, uint(bits-1))
		min := new(big.Int).Neg(max)
		max.Sub(max, one)
		return min, max
	}
	max := new(big.Int).Lsh(one, uint(bits))
	max.Sub(max, one)
	return new(big.Int), max
}

func c15InRange(x *big.Int, bits int, signed bool) bool {
	min, max := c15IntBounds(bits, signed)
	return x.Cmp(min) >= 0 && x.Cmp(max) <= 0
}

// c15SetInt builds a value of an integer scalar type from an in-range big.Int.
func c15SetInt(s c15Scalar, x *big.Int) reflect.Value {
	v := reflect.New(s.typ).Elem()
	if s.isUint() {
		v.SetUint(x.Uint64())
	} else {
		v.SetInt(x.Int64())
	}
	return v
}

// c15Canon is the harness's own canonical text of a scalar value:
// strconv base 10 for integers, shortest 'g' for floats, %g for complex,
// true/false, Duration.String, and the string itself.
func c15Canon(v reflect.Value) string {
	if v.Type() == reflect.TypeOf(time.Duration(0)) {
		return time.Duration(v.Int()).String()
	}
	switch v.Kind() {
	case reflect.Int, reflect.Int8, reflect.Int16, reflect.Int32, reflect.Int64:
		return strconv.FormatInt(v.Int(), 10)
	case reflect.Uint, reflect.Uint8, reflect.Uint16, reflect.Uint32, reflect.Uint64, reflect.Uintptr:
		return strconv.FormatUint(v.Uint(), 10)
	case reflect.Float32:
		return strconv.FormatFloat(v.Float(), 'g', -1, 32)
	case reflect.Float64:
		return strconv.FormatFloat(v.Float(), 'g', -1, 64)
	case reflect.Complex64:
		return fmt.Sprintf("%g", complex64(v.Complex()))
	case reflect.Complex128:
		return fmt.Sprintf("%g", v.Complex())
	case reflect.Bool:
		return strconv.FormatBool(v.Bool())
	case reflect.String:
		return v.String()
	}
	panic("c15Canon: unsupported kind " + v.Kind().String())
}

func c15FloatSame(a, b float64, bits int) bool {
	if math.IsNaN(a) || math.IsNaN(b) {
		return math.IsNaN(a) && math.IsNaN(b)
	}
	if bits == 32 {
		return math.Float32bits(float32(a)) == math.Float32bits(float32(b))
	}
	return math.Float64bits(a) == math.Float64bits(b)
}

// c15Equal is the identity oracle: same type, floats bitwise (NaN by class),
// nil and empty collections equal, everything else by value.
func c15Equal(want, got reflect.Value) bool {
	if !want.IsValid() || !got.IsValid() {
		return want.IsValid() == got.IsValid()
	}
	if want.Type() != got.Type() {
		return false
	}
	switch want.Kind() {
	case reflect.Float32:
		return c15FloatSame(want.Float(), got.Float(), 32)
	case reflect.Float64:
		return c15FloatSame(want.Float(), got.Float(), 64)
	case reflect.Complex64:
		a, b := want.Complex(), got.Complex()
		return c15FloatSame(real(a), real(b), 32) && c15FloatSame(imag(a), imag(b), 32)
	case reflect.Complex128:
		a, b := want.Complex(), got.Complex()
		return c15FloatSame(real(a), real(b), 64) && c15FloatSame(imag(a), imag(b), 64)
	case reflect.Int, reflect.Int8, reflect.Int16, reflect.Int32, reflect.Int64:
		return want.Int() == got.Int()
	case reflect.Uint, reflect.Uint8, reflect.Uint16, reflect.Uint32, reflect.Uint64, reflect.Uintptr:
		return want.Uint() == got.Uint()
	case reflect.Bool:
		return want.Bool() == got.Bool()
	case reflect.String:
		return want.String() == got.String()
	case reflect.Struct:
		return want.NumField() == 0
	case reflect.Slice:
		if want.Len() != got.Len() {
			return false
		}
		for i := 0; i < want.Len(); i++ {
			if !c15Equal(want.Index(i), got.Index(i)) {
				return false
			}
		}
		return true
	case reflect.Map:
		if want.Len() != got.Len() {
			return false
		}
		it := want.MapRange()
		for it.Next() {
			g := got.MapIndex(it.Key())
			if !g.IsValid() || !c15Equal(it.Value(), g) {
				return false
			}
		}
		return true
	}
	return false
}

// ---- integral slices: one row per element type accepted by
// parse.SignedIntegralSlice / parse.UnsignedIntegralSlice

type c15IntOps struct {
	name       string
	elem       reflect.Type
	bits       int
	signed     bool
	parseName  string
	sliceParse func(s string) (any, error)  // the parse.*IntegralSlice entry point
	helperSet  func(s string) (any, error)  // fresh flag helper: Set(s) then Get()
	helperText func(vals []*big.Int) string // flag helper String() of the slice
	build      func(vals []*big.Int) reflect.Value
	stringOK   bool // parse.String supports []T (not uintptr)
}

func c15SignedOps[I int | int8 | int16 | int32 | int64]() c15IntOps {
	var z I
	t := reflect.TypeOf(z)
	mk := func(vals []*big.Int) []I {
		out := make([]I, len(vals))
		for i, v := range vals {
			out[i] = I(v.Int64())
		}
		return out
	}
	return c15IntOps{
		name: t.String(), elem: t, bits: t.Bits(), signed: true, parseName: "SignedIntegralSlice", stringOK: true,
		sliceParse: func(s string) (any, error) { return parse.SignedIntegralSlice[I](s) },
		helperSet: func(s string) (any, error) {
			var dst []I
			h := flaghelper.NewSignedIntegralSlice(&dst)
			if err := h.Set(s); err != nil {
				return nil, err
			}
			return h.Get(), nil
		},
		helperText: func(vals []*big.Int) string {
			sl := mk(vals)
			return flaghelper.NewSignedIntegralSlice(&sl).String()
		},
		build: func(vals []*big.Int) reflect.Value { return reflect.ValueOf(mk(vals)) },
	}
}

func c15UnsignedOps[I uint | uint8 | uint16 | uint32 | uint64 | uintptr]() c15IntOps {
	var z I
	t := reflect.TypeOf(z)
	mk := func(vals []*big.Int) []I {
		out := make([]I, len(vals))
		for i, v := range vals {
			out[i] = I(v.Uint64())
		}
		return out
	}
	return c15IntOps{
		name: t.String(), elem: t, bits: t.Bits(), signed: false, parseName: "UnsignedIntegralSlice", stringOK: t.Kind() != reflect.Uintptr,
		sliceParse: func(s string) (any, error) { return parse.UnsignedIntegralSlice[I](s) },
		helperSet: func(s string) (any, error) {
			var dst []I
			h := flaghelper.NewUnsignedIntegralSlice(&dst)
			if err := h.Set(s); err != nil {
				return nil, err
			}
			return h.Get(), nil
		},
		helperText: func(vals []*big.Int) string {
			sl := mk(vals)
			return flaghelper.NewUnsignedIntegralSlice(&sl).String()
		},
		build: func(vals []*big.Int) reflect.Value { return reflect.ValueOf(mk(vals)) },
	}
}

var c15IntSliceOps = []c15IntOps{
	c15SignedOps[int](), c15SignedOps[int8](), c15SignedOps[int16](), c15SignedOps[int32](), c15SignedOps[int64](),
	c15UnsignedOps[uint](), c15UnsignedOps[uint8](), c15UnsignedOps[uint16](), c15UnsignedOps[uint32](), c15UnsignedOps[uint64](), c15UnsignedOps[uintptr](),
}

// ---- string collections: the harness's own formatter (quoted, comma
// separated, sorted keys) next to the flag helpers' String()

func c15OwnSliceText(ss []string) string {
	q := make([]string, len(ss))
	for i, s := range ss {
		q[i] = strconv.Quote(s)
	}
	return strings.Join(q, ",")
}

func c15OwnSetText(m map[string]struct{}) string {
	ks := make([]string, 0, len(m))
	for k := range m {
		ks = append(ks, k)
	}
	sort.Strings(ks)
	return c15OwnSliceText(ks)
}

func c15OwnMapText(m map[string]string) string {
	ks := make([]string, 0, len(m))
	for k := range m {
		ks = append(ks, k)
	}
	sort.Strings(ks)
	parts := make([]string, len(ks))
	for i, k := range ks {
		parts[i] = strconv.Quote(k) + ":" + strconv.Quote(m[k])
	}
	return strings.Join(parts, ",")
}

func c15OwnMapSliceText(m map[string][]string) string {
	ks := make([]string, 0, len(m))
	for k := range m {
		ks = append(ks, k)
	}
	sort.Strings(ks)
	var parts []string
	for _, k := range ks {
		for _, v := range m[k] {
			parts = append(parts, strconv.Quote(k)+":"+strconv.Quote(v))
		}
	}
	return strings.Join(parts, ",")
}

// c15StrClass names the hostile feature of a string (for keys and coverage).
func c15StrClass(s string) string {
	switch {
	case s == "":
		return "empty"
	case !utf8.ValidString(s):
		return "invalid-utf8"
	case strings.ContainsRune(s, 0):
		return "nul"
	case strings.ContainsAny(s, "\"'`"):
		return "quote"
	case strings.Contains(s, "\\"):
		return "backslash"
	case strings.Contains(s, ","):
		return "comma"
	case strings.Contains(s, ":"):
		return "colon"
	case strings.IndexFunc(s, func(r rune) bool { return r < ' ' || r == 0x7f }) >= 0:
		return "control"
	case strings.IndexFunc(s, func(r rune) bool { return r == ' ' }) >= 0:
		return "space"
	case strings.IndexFunc(s, func(r rune) bool { return r > 0x7f }) >= 0:
		return "non-ascii"
	}
	return "plain"
}
