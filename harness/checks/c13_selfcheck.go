package checks

// C13 renderer self-check: before a disagreement about a VALID document is
// reported as a violation, the document is parsed with the format library's
// own untyped parser (no dials code involved) and compared with the tree it
// was rendered from. A document that does not say what the tree says is a
// harness bug: the case becomes inconclusive, never a violation.

import (
	"bytes"
	"encoding/json"
	"fmt"
	"sort"
	"strconv"
	"strings"
	"time"

	"cuelang.org/go/cue/cuecontext"
	tomlparser "github.com/pelletier/go-toml"
	"gopkg.in/yaml.v2"

	"verifharness/fw"
)

func c13CanonNum(s string) string {
	s = strings.ReplaceAll(s, "_", "")
	if !strings.ContainsAny(s, ".eE") {
		return "n:" + strings.TrimPrefix(s, "+")
	}
	f, err := strconv.ParseFloat(s, 64)
	if err != nil {
		return "n?:" + s
	}
	return c13CanonFloat(f)
}

func c13CanonFloat(f float64) string {
	if f > -1e18 && f < 1e18 && f == float64(int64(f)) {
		return "n:" + strconv.FormatInt(int64(f), 10)
	}
	return "n:" + strconv.FormatFloat(f, 'g', -1, 64)
}

func c13CanonStr(s string) string {
	if t, err := time.Parse(time.RFC3339Nano, s); err == nil {
		return "t:" + t.Format(time.RFC3339Nano)
	}
	return "s:" + s
}

// c13Canon normalises an untyped parse result.
func c13Canon(v any) any {
	switch x := v.(type) {
	case nil:
		return "null"
	case bool:
		return x
	case string:
		return c13CanonStr(x)
	case c13NoEscStr:
		return c13CanonStr(string(x))
	case json.Number:
		return c13CanonNum(string(x))
	case int:
		return "n:" + strconv.Itoa(x)
	case int64:
		return "n:" + strconv.FormatInt(x, 10)
	case uint64:
		return "n:" + strconv.FormatUint(x, 10)
	case float64:
		return c13CanonFloat(x)
	case time.Time:
		return "t:" + x.Format(time.RFC3339Nano)
	case []any:
		out := make([]any, len(x))
		for i, e := range x {
			out[i] = c13Canon(e)
		}
		return out
	case []map[string]any:
		out := make([]any, len(x))
		for i, e := range x {
			out[i] = c13Canon(e)
		}
		return out
	case map[string]any:
		out := map[string]any{}
		for k, e := range x {
			out[k] = c13Canon(e)
		}
		return out
	case map[any]any:
		out := map[string]any{}
		for k, e := range x {
			ks, ok := k.(string)
			if !ok {
				ks = fmt.Sprintf("(%T)%v", k, k)
			}
			out[ks] = c13Canon(e)
		}
		return out
	}
	return fmt.Sprintf("(%T)%v", v, v)
}

func c13CanonText(v any, b *strings.Builder) {
	switch x := v.(type) {
	case []any:
		b.WriteByte('[')
		for _, e := range x {
			c13CanonText(e, b)
			b.WriteByte(',')
		}
		b.WriteByte(']')
	case map[string]any:
		keys := make([]string, 0, len(x))
		for k := range x {
			keys = append(keys, k)
		}
		sort.Strings(keys)
		b.WriteByte('{')
		for _, k := range keys {
			b.WriteString(strconv.Quote(k))
			b.WriteByte(':')
			c13CanonText(x[k], b)
			b.WriteByte(',')
		}
		b.WriteByte('}')
	case string:
		b.WriteString(strconv.Quote(x))
	default:
		fmt.Fprint(b, x)
	}
}

// c13SelfCheck reports whether doc, parsed untyped by the format's own
// library, says what tree says.
func c13SelfCheck(fm c13Fmt, doc string, tree *c13Val) (bool, string) {
	rd := &c13Renderer{r: fw.NewRand(1), fm: fm}
	want := c13Canon(rd.jsonTree(tree))
	var got any
	switch fm {
	case c13JSON:
		d := json.NewDecoder(bytes.NewReader([]byte(doc)))
		d.UseNumber()
		if err := d.Decode(&got); err != nil {
			return false, "json parse: " + err.Error()
		}
	case c13YAML:
		var m any
		if err := yaml.Unmarshal([]byte(doc), &m); err != nil {
			return false, "yaml parse: " + err.Error()
		}
		got = m
	case c13TOML:
		t, err := tomlparser.LoadBytes([]byte(doc))
		if err != nil {
			return false, "toml parse: " + err.Error()
		}
		got = t.ToMap()
	default:
		v := cuecontext.New().CompileBytes([]byte(doc))
		if err := v.Err(); err != nil {
			return false, "cue compile: " + err.Error()
		}
		b, err := v.MarshalJSON()
		if err != nil {
			return false, "cue export: " + err.Error()
		}
		d := json.NewDecoder(bytes.NewReader(b))
		d.UseNumber()
		if err := d.Decode(&got); err != nil {
			return false, "cue export parse: " + err.Error()
		}
	}
	var wb, gb strings.Builder
	c13CanonText(want, &wb)
	c13CanonText(c13Canon(got), &gb)
	if ws, gs := wb.String(), gb.String(); ws != gs {
		k := 0
		for k < len(ws) && k < len(gs) && ws[k] == gs[k] {
			k++
		}
		lo := k - 60
		if lo < 0 {
			lo = 0
		}
		return false, fmt.Sprintf("untyped parse differs from the tree at byte %d: want ...%s got ...%s", k, c13Trim(ws[lo:], 300), c13Trim(gs[lo:], 300))
	}
	if false {
		return false, "untyped parse differs from the tree: want " + c13Trim(wb.String(), 1500) + " got " + c13Trim(gb.String(), 1500)
	}
	return true, ""
}
