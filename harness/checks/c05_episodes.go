package checks

import (
	"context"
	"fmt"
	"strings"
	"time"

	"github.com/vimeo/dials"

	"verifharness/conc"
	"verifharness/fw"
)

// Two families of purely sequential histories that the mixed histories of runC05 do not contain:
//
//   - c05DoneHistory: watchers say Done in any order and any number of times (a watcher whose shutdown path and whose
//     defer both call WatchArgs.Done, Blank.Done called twice, ...) while the watchers that have NOT said Done go on
//     reporting. The statement quantifies over "any watching sources": as long as one source is still watching, each
//     of its reports must be taken and the view must equal the fresh stack.
//   - c05DelayedHistory: DelayInitialVerification with values that do not verify and EnableVerification calls (failing
//     and succeeding) anywhere in the history. Until an EnableVerification call has succeeded, "what a fresh Config
//     call would build" is what Params{DelayInitialVerification: true}.Config builds: the stack, verified or not.
//
// Both are judged by the sequential model (conc.Model: the reference stack, the serial counter, the verifying flag) and
// by a fresh Config call over static sources holding each source's latest value.

const (
	c05Called    = iota // the call returned
	c05MonGone          // the monitor goroutine has exited (monDone closed) although a source is still watching
	c05CallStuck        // neither within the watchdog
)

// c05Guard runs one API call that needs the monitor goroutine (a report, Done, EnableVerification). It never judges by
// time: the call either returns, or the monitor's done channel is observed closed (a state, and a wrong one whenever
// the scenario context is alive and some source has not said Done), or a generous watchdog passes the decision on to
// stuckVerdict (two goroutine dumps).
func c05Guard(e *conc.Env, do func(ctx context.Context) error) (error, int) {
	ctx, cancel := context.WithCancel(e.S.Ctx)
	defer cancel()
	ch := make(chan error, 1)
	go func() { ch <- do(ctx) }()
	wd := time.NewTimer(20 * time.Second)
	defer wd.Stop()
	select {
	case err := <-ch:
		return err, c05Called
	case <-dials.VerifMonitorDone(e.D):
		cancel()
		<-ch
		return nil, c05MonGone
	case <-wd.C:
		select {
		case <-dials.VerifMonitorDone(e.D):
			cancel()
			<-ch
			return nil, c05MonGone
		default:
		}
		return nil, c05CallStuck // the call is left behind; Env.Stop cancels its context
	}
}

// c05MonitorGone reports whether the monitor goroutine has exited.
func c05MonitorGone(e *conc.Env) bool {
	select {
	case <-dials.VerifMonitorDone(e.D):
		return true
	default:
		return false
	}
}

// c05Compare compares the view and its serial with the model state and with a fresh Config call over static sources
// holding each source's latest value. unverified: the history is in the delayed mode and no EnableVerification call has
// succeeded yet, so the fresh call is made with DelayInitialVerification as well (nothing is verified on either side).
func c05Compare(w *fw.Worker, i int, e *conc.Env, mon *serialMon, st conc.State, unverified bool, where string, trace []string) bool {
	cfg, tok := e.D.ViewVersion()
	mon.see(conc.SerialOf(tok), cfg, "ViewVersion")
	got := conc.FPOf(cfg)
	wantFP, _ := modelFP(e.Model, st.Cur)
	if got != wantFP || conc.SerialOf(tok) != st.Serial {
		w.Violation(i, "view-differs-from-reference-stack", fmt.Sprintf("%s: view %+v serial %d; reference %+v serial %d", where, got, conc.SerialOf(tok), wantFP, st.Serial), trace)
		return false
	}
	n := e.Model.NSrc
	srcs := make([]dials.Source, n)
	for k := 0; k < n; k++ {
		srcs[k] = &conc.Src{Name: "fresh", Init: e.Model.Layers[st.Slots[k]]}
	}
	fs := conc.NewScenario(context.Background())
	fd, ferr := dials.Params[conc.Cfg]{DelayInitialVerification: unverified}.Config(fs.Ctx, fs.Defaults(), srcs...)
	fs.Cancel()
	w.Count("fresh_stack_comparisons", 1)
	if unverified {
		w.Count("fresh_stack_comparisons_with_verification_delayed", 1)
	}
	slotsFP, stacks := modelFP(e.Model, st.Slots)
	if ferr != nil {
		// the fresh call fails: the view must be the last installed one (compared with the model's Cur above)
		if stacks && (unverified || conc.ValidFP(slotsFP)) {
			w.Violation(i, "fresh-config-failed-unexpectedly", fmt.Sprintf("%s: fresh Config (verification delayed: %v) error %v for the stack %+v", where, unverified, ferr, slotsFP), trace)
			return false
		}
		w.Count("fresh_stack_failed_as_expected", 1)
		return true
	}
	if ffp := conc.FPOf(fd.View()); ffp != got {
		w.Violation(i, "view-differs-from-fresh-config", fmt.Sprintf("%s: view %+v; fresh Config (verification delayed: %v) over the latest values %+v", where, got, unverified, ffp), trace)
		return false
	}
	return true
}

// c05Epilogue: the serial monitor's verdicts for one of the sequential episodes.
func c05Epilogue(w *fw.Worker, i int, e *conc.Env, mon *serialMon, trace []string) {
	// (under the lock: the monitor goroutine may still be installing a report that was handed over without waiting)
	mon.mu.Lock()
	pairs, bad := mon.n, mon.bad
	mon.mu.Unlock()
	w.Count("serial_pairs_checked", pairs)
	if bad != "" {
		w.Violation(i, "serial-config-pairing-not-injective", bad, trace)
	}
	ins := e.Installs()
	w.Count("installs_observed", int64(len(ins)))
	for k, in := range ins {
		if in.Serial != uint64(k+1) {
			w.Violation(i, "install-serials-not-contiguous", fmt.Sprintf("install #%d has serial %d", k+1, in.Serial), trace)
			break
		}
	}
}

func c05Trace(trace []string, s string) []string {
	trace = append(trace, s)
	if len(trace) > 14 {
		trace = trace[1:]
	}
	return trace
}

// c05DoneHistory: see the comment at the top of the file.
func c05DoneHistory(w *fw.Worker, i int, r *fw.Rand) {
	o := conc.Opts{NSrc: r.Range(2, 4), SlowCB: r.Intn(2)}
	e, err := conc.Start(context.Background(), r.U64(), o, func(e *conc.Env, k int) *conc.Layer {
		if r.Chance(40) {
			return nil
		}
		return e.RandLayer(r, 0, 0)
	})
	if err != nil {
		w.Violation(i, "config-failed-on-valid-initial-stack", err.Error(), nil)
		return
	}
	defer e.Stop()
	e.Jitter = r.Range(0, 30)
	mon := newSerialMon()
	mon.see(0, e.D.View(), "initial View")
	e.ExtraHook = func(name string, _ context.Context, args []any) {
		if name == "mon.stored" && len(args) >= 3 {
			serial, _ := args[1].(uint64)
			cfg, _ := args[2].(*conc.Cfg)
			mon.see(serial, cfg, "mon.stored")
		}
	}
	st := e.Model.Initial
	dones := make([]int, o.NSrc) // Done calls made so far, per watcher
	var sig strings.Builder
	live := o.NSrc
	var trace []string
	pending := false // a non-blocking report has been handed over and nothing has fenced it yet
	reportsAfterRepeat, repeats := 0, 0
	describe := func() string {
		return fmt.Sprintf("%d watchers, Done calls per watcher so far %v (%d still watching)", o.NSrc, dones, live)
	}
	gone := func(what string) {
		w.Violation(i, "monitor-exited-while-a-source-is-still-watching", what+": the monitor goroutine has exited although the context is alive and not every watcher has said Done ("+describe()+"); nothing the remaining watchers report can be applied any more", trace)
	}
	n := r.Range(14, 40)
	for k := 0; k < n; k++ {
		if r.Chance(30) {
			// a watcher says Done: one that has said so before (again), or one that has not, as long as another
			// watcher stays. The leaving watcher's last value stays part of every later stack, so it has to be one
			// that stacks and verifies, or nothing could be installed from here on.
			s := r.Intn(o.NSrc)
			if dones[s] == 0 {
				cl := e.Model.Layers[st.Slots[s]]
				if live == 1 || (cl != nil && (cl.NegA || cl.NegB || cl.IllTyped)) {
					continue
				}
			}
			times := 1
			if r.Chance(40) {
				times = r.Range(2, 3)
			}
			for t := 0; t < times; t++ {
				_, how := c05Guard(e, func(ctx context.Context) error { e.Srcs[s].WA().Done(ctx); return nil })
				if how == c05MonGone {
					gone(fmt.Sprintf("Done call of watcher %d", s))
					return
				}
				if how == c05CallStuck {
					stuckVerdict(w, i, fmt.Sprintf("Done call of watcher %d (%s)", s, describe()), trace)
					return
				}
				if dones[s] == 0 {
					live--
				} else {
					repeats++
				}
				dones[s]++
				trace = c05Trace(trace, fmt.Sprintf("src=%d Done (call %d of this watcher)", s, dones[s]))
				fmt.Fprintf(&sig, "D%d", s)
			}
			continue
		}
		// a watcher that has not said Done reports
		s := r.Intn(o.NSrc)
		for dones[s] > 0 {
			s = (s + 1) % o.NSrc
		}
		l := e.RandLayer(r, 15, 3)
		blocking := r.Chance(70)
		var res int
		_, how := c05Guard(e, func(ctx context.Context) error {
			var err error
			res, err = e.Report(ctx, 0, s, l, blocking)
			return err
		})
		if how == c05MonGone {
			gone(fmt.Sprintf("report of %s by watcher %d, which has not said Done, was never taken", l, s))
			return
		}
		if how == c05CallStuck {
			stuckVerdict(w, i, fmt.Sprintf("report of %s by watcher %d (%s)", l, s, describe()), trace)
			return
		}
		ns := e.Model.Step(st, conc.In{Kind: conc.OpReport, Src: s, Layer: l, Blocking: blocking}, conc.Out{Res: res})
		trace = c05Trace(trace, fmt.Sprintf("src=%d %s blocking=%v -> %d", s, l, blocking, res))
		if len(ns) == 0 || (!blocking && res != conc.ResSubmittedUnk) {
			w.Violation(i, "blocking-report-result-disagrees-with-model", fmt.Sprintf("report %s blocking=%v res=%d (%s)", l, blocking, res, describe()), trace)
			return
		}
		st = ns[0].(conc.State)
		fmt.Fprintf(&sig, "%d%d", s, res)
		pending = !blocking
		if repeats > 0 {
			reportsAfterRepeat++
		}
		if !pending {
			if !c05Compare(w, i, e, mon, st, false, fmt.Sprintf("after report %d (%s)", k, describe()), trace) {
				return
			}
		}
	}
	if c05MonitorGone(e) {
		gone("end of the history")
		return
	}
	w.Count("done_histories", 1)
	w.Count("done_calls_repeated_by_a_watcher", int64(repeats))
	w.Count("reports_after_a_repeated_done", int64(reportsAfterRepeat))
	if live < o.NSrc {
		w.Count("watchers_done_mid_history", int64(o.NSrc-live))
	}
	c05Epilogue(w, i, e, mon, trace)
	w.Distinct(fmt.Sprintf("done|%d|%s", o.NSrc, sig.String()))
}

// c05DelayedHistory: see the comment at the top of the file.
func c05DelayedHistory(w *fw.Worker, i int, r *fw.Rand) {
	o := conc.Opts{NSrc: r.Range(2, 4), Delay: true, Suppress: r.Chance(30), StaticFirst: r.Chance(15), SlowCB: r.Intn(2)}
	e, err := conc.Start(context.Background(), r.U64(), o, func(e *conc.Env, k int) *conc.Layer {
		if r.Chance(30) {
			return nil
		}
		return e.RandLayer(r, 30, 0) // nothing is verified at the start: the initial stack may be invalid
	})
	if err != nil {
		w.Violation(i, "config-failed-with-verification-delayed", err.Error(), nil)
		return
	}
	defer e.Stop()
	e.Jitter = r.Range(0, 30)
	mon := newSerialMon()
	mon.see(0, e.D.View(), "initial View")
	e.ExtraHook = func(name string, _ context.Context, args []any) {
		if name == "mon.stored" && len(args) >= 3 {
			serial, _ := args[1].(uint64)
			cfg, _ := args[2].(*conc.Cfg)
			mon.see(serial, cfg, "mon.stored")
		}
	}
	st := e.Model.Initial
	var trace []string
	pending := false
	failedEnables, okEnables, unverifiedInstallsAfterFailedEnable := 0, 0, 0
	var sig strings.Builder
	if !c05Compare(w, i, e, mon, st, true, "after Config", trace) {
		return
	}
	n := r.Range(15, 45)
	every := r.Range(1, 3)
	invPct := r.Range(15, 50)
	for k := 0; k < n; k++ {
		if r.Chance(22) {
			var cfg *conc.Cfg
			var ser uint64
			err, how := c05Guard(e, func(ctx context.Context) error {
				var err error
				cfg, ser, err = e.Enable(ctx, 0)
				return err
			})
			if how == c05MonGone {
				w.Violation(i, "monitor-exited-while-a-source-is-still-watching", "EnableVerification: the monitor goroutine has exited although the context is alive and no watcher has said Done", trace)
				return
			}
			if how == c05CallStuck {
				stuckVerdict(w, i, "EnableVerification with verification delayed", trace)
				return
			}
			out := conc.Out{OK: err == nil}
			if err == nil {
				out.Serial, out.FP = ser, conc.FPOf(cfg)
			}
			ns := e.Model.Step(st, conc.In{Kind: conc.OpEnable}, out)
			trace = c05Trace(trace, fmt.Sprintf("EnableVerification -> err=%v serial=%d", err, ser))
			if len(ns) == 0 {
				cur, _ := modelFP(e.Model, st.Cur)
				w.Violation(i, "enableverification-result-disagrees-with-model", fmt.Sprintf("EnableVerification returned err=%v serial=%d %+v; installed per the reference: serial %d %+v (verifying already: %v)", err, ser, out.FP, st.Serial, cur, st.Verifying), trace)
				return
			}
			if !st.Verifying {
				if err != nil {
					failedEnables++
				} else {
					okEnables++
				}
			}
			st = ns[0].(conc.State)
			fmt.Fprintf(&sig, "E%v", err == nil)
			pending = false // the monitor answered: everything handed over before has been dealt with
			continue
		}
		s := r.Intn(o.NSrc)
		if e.Srcs[s] == nil {
			s = o.NSrc - 1
		}
		l := e.RandLayer(r, invPct, 3)
		if r.Chance(8) {
			l.Set = [conc.NumFields]bool{} // empty layer: withdraws whatever this source had set
			l.NegA, l.NegB = false, false
		}
		blocking := r.Chance(70)
		var res int
		var rerr error
		_, how := c05Guard(e, func(ctx context.Context) error {
			res, rerr = e.Report(ctx, 0, s, l, blocking)
			return rerr
		})
		if how == c05MonGone {
			w.Violation(i, "monitor-exited-while-a-source-is-still-watching", fmt.Sprintf("report of %s by watcher %d: the monitor goroutine has exited although the context is alive and no watcher has said Done", l, s), trace)
			return
		}
		if how == c05CallStuck {
			stuckVerdict(w, i, fmt.Sprintf("report of %s by watcher %d with verification delayed", l, s), trace)
			return
		}
		was := st
		ns := e.Model.Step(st, conc.In{Kind: conc.OpReport, Src: s, Layer: l, Blocking: blocking}, conc.Out{Res: res})
		trace = c05Trace(trace, fmt.Sprintf("src=%d %s blocking=%v -> %d (verifying per the reference: %v)", s, l, blocking, res, st.Verifying))
		if len(ns) == 0 || (!blocking && res != conc.ResSubmittedUnk) {
			key := "blocking-report-result-disagrees-with-model"
			slots := was.Slots
			slots[s] = l.ID
			if _, stacks := modelFP(e.Model, slots); stacks && !was.Verifying && res == conc.ResRejected {
				// the value stacks, no EnableVerification call has succeeded, and yet the report was refused
				key = "report-refused-while-verification-is-still-delayed"
			}
			w.Violation(i, key, fmt.Sprintf("report %s blocking=%v res=%d err=%v; EnableVerification calls so far: %d failed, %d succeeded", l, blocking, res, rerr, failedEnables, okEnables), trace)
			return
		}
		st = ns[0].(conc.State)
		fmt.Fprintf(&sig, "%d%d", s, res)
		pending = !blocking
		if fp, stacks := modelFP(e.Model, st.Slots); stacks && !st.Verifying && failedEnables > 0 && !conc.ValidFP(fp) && st.Serial == was.Serial+1 {
			unverifiedInstallsAfterFailedEnable++
		}
		if !pending && (k%every == 0 || k == n-1) {
			if !c05Compare(w, i, e, mon, st, !st.Verifying, fmt.Sprintf("after report %d (EnableVerification so far: %d failed, %d succeeded)", k, failedEnables, okEnables), trace) {
				return
			}
		}
	}
	if pending {
		// fence the last non-blocking report with a no-op round trip through the monitor
		if ferr, how := c05Guard(e, func(ctx context.Context) error {
			if !e.FenceMonitor(ctx) {
				return fmt.Errorf("fence failed")
			}
			return nil
		}); how == c05Called && ferr == nil {
			c05Compare(w, i, e, mon, st, !st.Verifying, "end of the history", trace)
		}
	}
	w.Count("delayed_histories", 1)
	w.Count("enableverification_calls_failed", int64(failedEnables))
	w.Count("enableverification_calls_switching_verification_on", int64(okEnables))
	w.Count("nonverifying_installs_after_a_failed_enableverification", int64(unverifiedInstallsAfterFailedEnable))
	c05Epilogue(w, i, e, mon, trace)
	w.Distinct(fmt.Sprintf("delayed|%d|%s", o.NSrc, sig.String()))
}
