package checks

import (
	"context"
	"errors"
	"fmt"
	"runtime"
	"strings"
	"sync"
	"sync/atomic"
	"time"

	"github.com/vimeo/dials"
	"github.com/vimeo/dials/sourcewrap"
	"github.com/vimeo/dials/tagformat"
	"github.com/vimeo/dials/tagformat/caseconversion"

	"verifharness/conc"
	"verifharness/fw"
)

func init() {
	fw.Register(&fw.Check{
		ID:   "C07",
		Race: true,
		Rule: "Each case is a history of blocking and non-blocking reports (and Blank.SetSource calls) from 2-3 sources against a real Dials[Cfg], with the caller's context cancelled at a scripted place: before the call, while the monitor is inside Verify for that very report (harness Verify signals and parks), at the mon.beforeReply hook (reply about to be sent), after return, or at a seeded random moment. " +
			"Oracle 1: the client-boundary history is linearizable (porcupine) against the sequential model in which a nil blocking report means installed-and-visible-unless-superseded, an error means rejected-and-view-unchanged, and a context-ended report may or may not have been handed to the monitor (classified by the returned error) and stays open to the end of the history. " +
			"Oracle 2 (abandoned caller): after every cancellation a follow-up blocking report from another source must return; if it does not, two goroutine dumps showing the monitor parked in a channel send are the violation, anything else is inconclusive. " +
			"Stalled reporter (1 case in 40, 4 episodes each): the REPORTING goroutine is held up between handing its value over and starting to wait for the answer (its context, which stays alive, is an ordinary context whose Done method waits for observed hook events), while the monitor answers and then exits (Dials context cancelled / every source Done), installs another source's report, or idles; the call must then return nil iff its value was installed (install log, View) and the verification error iff Verify rejected it, and the history must linearize. " +
			"distinct_nontrivial = distinct (placement, layer class, source kind, outcome sequence) signatures with >=1 context-ended report, plus distinct (meanwhile, through Blank, layer class, outcome) of stalled-reporter episodes.",
		Assumptions: []string{"Blank.SetSource(static inner source) is modelled as a blocking report of the inner source's value"},
		MinDistinct: map[string]int{"quick": 600, "thorough": 24000},
		MinCounters: map[string]map[string]int64{
			"quick":    {"reports_judged_with_queue_full": 100, "reporter_stalled_between_handover_and_wait": 100, "reporter_stalled_while_monitor_answered_and_exited": 50, "linearizable_histories": 250, "context_ended_reports": 150, "followups_after_cancellation": 150, "cancel_inside_verify": 20, "cancel_at_reply": 20},
			"thorough": {"linearizable_histories": 100000, "context_ended_reports": 50000, "reporter_stalled_between_handover_and_wait": 3000, "reporter_stalled_while_monitor_answered_and_exited": 1500},
		},
		Plan: func(tier string) fw.Plan {
			if tier == "thorough" {
				return fw.Plan{Shards: 16, CasesPerShard: 10000, TimeoutSec: 3000}
			}
			return fw.Plan{Shards: 8, CasesPerShard: 250, TimeoutSec: 900}
		},
		Run: runC07,
	})
}

// c07Env wraps an Env where source 0 may be a Blank.
type c07Env struct {
	e     *conc.Env
	blank *sourcewrap.Blank
	// wrapped: index of the source behind a transforming wrapper (0 = none; slot 0 is never wrapped)
	wrapped int
	// stuck: set when a call with a live context did not return
	stuck string
	// notCtxErr: a report whose context ended returned an error that is not (does not wrap) the context's error
	notCtxErr string
}

// report performs a report through the source (Blank.SetSource for the blank
// slot) and records it. A call that has not returned after 20s although its
// context is alive marks the scenario stuck (res -1): the caller turns that
// into a state-based verdict.
func (c *c07Env) report(ctx context.Context, client, src int, l *conc.Layer, blocking bool, again ...bool) (int, error) {
	type out struct {
		res int
		err error
	}
	ch := make(chan out, 1)
	go func() {
		var res int
		var err error
		if len(again) > 0 && again[0] {
			// the watcher re-sends the identical value object of its previous report
			res, err = c.e.ReReport(ctx, client, src, l, blocking)
		} else {
			res, err = c.reportRaw(ctx, client, src, l, blocking)
		}
		ch <- out{res, err}
	}()
	select {
	case o := <-ch:
		if cerr := ctx.Err(); cerr != nil && o.err != nil && (o.res == conc.ResNotSubmitted || o.res == conc.ResSubmittedUnk) && !errors.Is(o.err, cerr) && c.notCtxErr == "" {
			c.notCtxErr = fmt.Sprintf("report of %s from source %d (blocking=%v): context ended with %q, the call returned %q, which errors.Is does not recognise as that context error", l, src, blocking, cerr, o.err)
		}
		return o.res, o.err
	case <-time.After(20 * time.Second):
		if ctx.Err() == nil {
			c.stuck = fmt.Sprintf("report of %s from source %d (blocking=%v) with a live context", l, src, blocking)
			return -1, fmt.Errorf("harness: call did not return")
		}
		o := <-ch
		return o.res, o.err
	}
}

func (c *c07Env) reportRaw(ctx context.Context, client, src int, l *conc.Layer, blocking bool) (int, error) {
	e := c.e
	if c.blank != nil && src == 0 {
		call := e.S.Tick()
		err := c.blank.SetSource(ctx, &conc.Src{Name: "inner", Init: l})
		ret := e.S.Tick()
		res, es := conc.ClassifyReportErr(err, true)
		e.H.Add(client, conc.In{Kind: conc.OpReport, Src: 0, Layer: l, Blocking: true}, call, conc.Out{Res: res, Err: es}, ret)
		return res, err
	}
	return e.Report(ctx, client, src, l, blocking)
}

func c07Start(r *fw.Rand, useBlank bool, o conc.Opts, allowWrap ...bool) (*c07Env, error) {
	if !useBlank {
		// sometimes the last source sits behind a (tag-only) transforming wrapper: its WatchArgs are then the wrapper's
		wrapLast := len(allowWrap) > 0 && allowWrap[0] && r.Chance(35)
		c := &c07Env{}
		e, err := conc.StartWith(context.Background(), r.U64(), o, nil, func(i int, def dials.Source) dials.Source {
			if wrapLast && i == o.NSrc-1 {
				c.wrapped = i
				return sourcewrap.NewTransformingSource(def, tagformat.NewTagReformattingMangler("dials", caseconversion.DecodeGoTags, caseconversion.EncodeKebabCase))
			}
			return def
		})
		c.e = e
		return c, err
	}
	// build by hand: slot 0 is a sourcewrap.Blank
	conc.InstallHooks()
	c := &c07Env{blank: &sourcewrap.Blank{}}
	e, err := conc.StartWith(context.Background(), r.U64(), o, nil, func(i int, def dials.Source) dials.Source {
		if i == 0 {
			return c.blank
		}
		return def
	})
	c.e = e
	return c, err
}

// monitorState classifies what the (single live) dials monitor goroutine is doing, from a goroutine dump:
// "idle" (parked in its own select), "send-in-update" (parked sending a reply), "blocked-in-submit" (parked
// submitting a callback event), "busy" (anything else), "gone" (no monitor goroutine).
func monitorState() (string, string) {
	buf := make([]byte, 2<<20)
	n := runtime.Stack(buf, true)
	for _, g := range strings.Split(string(buf[:n]), "\n\n") {
		if !strings.Contains(g, ").monitor(") {
			continue
		}
		lines := strings.Split(g, "\n")
		top := ""
		if len(lines) > 1 {
			top = lines[1]
		}
		switch {
		case strings.Contains(g, "updateSourceValue") && strings.Contains(lines[0], "[chan send"):
			return "send-in-update", g
		case strings.Contains(top, "updateSourceValue") && strings.Contains(lines[0], "[chan receive"):
			// parked in a receive of its own (not inside user code such as Verify: the innermost frame is dials')
			return "receive-in-update", g
		case strings.Contains(g, "submitEvent") && (strings.Contains(lines[0], "[select") || strings.Contains(lines[0], "[chan send")):
			return "blocked-in-submit", g
		case strings.Contains(top, ").monitor(") && strings.Contains(lines[0], "[select"):
			return "idle", g
		}
		return "busy", g
	}
	return "gone", ""
}

// stuckVerdict is called when an API call has not returned after a generous wait although nothing should block it:
// two dumps 300ms apart showing the monitor in the same blocked or idle state make it a violation; otherwise inconclusive.
func stuckVerdict(w *fw.Worker, i int, what string, desc any) {
	s1, d1 := monitorState()
	time.Sleep(300 * time.Millisecond)
	s2, _ := monitorState()
	if s1 == s2 && (s1 == "idle" || s1 == "send-in-update" || s1 == "receive-in-update" || s1 == "blocked-in-submit") {
		key := map[string]string{"idle": "call-never-answered:monitor-idle", "send-in-update": "monitor-blocked-on-abandoned-caller", "receive-in-update": "monitor-blocked-in-a-receive-while-installing", "blocked-in-submit": "monitor-blocked-submitting-callback-event"}[s1]
		w.Violation(i, key, what+": the call did not return; the monitor goroutine is "+s1+" in two dumps 300ms apart", map[string]any{"case": desc, "goroutine": fw.TrimStack(d1)})
		return
	}
	w.Inconclusive(i, what+": call did not return; monitor state "+s1+"/"+s2)
}

func monitorParkedInSend() (bool, string) {
	buf := make([]byte, 1<<20)
	n := runtime.Stack(buf, true)
	for _, g := range strings.Split(string(buf[:n]), "\n\n") {
		if strings.Contains(g, "dials.(*Dials[...]).updateSourceValue") && strings.Contains(g, "[chan send") {
			return true, g
		}
	}
	return false, ""
}

// c07Wait waits for a result with a generous watchdog; ok=false means it never came.
func c07Wait[T any](ch chan T) (T, bool) {
	select {
	case v := <-ch:
		return v, true
	case <-time.After(15 * time.Second):
		var z T
		return z, false
	}
}

// c07QueueFull: with a user callback parked and the 64-slot callback queue full behind it, blocking reports must still
// return what happened to their value: nil for an installed one, the rejection for one that fails to stack or verify.
func c07QueueFull(w *fw.Worker, i int, r *fw.Rand) {
	desc := map[string]any{"mode": "callback-parked-queue-full"}
	w.BeginDesc(i, "callback-parked-queue-full")
	e, err := conc.Start(context.Background(), r.U64(), conc.Opts{NSrc: 2}, nil)
	if err != nil {
		w.Violation(i, "config-failed", err.Error(), desc)
		return
	}
	defer e.Stop()
	e.SetCBGate(make(chan struct{}))
	released := false
	defer func() {
		if !released {
			close(e.CBGate)
		}
	}()
	ctx := e.S.Ctx
	call := func(what string, src int, l *conc.Layer) (int, bool) {
		rd := make(chan int, 1)
		go func() { res, _ := e.Report(ctx, 1, src, l, true); rd <- res }()
		select {
		case res := <-rd:
			return res, true
		case <-time.After(10 * time.Second):
			stuckVerdict(w, i, what+" while a callback is parked and the callback queue is full", desc)
			return 0, false
		}
	}
	n := 66 + r.Intn(12)
	for k := 0; k < n; k++ {
		l := e.NewLayer()
		l.Set[k%4], l.Set[2] = true, true
		res, ok := call(fmt.Sprintf("valid blocking report %d", k), k%2, l)
		if !ok {
			return
		}
		if res != conc.ResNil {
			w.Violation(i, "valid-report-not-installed-behind-parked-callback", fmt.Sprintf("report %d of %s returned res=%d", k, l, res), desc)
			return
		}
	}
	probes := r.Range(2, 5)
	for k := 0; k < probes; k++ {
		src := 1 // the last source: its negative value wins, so the stack is invalid whatever the other source holds
		bad := e.RandLayer(r, 100, 0)
		if r.Bool() {
			bad.NegA, bad.NegB, bad.IllTyped = false, false, true
		}
		res, ok := call("blocking report of "+bad.String(), src, bad)
		if !ok {
			return
		}
		if res != conc.ResRejected {
			w.Violation(i, "rejected-report-not-reported-as-rejected-behind-parked-callback", fmt.Sprintf("report of %s returned res=%d", bad, res), desc)
			return
		}
		fix := e.NewLayer()
		fix.Set[0], fix.Set[1] = true, true
		res, ok = call("valid blocking report after a rejected one", src, fix)
		if !ok {
			return
		}
		if res != conc.ResNil {
			w.Violation(i, "valid-report-not-installed-behind-parked-callback", fmt.Sprintf("report of %s after a rejected one returned res=%d", fix, res), desc)
			return
		}
		w.Count("reports_judged_with_queue_full", 2)
	}
	released = true
	close(e.CBGate)
	e.Quiesce(ctx)
	e.Read(1)
	switch e.H.Check(e.Model, 20*time.Second) {
	case "ok":
		w.Count("linearizable_histories", 1)
		w.Distinct(fmt.Sprintf("queue-full|%d|%d", n, probes))
	case "illegal":
		w.Violation(i, "history-not-linearizable", "queue-full script", desc)
	default:
		w.Inconclusive(i, "linearizability check timed out")
	}
}

// c07BlankWatcherCancel: Blank.SetSource(<a watching source>) whose context ends while the monitor is busy (parked in
// Verify for another source's report) must return with the context's error instead of waiting for the monitor.
func c07BlankWatcherCancel(w *fw.Worker, i int, r *fw.Rand) {
	desc := map[string]any{"mode": "blank-setsource-watcher-context-ends-while-monitor-busy"}
	w.BeginDesc(i, "blank-watcher-cancel")
	c, err := c07Start(r, true, conc.Opts{NSrc: 2})
	if err != nil {
		w.Violation(i, "config-failed", err.Error(), desc)
		return
	}
	e := c.e
	defer e.Stop()
	until := make(chan struct{})
	type ret struct {
		err     error
		elapsed time.Duration
	}
	setRet := make(chan ret, 1)
	go func() {
		for k := 0; k < 200000 && !e.S.InVerify(); k++ {
			time.Sleep(50 * time.Microsecond)
		}
		inner := &conc.WSrc{Src: conc.Src{Name: "inner-watcher", Init: e.RandLayer(r, 0, 0)}}
		sctx, cancel := context.WithTimeout(e.S.Ctx, 40*time.Millisecond)
		t0 := time.Now()
		serr := c.blank.SetSource(sctx, inner)
		cancel()
		setRet <- ret{serr, time.Since(t0)}
	}()
	stillInside := make(chan string, 1)
	go func() {
		// keep the monitor parked until SetSource has returned; if it has not after 3s (75x its context's lifetime),
		// look where it is: two dumps 300ms apart that both show the call parked inside Blank.SetSource mean it is
		// waiting for something other than its (long expired) context
		select {
		case rt := <-setRet:
			setRet <- rt
			stillInside <- ""
		case <-time.After(3 * time.Second):
			g1 := dialsGoroutines([]string{"(*Blank).SetSource"})
			time.Sleep(300 * time.Millisecond)
			g2 := dialsGoroutines([]string{"(*Blank).SetSource"})
			if len(g1) > 0 && len(g2) > 0 {
				stillInside <- g2[0]
			} else {
				stillInside <- ""
			}
		}
		close(until)
	}()
	reached, _ := e.HoldInVerify(1, 1, e.RandLayer(r, 0, 0), until)
	if !reached {
		w.Inconclusive(i, "the monitor never reached Verify for the parking report")
		return
	}
	var rt ret
	select {
	case rt = <-setRet:
	case <-time.After(10 * time.Second):
		w.Inconclusive(i, "SetSource did not return at all")
		return
	}
	w.Count("blank_watcher_setsource_cancellations", 1)
	switch g := <-stillInside; {
	case g != "":
		w.Violation(i, "blocking-report-did-not-return-after-context-ended:blank-setsource-watcher", fmt.Sprintf("SetSource(watcher) with a 40ms context was still parked inside Blank.SetSource 3s later, while the monitor was busy; it returned (err=%v) only after the monitor was released (%v)", rt.err, rt.elapsed.Round(time.Millisecond)), map[string]any{"case": desc, "goroutine": fw.TrimStack(g)})
	case rt.err == nil:
		w.Violation(i, "setsource-returned-nil-while-monitor-was-parked", "SetSource(watcher) returned nil although the monitor was parked in Verify for another report the whole time", desc)
	default:
		w.Distinct("blank-watcher-cancel")
	}
}

// c07EventsPollers: consumers poll Events() while two sources make blocking reports back to back; every report of a
// valid value must return nil, and the view must then contain it.
func c07EventsPollers(w *fw.Worker, i int, r *fw.Rand) {
	desc := map[string]any{"mode": "events-pollers"}
	w.BeginDesc(i, "events-pollers")
	e, err := conc.Start(context.Background(), r.U64(), conc.Opts{NSrc: 2}, nil)
	if err != nil {
		w.Violation(i, "config-failed", err.Error(), desc)
		return
	}
	defer e.Stop()
	ctx := e.S.Ctx
	stop := make(chan struct{})
	defer close(stop)
	for p := 0; p < 2; p++ {
		every := 3 + r.Intn(5)
		go func() {
			for k := 0; ; k++ {
				select {
				case <-stop:
					return
				case <-e.D.Events():
				default:
				}
				if k%every == 0 {
					runtime.Gosched()
				}
			}
		}()
	}
	per := w.Pick(2500, 6000)
	type bad struct {
		k   int
		err error
	}
	fails := make(chan bad, 2)
	var wg sync.WaitGroup
	var halt atomic.Bool
	// the reports carry no deadline of their own: whether one is stuck is decided below from goroutine states taken WHILE
	// it is still pending (a dump taken after a timed-out call has returned shows an idle monitor whatever happened)
	rctx, rcancel := context.WithCancel(ctx)
	defer rcancel()
	var prog [2]atomic.Int64
	for s := 0; s < 2; s++ {
		wg.Add(1)
		go func(s int) {
			defer wg.Done()
			for k := 0; k < per && !halt.Load(); k++ {
				l := e.NewLayer()
				l.Set[k%4], l.Set[2] = true, true
				rerr := e.Srcs[s].Report(rctx, l, true)
				if rerr != nil {
					halt.Store(true)
					fails <- bad{k, rerr}
					return
				}
				prog[s].Add(1)
			}
		}(s)
	}
	finished := make(chan struct{})
	go func() { wg.Wait(); close(finished) }()
	snapshot := func() [2]int64 { return [2]int64{prog[0].Load(), prog[1].Load()} }
	callerParked := func() bool {
		for _, g := range dialsGoroutines([]string{"BlockingReportNewValue"}) {
			if strings.Contains(strings.SplitN(g, "\n", 2)[0], "[select") {
				return true
			}
		}
		return false
	}
	last, lastChange := snapshot(), time.Now()
watch:
	for {
		select {
		case <-finished:
			break watch
		case <-time.After(250 * time.Millisecond):
		}
		if cur := snapshot(); cur != last {
			last, lastChange = cur, time.Now()
			continue
		}
		if time.Since(lastChange) < 5*time.Second {
			continue
		}
		// no blocking report has completed for 5s. Two looks 300ms apart: the monitor parked in the same place both times
		// (for "idle in its own select": with a caller parked inside BlockingReportNewValue both times, i.e. nobody is
		// going to wake either of them) and still no progress => stuck. Anything else: keep waiting (a loaded machine).
		s1, d1 := monitorState()
		p1 := callerParked()
		time.Sleep(300 * time.Millisecond)
		s2, _ := monitorState()
		p2 := callerParked()
		keys := map[string]string{"idle": "call-never-answered:monitor-idle", "send-in-update": "monitor-blocked-on-abandoned-caller", "receive-in-update": "monitor-blocked-in-a-receive-while-installing", "blocked-in-submit": "monitor-blocked-submitting-callback-event"}
		if key, isStuck := keys[s1]; isStuck && s1 == s2 && p1 && p2 && snapshot() == last {
			w.Violation(i, key, fmt.Sprintf("blocking reports of valid values while Events() is being polled: none has completed for %v (%v done); a caller is parked inside BlockingReportNewValue and the monitor goroutine is %s, in two dumps 300ms apart", time.Since(lastChange).Round(time.Millisecond), last, s1), map[string]any{"case": desc, "goroutine": fw.TrimStack(d1)})
			halt.Store(true)
			rcancel()
			<-finished
			return
		}
		if time.Since(lastChange) > 90*time.Second {
			w.Inconclusive(i, fmt.Sprintf("blocking reports under Events() pollers: no progress for 90s, monitor state %s/%s, caller parked %v/%v", s1, s2, p1, p2))
			halt.Store(true)
			rcancel()
			<-finished
			return
		}
	}
	w.Count("reports_under_events_pollers", prog[0].Load()+prog[1].Load())
	select {
	case b := <-fails:
		w.Violation(i, "valid-report-failed-under-events-pollers", b.err.Error(), desc)
		return
	default:
	}
	w.Distinct("events-pollers")
}

// c07StallCtx is an ordinary context (it wraps a live one) whose Done method runs a function first. The reporting
// functions evaluate ctx.Done() each time they are about to wait, so the function runs on the REPORTING goroutine at
// exactly those places: it stands in for that goroutine being descheduled there.
type c07StallCtx struct {
	context.Context
	calls atomic.Int32
	stall func(call int32)
}

func (c *c07StallCtx) Done() <-chan struct{} {
	n := c.calls.Add(1)
	if c.stall != nil {
		c.stall(n)
	}
	return c.Context.Done()
}

var c07StallKinds = []string{"monitor-exits:context-cancelled", "monitor-exits:every-source-done", "superseded-by-another-source", "monitor-idle-again"}

// c07StalledReporter: the reporting goroutine is held up between handing its value to the monitor and starting to wait
// for the answer (all other placements delay the monitor or end the caller's context; here the caller's context stays
// alive and the caller itself is late). While it is held up the monitor stacks the value, answers, and then: shuts down
// (Dials context cancelled, or every source calls Done), or installs another source's report, or goes back to idle.
// The answer is there when the caller finally looks, so the call must return what happened to ITS value: nil when the
// value was installed (install log, View), the verification error when it was rejected.
func c07StalledReporter(w *fw.Worker, i int, r *fw.Rand) {
	for _, what := range c07StallKinds {
		c07StallEpisode(w, i, r, what, r.Chance(40), r.Chance(25))
	}
}

func c07StallEpisode(w *fw.Worker, i int, r *fw.Rand, what string, useBlank, invalid bool) {
	const wd = 10 * time.Second
	o := conc.Opts{NSrc: r.Range(2, 3)}
	w.BeginDesc(i, "reporter-stalled-after-handover:"+what)
	c, err := c07Start(r, useBlank, o)
	if err != nil {
		w.Violation(i, "config-failed", err.Error(), nil)
		return
	}
	e := c.e
	defer e.Stop()
	gates := conc.NewGates()
	defer gates.ReleaseAll()
	e.ExtraHook = func(name string, _ context.Context, args []any) { gates.OnHook(name, args) }
	ctx := e.S.Ctx
	// a clean prior state: valid layers only, so that whether the stalled report is accepted depends on its own layer
	slots := make([]*conc.Layer, o.NSrc) // the reference stack's input: the latest accepted layer per source
	for k := r.Intn(3); k > 0; k-- {
		ps, pl := r.Intn(o.NSrc), e.RandLayer(r, 0, 0)
		if res, _ := c.report(ctx, 1, ps, pl, true); res != conc.ResNil {
			w.Violation(i, "valid-report-rejected", fmt.Sprintf("blocking report of a valid layer on a valid stack returned res=%d", res), nil)
			return
		}
		slots[ps] = pl
	}
	src := r.Intn(o.NSrc)
	l := e.RandLayer(r, 0, 0)
	if invalid {
		// rejected by Verify: the last source's negative A wins whatever the others hold
		src = o.NSrc - 1
		l.Set[0], l.NegA = true, true
	}
	if what == "monitor-exits:every-source-done" && useBlank && src == 0 {
		// Blank.Done needs the lock the stalled SetSource holds
		what = "monitor-exits:context-cancelled"
	}
	other := (src + 1 + r.Intn(o.NSrc-1)) % o.NSrc
	otherLayer := e.RandLayer(r, 0, 0)
	desc := map[string]any{"mode": "reporter-stalled-between-handover-and-wait", "meanwhile": what, "through_blank": useBlank && src == 0, "layer": l.String(), "source": src, "sources": o.NSrc}
	cctx, ccancel := context.WithTimeout(context.Background(), 2*wd) // the caller's context: alive throughout (watchdog only)
	defer ccancel()
	recv := gates.Arm("mon.recv", isValueUpdate, true)
	reply := gates.Arm("mon.beforeReply", nil, true)
	nBefore := len(e.Installs())
	var placed atomic.Bool
	var inconclusive atomic.Pointer[string]
	giveUp := func(why string) { inconclusive.Store(&why) }
	sctx := &c07StallCtx{Context: cctx}
	sctx.stall = func(n int32) {
		if n < 2 || placed.Load() {
			return // the first evaluation belongs to the hand-over itself
		}
		if !recv.Wait(2 * time.Second) {
			return // evaluated again without the value having been handed over: not the window, nothing is judged
		}
		placed.Store(true)
		if !reply.Wait(wd) {
			giveUp("the monitor received the value but never reached its reply point")
			return
		}
		switch what {
		case "monitor-exits:context-cancelled", "monitor-exits:every-source-done":
			if what == "monitor-exits:context-cancelled" {
				e.S.Cancel()
			} else {
				dctx, dcancel := context.WithTimeout(context.Background(), wd)
				for k, ws := range e.Srcs {
					if c.blank != nil && k == 0 {
						c.blank.Done(dctx)
					} else if ws != nil && ws.WA() != nil {
						ws.WA().Done(dctx)
					}
				}
				dcancel()
			}
			select {
			case <-dials.VerifMonitorDone(e.D):
			case <-time.After(wd):
				giveUp("the monitor did not exit")
			}
		case "superseded-by-another-source":
			if res, _ := c.report(ctx, 3, other, otherLayer, true); res != conc.ResNil && !invalid {
				giveUp(fmt.Sprintf("the superseding report returned res=%d", res))
			}
		default:
			// a sentinel is received only at the top of the monitor loop: the answer has been sent
			if !e.SendSentinel(ctx) {
				giveUp("monitor fence failed")
			}
		}
	}
	res, rerr := c.report(sctx, 2, src, l, true)
	if why := inconclusive.Load(); why != nil {
		w.Inconclusive(i, "stalled reporter: "+*why)
		return
	}
	if c.stuck != "" || cctx.Err() != nil {
		w.Inconclusive(i, "stalled reporter: the call outlived the watchdog")
		return
	}
	if !placed.Load() {
		w.Count("reporter_stall_not_placed", 1)
		return
	}
	w.Count("reporter_stalled_between_handover_and_wait", 1)
	if strings.HasPrefix(what, "monitor-exits") {
		w.Count("reporter_stalled_while_monitor_answered_and_exited", 1)
	}
	installed := len(e.Installs()) > nBefore // the monitor took this report first: the first new version, if any, is its value
	view := conc.FPOf(e.D.View())
	// what View must show after a nil return: defaults, then each source's latest layer in source order (later sources win)
	slots[src] = l
	if what == "superseded-by-another-source" {
		slots[other] = otherLayer
	}
	wantView, _ := conc.Stack(conc.DefaultsFP(), slots)
	switch {
	case rerr != nil && installed:
		w.Violation(i, "blocking-report-returned-an-error-although-its-value-was-installed", fmt.Sprintf("meanwhile=%s: the caller's context is alive, the value was stacked, verified and installed (view %+v), yet the call returned: %v", what, view, rerr), desc)
		return
	case rerr == nil && !installed:
		w.Violation(i, "blocking-report-returned-nil-but-no-version-was-installed", fmt.Sprintf("meanwhile=%s: nil return, install log unchanged", what), desc)
		return
	case rerr == nil && invalid:
		w.Violation(i, "blocking-report-returned-nil-for-a-value-verify-rejects", fmt.Sprintf("meanwhile=%s: %s", what, l), desc)
		return
	case rerr == nil && view != wantView:
		w.Violation(i, "nil-return-but-view-is-not-the-stack-with-the-value", fmt.Sprintf("meanwhile=%s: %s returned nil, view %+v, reference stack %+v", what, l, view, wantView), desc)
		return
	case rerr != nil && !invalid:
		w.Violation(i, "valid-value-rejected-with-a-live-context", fmt.Sprintf("meanwhile=%s: %s on a valid stack returned: %v", what, l, rerr), desc)
		return
	case rerr != nil && !errors.Is(rerr, conc.ErrInvalid):
		w.Violation(i, "rejected-report-did-not-return-the-verification-error", fmt.Sprintf("meanwhile=%s: Verify rejected the stack with %q; the call (context alive) returned: %v", what, conc.ErrInvalid, rerr), desc)
		return
	}
	e.Read(1)
	switch e.H.Check(e.Model, 20*time.Second) {
	case "ok":
		w.Count("linearizable_histories", 1)
		w.Distinct(fmt.Sprintf("stalled-reporter|%s|blank=%v|invalid=%v|%d", what, useBlank && src == 0, invalid, res))
	case "illegal":
		w.Violation(i, "history-not-linearizable", "reporter stalled between hand-over and wait", map[string]any{"case": desc, "history": e.H.Describe()})
	default:
		w.Inconclusive(i, "porcupine timeout")
	}
}

func runC07(w *fw.Worker) {
	placements := []string{"before", "in-verify", "at-reply", "after", "random", "none"}
	w.Cases(func(i int, r *fw.Rand) {
		if i%40 == 13 {
			c07QueueFull(w, i, r)
			return
		}
		if i%40 == 27 {
			c07EventsPollers(w, i, r)
			return
		}
		if i%40 == 33 {
			c07BlankWatcherCancel(w, i, r)
			return
		}
		if i%40 == 7 {
			c07StalledReporter(w, i, r)
			return
		}
		placement := placements[(i+w.Shard)%len(placements)]
		useBlank := r.Chance(35)
		o := conc.Opts{NSrc: r.Range(2, 3), Skip: r.Chance(20)}
		c, err := c07Start(r, useBlank, o, true)
		if err != nil {
			w.Violation(i, "config-failed", err.Error(), nil)
			return
		}
		e := c.e
		defer e.Stop()
		gates := conc.NewGates()
		defer gates.ReleaseAll()
		var verifyGate struct {
			mu      sync.Mutex
			armed   bool
			reached chan struct{}
			release chan struct{}
		}
		e.S.OnVerify = func(*conc.Cfg) {
			verifyGate.mu.Lock()
			if !verifyGate.armed {
				verifyGate.mu.Unlock()
				return
			}
			verifyGate.armed = false
			reached, release := verifyGate.reached, verifyGate.release
			verifyGate.mu.Unlock()
			close(reached)
			<-release
		}
		e.ExtraHook = func(name string, _ context.Context, args []any) { gates.OnHook(name, args) }
		e.Jitter = r.Range(0, 30)
		ctx := e.S.Ctx
		if r.Chance(50) {
			// consumers that poll Events() rather than sit in the receive
			stopPoll := make(chan struct{})
			defer close(stopPoll)
			for p := 0; p < 2; p++ {
				go func() {
					for k := 0; ; k++ {
						select {
						case <-stopPoll:
							return
						case <-e.D.Events():
						default:
						}
						if k%5 == 0 {
							runtime.Gosched()
						}
					}
				}()
			}
		}
		var sig strings.Builder
		fmt.Fprintf(&sig, "%s|blank=%v|", placement, useBlank)
		ctxEnded := 0
		nOps := r.Range(3, 10)
		desc := map[string]any{"placement": placement, "blank": useBlank, "opts": fmt.Sprintf("%+v", o)}
		for k := 0; k < nOps; k++ {
			src := r.Intn(o.NSrc)
			l := e.RandLayer(r, 30, 8)
			if c.wrapped != 0 && src == c.wrapped {
				l.IllTyped = false // the ill-typed probe value is built for the unwrapped type
			}
			cls := "valid"
			if l.NegA || l.NegB {
				cls = "invalid"
			} else if l.IllTyped {
				cls = "illtyped"
			}
			doCancel := placement != "none" && (k == 1 || r.Chance(25))
			if !doCancel {
				blocking := r.Chance(75)
				rd := make(chan int, 1)
				go func() { res, _ := c.report(ctx, 1, src, l, blocking); rd <- res }()
				var res int
				select {
				case res = <-rd:
				case <-time.After(10 * time.Second):
					stuckVerdict(w, i, fmt.Sprintf("report of %s (blocking=%v) with a live context", l, blocking), desc)
					e.S.Cancel()
					return
				}
				fmt.Fprintf(&sig, "%d", res)
				if res == conc.ResNil {
					e.Read(1)
				}
				if blocking && !(c.blank != nil && src == 0) && (res == conc.ResNil || res == conc.ResRejected) && r.Chance(35) {
					// the same object again: it must be stacked and judged again (rejected again, or installed again)
					go func() { res, _ := c.report(ctx, 1, src, l, true, true); rd <- res }()
					select {
					case res = <-rd:
					case <-time.After(10 * time.Second):
						stuckVerdict(w, i, fmt.Sprintf("re-report of the identical object %s with a live context", l), desc)
						e.S.Cancel()
						return
					}
					w.Count("identical_object_re_reports", 1)
					fmt.Fprintf(&sig, "r%d", res)
				}
				continue
			}
			cctx, cancel := context.WithCancel(ctx)
			type result struct {
				res int
				err error
			}
			done := make(chan result, 1)
			run := func() {
				go func() {
					res, err := c.report(cctx, 2, src, l, true)
					done <- result{res, err}
				}()
			}
			switch placement {
			case "before":
				cancel()
				run()
			case "in-verify":
				verifyGate.mu.Lock()
				verifyGate.armed = true
				verifyGate.reached = make(chan struct{})
				verifyGate.release = make(chan struct{})
				reached, release := verifyGate.reached, verifyGate.release
				verifyGate.mu.Unlock()
				run()
				select {
				case <-reached:
					// the monitor is inside Verify for this report: abandon it
					cancel()
					res, ok := c07Wait(done)
					if !ok {
						close(release)
						w.Violation(i, "blocking-report-did-not-return-after-context-ended", "cancelled while the monitor was inside Verify; the call is still blocked 15s later", desc)
						return
					}
					done <- res
					w.Count("cancel_inside_verify", 1)
					close(release)
				case res := <-done:
					// Verify was not reached (stacking error, or verification skipped): nothing to park
					done <- res
					verifyGate.mu.Lock()
					verifyGate.armed = false
					verifyGate.mu.Unlock()
				case <-time.After(20 * time.Second):
					w.Inconclusive(i, "watchdog: report neither reached Verify nor returned")
					cancel()
					return
				}
			case "at-reply":
				g := gates.Arm("mon.beforeReply", nil, false)
				run()
				if g.Wait(20 * time.Second) {
					cancel()
					res, ok := c07Wait(done)
					if !ok {
						g.Release()
						w.Violation(i, "blocking-report-did-not-return-after-context-ended", "cancelled at the reply point; the call is still blocked 15s later", desc)
						return
					}
					done <- res
					w.Count("cancel_at_reply", 1)
					g.Release()
				} else {
					w.Inconclusive(i, "watchdog: reply point not reached")
					cancel()
					g.Release()
					return
				}
			case "after":
				run()
				res, ok := c07Wait(done)
				if !ok {
					stuckVerdict(w, i, fmt.Sprintf("blocking report of %s with a live context", l), desc)
					cancel()
					e.S.Cancel()
					return
				}
				done <- res
				cancel()
			case "random":
				run()
				for y := r.Intn(40); y > 0; y-- {
					runtime.Gosched()
				}
				if r.Bool() {
					time.Sleep(time.Duration(r.Intn(150)) * time.Microsecond)
				}
				cancel()
			}
			var res result
			select {
			case res = <-done:
			case <-time.After(20 * time.Second):
				// the call is blocked past its own context (C08's clause, reported here too) if its goroutine is parked
				// inside BlockingReportNewValue in two dumps 300ms apart, the context long cancelled; otherwise the
				// machine is slow
				parked := func() string {
					for _, g := range dialsGoroutines([]string{"BlockingReportNewValue"}) {
						if h := strings.SplitN(g, "\n", 2)[0]; strings.Contains(h, "[select") || strings.Contains(h, "[chan send") || strings.Contains(h, "[chan receive") {
							return g
						}
					}
					return ""
				}
				g1 := parked()
				time.Sleep(300 * time.Millisecond)
				g2 := parked()
				select {
				case res = <-done:
				default:
					if g1 != "" && g2 != "" {
						w.Violation(i, "blocking-report-did-not-return-after-context-ended", fmt.Sprintf("placement %s: BlockingReportNewValue still blocked 20s after its context was cancelled (parked in two dumps 300ms apart)", placement), map[string]any{"case": desc, "goroutine": fw.TrimStack(g1)})
					} else {
						w.Inconclusive(i, "a cancelled blocking report has not returned after 20s, but its goroutine is not parked inside BlockingReportNewValue")
					}
					cancel()
					return
				}
			}
			cancel()
			fmt.Fprintf(&sig, "[%s:%d]", cls, res.res)
			if res.res == conc.ResNotSubmitted || res.res == conc.ResSubmittedUnk {
				ctxEnded++
				w.Count("context_ended_reports", 1)
				if res.err == nil || !strings.Contains(res.err.Error(), "context") {
					w.Violation(i, "context-ended-report-without-context-error", fmt.Sprintf("error: %v", res.err), desc)
				}
			}
			// abandoned caller: a follow-up blocking report from another source must complete
			other := (src + 1) % o.NSrc
			fl := e.RandLayer(r, 20, 0)
			fdone := make(chan struct{})
			go func() {
				c.report(ctx, 3, other, fl, true)
				close(fdone)
			}()
			select {
			case <-fdone:
				w.Count("followups_after_cancellation", 1)
			case <-time.After(5 * time.Second):
				p1, dump := monitorParkedInSend()
				time.Sleep(300 * time.Millisecond)
				p2, _ := monitorParkedInSend()
				select {
				case <-fdone:
					w.Count("followups_after_cancellation", 1)
				default:
					if p1 && p2 {
						w.Violation(i, "monitor-blocked-on-abandoned-caller", fmt.Sprintf("placement %s: after the caller returned a context error the monitor is parked sending its reply; the next blocking report never returns", placement), map[string]any{"case": desc, "goroutine": fw.TrimStack(dump)})
					} else {
						w.Inconclusive(i, "follow-up report did not return but the monitor is not provably parked")
					}
					return
				}
			}
		}
		// final fence + read
		last := e.NewLayer()
		last.Set[3] = true
		c.report(ctx, 1, o.NSrc-1, last, true)
		if c.stuck != "" {
			stuckVerdict(w, i, c.stuck, desc)
			e.S.Cancel()
			return
		}
		if c.notCtxErr != "" {
			w.Violation(i, "context-ended-report-did-not-return-a-context-error", c.notCtxErr, desc)
			return
		}
		e.Read(1)
		switch e.H.Check(e.Model, 20*time.Second) {
		case "ok":
			w.Count("linearizable_histories", 1)
			w.Count("history_ops", int64(e.H.Len()))
		case "illegal":
			w.Violation(i, "history-not-linearizable", "no linearization: a nil blocking report whose value is not visible, an error report that changed the view, or a stale reply", map[string]any{"case": desc, "history": e.H.Describe()})
		default:
			w.Inconclusive(i, "porcupine timeout")
		}
		if ctxEnded > 0 {
			w.Distinct(sig.String())
		}
		if i%31 == 0 {
			w.Sample(map[string]any{"placement": placement, "blank": useBlank, "signature": sig.String(), "history": e.H.Describe()})
		}
	})
}
