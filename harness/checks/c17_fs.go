package checks

import (
	"fmt"
	"os"
	"path/filepath"
	"runtime"
	"time"
)

// ---------------------------------------------------------------------------
// C17 file operations on a real directory tree.
//
//   plain:    <root>/cfg/config.<ext>                         regular file
//   symfile:  <root>/cfg/config.<ext> -> <root>/dataN/real-M.<ext>
//   k8s:      <root>/cfg/config.<ext> -> ..dir/config.<ext>
//             <root>/cfg/..dir        -> ..ts_N.
//             <root>/cfg/..ts_N./config.<ext>                 (the layout file.go documents and its test uses)
// ---------------------------------------------------------------------------

type c17FS struct {
	layout  string
	root    string
	cfgDir  string
	fname   string
	cfgPath string
	relLink bool
	// symfile
	dataN   int
	realN   int
	target  string // absolute path of the current link target
	dataDir string
	// k8s
	tsN   int
	tsDir string // name of the current timestamped dir
	tmpN  int
	// afterFirst is called by chunked writes after their first piece (used
	// to let a gated watcher arrive in the middle of a write).
	afterFirst func()
}

func c17Pause(us int) {
	switch {
	case us < 0:
		runtime.Gosched()
	case us > 0:
		time.Sleep(time.Duration(us) * time.Microsecond)
	}
}

func newC17FS(root, layout, ext string, relLink bool, initial []byte) (*c17FS, error) {
	f := &c17FS{layout: layout, root: root, cfgDir: filepath.Join(root, "cfg"), fname: "config." + ext, relLink: relLink}
	f.cfgPath = filepath.Join(f.cfgDir, f.fname)
	if err := os.MkdirAll(f.cfgDir, 0o755); err != nil {
		return nil, err
	}
	switch layout {
	case "plain":
		if err := os.WriteFile(f.cfgPath, initial, 0o644); err != nil {
			return nil, err
		}
	case "symfile":
		f.dataDir = filepath.Join(root, "data0")
		if err := os.MkdirAll(f.dataDir, 0o755); err != nil {
			return nil, err
		}
		f.target = filepath.Join(f.dataDir, "real-0."+ext)
		if err := os.WriteFile(f.target, initial, 0o644); err != nil {
			return nil, err
		}
		if err := os.Symlink(f.linkText(f.target), f.cfgPath); err != nil {
			return nil, err
		}
	case "k8s":
		f.tsDir = "..ts_0."
		if err := os.Mkdir(filepath.Join(f.cfgDir, f.tsDir), 0o755); err != nil {
			return nil, err
		}
		if err := os.Symlink(f.tsDir, filepath.Join(f.cfgDir, "..dir")); err != nil {
			return nil, err
		}
		if err := os.Symlink(filepath.Join("..dir", f.fname), f.cfgPath); err != nil {
			return nil, err
		}
		if err := os.WriteFile(filepath.Join(f.cfgDir, f.tsDir, f.fname), initial, 0o644); err != nil {
			return nil, err
		}
	default:
		return nil, fmt.Errorf("unknown layout %q", layout)
	}
	return f, nil
}

func (f *c17FS) linkText(target string) string {
	if f.relLink {
		if rel, err := filepath.Rel(f.cfgDir, target); err == nil {
			return rel
		}
	}
	return target
}

// realPath is the path of the regular file the watched path currently names.
func (f *c17FS) realPath() string {
	switch f.layout {
	case "symfile":
		return f.target
	case "k8s":
		return filepath.Join(f.cfgDir, f.tsDir, f.fname)
	}
	return f.cfgPath
}

func (f *c17FS) writeChunks(fh *os.File, b []byte, chunks, pauses []int) error {
	if len(chunks) == 0 {
		chunks = []int{len(b)}
	}
	prev := 0
	for i, end := range chunks {
		if end > len(b) {
			end = len(b)
		}
		if end > prev {
			if _, err := fh.Write(b[prev:end]); err != nil {
				return err
			}
		}
		prev = end
		if i == 0 && f.afterFirst != nil {
			f.afterFirst()
		}
		if i < len(pauses) && i < len(chunks)-1 {
			c17Pause(pauses[i])
		}
	}
	return nil
}

// inplace truncates the watched file and rewrites it in pieces.
func (f *c17FS) inplace(b []byte, chunks, pauses []int) error {
	fh, err := os.OpenFile(f.cfgPath, os.O_WRONLY|os.O_TRUNC, 0o644)
	if err != nil {
		return err
	}
	werr := f.writeChunks(fh, b, chunks, pauses)
	cerr := fh.Close()
	if werr != nil {
		return werr
	}
	return cerr
}

// inplaceKeepMtime rewrites the watched file in place with content of the same
// length and then puts the previous modification time back (cp -p, rsync
// --inplace -t) or, with fixed, sets a fixed epoch mtime (normalised timestamps).
func (f *c17FS) inplaceKeepMtime(b []byte, trunc, fixed bool) error {
	st, err := os.Stat(f.cfgPath)
	if err != nil {
		return err
	}
	flags := os.O_WRONLY
	if trunc {
		flags |= os.O_TRUNC
	}
	fh, err := os.OpenFile(f.cfgPath, flags, 0o644)
	if err != nil {
		return err
	}
	_, werr := fh.WriteAt(b, 0)
	if werr == nil && int64(len(b)) != st.Size() {
		werr = fh.Truncate(int64(len(b)))
	}
	cerr := fh.Close()
	if werr != nil {
		return werr
	}
	if cerr != nil {
		return cerr
	}
	mt := st.ModTime()
	if fixed {
		mt = time.Unix(1_000_000_000, 0)
	}
	return os.Chtimes(f.cfgPath, mt, mt)
}

// renameOver writes a finished temporary file next to the real file and
// renames it over the real file.
func (f *c17FS) renameOver(b []byte) error {
	real := f.realPath()
	f.tmpN++
	tmp := filepath.Join(filepath.Dir(real), fmt.Sprintf(".tmp-%d-%s", f.tmpN, f.fname))
	if err := os.WriteFile(tmp, b, 0o644); err != nil {
		return err
	}
	return os.Rename(tmp, real)
}

// deleteRecreate unlinks the real file and creates it again.
func (f *c17FS) deleteRecreate(b []byte, atomicCreate bool, midPauseUs int, chunks, pauses []int) error {
	real := f.realPath()
	if err := os.Remove(real); err != nil {
		return err
	}
	c17Pause(midPauseUs)
	if atomicCreate {
		return f.renameOver(b)
	}
	fh, err := os.OpenFile(real, os.O_WRONLY|os.O_CREATE|os.O_EXCL, 0o644)
	if err != nil {
		return err
	}
	werr := f.writeChunks(fh, b, chunks, pauses)
	cerr := fh.Close()
	if werr != nil {
		return werr
	}
	return cerr
}

// k8sSwap performs the AtomicWriter sequence: new timestamped directory with
// the file, ..dir_tmp link to it, rename of ..dir_tmp onto ..dir, optional
// removal of the previous timestamped directory.
func (f *c17FS) k8sSwap(b []byte, fileFirst, removeOld bool) error {
	if f.layout != "k8s" {
		return fmt.Errorf("k8s-swap in layout %s", f.layout)
	}
	f.tsN++
	old := f.tsDir
	next := fmt.Sprintf("..ts_%d.", f.tsN)
	nextPath := filepath.Join(f.cfgDir, next)
	if err := os.Mkdir(nextPath, 0o755); err != nil {
		return err
	}
	tmpLink := filepath.Join(f.cfgDir, "..dir_tmp")
	if fileFirst {
		if err := os.WriteFile(filepath.Join(nextPath, f.fname), b, 0o644); err != nil {
			return err
		}
		if err := os.Symlink(next, tmpLink); err != nil {
			return err
		}
	} else {
		if err := os.Symlink(next, tmpLink); err != nil {
			return err
		}
		if err := os.WriteFile(filepath.Join(nextPath, f.fname), b, 0o644); err != nil {
			return err
		}
	}
	if err := os.Rename(tmpLink, filepath.Join(f.cfgDir, "..dir")); err != nil {
		return err
	}
	f.tsDir = next
	if removeOld {
		if err := os.RemoveAll(filepath.Join(f.cfgDir, old)); err != nil {
			return err
		}
	}
	return nil
}

// symlinkSwap writes a new target file (in the current or a new data
// directory) and atomically re-points the watched symlink at it.
func (f *c17FS) symlinkSwap(b []byte, newDir, removeOld bool, ext string) error {
	if f.layout != "symfile" {
		return fmt.Errorf("symlink-swap in layout %s", f.layout)
	}
	return f.swapLink(b, newDir, removeOld, false, ext)
}

// swapLink renames a symlink to a freshly written target file over the
// watched path. The watched path may currently be a symlink (symlink swap) or
// a regular file (the layout changes from plain to symfile: what `ln -sfn` or
// a deployment tool switching to a versioned-directory scheme does). The new
// target lives in the config's own directory (sibling), in the current data
// directory, or in a new data directory; coming from a regular file or from a
// sibling target, "not sibling" always means another directory.
func (f *c17FS) swapLink(b []byte, newDir, removeOld, sibling bool, ext string) error {
	if f.layout != "symfile" && f.layout != "plain" {
		return fmt.Errorf("symlink swap in layout %s", f.layout)
	}
	fromPlain := f.layout == "plain"
	oldTarget, oldDir := f.target, f.dataDir
	switch {
	case sibling:
		f.dataDir = f.cfgDir
	case newDir || fromPlain || oldDir == f.cfgDir:
		f.dataN++
		f.dataDir = filepath.Join(f.root, fmt.Sprintf("data%d", f.dataN))
		if err := os.MkdirAll(f.dataDir, 0o755); err != nil {
			return err
		}
	}
	f.realN++
	nt := filepath.Join(f.dataDir, fmt.Sprintf("real-%d.%s", f.realN, ext))
	if err := os.WriteFile(nt, b, 0o644); err != nil {
		return err
	}
	f.tmpN++
	tmpLink := filepath.Join(f.cfgDir, fmt.Sprintf(".tmp-link-%d", f.tmpN))
	if err := os.Symlink(f.linkText(nt), tmpLink); err != nil {
		return err
	}
	if err := os.Rename(tmpLink, f.cfgPath); err != nil {
		return err
	}
	f.target = nt
	f.layout = "symfile"
	if removeOld && !fromPlain {
		if f.dataDir != oldDir && oldDir != f.cfgDir {
			if err := os.RemoveAll(oldDir); err != nil {
				return err
			}
		} else if err := os.Remove(oldTarget); err != nil {
			return err
		}
	}
	return nil
}

// toRegular renames a finished regular file over the watched path, which is
// currently a symlink: the layout changes from symfile to plain. The previous
// target (its directory when it is not the config's own) is optionally removed.
func (f *c17FS) toRegular(b []byte, removeOld bool) error {
	if f.layout != "symfile" {
		return fmt.Errorf("to-regular in layout %s", f.layout)
	}
	f.tmpN++
	tmp := filepath.Join(f.cfgDir, fmt.Sprintf(".tmp-%d-%s", f.tmpN, f.fname))
	if err := os.WriteFile(tmp, b, 0o644); err != nil {
		return err
	}
	if err := os.Rename(tmp, f.cfgPath); err != nil {
		return err
	}
	oldTarget, oldDir := f.target, f.dataDir
	f.layout, f.target, f.dataDir = "plain", "", ""
	if removeOld {
		if oldDir != f.cfgDir {
			return os.RemoveAll(oldDir)
		}
		return os.Remove(oldTarget)
	}
	return nil
}
