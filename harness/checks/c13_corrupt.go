package checks

// C13 corruptions: documents that are ill-typed or malformed BY CONSTRUCTION.
// Only classes on which all four underlying libraries reject the input are
// judged (calibrated by a probe on the pinned tree); classes where yaml.v2
// coerces (number -> string, float -> int), the empty document and null are
// not generated.

import (
	"encoding/json"
	"strings"

	"verifharness/fw"
)

type c13Target struct {
	parent *c13Val
	idx    int
}

// c13Targets lists the present fields reachable through structs and slice
// elements (not decoys).
func c13Targets(v *c13Val, out []c13Target) []c13Target {
	if v == nil {
		return out
	}
	switch v.node.kind {
	case c13Struct, c13PtrStruct:
		for i, fv := range v.fvals {
			out = append(out, c13Target{v, i})
			out = c13Targets(fv, out)
		}
	case c13SliceStruct:
		for _, e := range v.list {
			out = c13Targets(e, out)
		}
	}
	return out
}

type c13Mismatch struct {
	class string
	raw   c13RawKind
}

// c13MismatchesFor lists the judged ill-typed replacements for a field of
// node n.
func c13MismatchesFor(n *c13Node) []c13Mismatch {
	var out []c13Mismatch
	switch n.kind {
	case c13Bool:
		out = append(out, c13Mismatch{"mapping-for-scalar", c13RawMap}, c13Mismatch{"list-for-scalar", c13RawIntList},
			c13Mismatch{"string-for-bool", c13RawStr}, c13Mismatch{"int-for-bool", c13RawInt})
	case c13Int, c13Uint:
		out = append(out, c13Mismatch{"mapping-for-scalar", c13RawMap}, c13Mismatch{"list-for-scalar", c13RawIntList},
			c13Mismatch{"string-for-number", c13RawStr}, c13Mismatch{"bool-for-int", c13RawBool})
		if n.bits == 8 || n.bits == 16 || n.bits == 32 {
			out = append(out, c13Mismatch{"int-overflow", c13RawBig})
		}
	case c13Float:
		out = append(out, c13Mismatch{"mapping-for-scalar", c13RawMap}, c13Mismatch{"list-for-scalar", c13RawIntList},
			c13Mismatch{"string-for-number", c13RawStr})
	case c13String:
		out = append(out, c13Mismatch{"mapping-for-scalar", c13RawMap}, c13Mismatch{"list-for-scalar", c13RawIntList})
	case c13Duration:
		out = append(out, c13Mismatch{"list-for-scalar", c13RawStrList}, c13Mismatch{"bad-text", c13RawStr})
	case c13Time, c13IP, c13Text:
		out = append(out, c13Mismatch{"bad-text", c13RawStr})
	case c13Slice:
		out = append(out, c13Mismatch{"scalar-for-list", c13RawInt}, c13Mismatch{"scalar-for-list", c13RawStr})
		if n.elem.kind == c13Int || n.elem.kind == c13Uint {
			out = append(out, c13Mismatch{"wrong-element-in-int-list", c13RawMixedList})
		}
	case c13Set, c13SliceStruct:
		out = append(out, c13Mismatch{"scalar-for-list", c13RawInt}, c13Mismatch{"scalar-for-list", c13RawStr})
	case c13Map:
		out = append(out, c13Mismatch{"scalar-for-map", c13RawInt}, c13Mismatch{"scalar-for-map", c13RawStr})
	case c13Struct, c13PtrStruct:
		out = append(out, c13Mismatch{"scalar-for-struct", c13RawInt}, c13Mismatch{"scalar-for-struct", c13RawStr})
	}
	return out
}

type c13Malformed struct {
	class string
	doc   string
}

// c13MalformedDoc derives a document that is malformed by construction from
// a valid one.
func c13MalformedDoc(fm c13Fmt, doc string, r *fw.Rand) c13Malformed {
	atEnd := r.Bool()
	put := func(snippet string) string {
		if atEnd {
			if !strings.HasSuffix(doc, "\n") {
				return doc + "\n" + snippet
			}
			return doc + snippet
		}
		return snippet + doc
	}
	switch fm {
	case c13JSON:
		switch r.Intn(4) {
		case 0:
			if len(doc) > 1 {
				return c13Malformed{"truncated", doc[:r.Range(1, len(doc)-1)]}
			}
			return c13Malformed{"truncated", "{"}
		case 1:
			return c13Malformed{"unbalanced-bracket", strings.TrimRight(doc, " \n}")}
		case 2:
			return c13Malformed{"unbalanced-quote", strings.Replace(doc, `"`, ``, 1)}
		default:
			return c13Malformed{"trailing-garbage", doc + "]"}
		}
	case c13YAML:
		doc = strings.TrimPrefix(doc, "---\n")
		if strings.TrimSpace(doc) == "{}" {
			// yaml.v2 reads one document node and ignores what follows a
			// complete root flow mapping; keep the corruption inside the root
			doc = ""
		}
		switch r.Intn(4) {
		case 0:
			atEnd = true // end of input inside a quoted scalar: malformed whatever precedes it
			return c13Malformed{"unbalanced-quote", put("zz_bad: \"unterminated\n")}
		case 1:
			return c13Malformed{"unbalanced-bracket", put("zz_bad: [1, 2\n")}
		case 2:
			return c13Malformed{"tab-indentation", put("zz_bad:\n\tqq: 1\n")}
		default:
			return c13Malformed{"unbalanced-brace", put("zz_bad: {a: 1\n")}
		}
	case c13TOML:
		switch r.Intn(5) {
		case 0:
			return c13Malformed{"unbalanced-quote", put("zz_bad = \"unterminated\n")}
		case 1:
			return c13Malformed{"unbalanced-bracket", put("zz_bad = [1, 2\n")}
		case 2:
			atEnd = true
			return c13Malformed{"duplicate-table", put("[zz_bad]\n[zz_bad]\n")}
		case 3:
			return c13Malformed{"missing-value", put("zz_bad =\n")}
		default:
			return c13Malformed{"duplicate-key", put("zz_bad = 1\nzz_bad = 2\n")}
		}
	default:
		switch r.Intn(4) {
		case 0:
			return c13Malformed{"unbalanced-quote", put("zz_bad: \"unterminated\n")}
		case 1:
			return c13Malformed{"unbalanced-bracket", put("zz_bad: [1, 2\n")}
		case 2:
			return c13Malformed{"unbalanced-brace", put("zz_bad: {\n")}
		default:
			atEnd = true
			return c13Malformed{"missing-value", put("zz_bad:\n")}
		}
	}
}

// c13MutateJSON applies one single-byte corruption; ok=false when the result
// is still valid JSON according to encoding/json's own validator (then it is
// not judged).
func c13MutateJSON(doc string, r *fw.Rand) (string, string, bool) {
	if len(doc) == 0 {
		return "", "", false
	}
	b := []byte(doc)
	pos := r.Intn(len(b))
	class := ""
	switch r.Intn(3) {
	case 0:
		class = "byte-deleted"
		b = append(b[:pos:pos], b[pos+1:]...)
	case 1:
		class = "byte-inserted"
		c := fw.Pick(r, []byte{'"', '{', '}', '[', ']', ',', ':', 'x', '\\', '0', '-'})
		b = append(b[:pos:pos], append([]byte{c}, b[pos:]...)...)
	default:
		class = "byte-replaced"
		c := fw.Pick(r, []byte{'"', '{', '}', '[', ']', ',', ':', 'x', '\\', ' '})
		if b[pos] == c {
			return "", "", false
		}
		b[pos] = c
	}
	if json.Valid(b) {
		return "", "", false
	}
	return string(b), class, true
}
