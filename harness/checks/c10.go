package checks

import (
	"encoding"
	"fmt"
	"reflect"
	"strings"
	"time"

	"github.com/vimeo/dials/decoders/json/jsontypes"
	"github.com/vimeo/dials/ptrify"
	"github.com/vimeo/dials/tagformat"
	"github.com/vimeo/dials/tagformat/caseconversion"
	"github.com/vimeo/dials/transform"

	"verifharness/fw"
	"verifharness/gen"
)

func init() {
	fw.Register(&fw.Check{
		ID: "C10",
		Rule: "Each case: a seeded reflect.StructOf config type (depth <=3; nested/pointer/embedded/embedded-pointer structs, skipped fields, 51 leaf kinds incl. slices and arrays of structs with content, structs with unexported fields inside slices, sets, durations, text-unmarshalables, named types), pointerified, then translated by one mangler chain: the env chain, the flag chain, the pflag chain, the JSON/Cue chain, the YAML chain with and without anonymous-flatten, the TOML chain, the ez file chain (alias -> [reformat] -> set-slice -> decoder chain) or a random sub-chain respecting each mangler's documented precondition (flatten needs pointerified input, string-cast last). " +
			"A random subset of the translated fields is filled BY NAME (flatten: concatenation of the non-embedded path names; alias: the copy named <Field>_alias...; anonymous-flatten: hoisted) with the forward conversion of typed values (duration -> ParsingDuration, set -> slice of keys, anything -> *string of its canonical text, TextUnmarshaler -> *string of MarshalText, tag-only manglers -> identity) and reverse-translated; the result must have exactly the original pointerified type and equal, leaf by leaf, the layer of the values written (sets compared as sets), every other leaf unset; the all-unset translated value must reverse to the all-unset original. " +
			"distinct_nontrivial = distinct (chain, type-shape, fill pattern) signatures with >=1 field filled and >=1 left unset.",
		Assumptions: []string{
			"under string-casting chains only string-castable leaves are filled (other leaf types stay in the type, unset)",
			"an alias copy and its primary are never both filled (C14 judges that)",
		},
		MinDistinct: map[string]int{"quick": 5000, "thorough": 1000000},
		MinCounters: map[string]map[string]int64{
			"quick":    {"leaves_filled_and_compared": 30000, "empty_translated_value_checks": 8000, "chains_with_type_changing_mangler": 4000, "empty_value_checks_flatten_with_nested_interface_leaf": 300},
			"thorough": {"leaves_filled_and_compared": 5000000},
		},
		Plan: func(tier string) fw.Plan {
			if tier == "thorough" {
				return fw.Plan{Shards: 64, CasesPerShard: 60000, Parallel: 16, TimeoutSec: 3000}
			}
			return fw.Plan{Shards: 16, CasesPerShard: 1500, TimeoutSec: 600}
		},
		Run: runC10,
	})
}

type c10Chain struct {
	name      string
	manglers  []transform.Mangler
	flatten   bool
	anonFlat  bool
	strCast   bool
	textU     bool
	typeChang bool
}

var parsingDur = func() transform.Mangler {
	m, err := transform.NewSingleTypeSubstitutionMangler[time.Duration, jsontypes.ParsingDuration]()
	if err != nil {
		panic(err)
	}
	return m
}()

func c10Chains(r *fw.Rand) c10Chain { return c10ChainK(r, r.Intn(10)) }

// c10ChainK builds chain number k (0-7 the shipped chains, 8-9 a random sub-chain).
func c10ChainK(r *fw.Rand, k int) c10Chain {
	tagcopy := func(to string) transform.Mangler { return &tagformat.TagCopyingMangler{SrcTag: "dials", NewTag: to} }
	switch k {
	case 0:
		return c10Chain{name: "env", flatten: true, strCast: true, typeChang: true, manglers: []transform.Mangler{
			transform.NewAliasMangler("dials", "dialsenv"),
			transform.NewFlattenMangler("dials", caseconversion.EncodeUpperCamelCase, caseconversion.EncodeCasePreservingSnakeCase),
			tagformat.NewTagReformattingMangler("dials", caseconversion.DecodeGoTags, caseconversion.EncodeUpperSnakeCase),
			tagcopy("dialsenv"), &transform.StringCastingMangler{}}}
	case 1:
		return c10Chain{name: "flag", flatten: true, manglers: []transform.Mangler{
			transform.NewAliasMangler("dials", "dialsflag"),
			transform.NewFlattenMangler("dials", caseconversion.EncodeUpperCamelCase, caseconversion.EncodeKebabCase)}}
	case 2:
		return c10Chain{name: "pflag", flatten: true, manglers: []transform.Mangler{
			transform.NewAliasMangler("dials", "dialspflag", "dialspflagshort"),
			transform.NewFlattenMangler("dials", caseconversion.EncodeUpperCamelCase, caseconversion.EncodeKebabCase)}}
	case 3:
		return c10Chain{name: "json-cue", typeChang: true, manglers: []transform.Mangler{parsingDur, tagcopy("json")}}
	case 4:
		return c10Chain{name: "yaml", manglers: []transform.Mangler{tagcopy("yaml")}}
	case 5:
		return c10Chain{name: "yaml-anon", anonFlat: true, typeChang: true, manglers: []transform.Mangler{tagcopy("yaml"), transform.AnonymousFlattenMangler{}}}
	case 6:
		return c10Chain{name: "toml", manglers: []transform.Mangler{tagcopy("toml")}}
	case 7:
		ms := []transform.Mangler{transform.NewAliasMangler("dials")}
		name := "ez-file"
		if r.Bool() {
			ms = append(ms, tagformat.NewTagReformattingMangler("dials", caseconversion.DecodeGoTags, caseconversion.EncodeKebabCase))
			name += "+reformat"
		}
		ms = append(ms, &transform.SetSliceMangler{})
		switch r.Intn(3) {
		case 0:
			ms = append(ms, parsingDur, tagcopy("json"))
			name += "+json"
		case 1:
			ms = append(ms, tagcopy("yaml"))
			name += "+yaml"
		default:
			ms = append(ms, tagcopy("toml"))
			name += "+toml"
		}
		return c10Chain{name: name, typeChang: true, manglers: ms}
	}
	// random sub-chain
	c := c10Chain{name: "random:"}
	pool := []struct {
		n string
		m func() transform.Mangler
		f func(c *c10Chain)
	}{
		{"alias", func() transform.Mangler { return transform.NewAliasMangler("dials") }, nil},
		{"anon", func() transform.Mangler { return transform.AnonymousFlattenMangler{} }, func(c *c10Chain) { c.anonFlat = true; c.typeChang = true }},
		{"set", func() transform.Mangler { return &transform.SetSliceMangler{} }, func(c *c10Chain) { c.typeChang = true }},
		{"dur", func() transform.Mangler { return parsingDur }, func(c *c10Chain) { c.typeChang = true }},
		{"textu", func() transform.Mangler { return &transform.TextUnmarshalerMangler{} }, func(c *c10Chain) { c.textU = true; c.typeChang = true }},
		{"copy", func() transform.Mangler { return tagcopy("json") }, nil},
		{"reformat", func() transform.Mangler {
			return tagformat.NewTagReformattingMangler("dials", caseconversion.DecodeGoTags, caseconversion.EncodeLowerSnakeCase)
		}, nil},
	}
	n := r.Range(1, 4)
	for _, k := range r.Perm(len(pool))[:n] {
		p := pool[k]
		if p.n == "anon" && c.textU {
			continue // anonymous-flatten is documented as unaware of TextUnmarshalers: combine only in the documented order
		}
		c.manglers = append(c.manglers, p.m())
		c.name += p.n + ","
		if p.f != nil {
			p.f(&c)
		}
	}
	if !c.anonFlat && r.Chance(35) {
		c.manglers = append(c.manglers, transform.NewFlattenMangler("dials", caseconversion.EncodeUpperCamelCase, caseconversion.EncodeCasePreservingSnakeCase))
		c.flatten = true
		c.name += "flatten,"
		// string-casting after the duration substitution would need the text of a ParsingDuration (no shipped chain combines them)
		if r.Chance(50) && !c.textU && !strings.Contains(c.name, "dur") {
			c.manglers = append(c.manglers, &transform.StringCastingMangler{})
			c.strCast = true
			c.typeChang = true
			c.name += "strcast"
		}
	}
	return c
}

var (
	durType   = reflect.TypeOf(time.Duration(0))
	pdurType  = reflect.TypeOf(jsontypes.ParsingDuration(0))
	strPtrTyp = reflect.TypeOf((*string)(nil))
	emptyStrc = reflect.TypeOf(struct{}{})
	textMType = reflect.TypeOf((*encoding.TextMarshaler)(nil)).Elem()
)

// c10Forward converts a typed value to the translated field type.
func c10Forward(v reflect.Value, target reflect.Type, lf *gen.Leaf) (reflect.Value, error) {
	if v.Type() == target {
		return gen.CloneValue(v), nil
	}
	// string-ified
	if target == strPtrTyp {
		var text string
		base := v
		for base.Kind() == reflect.Ptr {
			base = base.Elem()
		}
		if base.Type().Implements(textMType) {
			b, err := base.Interface().(encoding.TextMarshaler).MarshalText()
			if err != nil {
				return reflect.Value{}, err
			}
			text = string(b)
		} else if lf != nil && lf.Text != nil {
			text = lf.Text(base)
		} else {
			return reflect.Value{}, fmt.Errorf("no text form for %s", v.Type())
		}
		return reflect.ValueOf(&text), nil
	}
	switch target.Kind() {
	case reflect.Ptr:
		if v.Kind() == reflect.Ptr {
			if v.IsNil() {
				return reflect.Zero(target), nil
			}
			inner, err := c10Forward(v.Elem(), target.Elem(), lf)
			if err != nil {
				return reflect.Value{}, err
			}
			p := reflect.New(target.Elem())
			p.Elem().Set(inner)
			return p, nil
		}
		inner, err := c10Forward(v, target.Elem(), lf)
		if err != nil {
			return reflect.Value{}, err
		}
		p := reflect.New(target.Elem())
		p.Elem().Set(inner)
		return p, nil
	case reflect.Slice:
		if v.Kind() == reflect.Map && v.Type().Elem() == emptyStrc {
			// set -> slice of keys
			out := reflect.MakeSlice(target, 0, v.Len())
			for _, k := range v.MapKeys() {
				out = reflect.Append(out, k)
			}
			return out, nil
		}
		if v.Kind() != reflect.Slice {
			break
		}
		if v.IsNil() {
			return reflect.Zero(target), nil
		}
		out := reflect.MakeSlice(target, v.Len(), v.Len())
		for i := 0; i < v.Len(); i++ {
			e, err := c10Forward(v.Index(i), target.Elem(), nil)
			if err != nil {
				return reflect.Value{}, err
			}
			out.Index(i).Set(e)
		}
		return out, nil
	case reflect.Array:
		if v.Kind() != reflect.Array {
			break
		}
		out := reflect.New(target).Elem()
		for i := 0; i < v.Len(); i++ {
			e, err := c10Forward(v.Index(i), target.Elem(), nil)
			if err != nil {
				return reflect.Value{}, err
			}
			out.Index(i).Set(e)
		}
		return out, nil
	case reflect.Map:
		if v.Kind() != reflect.Map {
			break
		}
		if v.IsNil() {
			return reflect.Zero(target), nil
		}
		out := reflect.MakeMapWithSize(target, v.Len())
		it := v.MapRange()
		for it.Next() {
			k, err := c10Forward(it.Key(), target.Key(), nil)
			if err != nil {
				return reflect.Value{}, err
			}
			e, err := c10Forward(it.Value(), target.Elem(), nil)
			if err != nil {
				return reflect.Value{}, err
			}
			out.SetMapIndex(k, e)
		}
		return out, nil
	case reflect.Struct:
		if v.Kind() == reflect.Struct {
			out := reflect.New(target).Elem()
			for i := 0; i < target.NumField(); i++ {
				tf := target.Field(i)
				sv := v.FieldByName(tf.Name)
				if !sv.IsValid() || tf.PkgPath != "" {
					continue
				}
				e, err := c10Forward(sv, tf.Type, nil)
				if err != nil {
					return reflect.Value{}, err
				}
				out.Field(i).Set(e)
			}
			return out, nil
		}
	}
	if v.Type().ConvertibleTo(target) && v.Kind() == target.Kind() {
		return v.Convert(target), nil
	}
	return reflect.Value{}, fmt.Errorf("harness: no forward conversion from %s to %s", v.Type(), target)
}

const aliasSuffix = "_alias9wr876rw3"

// c10Locate finds the translated location of an original leaf (allocating pointers on the way).
func c10Locate(tv reflect.Value, lr *gen.LeafRef, ch *c10Chain, useAlias bool) (reflect.Value, error) {
	if ch.flatten {
		name := ""
		for k, f := range lr.Path {
			if f.IsEmbedded() {
				continue
			}
			name += f.Name
			if useAlias && k == len(lr.Path)-1 {
				name += cases(aliasSuffix)
			}
		}
		fv := tv.FieldByName(name)
		if !fv.IsValid() {
			return reflect.Value{}, fmt.Errorf("flattened field %q not found in %s", name, tv.Type())
		}
		return fv, nil
	}
	v := tv
	for k, f := range lr.Path {
		for v.Kind() == reflect.Ptr {
			if v.IsNil() {
				v.Set(reflect.New(v.Type().Elem()))
			}
			v = v.Elem()
		}
		name := f.Name
		if useAlias && k == len(lr.Path)-1 {
			name += aliasSuffix
		}
		fv := v.FieldByName(name)
		if !fv.IsValid() {
			if f.IsEmbedded() && ch.anonFlat {
				continue // hoisted into the parent
			}
			return reflect.Value{}, fmt.Errorf("field %q not found in translated %s", name, v.Type())
		}
		// with anonymous-flatten FieldByName may find a hoisted field of the same name only at this level
		v = fv
	}
	return v, nil
}

// cases: the flatten mangler runs the joined names through its name encoder
// (UpperCamel Title-casing each component); the alias suffix starts with '_' and stays as is.
func cases(s string) string { return s }

func runC10(w *fw.Worker) {
	w.Cases(func(i int, r *fw.Rand) {
		c10Case(w, i, r, false)
		// every third case is followed by an episode of its own (own PRNG stream) whose types also have
		// interface-typed leaves (nil in the defaults, so that pointerification leaves them interfaces)
		if i%3 == 0 {
			c10Case(w, i, fw.NewRand(fw.Mix(w.CaseSeed(i), 0x1face)), true)
		}
	})
}

// c10IfacePool: the default leaf pool plus the interface-typed leaf at a weight of about one leaf in five.
var c10IfacePool = func() []*gen.Leaf {
	out := append([]*gen.Leaf{}, gen.Leaves...)
	ifs := gen.LeavesWith(gen.CapIface, 0)
	for len(out) < len(gen.Leaves)*5/4 {
		out = append(out, ifs...)
	}
	return out
}()

func c10Case(w *fw.Worker, i int, r *fw.Rand, iface bool) {
	{
		ch := c10Chains(r)
		leavesPool := gen.Leaves
		if iface {
			leavesPool = c10IfacePool
			if !ch.flatten && r.Chance(50) {
				ch = c10ChainK(r, r.Intn(3)) // the flatten-based chains of the shipped sources
			}
		}
		o := gen.GenOpts{MaxDepth: w.Pick(3, 4) - r.Intn(2), MaxFields: r.Range(2, 6), SkipPct: r.Range(0, 25), StructPct: r.Range(10, 45), TagPct: r.Range(0, 60), Leaves: leavesPool, InitialismPct: 15, HollowPct: 6,
			TagStyles: []string{"snake", "kebab", "lowerCamel"}}
		spec := gen.RandomSpec(r, o)
		leaves := spec.LeafRefs()
		// alias tags on some leaves when the chain has an alias mangler
		hasAlias := strings.Contains(ch.name, "alias") || ch.name == "env" || ch.name == "flag" || ch.name == "pflag" || strings.HasPrefix(ch.name, "ez-file")
		aliased := map[*gen.LeafRef]bool{}
		if hasAlias {
			for k, lr := range leaves {
				if r.Chance(25) {
					lr.Leaf().Tags["dialsalias"] = fmt.Sprintf("al_%s_%d", gen.LowerSnake(lr.Leaf().Words), k)
					aliased[lr] = true
				}
			}
		}
		if ch.flatten {
			seen := map[string]bool{}
			for _, lr := range leaves {
				n := ""
				for _, f := range lr.Path {
					if !f.IsEmbedded() {
						n += f.Name
					}
				}
				if seen[n] {
					w.Count("skipped_ambiguous_flattened_names", 1)
					return
				}
				seen[n] = true
			}
		}
		c := &gen.Counter{}
		defaults := spec.RandomDefaults(r, c, 30)
		// interface-typed leaves: nil in the defaults (the field stays an interface and layers can write it), except in
		// one case in five, where the defaults hold a value and pointerification replaces the field's type by the
		// concrete one (such a leaf is then not filled)
		ifaceLeaves, devirtualised := 0, false
		if iface {
			devirtualised = r.Chance(20)
			for _, lr := range leaves {
				if lr.Leaf().Leaf.Caps&gen.CapIface == 0 {
					continue
				}
				ifaceLeaves++
				if !devirtualised {
					if fv := leafValue(defaults, lr); fv.IsValid() && fv.CanSet() {
						fv.Set(reflect.Zero(fv.Type()))
					}
				}
			}
		}
		ptrType := ptrify.Pointerify(spec.Type(), defaults)
		tfm := transform.NewTransformer(ptrType, ch.manglers...)
		tt, terr := tfm.TranslateType()
		witness := func(extra map[string]any) any {
			m := map[string]any{"chain": ch.name, "type": spec.Describe()}
			for k, v := range extra {
				m[k] = v
			}
			return m
		}
		if terr != nil {
			w.Violation(i, "translate-type-error:"+ch.name, terr.Error(), witness(nil))
			return
		}
		// 1. all-unset translated value reverses to all-unset original
		emptyT := reflect.New(tt).Elem()
		back, rerr := tfm.ReverseTranslate(emptyT)
		if rerr != nil {
			w.Violation(i, "reverse-error-on-empty-value:"+c10ErrClass(rerr), rerr.Error(), witness(nil))
			return
		}
		if back.Type() != ptrType {
			w.Violation(i, "reverse-type-not-original", fmt.Sprintf("got %s", back.Type()), witness(nil))
			return
		}
		if d := gen.Diff(reflect.Zero(ptrType), back); d != "" {
			w.Violation(i, "empty-translated-value-not-unset:"+c01Classify(spec, d), d, witness(nil))
			return
		}
		w.Count("empty_translated_value_checks", 1)
		if ifaceLeaves > 0 && !devirtualised {
			w.Count("empty_translated_value_checks_with_interface_leaves", 1)
			nested := 0
			for _, lr := range leaves {
				if lr.Leaf().Leaf.Caps&gen.CapIface != 0 && len(lr.Path) > 1 {
					nested++
				}
			}
			if nested > 0 && ch.flatten {
				w.Count("empty_value_checks_flatten_with_nested_interface_leaf", 1)
			}
		}
		// 2. fill a subset by name
		tfm2 := transform.NewTransformer(ptrType, ch.manglers...)
		tt2, _ := tfm2.TranslateType()
		tv := reflect.New(tt2).Elem()
		layer := &gen.Layer{Vals: map[*gen.LeafRef]reflect.Value{}}
		setPct := r.Range(20, 80)
		var filled []string
		var pat strings.Builder
		for _, lr := range leaves {
			lf := lr.Leaf().Leaf
			if !r.Chance(setPct) {
				pat.WriteByte('0')
				continue
			}
			if ch.strCast && (lf.Caps&gen.CapEnv == 0 || lf.Text == nil) {
				pat.WriteByte('-')
				continue
			}
			if lf.Caps&gen.CapIface != 0 && devirtualised {
				pat.WriteByte('-')
				continue
			}
			if ch.textU && lf.Caps&gen.CapTextU != 0 && lf.Type.Kind() != reflect.Struct && lf.Type.Kind() != reflect.Ptr {
				// the text-unmarshaler mangler's handling of slice-kinded unmarshalers is recorded, not judged
				pat.WriteByte('-')
				continue
			}
			useAlias := aliased[lr] && r.Bool()
			// the field's type is looked up on a scratch value first: locating allocates the structs on the way, which
			// must not happen for a leaf that is then left unfilled
			probe, lerr := c10Locate(reflect.New(tt2).Elem(), lr, &ch, useAlias)
			if lerr != nil {
				w.Violation(i, "translated-field-not-found:"+ch.name, lerr.Error(), witness(map[string]any{"leaf": lr.String(), "translated": tt2.String()}))
				return
			}
			// a chain that has no mangler for anything inside this leaf's type must leave the type alone
			if !ch.strCast && !ch.anonFlat && !(ch.textU && c10Contains(lf.Type, c10IsTextU)) && !c10Contains(lf.Type, c10IsDurOrSet) {
				orig, oerr := c10Locate(reflect.New(ptrType).Elem(), lr, &c10Chain{name: "none"}, false)
				if oerr == nil && !c10SameShape(orig.Type(), probe.Type()) {
					w.Violation(i, "leaf-type-changed-by-a-chain-without-a-mangler-for-it:"+lf.Name, fmt.Sprintf("chain %s: %s became %s", ch.name, orig.Type(), probe.Type()), witness(map[string]any{"leaf": lr.String(), "translated": tt2.String()}))
					return
				}
				w.Count("untouched_leaf_types_checked", 1)
			}
			v := gen.GenLeafValue(r, c, lf)
			fwd, ferr := c10Forward(v, probe.Type(), lf)
			if ferr != nil {
				w.Note(fmt.Sprintf("harness forward conversion gap: %v (chain %s leaf %s)", ferr, ch.name, lf.Name))
				w.Count("forward_conversion_gaps", 1)
				pat.WriteByte('-')
				continue
			}
			if ch.strCast && lf.Name == "map[string]string" && fwd.Type() == strPtrTyp && r.Chance(30) {
				// text written by hand: after the complete pairs, a key without any value text (it maps to "")
				text := *(fwd.Interface().(*string))
				if text != "" {
					text += ","
				}
				text += `"zz-bare-key"`
				fwd = reflect.ValueOf(&text)
				m := reflect.MakeMap(v.Type())
				for it := v.MapRange(); it.Next(); {
					m.SetMapIndex(it.Key(), it.Value())
				}
				m.SetMapIndex(reflect.ValueOf("zz-bare-key"), reflect.ValueOf(""))
				v = m
				w.Count("map_texts_ending_in_a_key_without_value", 1)
			}
			loc, _ := c10Locate(tv, lr, &ch, useAlias)
			loc.Set(fwd)
			layer.Vals[lr] = v
			filled = append(filled, fmt.Sprintf("%s(alias=%v)=%s", lr, useAlias, fmtVal(v)))
			if useAlias {
				pat.WriteByte('A')
			} else {
				pat.WriteByte('1')
			}
		}
		got, gerr := tfm2.ReverseTranslate(tv)
		wit := witness(map[string]any{"filled": filled, "translated_type": tt2.String()})
		if gerr != nil {
			w.Violation(i, "reverse-error:"+ch.name+":"+c10ErrClass(gerr), gerr.Error(), wit)
			return
		}
		if got.Type() != ptrType {
			w.Violation(i, "reverse-type-not-original", fmt.Sprintf("got %s", got.Type()), wit)
			return
		}
		want := layer.Materialize(ptrType)
		if d := gen.Diff(want, got); d != "" {
			w.Violation(i, "reverse-differs:"+ch.name+":"+c01Classify(spec, d), "expected vs reversed at "+d, wit)
			return
		}
		w.Count("leaves_filled_and_compared", int64(len(layer.Vals)))
		if ch.typeChang {
			w.Count("chains_with_type_changing_mangler", 1)
		}
		w.SetAdd("chains", strings.SplitN(ch.name, ":", 2)[0])
		for lr := range layer.Vals {
			w.SetAdd("leaf_kinds_filled", lr.Leaf().Leaf.Name)
		}
		if len(layer.Vals) > 0 && len(layer.Vals) < len(leaves) {
			w.Distinct(ch.name + spec.Signature() + "#" + pat.String())
		}
		if i%257 == 0 && !iface {
			w.Sample(wit)
		}
	}
}

func c10ErrClass(err error) string {
	s := err.Error()
	switch {
	case strings.Contains(s, "incompatible types"):
		return "incompatible-types"
	case strings.Contains(s, "both alias and original"):
		return "both-alias"
	case strings.Contains(s, "Number of input values"):
		return "flatten-count"
	case strings.Contains(s, "cannot be translated"):
		return "cannot-translate"
	}
	if len(s) > 40 {
		s = s[:40]
	}
	return s
}

// c10Contains reports whether t, or anything reachable from it through pointers, slices, arrays, maps and struct
// fields, satisfies pred.
func c10Contains(t reflect.Type, pred func(reflect.Type) bool) bool {
	seen := map[reflect.Type]bool{}
	var walk func(t reflect.Type) bool
	walk = func(t reflect.Type) bool {
		if seen[t] {
			return false
		}
		seen[t] = true
		if pred(t) {
			return true
		}
		switch t.Kind() {
		case reflect.Ptr, reflect.Slice, reflect.Array:
			return walk(t.Elem())
		case reflect.Map:
			return walk(t.Key()) || walk(t.Elem())
		case reflect.Struct:
			for k := 0; k < t.NumField(); k++ {
				if walk(t.Field(k).Type) {
					return true
				}
			}
		}
		return false
	}
	return walk(t)
}

var c10TextUType = reflect.TypeOf((*encoding.TextUnmarshaler)(nil)).Elem()

func c10IsTextU(t reflect.Type) bool {
	return t.Implements(c10TextUType) || reflect.PtrTo(t).Implements(c10TextUType)
}

func c10IsDurOrSet(t reflect.Type) bool {
	return t == reflect.TypeOf(time.Duration(0)) || (t.Kind() == reflect.Map && t.Elem() == reflect.TypeOf(struct{}{}))
}

// c10SameShape: identical up to struct names and tags (the transformer rebuilds element structs as anonymous structs).
func c10SameShape(a, b reflect.Type) bool {
	if a == b {
		return true
	}
	if a.Kind() != b.Kind() {
		return false
	}
	switch a.Kind() {
	case reflect.Ptr, reflect.Slice:
		return c10SameShape(a.Elem(), b.Elem())
	case reflect.Array:
		return a.Len() == b.Len() && c10SameShape(a.Elem(), b.Elem())
	case reflect.Map:
		return c10SameShape(a.Key(), b.Key()) && c10SameShape(a.Elem(), b.Elem())
	case reflect.Struct:
		exported := func(t reflect.Type) []reflect.StructField {
			var out []reflect.StructField
			for k := 0; k < t.NumField(); k++ {
				if f := t.Field(k); f.IsExported() {
					out = append(out, f)
				}
			}
			return out
		}
		ea, eb := exported(a), exported(b) // unexported fields are not carried into translated element structs
		if len(ea) != len(eb) {
			return false
		}
		for k := range ea {
			if ea[k].Name != eb[k].Name || ea[k].Anonymous != eb[k].Anonymous || !c10SameShape(ea[k].Type, eb[k].Type) {
				return false
			}
		}
		return true
	}
	return false
}
