package checks

import (
	"context"
	"fmt"
	"reflect"
	"strings"
	"sync"
	"sync/atomic"
	"time"

	"github.com/vimeo/dials"

	"verifharness/conc"
	"verifharness/fw"
)

func init() {
	fw.Register(&fw.Check{
		ID:   "C06",
		Race: true,
		Rule: "Callback trace specification checked online against real Dials instances. Scripted part (every run, shard 0..): all 6 interleavings of {client: ViewVersion, RegisterCallback queued} x {monitor: version stored, new-config event queued}, forced with gates at the dials hook points mon.recv / mon.beforeAnnounce and fenced on observed hook events, " +
			"for 4 token kinds (fresh, one-behind, many-behind, zero value) x {callback goroutine idle, parked inside a slow OnNewConfig} = 48 schedules, plus 8 unregister-vs-announce schedules 6 unregister-vs-shutdown schedules (unregister queued behind a backlog while every source calls Done) and 2 queue-overflow schedules (64 events queued behind a parked callback, then source errors and rejected updates: nothing may run concurrently with the parked callback), and 24 schedules on a Dials without global callbacks (nil OnNewConfig/OnWatchedError) in which 1-3 versions are installed while no callback is registered at all (optionally after an earlier callback came and went) and a callback then registers with a token from before / the middle of / after those installs or the zero token: these are single-threaded and fenced, so the demanded calls (catch-up, ordinary calls with the predecessor as old, silence after unregister) are known from the client's side alone and compared with the actual ones before the trace specification is consulted. Stress part (one history in six without global callbacks): 2-6 clients doing report/ViewVersion/register/reports/unregister(/unregister again) against 1-3 reporters with seeded yields at the hook points. " +
			"Oracle: from the exact order in which the callback goroutine dequeued events (cb.dequeue hook) and the install log (mon.stored hook) a restatement of the property predicts the invocation sequence (global callback, then live handles with token<serial in registration order with old=predecessor; catch-up exactly when genuine token < last announced at registration processing); predicted and actual sequences must be equal. " +
			"Independently: never two callbacks in flight, no invocation after unregister returned true, per-handle serials strictly increasing and above the token, dequeued new-config serials equal the install log when the 64-slot queue did not overflow. distinct_nontrivial = distinct (dequeue-order shape, catch-ups due, skips due) signatures with >=1 registration.",
		Assumptions: []string{
			"cb.dequeue is the first statement of the callback loop body, so its order is the processing order",
			"histories whose install count differs from the dequeued new-config count (queue overflow) are judged only on the clauses that do not assume callbacks keep up; they are counted",
		},
		MinDistinct: map[string]int{"quick": 1200, "thorough": 150000},
		MinCounters: map[string]map[string]int64{
			"quick":    {"scripted_schedules_run": 64, "callback_invocations_compared": 3000, "catchups_due": 60, "skips_due": 40, "quiet_period_scripts_run": 24, "quiet_period_catchups_due": 8, "stress_histories_without_global_callbacks": 100},
			"thorough": {"scripted_schedules_run": 64, "callback_invocations_compared": 5000000, "quiet_period_scripts_run": 24, "quiet_period_catchups_due": 8, "stress_histories_without_global_callbacks": 10000},
		},
		Plan: func(tier string) fw.Plan {
			if tier == "thorough" {
				return fw.Plan{Shards: 16, CasesPerShard: 20000, TimeoutSec: 3000}
			}
			return fw.Plan{Shards: 8, CasesPerShard: 250, TimeoutSec: 900}
		},
		Run: runC06,
	})
}

var c06Orders = []string{"VRSA", "VSRA", "VSAR", "SVRA", "SVAR", "SAVR"}
var c06TokenKinds = []string{"fresh", "one-behind", "many-behind", "zero"}

const c06Watchdog = 20 * time.Second

type c06Scn struct {
	w     *fw.Worker
	i     int
	e     *conc.Env
	tr    *conc.CBTrace
	gates *conc.Gates
	// per registration id
	mu           sync.Mutex
	tokenCfg     map[int]*conc.Cfg
	tokenSerial  map[int]uint64
	unregistered map[int]*atomic.Bool
	afterUnreg   string
	initial      *conc.Cfg
}

func c06New(w *fw.Worker, i int, r *fw.Rand, nsrc int, slow int) (*c06Scn, error) {
	return c06NewOpts(w, i, r, conc.Opts{NSrc: nsrc, SlowCB: slow})
}

func c06NewOpts(w *fw.Worker, i int, r *fw.Rand, o conc.Opts) (*c06Scn, error) {
	s := &c06Scn{w: w, i: i, tr: conc.NewCBTrace(), gates: conc.NewGates(), tokenCfg: map[int]*conc.Cfg{}, tokenSerial: map[int]uint64{}, unregistered: map[int]*atomic.Bool{}}
	e, err := conc.Start(context.Background(), r.U64(), o, func(e *conc.Env, k int) *conc.Layer { return nil })
	if err != nil {
		return nil, err
	}
	s.e = e
	e.ExtraHook = func(name string, ctx context.Context, args []any) {
		s.tr.OnHook(e.S, name, ctx, args)
		s.gates.OnHook(name, args)
	}
	return s, nil
}

func (s *c06Scn) validLayer(r *fw.Rand) *conc.Layer {
	l := s.e.NewLayer()
	l.Set[r.Intn(4)] = true
	l.Set[2] = true
	return l
}

// register registers callback id with the given token.
func (s *c06Scn) register(id int, cfg *conc.Cfg, tok dials.CfgSerial[conc.Cfg]) dials.UnregisterCBFunc {
	flag := &atomic.Bool{}
	if reflect.ValueOf(tok).FieldByName("cfg").IsNil() {
		cfg = nil // the zero token: no config came with it, whatever the script still holds in its variable
	}
	s.mu.Lock()
	s.tokenCfg[id] = cfg
	s.tokenSerial[id] = conc.SerialOf(tok)
	s.unregistered[id] = flag
	s.mu.Unlock()
	ctx := context.WithValue(s.e.S.Ctx, conc.RegKey, id)
	return s.e.D.RegisterCallback(ctx, tok, s.e.RegisteredCB(id, func(old, nw *conc.Cfg) {
		if flag.Load() {
			s.mu.Lock()
			if s.afterUnreg == "" {
				s.afterUnreg = fmt.Sprintf("callback %d invoked with new=%+v after its unregister function returned true", id, conc.FPOf(nw))
			}
			s.mu.Unlock()
		}
	}))
}

func (s *c06Scn) unregister(id int, unreg dials.UnregisterCBFunc) bool {
	ok := unreg(s.e.S.Ctx)
	if ok {
		s.mu.Lock()
		f := s.unregistered[id]
		s.mu.Unlock()
		f.Store(true)
	}
	return ok
}

// judge runs the trace specification and the independent monitors.
func (s *c06Scn) judge(desc any) (sig string) {
	w, i, e := s.w, s.i, s.e
	dq := s.tr.Dequeued()
	ins := e.Installs()
	cfgBySerial := map[uint64]*conc.Cfg{}
	serialOf := map[*conc.Cfg]uint64{}
	// version 0: the config every first install has as predecessor
	for _, in := range ins {
		cfgBySerial[in.Serial] = in.Cfg
		serialOf[in.Cfg] = in.Serial
	}
	cfgBySerial[0] = s.initial
	serialOf[s.initial] = 0
	nNew := 0
	var newSerials []uint64
	var shape strings.Builder
	for _, d := range dq {
		switch d.Kind {
		case "new":
			nNew++
			newSerials = append(newSerials, d.Serial)
			shape.WriteString("n")
		case "err":
			shape.WriteString("e")
		case "register":
			if d.ID >= 0 {
				shape.WriteString("R")
			}
		case "unregister":
			if d.ID >= 0 {
				shape.WriteString("U")
			}
		}
	}
	overflow := nNew != len(ins)
	if overflow && len(dq)+len(ins)-nNew < 60 {
		// fewer than 64 events were ever submitted in this history, so the 64-slot queue cannot have been full:
		// nothing may have been dropped
		w.Violation(i, "installed-version-never-announced", fmt.Sprintf("%d versions installed, %d new-config events dequeued, %d events in total: the callback queue (64 slots) never overflowed", len(ins), nNew, len(dq)), desc)
		return ""
	}
	if overflow {
		w.Count("histories_with_queue_overflow", 1)
	} else {
		for k, sr := range newSerials {
			if sr != uint64(k+1) {
				w.Violation(i, "announced-serials-not-install-order", fmt.Sprintf("dequeued new-config serials %v, installs 1..%d", newSerials, len(ins)), desc)
				return ""
			}
		}
	}
	if e.Overlap.Load() {
		w.Violation(i, "callbacks-overlapped", "two callbacks were in flight at the same time", desc)
	}
	s.mu.Lock()
	au := s.afterUnreg
	s.mu.Unlock()
	if au != "" {
		w.Violation(i, "callback-after-unregister-returned-true", au, desc)
	}
	log := e.CBLog()
	actual := conc.Actual(log)
	// per-handle monotonicity and staleness (independent of the prediction)
	lastPer := map[int]uint64{}
	for _, c := range actual {
		if c.Kind != "reg" {
			continue
		}
		sr, ok := serialOf[c.New]
		if !ok {
			w.Violation(i, "callback-got-unknown-config", fmt.Sprintf("%s: new config was never installed", c), desc)
			continue
		}
		s.mu.Lock()
		tok := s.tokenSerial[c.Handle]
		s.mu.Unlock()
		if sr <= tok {
			w.Violation(i, "stale-delivery:not-newer-than-token", fmt.Sprintf("handle %d registered with serial %d received serial %d", c.Handle, tok, sr), desc)
		}
		if prev, seen := lastPer[c.Handle]; seen && sr <= prev {
			w.Violation(i, "stale-delivery:not-newer-than-previous", fmt.Sprintf("handle %d received serial %d after %d", c.Handle, sr, prev), desc)
		}
		lastPer[c.Handle] = sr
	}
	if overflow {
		return ""
	}
	// with delayed verification and the suppress option, the global OnNewConfig is withheld for the events flagged so
	// (C09 judges the flag); registered callbacks and the catch-up baseline are not affected by it
	globals := !e.Opts.NoGlobalCBs // Params.OnNewConfig / OnWatchedError are nil in some scenarios: then only registered callbacks run
	want, bad := conc.Predict(dq, s.tr, cfgBySerial, s.tokenCfg, globals, globals, func(d conc.DQ) bool { return d.Suppressed })
	if bad != "" {
		key := "announce-order"
		if strings.Contains(bad, "token whose config") {
			key = "registration-token-changed-between-client-and-callback-goroutine"
		}
		w.Violation(i, key, bad, desc)
		return ""
	}
	catch, skips := 0, 0
	for _, c := range want {
		if c.Tag == "catchup" {
			catch++
		}
	}
	// skips due: (live handle, new-config) pairs suppressed by token >= serial
	{
		type lv struct {
			id  int
			tok uint64
		}
		var lives []lv
		for _, d := range dq {
			switch d.Kind {
			case "register":
				if id := d.ID; id >= 0 {
					lives = append(lives, lv{id, d.Serial})
				}
			case "unregister":
				id := d.ID
				for k := range lives {
					if lives[k].id == id {
						lives = append(lives[:k:k], lives[k+1:]...)
						break
					}
				}
			case "new":
				for _, l := range lives {
					if l.tok >= d.Serial {
						skips++
					}
				}
			}
		}
	}
	w.Count("catchups_due", int64(catch))
	w.Count("skips_due", int64(skips))
	w.Count("callback_invocations_compared", int64(len(actual)))
	w.Count("dequeue_events_observed", int64(len(dq)))
	if key, diff := conc.DiffCalls(want, actual); key != "" {
		ws := make([]string, 0, len(want))
		for _, c := range want {
			ws = append(ws, c.String()+"["+c.Tag+"]")
		}
		as := make([]string, 0, len(actual))
		for _, c := range actual {
			as = append(as, c.String())
		}
		w.Violation(i, key, diff, map[string]any{"case": desc, "dequeue_shape": shape.String(), "predicted": ws, "actual": as})
		return ""
	}
	return fmt.Sprintf("%s|c%d|s%d", shape.String(), catch, skips)
}

// settle quiesces and then waits until every sentinel's error callback ran,
// so that the dequeue trace and the callback log are both complete.
func (s *c06Scn) settle() bool {
	e := s.e
	if !e.Quiesce(e.S.Ctx) {
		return false
	}
	if e.Opts.NoGlobalCBs {
		// no error callback exists that could show the sentinel's event was processed, and none is needed: the sentinel
		// was received by the monitor after it finished (announced) every earlier install, and the register/unregister
		// round trip went through the same FIFO queue after those announcements. A sentinel's own error event that is
		// still queued invokes nothing.
		return true
	}
	return conc.WaitUntil(func() bool { return e.SentinelCallbacks() >= e.SentinelsSent() }, c06Watchdog)
}

func (s *c06Scn) wd(ok bool, what string) bool {
	if !ok {
		s.w.Inconclusive(s.i, "watchdog: "+what)
		s.gates.ReleaseAll()
	}
	return ok
}

func isValueUpdate(args []any) bool {
	if len(args) < 2 {
		return false
	}
	if _, isStr := args[1].(string); isStr {
		return false
	}
	return strings.Contains(reflect.TypeOf(args[1]).String(), "valueUpdate")
}

func c06Scripted(w *fw.Worker, i int, r *fw.Rand, order string, tokenKind string, parked bool) {
	s, err := c06New(w, i, r, 2, 0)
	if err != nil {
		w.Violation(i, "config-failed", err.Error(), nil)
		return
	}
	e := s.e
	defer e.Stop()
	defer s.gates.ReleaseAll()
	ctx := e.S.Ctx
	s.initial = e.D.View()
	desc := map[string]any{"script": order, "token": tokenKind, "callback_parked": parked}

	// prior installs and stale tokens
	var tokCfg *conc.Cfg
	var tok dials.CfgSerial[conc.Cfg]
	for k := r.Intn(3); k > 0; k-- {
		e.Report(ctx, 0, 1, s.validLayer(r), true)
	}
	switch tokenKind {
	case "one-behind":
		tokCfg, tok = e.D.ViewVersion()
		e.Report(ctx, 0, 1, s.validLayer(r), true)
	case "many-behind":
		tokCfg, tok = e.D.ViewVersion()
		for k := 0; k < 3; k++ {
			e.Report(ctx, 0, r.Intn(2), s.validLayer(r), true)
		}
	}
	if !s.wd(e.Quiesce(ctx), "fence before script") {
		return
	}
	if parked {
		e.SetCBGate(make(chan struct{}))
		// one install whose OnNewConfig parks the callback goroutine
		e.Report(ctx, 0, 0, s.validLayer(r), true)
		if !s.wd(conc.WaitUntil(func() bool { return e.InCB() > 0 }, c06Watchdog), "callback goroutine never parked") {
			close(e.CBGate)
			return
		}
		if tokenKind == "one-behind" || tokenKind == "many-behind" {
			// keep the token's distance as named
		}
	}
	// the racing install
	g0 := s.gates.Arm("mon.recv", isValueUpdate, false)
	g1 := s.gates.Arm("mon.beforeAnnounce", nil, false)
	stored := s.gates.Arm("mon.stored", nil, true)
	go e.Report(ctx, 1, 1, s.validLayer(r), false)
	if !s.wd(g0.Wait(c06Watchdog), "monitor never received the racing update") {
		return
	}
	var unreg dials.UnregisterCBFunc
	for _, step := range order {
		switch step {
		case 'V':
			if tokenKind == "fresh" {
				tokCfg, tok = e.D.ViewVersion()
			}
		case 'R':
			unreg = s.register(1, tokCfg, tok)
			if unreg == nil {
				w.Violation(i, "register-returned-nil", "RegisterCallback returned nil with a live context", desc)
				return
			}
		case 'S':
			g0.Release()
			if !s.wd(stored.Wait(c06Watchdog), "version store not observed") {
				return
			}
			if !s.wd(g1.Wait(c06Watchdog), "monitor did not reach the announce point") {
				return
			}
		case 'A':
			sentinel := s.gates.Arm("mon.recv", nil, true)
			g1.Release()
			go e.SendSentinel(ctx)
			if !s.wd(sentinel.Wait(c06Watchdog), "sentinel after announce not received") {
				return
			}
		}
	}
	if parked {
		close(e.CBGate)
	}
	// ordinary deliveries afterwards, then unregister, then one more install
	for k := r.Range(1, 2); k > 0; k-- {
		e.Report(ctx, 0, r.Intn(2), s.validLayer(r), true)
	}
	if !s.wd(e.Quiesce(ctx), "fence after script") {
		return
	}
	if !s.unregister(1, unreg) {
		w.Violation(i, "unregister-returned-false", "unregister returned false with a live context and a running Dials", desc)
		return
	}
	e.Report(ctx, 0, 0, s.validLayer(r), true)
	if r.Bool() {
		// second unregister must be harmless
		unreg(ctx)
	}
	if !s.wd(s.settle(), "final fence") {
		return
	}
	if sig := s.judge(desc); sig != "" {
		w.Distinct("script|" + order + "|" + tokenKind + fmt.Sprint(parked) + "|" + sig)
		w.SetAdd("scripted_dequeue_shapes", order+"/"+tokenKind+"/"+fmt.Sprint(parked)+" -> "+sig)
	}
	w.Count("scripted_schedules_run", 1)
}

// c06UnregScript: unregister racing an announce, both orders, idle/parked, fresh/zero token.
func c06UnregScript(w *fw.Worker, i int, r *fw.Rand, unregFirst bool, parked bool, zeroTok bool) {
	s, err := c06New(w, i, r, 2, 0)
	if err != nil {
		w.Violation(i, "config-failed", err.Error(), nil)
		return
	}
	e := s.e
	defer e.Stop()
	defer s.gates.ReleaseAll()
	ctx := e.S.Ctx
	s.initial = e.D.View()
	desc := map[string]any{"script": "unregister-vs-announce", "unregister_first": unregFirst, "callback_parked": parked, "zero_token": zeroTok}
	e.Report(ctx, 0, 1, s.validLayer(r), true)
	cfg, tok := e.D.ViewVersion()
	if zeroTok {
		cfg, tok = nil, dials.CfgSerial[conc.Cfg]{}
	}
	unreg := s.register(1, cfg, tok)
	if unreg == nil {
		w.Violation(i, "register-returned-nil", "RegisterCallback returned nil with a live context", desc)
		return
	}
	e.Report(ctx, 0, 0, s.validLayer(r), true)
	if !s.wd(e.Quiesce(ctx), "fence") {
		return
	}
	if parked {
		e.SetCBGate(make(chan struct{}))
		e.Report(ctx, 0, 0, s.validLayer(r), true)
		if !s.wd(conc.WaitUntil(func() bool { return e.InCB() > 0 }, c06Watchdog), "callback goroutine never parked") {
			close(e.CBGate)
			return
		}
	}
	g1 := s.gates.Arm("mon.beforeAnnounce", nil, false)
	go e.Report(ctx, 1, 1, s.validLayer(r), false)
	if !s.wd(g1.Wait(c06Watchdog), "announce point not reached") {
		return
	}
	unregDone := make(chan bool, 1)
	startUnreg := func() {
		sub := s.gates.Arm("api.submit", nil, true)
		go func() { unregDone <- s.unregister(1, unreg) }()
		sub.Wait(c06Watchdog)
		// the unregister event is queued right after api.submit; give the
		// send a moment (it cannot block: the queue is nearly empty)
		time.Sleep(2 * time.Millisecond)
	}
	announce := func() bool {
		sentinel := s.gates.Arm("mon.recv", nil, true)
		g1.Release()
		go e.SendSentinel(ctx)
		return s.wd(sentinel.Wait(c06Watchdog), "sentinel not received")
	}
	if unregFirst {
		startUnreg()
		if !announce() {
			return
		}
	} else {
		if !announce() {
			return
		}
		startUnreg()
	}
	if parked {
		close(e.CBGate)
	}
	select {
	case ok := <-unregDone:
		if !ok {
			w.Violation(i, "unregister-returned-false", "unregister returned false with a live context and a running Dials", desc)
			return
		}
	case <-time.After(c06Watchdog):
		w.Inconclusive(i, "watchdog: unregister did not return")
		return
	}
	e.Report(ctx, 0, 0, s.validLayer(r), true)
	if !s.wd(s.settle(), "final fence") {
		return
	}
	if sig := s.judge(desc); sig != "" {
		w.Distinct(fmt.Sprintf("unregscript|%v%v%v|%s", unregFirst, parked, zeroTok, sig))
	}
	w.Count("scripted_schedules_run", 1)
}

// c06ShutdownScript: an unregister queued behind a backlog of new-config
// events while the monitor shuts down (every source calls Done). The
// callback goroutine drains the backlog after the monitor is gone, so an
// unregister function that returns true early is followed by invocations.
func c06ShutdownScript(w *fw.Worker, i int, r *fw.Rand, zeroTok bool, backlog int) {
	s, err := c06New(w, i, r, 2, 0)
	if err != nil {
		w.Violation(i, "config-failed", err.Error(), nil)
		return
	}
	e := s.e
	defer e.Stop()
	defer s.gates.ReleaseAll()
	ctx := e.S.Ctx
	s.initial = e.D.View()
	desc := map[string]any{"script": "unregister-vs-shutdown", "zero_token": zeroTok, "backlog": backlog}
	cfg, tok := e.D.ViewVersion()
	if zeroTok {
		cfg, tok = nil, dials.CfgSerial[conc.Cfg]{}
	}
	unreg := s.register(1, cfg, tok)
	if unreg == nil {
		w.Violation(i, "register-returned-nil", "RegisterCallback returned nil with a live context", desc)
		return
	}
	e.Report(ctx, 0, 0, s.validLayer(r), true)
	if !s.wd(s.settle(), "fence") {
		return
	}
	e.SetCBGate(make(chan struct{}))
	e.Report(ctx, 0, 0, s.validLayer(r), true)
	if !s.wd(conc.WaitUntil(func() bool { return e.InCB() > 0 }, c06Watchdog), "callback goroutine never parked") {
		close(e.CBGate)
		return
	}
	for k := 0; k < backlog; k++ {
		e.Report(ctx, 0, k%2, s.validLayer(r), true)
	}
	// make sure the last install has been announced before the unregister is queued
	e.SendSentinel(ctx)
	sub := s.gates.Arm("api.submit", nil, true)
	unregDone := make(chan bool, 1)
	go func() { unregDone <- s.unregister(1, unreg) }()
	if !s.wd(sub.Wait(c06Watchdog), "unregister never submitted") {
		close(e.CBGate)
		return
	}
	time.Sleep(2 * time.Millisecond)
	for _, src := range e.Srcs {
		src.WA().Done(ctx)
	}
	select {
	case <-dials.VerifMonitorDone(e.D):
	case <-time.After(c06Watchdog):
		w.Inconclusive(i, "watchdog: monitor did not exit after every source called Done")
		close(e.CBGate)
		return
	}
	// give an early-returning unregister the time to return (detection
	// strength only; the verdict is the flag check at callback entry)
	early := false
	select {
	case ok := <-unregDone:
		early = true
		unregDone <- ok
	case <-time.After(30 * time.Millisecond):
	}
	close(e.CBGate)
	select {
	case <-unregDone:
	case <-time.After(c06Watchdog):
		w.Inconclusive(i, "watchdog: unregister did not return")
		return
	}
	if !s.wd(conc.WaitUntil(func() bool { return s.tr.Exited() }, c06Watchdog), "callback goroutine did not exit") {
		return
	}
	if early {
		w.Count("unregister_returned_before_backlog_drained", 1)
	}
	if sig := s.judge(desc); sig != "" {
		w.Distinct(fmt.Sprintf("shutdownscript|%v%d|%s", zeroTok, backlog, sig))
	}
	w.Count("scripted_schedules_run", 1)
}

// c06RegisterShutdownScript: a registration with a stale token is queued behind a backlog while a callback is parked;
// every source then calls Done and the monitor exits before the registration is dequeued. RegisterCallback accepted
// it, newer versions had been announced: the catch-up call is still owed when the callback goroutine drains the queue.
func c06RegisterShutdownScript(w *fw.Worker, i int, r *fw.Rand, backlog int) {
	s, err := c06New(w, i, r, 2, 0)
	if err != nil {
		w.Violation(i, "config-failed", err.Error(), nil)
		return
	}
	e := s.e
	defer e.Stop()
	defer s.gates.ReleaseAll()
	ctx := e.S.Ctx
	s.initial = e.D.View()
	desc := map[string]any{"script": "stale-registration-vs-shutdown", "backlog": backlog}
	e.Report(ctx, 0, 0, s.validLayer(r), true)
	if !s.wd(s.settle(), "fence") {
		return
	}
	cfg, tok := e.D.ViewVersion() // goes stale below
	e.SetCBGate(make(chan struct{}))
	e.Report(ctx, 0, 0, s.validLayer(r), true)
	if !s.wd(conc.WaitUntil(func() bool { return e.InCB() > 0 }, c06Watchdog), "callback goroutine never parked") {
		close(e.CBGate)
		return
	}
	for k := 0; k < backlog; k++ {
		e.Report(ctx, 0, k%2, s.validLayer(r), true)
	}
	e.SendSentinel(ctx) // the last install has been announced (queued) before the registration is queued
	unreg := s.register(2, cfg, tok)
	if unreg == nil {
		w.Violation(i, "register-returned-nil", "RegisterCallback returned nil with a live context and a running monitor", desc)
		close(e.CBGate)
		return
	}
	for _, src := range e.Srcs {
		src.WA().Done(ctx)
	}
	select {
	case <-dials.VerifMonitorDone(e.D):
	case <-time.After(c06Watchdog):
		w.Inconclusive(i, "watchdog: monitor did not exit after every source called Done")
		close(e.CBGate)
		return
	}
	close(e.CBGate)
	if !s.wd(conc.WaitUntil(func() bool { return s.tr.Exited() }, c06Watchdog), "callback goroutine did not exit") {
		return
	}
	// the registration was accepted and queued long before the shutdown: the callback goroutine must have processed it
	processed := false
	for _, d := range s.tr.Dequeued() {
		if d.Kind == "register" && d.ID == 2 {
			processed = true
		}
	}
	if !processed {
		w.Violation(i, "accepted-registration-never-processed", "RegisterCallback returned an unregister function while the monitor was running, the callback goroutine has exited, and the registration (stale token: a catch-up call was owed) was never dequeued", desc)
		return
	}
	if sig := s.judge(desc); sig != "" {
		w.Distinct(fmt.Sprintf("regshutdownscript|%d|%s", backlog, sig))
	}
	w.Count("scripted_schedules_run", 1)
	w.Count("stale_registrations_queued_before_shutdown", 1)
}

// c06OverflowScript: the 64-slot queue is full behind a parked callback and
// then error events arrive (source errors, rejected updates). The documented
// behaviour is to drop them; whatever is done instead, callbacks must still
// run one at a time on the callback goroutine and in queue order.
func c06OverflowScript(w *fw.Worker, i int, r *fw.Rand) {
	s, err := c06New(w, i, r, 2, 0)
	if err != nil {
		w.Violation(i, "config-failed", err.Error(), nil)
		return
	}
	e := s.e
	defer e.Stop()
	ctx := e.S.Ctx
	s.initial = e.D.View()
	desc := map[string]any{"script": "queue-overflow-then-errors"}
	unreg := s.register(1, nil, dials.CfgSerial[conc.Cfg]{})
	e.SetCBGate(make(chan struct{}))
	e.Report(ctx, 0, 0, s.validLayer(r), true)
	if !s.wd(conc.WaitUntil(func() bool { return e.InCB() > 0 }, c06Watchdog), "callback goroutine never parked") {
		close(e.CBGate)
		return
	}
	for k := 0; k < 70; k++ {
		e.Report(ctx, 0, k%2, s.validLayer(r), true)
	}
	before := len(e.CBLog())
	for k := 0; k < 3; k++ {
		e.Srcs[k%2].WA().ReportError(ctx, errSrcReported)
		bad := e.RandLayer(r, 100, 0)
		e.Report(ctx, 0, k%2, bad, true)
	}
	// monitor fence (this sentinel's event is dropped as well: the queue is full)
	e.Srcs[0].WA().ReportError(ctx, errSrcReported)
	e.Srcs[0].WA().ReportError(ctx, errSrcReported)
	ranWhileParked := len(e.CBLog()) - before
	overlap := e.Overlap.Load()
	close(e.CBGate)
	if unreg != nil {
		s.unregister(1, unreg)
	}
	if !s.wd(e.Quiesce(ctx), "final fence") {
		return
	}
	if ranWhileParked > 0 || overlap {
		w.Violation(i, "callback-ran-while-another-was-in-flight", fmt.Sprintf("%d callback(s) completed while OnNewConfig was still parked on the callback goroutine (overlap flag: %v)", ranWhileParked, overlap), desc)
		return
	}
	s.judge(desc)
	w.Count("scripted_schedules_run", 1)
	w.Count("overflow_scripts_run", 1)
	w.Distinct("overflowscript")
}

// c06QuietScript: a Dials WITHOUT global callbacks (Params.OnNewConfig and OnWatchedError nil, as plain dials.Config
// gives) on which versions are installed while no callback is registered at all (optionally after an earlier callback
// came and went); then a callback registers with a token taken before / in the middle of / after those installs, or
// with the zero token. The script is single-threaded and fenced on the monitor (a sentinel is only received once the
// monitor finished, and hence announced, every earlier install) and on the callback queue (a register/unregister round
// trip through the same FIFO), so what the property demands is known from the CLIENT's side alone, without looking at
// what the callback goroutine dequeued: a genuine token older than the version current at registration => one
// immediate catch-up call (token's config, current config); every later install => one ordinary call with the
// immediate predecessor as old; nothing after unregister returned true. The trace specification is run as well.
func c06QuietScript(w *fw.Worker, i int, r *fw.Rand, k int) {
	prior := k&1 == 1
	tokenKind := []string{"before-quiet-installs", "mid-quiet-installs", "fresh", "zero"}[(k>>1)%4]
	nQuiet := 1 + (k>>3)%3
	s, err := c06NewOpts(w, i, r, conc.Opts{NSrc: 2, NoGlobalCBs: true})
	if err != nil {
		w.Violation(i, "config-failed", err.Error(), nil)
		return
	}
	e := s.e
	defer e.Stop()
	defer s.gates.ReleaseAll()
	ctx := e.S.Ctx
	s.initial = e.D.View()
	desc := map[string]any{"script": "installs-while-no-callback-is-registered", "global_callbacks": false, "token": tokenKind, "quiet_installs": nQuiet, "earlier_callback_came_and_went": prior}
	install := func() bool {
		res, _ := e.Report(ctx, 0, r.Intn(2), s.validLayer(r), true)
		if res != conc.ResNil {
			w.Violation(i, "valid-report-rejected", fmt.Sprintf("blocking report of a valid layer returned res=%d", res), desc)
			return false
		}
		return true
	}
	callsOf := func(id int) []conc.Call {
		var out []conc.Call
		for _, c := range conc.Actual(e.CBLog()) {
			if c.Kind == "reg" && c.Handle == id {
				out = append(out, c)
			}
		}
		return out
	}
	// fence: monitor finished every earlier install's loop iteration, callback goroutine processed everything queued so far
	fence := func(what string) bool { return s.wd(e.Quiesce(ctx), what) }
	compare := func(stage string, want []conc.Call) bool {
		got := callsOf(1)
		if key, diff := conc.DiffCalls(want, got); key != "" {
			ws := make([]string, 0, len(want))
			for _, c := range want {
				ws = append(ws, c.String()+"["+c.Tag+"]")
			}
			gs := make([]string, 0, len(got))
			for _, c := range got {
				gs = append(gs, c.String())
			}
			w.Violation(i, "no-global-callbacks:"+key, stage+": "+diff, map[string]any{"case": desc, "demanded_from_the_client_side": ws, "actual": gs})
			return false
		}
		return true
	}
	for n := r.Intn(2); n > 0; n-- {
		if !install() {
			return
		}
	}
	if prior {
		// a callback that registers, sees one install and leaves again: nobody is registered afterwards
		cfg9, tok9 := e.D.ViewVersion()
		un9 := s.register(9, cfg9, tok9)
		if un9 == nil {
			w.Violation(i, "register-returned-nil", "RegisterCallback returned nil with a live context", desc)
			return
		}
		if !install() {
			return
		}
		// the announce step follows the reply to the blocking report: without this fence the unregistration could be
		// queued ahead of the new-config event and the callback would rightly see nothing
		if !s.wd(e.FenceMonitor(ctx), "monitor fence before the earlier callback leaves") {
			return
		}
		if !s.unregister(9, un9) {
			w.Violation(i, "unregister-returned-false", "unregister returned false with a live context and a running Dials", desc)
			return
		}
		if got := callsOf(9); len(got) != 1 || got[0].Old != cfg9 || got[0].New != e.D.View() {
			w.Violation(i, "no-global-callbacks:earlier-callback-calls-wrong", fmt.Sprintf("registered fresh, one install, unregistered (returned true): %d calls %v", len(got), got), desc)
			return
		}
	}
	if !s.wd(e.FenceMonitor(ctx), "monitor fence before the quiet installs") {
		return
	}
	tokCfg, tok := e.D.ViewVersion() // "before-quiet-installs"
	for n := 0; n < nQuiet; n++ {
		if !install() {
			return
		}
		if n == 0 && tokenKind == "mid-quiet-installs" {
			tokCfg, tok = e.D.ViewVersion()
		}
	}
	// the monitor is back at the top of its loop: every quiet install has been through the announce step
	if !s.wd(e.FenceMonitor(ctx), "monitor fence after the quiet installs") {
		return
	}
	curCfg, curTok := e.D.ViewVersion()
	switch tokenKind {
	case "fresh":
		tokCfg, tok = curCfg, curTok
	case "zero":
		tokCfg, tok = nil, dials.CfgSerial[conc.Cfg]{}
	}
	unreg := s.register(1, tokCfg, tok)
	if unreg == nil {
		w.Violation(i, "register-returned-nil", "RegisterCallback returned nil with a live context", desc)
		return
	}
	if !fence("fence after the registration") {
		return
	}
	var want []conc.Call
	if tokCfg != nil && conc.SerialOf(tok) < conc.SerialOf(curTok) {
		want = append(want, conc.Call{Kind: "reg", Handle: 1, Old: tokCfg, New: curCfg, Tag: "catchup"})
		w.Count("quiet_period_catchups_due", 1)
	}
	if !compare(fmt.Sprintf("after the registration was processed (token serial %d, current serial %d, no install since)", conc.SerialOf(tok), conc.SerialOf(curTok)), want) {
		return
	}
	prev := curCfg
	for n := r.Range(1, 2); n > 0; n-- {
		if !install() {
			return
		}
		nw := e.D.View()
		want = append(want, conc.Call{Kind: "reg", Handle: 1, Old: prev, New: nw, Tag: "ordinary"})
		prev = nw
	}
	if !fence("fence after the installs with the callback registered") {
		return
	}
	if !compare("after the installs made while the callback was registered", want) {
		return
	}
	if !s.unregister(1, unreg) {
		w.Violation(i, "unregister-returned-false", "unregister returned false with a live context and a running Dials", desc)
		return
	}
	if !install() {
		return
	}
	if !s.wd(s.settle(), "final fence") {
		return
	}
	if !compare("after unregister returned true and one more install", want) {
		return
	}
	if sig := s.judge(desc); sig != "" {
		w.Distinct(fmt.Sprintf("quietscript|%d|%s", k, sig))
	}
	w.Count("scripted_schedules_run", 1)
	w.Count("quiet_period_scripts_run", 1)
	w.Count("quiet_period_client_side_calls_compared", int64(len(want)))
}

func c06Stress(w *fw.Worker, i int, r *fw.Rand) {
	// a quarter of the histories start with verification delayed and the global callbacks suppressed until it is enabled
	delayed := r.Chance(25)
	// one history in six runs on a Dials without global callbacks (nil OnNewConfig/OnWatchedError): registered callbacks are
	// then the only listeners, and there are stretches with none at all
	noGlobals := i%6 == 4
	s, err := c06NewOpts(w, i, r, conc.Opts{NSrc: r.Range(2, 3), SlowCB: r.Intn(3), Delay: delayed, Suppress: delayed, NoGlobalCBs: noGlobals})
	if err != nil {
		w.Violation(i, "config-failed", err.Error(), nil)
		return
	}
	e := s.e
	defer e.Stop()
	enableAfter := time.Duration(r.Intn(4000)) * time.Microsecond
	e.Jitter = r.Range(10, 70)
	ctx := e.S.Ctx
	s.initial = e.D.View()
	nClients := r.Range(2, 6)
	nReporters := r.Range(1, 2)
	var wg sync.WaitGroup
	stopRep := make(chan struct{})
	// background reporters (bounded so the queue can never hold 64 events)
	budget := atomic.Int64{}
	budget.Store(40)
	for rp := 0; rp < nReporters; rp++ {
		rr := r.Fork()
		wg.Add(1)
		go func(rp int, rr *fw.Rand) {
			defer wg.Done()
			for budget.Add(-1) >= 0 {
				select {
				case <-stopRep:
					return
				default:
				}
				l := s.validLayer(rr)
				if !delayed && rr.Chance(15) {
					// an update that Verify rejects: no version, one error event
					l = e.RandLayer(rr, 100, 0)
				}
				e.Report(ctx, 20+rp, rp%e.Opts.NSrc, l, rr.Chance(60))
				time.Sleep(time.Duration(rr.Intn(300)) * time.Microsecond)
			}
		}(rp, rr)
	}
	// the tokens clients register with come from ViewVersion: config and serial of a token must belong together
	type pair struct {
		cfg *conc.Cfg
		ser uint64
	}
	var pmu sync.Mutex
	var pairs []pair
	note := func(cfg *conc.Cfg, tok dials.CfgSerial[conc.Cfg]) {
		pmu.Lock()
		pairs = append(pairs, pair{cfg, conc.SerialOf(tok)})
		pmu.Unlock()
	}
	for sp := 0; sp < 2; sp++ {
		wg.Add(1)
		go func() {
			defer wg.Done()
			last := ^uint64(0)
			for {
				select {
				case <-stopRep:
					return
				default:
				}
				cfg, tok := e.D.ViewVersion()
				if ser := conc.SerialOf(tok); ser != last {
					last = ser
					note(cfg, tok)
				}
			}
		}()
	}
	var cwg sync.WaitGroup
	for c := 0; c < nClients; c++ {
		rr := r.Fork()
		cwg.Add(1)
		go func(c int, rr *fw.Rand) {
			defer cwg.Done()
			id := c + 1
			if rr.Chance(60) {
				e.Report(ctx, id, rr.Intn(e.Opts.NSrc), s.validLayer(rr), true)
			}
			cfg, tok := e.D.ViewVersion()
			note(cfg, tok)
			switch rr.Intn(4) {
			case 0:
				cfg, tok = nil, dials.CfgSerial[conc.Cfg]{}
			case 1:
				// let the token go stale
				e.Report(ctx, id, rr.Intn(e.Opts.NSrc), s.validLayer(rr), true)
			}
			unreg := s.register(id, cfg, tok)
			if unreg == nil {
				w.Violation(i, "register-returned-nil", "RegisterCallback returned nil with a live context", nil)
				return
			}
			for k := rr.Intn(3); k > 0; k-- {
				e.Report(ctx, id, rr.Intn(e.Opts.NSrc), s.validLayer(rr), rr.Bool())
			}
			if !s.unregister(id, unreg) {
				w.Violation(i, "unregister-returned-false", "unregister returned false with a live context and a running Dials", nil)
				return
			}
			if rr.Chance(40) {
				unreg(ctx)
			}
			if rr.Chance(50) {
				e.Report(ctx, id, rr.Intn(e.Opts.NSrc), s.validLayer(rr), true)
			}
		}(c, rr)
	}
	if delayed {
		cwg.Add(1)
		go func() {
			defer cwg.Done()
			time.Sleep(enableAfter)
			e.D.EnableVerification(ctx)
		}()
	}
	cwg.Wait()
	close(stopRep)
	wg.Wait()
	if delayed {
		if _, _, eerr := e.D.EnableVerification(ctx); eerr != nil {
			w.Violation(i, "enable-verification-failed-on-valid-history", eerr.Error(), nil)
			return
		}
		w.Count("stress_histories_with_delayed_verification", 1)
	}
	e.Report(ctx, 0, 0, s.validLayer(r), true)
	if !s.settle() {
		w.Inconclusive(i, "final fence failed")
		return
	}
	desc := map[string]any{"mode": "stress", "clients": nClients, "reporters": nReporters, "jitter": e.Jitter, "delayed_verification_and_suppressed_globals": delayed, "global_callbacks": !noGlobals}
	if noGlobals {
		w.Count("stress_histories_without_global_callbacks", 1)
	}
	bySerial := map[uint64]*conc.Cfg{0: s.initial}
	for _, in := range e.Installs() {
		bySerial[in.Serial] = in.Cfg
	}
	for _, p := range pairs {
		if want, ok := bySerial[p.ser]; !ok || want != p.cfg {
			w.Violation(i, "viewversion-config-and-serial-do-not-belong-together", fmt.Sprintf("ViewVersion returned config %p with serial %d; serial %d was installed with config %p", p.cfg, p.ser, p.ser, want), desc)
			return
		}
	}
	w.Count("viewversion_pairs_checked", int64(len(pairs)))
	if sig := s.judge(desc); sig != "" {
		if noGlobals {
			sig = "noglobals|" + sig
		}
		w.Distinct("stress|" + sig)
		if i%23 == 0 {
			w.Sample(map[string]any{"mode": "stress", "clients": nClients, "dequeue_shape_catchups_skips": sig})
		}
	}
	w.Count("stress_histories", 1)
}

func runC06(w *fw.Worker) {
	// the scripted schedules are a fixed list, distributed over the shards, run at every seed
	type scripted struct {
		order, tok string
		parked     bool
	}
	var list []scripted
	for _, o := range c06Orders {
		for _, t := range c06TokenKinds {
			for _, p := range []bool{false, true} {
				list = append(list, scripted{o, t, p})
			}
		}
	}
	nUnreg := len(list) + 8
	nShutdown := nUnreg + 6
	nScripted := nShutdown + 2
	nRegShutdown := nScripted + 12 // the mutated select is a coin flip: the schedule is repeated
	nQuiet := nRegShutdown + 24    // 2 (earlier callback came and went) x 4 token kinds x 1..3 installs with nobody registered
	w.Cases(func(i int, r *fw.Rand) {
		g := i*w.Shards + w.Shard // global index
		switch {
		case g < len(list):
			sc := list[g]
			c06Scripted(w, i, r, sc.order, sc.tok, sc.parked)
			if g%9 == 0 {
				w.Sample(map[string]any{"mode": "scripted", "order": sc.order, "token": sc.tok, "parked": sc.parked})
			}
		case g < nUnreg:
			k := g - len(list)
			c06UnregScript(w, i, r, k&1 == 1, k&2 == 2, k&4 == 4)
		case g < nShutdown:
			k := g - nUnreg
			c06ShutdownScript(w, i, r, k&1 == 1, 1+k/2)
		case g < nScripted:
			c06OverflowScript(w, i, r)
		case g < nRegShutdown:
			c06RegisterShutdownScript(w, i, r, 1+(g-nScripted)%4)
		case g < nQuiet:
			c06QuietScript(w, i, r, g-nRegShutdown)
		default:
			c06Stress(w, i, r)
		}
	})
}
