package checks

import (
	"context"
	"fmt"
	"github.com/vimeo/dials/sourcewrap"
	"github.com/vimeo/dials/tagformat"
	"github.com/vimeo/dials/tagformat/caseconversion"
	"strings"
	"sync"
	"sync/atomic"
	"time"

	"github.com/vimeo/dials"

	"verifharness/conc"
	"verifharness/fw"
)

func init() {
	fw.Register(&fw.Check{
		ID:   "C04",
		Race: true,
		Rule: "Each case is one history against a real Dials[Cfg] with 2-4 fake watching sources whose Verify/callbacks/sources are harness code. " +
			"Sequential cases: 10-40 blocking reports (valid / Verify-invalid / ill-typed in seeded alternation), after each one the view, serial, report result and exactly-one OnWatchedError(err, old==current pointer, new==rejected stack or nil) are compared with the reference model. " +
			"Concurrent cases: 2-4 reporter goroutines (blocking and non-blocking) and 2 spinning readers plus Events/OnNewConfig/registered-callback/mon.stored observers, seeded yields at the dials hook points; every observed config is checked against the pure predicate while verification is active, " +
			"Verify must never see a receiver that is already visible, and the client-boundary history (report/read with logical call/return stamps) is checked for linearizability with porcupine against the sequential model. " +
			"Sequential cases also contain blocking reports whose context ends exactly when the monitor answers them (the reporter lets the monitor finish before its context is cancelled, or the context is cancelled at the schedule point just before the reply): a rejected update is never answered with nil, view and serial follow the model. " +
			"Every 25th case runs stacks of non-watching sources only (no monitor): Config must fail on an invalid initial stack unless Skip/Delay, and with Delay EnableVerification must fail exactly when the installed config's Verify (content, or a refusing impure Verify) fails. " +
			"Enable-after-exit episodes: delayed verification with watching sources, the monitor gone (every watcher Done, or context cancelled) before EnableVerification is called with a short context: no success may be reported for a config that fails Verify. " +
			"All four Skip x Delay combinations; initial-invalid stacks must make Config fail. distinct_nontrivial = distinct (options, op-kind sequence, outcome sequence) signatures of histories containing at least one rejected and one installed update.",
		Assumptions: []string{
			"the fake sources always produce values of the type dials asked for (except the deliberately ill-typed *string-for-*int layer)",
			"callbacks are fast and at most a few reports are outstanding, so the 64-slot callback queue never overflows in judged histories",
			"with SkipInitialVerification the never-verified initial config (serial 0) is not judged by the validity sampler; with DelayInitialVerification and no EnableVerification nothing is (verification is not active)",
		},
		MinDistinct: map[string]int{"quick": 1000, "thorough": 50000},
		MinCounters: map[string]map[string]int64{
			"quick":    {"configs_validity_checked": 2000, "rejections_checked_exactly": 300, "linearizable_histories": 80, "verify_calls_observed": 2000, "rejections_cancelled_at_the_answer": 150, "no_watcher_enable_on_invalid_stack": 40, "enable_calls_after_monitor_exit_on_invalid_config": 40},
			"thorough": {"configs_validity_checked": 1000000, "rejections_checked_exactly": 100000, "linearizable_histories": 40000, "rejections_cancelled_at_the_answer": 5000, "no_watcher_enable_on_invalid_stack": 1500},
		},
		Plan: func(tier string) fw.Plan {
			if tier == "thorough" {
				return fw.Plan{Shards: 16, CasesPerShard: 6000, TimeoutSec: 3000}
			}
			return fw.Plan{Shards: 8, CasesPerShard: 250, TimeoutSec: 900}
		},
		Run: runC04,
	})
}

func c04Opts(r *fw.Rand) conc.Opts {
	return conc.Opts{Skip: r.Chance(30), Delay: r.Chance(25), Suppress: r.Chance(30), NSrc: r.Range(2, 4), StaticFirst: r.Chance(20)}
}

func runC04(w *fw.Worker) {
	w.Cases(func(i int, r *fw.Rand) {
		if i%25 == 24 {
			c04RejectThenShutdown(w, i, r)
			return
		}
		if i%25 == 12 {
			c04NoWatcher(w, i, r)
			return
		}
		if i%25 == 19 {
			c04EnableAfterMonitorExit(w, i, r)
			return
		}
		if r.Chance(45) {
			c04Sequential(w, i, r)
		} else {
			c04Concurrent(w, i, r)
		}
	})
}

// c04InitLayers draws initial layers; returns whether the initial stack is invalid.
func c04InitLayers(r *fw.Rand, invalidPct int) func(e *conc.Env, i int) *conc.Layer {
	return func(e *conc.Env, i int) *conc.Layer {
		if r.Chance(25) {
			return nil
		}
		return e.RandLayer(r, invalidPct, 0)
	}
}

func c04InitialFP(e *conc.Env) conc.FP {
	ls := make([]*conc.Layer, e.Opts.NSrc)
	for i := range ls {
		ls[i] = e.Model.Layers[e.Model.Initial.Slots[i]]
	}
	fp, _ := conc.Stack(conc.DefaultsFP(), ls)
	return fp
}

// c04Start starts an env and checks the initial-verification clause.
// Returns nil when the scenario legitimately ended at Config.
func c04Start(w *fw.Worker, i int, r *fw.Rand, o conc.Opts) *conc.Env {
	// a third of the scenarios put the last source behind a (tag-only) transforming wrapper, as tagformat's
	// ReformatDialsTagSource does: the watcher then talks to the wrapper's WatchArgs
	wrapLast := o.NSrc >= 2 && r.Chance(33)
	wrapped := 0
	e, err := conc.StartWith(context.Background(), r.U64(), o, c04InitLayers(r, 12), func(k int, def dials.Source) dials.Source {
		if wrapLast && k == o.NSrc-1 {
			wrapped = k
			return sourcewrap.NewTransformingSource(def, tagformat.NewTagReformattingMangler("dials", caseconversion.DecodeGoTags, caseconversion.EncodeKebabCase))
		}
		return def
	})
	e.Wrapped = wrapped
	initFP := c04InitialFP(e)
	mustFail := !o.Skip && !o.Delay && !conc.ValidFP(initFP)
	if mustFail {
		w.Count("initial_invalid_configs", 1)
		if err == nil {
			w.Violation(i, "config-succeeded-on-invalid-initial-stack", fmt.Sprintf("Config returned nil error although the initial stack %+v fails Verify (opts %+v)", initFP, o), nil)
			e.Stop()
		} else if !strings.Contains(err.Error(), "harness: config invalid") {
			w.Violation(i, "config-initial-error-not-wrapping-verify", "Config failed but not with the Verify error: "+err.Error(), nil)
		}
		return nil
	}
	if err != nil {
		w.Violation(i, "config-failed-on-valid-initial-stack", fmt.Sprintf("Config error %v on initial stack %+v opts %+v", err, initFP, o), nil)
		return nil
	}
	if got := conc.FPOf(e.D.View()); got != initFP {
		w.Violation(i, "initial-view-mismatch", fmt.Sprintf("initial view %+v, reference stack %+v", got, initFP), nil)
	}
	// Verify-call accounting for the initial stack
	vl := e.S.VerifyLog()
	if (o.Skip || o.Delay) && len(vl) != 0 {
		w.Violation(i, "verify-called-despite-skip-or-delay", fmt.Sprintf("%d Verify calls during Config with opts %+v", len(vl), o), nil)
	}
	return e
}

func c04Sequential(w *fw.Worker, i int, r *fw.Rand) {
	o := c04Opts(r)
	e := c04Start(w, i, r, o)
	if e == nil {
		return
	}
	defer e.Stop()
	ctx := e.S.Ctx
	st := e.Model.Initial
	n := r.Range(10, 40)
	var sig strings.Builder
	fmt.Fprintf(&sig, "seq|%v%v%v%d%v|", o.Skip, o.Delay, o.Suppress, o.NSrc, o.StaticFirst)
	rejected, installed := 0, 0
	var trace []string
	curPtr := e.D.View()
	enabled := !o.Delay
	lastBySrc := map[int]*conc.Layer{}
	var staleTok dials.CfgSerial[conc.Cfg]
	staleTokOK := false
	// schedule point used by the cancelled-at-the-answer episodes: the function armed here runs on the monitor goroutine
	// at the dials hook points
	var monHook atomic.Pointer[func(name string, args []any)]
	e.ExtraHook = func(name string, _ context.Context, args []any) {
		if f := monHook.Load(); f != nil {
			(*f)(name, args)
		}
	}
	for k := 0; k < n; k++ {
		// optionally enable verification in delayed scenarios
		if o.Delay && !enabled && r.Chance(15) {
			cfg, ser, err := e.Enable(ctx, 0)
			fp, _ := modelFP(e.Model, st.Cur)
			if conc.ValidFP(fp) {
				if err != nil {
					w.Violation(i, "enable-failed-on-valid-config", fmt.Sprintf("EnableVerification error %v on valid installed config %+v", err, fp), trace)
				} else {
					if cfg != curPtr || ser != st.Serial {
						w.Violation(i, "enable-returned-other-config", fmt.Sprintf("EnableVerification returned (%p,%d), installed (%p,%d)", cfg, ser, curPtr, st.Serial), trace)
					}
					enabled = true
					st.Verifying = true
				}
			} else if err == nil {
				w.Violation(i, "enable-succeeded-on-invalid-config", fmt.Sprintf("EnableVerification succeeded on %+v", fp), trace)
			}
			sig.WriteString("E")
			continue
		}
		src := r.Intn(o.NSrc)
		if e.Srcs[src] == nil {
			src = o.NSrc - 1
		}
		l := e.RandLayer(r, 30, 8)
		if e.Wrapped != 0 && src == e.Wrapped {
			l.IllTyped = false
		}
		if st.Verifying && r.Chance(8) {
			// the reporter gives up while the monitor is inside Verify for its value; the monitor finishes the update
			// anyway, and the same source's NEXT blocking report must get its own answer, not this one's
			al := e.RandLayer(r, 50, 0)
			abandoned, ares := e.AbandonInVerify(0, src, al)
			var ns []any
			for _, guess := range []int{conc.ResNil, conc.ResRejected} {
				if !abandoned {
					guess = ares
				}
				if ns = e.Model.Step(st, conc.In{Kind: conc.OpReport, Src: src, Layer: al, Blocking: true}, conc.Out{Res: guess}); len(ns) > 0 {
					break
				}
			}
			if len(ns) == 0 {
				w.Violation(i, "blocking-report-result-disagrees-with-model", fmt.Sprintf("report of %s (abandoned in Verify: %v) returned res=%d, which the model excludes", al, abandoned, ares), trace)
				return
			}
			st = ns[0].(conc.State)
			curPtr = nil // re-read below: whether it installed is judged through the next report and the view
			lastBySrc[src] = nil
			trace = append(trace, fmt.Sprintf("report src=%d %s abandoned-in-verify=%v", src, al, abandoned))
			if abandoned {
				w.Count("reports_abandoned_inside_verify", 1)
				sig.WriteString("a")
			}
			// the same source reports again right away (blocking): this answer must be this report's own
			fl := e.RandLayer(r, 0, 0)
			if !al.NegA && !al.NegB {
				fl = e.RandLayer(r, 100, 0)
			}
			fres, ferr := e.Report(ctx, 0, src, fl, true)
			fns := e.Model.Step(st, conc.In{Kind: conc.OpReport, Src: src, Layer: fl, Blocking: true}, conc.Out{Res: fres})
			trace = append(trace, fmt.Sprintf("report src=%d %s (right after the abandoned one) -> res=%d err=%v", src, fl, fres, ferr))
			if len(fns) == 0 {
				w.Violation(i, "blocking-report-result-disagrees-with-model", fmt.Sprintf("report of %s right after an abandoned report of the same source returned res=%d (%v); the model excludes that", fl, fres, ferr), trace)
				return
			}
			st = fns[0].(conc.State)
			lastBySrc[src] = fl
			{
				cfg, tok := e.D.ViewVersion()
				wantFP, _ := modelFP(e.Model, st.Cur)
				if got := conc.FPOf(cfg); got != wantFP || conc.SerialOf(tok) != st.Serial {
					w.Violation(i, "view-after-install-mismatch", fmt.Sprintf("after an abandoned report and %s: view %+v serial %d, model %+v serial %d", fl, got, conc.SerialOf(tok), wantFP, st.Serial), trace)
					return
				}
			}
			if !e.FenceCallbacks(ctx) {
				w.Inconclusive(i, "callback fence failed")
				return
			}
			curPtr = e.D.View()
		}
		if r.Chance(7) {
			// the reporter's context ends at the very moment the monitor answers the blocking report (valid, Verify-invalid
			// or ill-typed value alike). Whatever the reporter then sees first, a rejected update is never answered with nil.
			cl := e.RandLayer(r, 60, 15)
			if e.Wrapped != 0 && src == e.Wrapped {
				cl.IllTyped = false
			}
			mode := r.Intn(2)
			res, cerr, exercised := c04CancelAtAnswer(e, &monHook, src, cl, mode)
			if !e.FenceMonitor(ctx) {
				w.Inconclusive(i, "monitor fence failed")
				return
			}
			in := conc.In{Kind: conc.OpReport, Src: src, Layer: cl, Blocking: true}
			// the reference model accepts a nil answer exactly when the update is installed
			wouldInstall := len(e.Model.Step(st, in, conc.Out{Res: conc.ResNil})) > 0
			trace = append(trace, fmt.Sprintf("report src=%d %s with its context cancelled at the answer (mode %d, exercised=%v) -> res=%d err=%v", src, cl, mode, exercised, res, cerr))
			ns := e.Model.Step(st, in, conc.Out{Res: res})
			if len(ns) == 0 {
				key := "blocking-report-result-disagrees-with-model"
				if res == conc.ResNil {
					key = "cancelled-blocking-report-returned-nil-for-rejected-update"
				}
				w.Violation(i, key, fmt.Sprintf("blocking report of %s, whose context was cancelled as the monitor answered it, returned res=%d (%v); the reference model says the update is %s", cl, res, cerr, map[bool]string{true: "installed", false: "rejected"}[wouldInstall]), trace)
				return
			}
			st = ns[0].(conc.State)
			{
				cfg, tok := e.D.ViewVersion()
				wantFP, _ := modelFP(e.Model, st.Cur)
				if got := conc.FPOf(cfg); got != wantFP || conc.SerialOf(tok) != st.Serial {
					key := "view-after-install-mismatch"
					if !wouldInstall {
						key = "view-or-serial-changed-by-rejected-update"
					}
					w.Violation(i, key, fmt.Sprintf("after %s (context cancelled at the answer): view %+v serial %d, model %+v serial %d", cl, got, conc.SerialOf(tok), wantFP, st.Serial), trace)
					return
				}
				if !wouldInstall && curPtr != nil && cfg != curPtr {
					w.Violation(i, "view-pointer-changed-by-rejected-update", "config pointer changed although the update (context cancelled at the answer) was rejected", trace)
					return
				}
			}
			if exercised && res != conc.ResNotSubmitted {
				w.Count("reports_cancelled_at_the_answer", 1)
				if !wouldInstall {
					w.Count("rejections_cancelled_at_the_answer", 1)
				}
				sig.WriteString("c")
			}
			if !e.FenceCallbacks(ctx) {
				w.Inconclusive(i, "callback fence failed")
				return
			}
			curPtr = e.D.View()
			lastBySrc[src] = nil
		}
		if st.Verifying && r.Chance(5) {
			// the callback goroutine is busy (parked in the handler of install A) while an update B is rejected and
			// another one, C, is installed: when B's OnWatchedError finally runs, its old config is the one that was
			// current when B was rejected (A's), not whatever is current by then
			if !e.FenceCallbacks(ctx) {
				w.Inconclusive(i, "callback fence failed")
				return
			}
			step := func(l *conc.Layer) (int, bool) {
				res, _ := e.Report(ctx, 0, src, l, true)
				ns := e.Model.Step(st, conc.In{Kind: conc.OpReport, Src: src, Layer: l, Blocking: true}, conc.Out{Res: res})
				if len(ns) == 0 {
					w.Violation(i, "blocking-report-result-disagrees-with-model", fmt.Sprintf("report of %s returned res=%d while a callback was parked", l, res), trace)
					return res, false
				}
				st = ns[0].(conc.State)
				return res, true
			}
			mark := len(e.CBLog())
			gate := make(chan struct{})
			e.SetCBGate(gate)
			la := e.RandLayer(r, 0, 0)
			resA, ok := step(la)
			parked := ok && resA == conc.ResNil && conc.WaitUntil(func() bool { return e.InCB() > 0 }, 5*time.Second)
			var cfgA *conc.Cfg
			rejectedB := false
			if parked {
				cfgA = e.D.View()
				lb := e.RandLayer(r, 100, 0)
				if resB, okB := step(lb); okB && resB == conc.ResRejected {
					rejectedB = true
					step(e.RandLayer(r, 0, 0))
				}
			}
			e.SetCBGate(nil)
			close(gate)
			if !e.FenceCallbacks(ctx) {
				w.Inconclusive(i, "callback fence failed")
				return
			}
			if rejectedB {
				for _, ev := range e.CBLog()[mark:] {
					if ev.Kind == "err" && !c04IsSentinel(ev) && ev.Old != cfgA {
						w.Violation(i, "onwatchederror-old-not-current", fmt.Sprintf("OnWatchedError (delivered late, behind a parked callback) got old=%+v; the config current when the update was rejected was %+v", ev.OldFP, conc.FPOf(cfgA)), trace)
						return
					}
				}
				w.Count("late_error_callbacks_checked", 1)
			}
			curPtr = e.D.View()
			lastBySrc[src] = nil
			trace = append(trace, "parked-callback episode (install, rejection, install)")
		}
		before := len(e.CBLog())
		_, tokBefore := e.D.ViewVersion()
		tokBeforeOK := true
		var res int
		var err error
		if prev := lastBySrc[src]; prev != nil && r.Chance(15) {
			// the watcher re-sends the identical value object it reported last time
			l = prev
			res, err = e.ReReport(ctx, 0, src, l, true)
			w.Count("identical_object_re_reports", 1)
		} else {
			res, err = e.Report(ctx, 0, src, l, true)
		}
		lastBySrc[src] = l
		ns, inst := e.Model.Step(st, conc.In{Kind: conc.OpReport, Src: src, Layer: l, Blocking: true}, conc.Out{Res: res}), false
		trace = append(trace, fmt.Sprintf("report src=%d %s -> res=%d err=%v", src, l, res, err))
		if len(trace) > 12 {
			trace = trace[1:]
		}
		if len(ns) == 0 {
			want := "installed (nil)"
			if res == conc.ResNil {
				want = "rejected (error)"
			}
			w.Violation(i, "blocking-report-result-disagrees-with-model", fmt.Sprintf("report of %s returned res=%d (%v) but the reference model says %s", l, res, err, want), trace)
			return
		}
		nst := ns[0].(conc.State)
		inst = nst.Serial != st.Serial
		st = nst
		// view + serial
		cfg, tok := e.D.ViewVersion()
		wantFP, _ := modelFP(e.Model, st.Cur)
		if got := conc.FPOf(cfg); got != wantFP || conc.SerialOf(tok) != st.Serial {
			key := "view-after-install-mismatch"
			if !inst {
				key = "view-or-serial-changed-by-rejected-update"
			}
			w.Violation(i, key, fmt.Sprintf("after %s: view %+v serial %d, model %+v serial %d", l, got, conc.SerialOf(tok), wantFP, st.Serial), trace)
			return
		}
		if !inst {
			rejected++
			sig.WriteString("r")
			if cfg != curPtr {
				w.Violation(i, "view-pointer-changed-by-rejected-update", "config pointer changed although the update was rejected", trace)
			}
			// exactly one OnWatchedError for it
			if !e.FenceCallbacks(ctx) {
				w.Inconclusive(i, "callback fence failed")
				return
			}
			evs := e.CBLog()[before:]
			var errs []conc.CBEvent
			for _, ev := range evs {
				if ev.Kind == "err" && !c04IsSentinel(ev) {
					errs = append(errs, ev)
				}
			}
			if len(errs) != 1 {
				w.Violation(i, fmt.Sprintf("rejection-onwatchederror-count=%d", len(errs)), fmt.Sprintf("rejected %s: %d OnWatchedError calls (want exactly 1)", l, len(errs)), trace)
				return
			}
			ev := errs[0]
			if ev.Old != curPtr {
				w.Violation(i, "onwatchederror-old-not-current", fmt.Sprintf("OnWatchedError old=%+v is not the current config %+v", ev.OldFP, conc.FPOf(curPtr)), trace)
			}
			if l.IllTyped || hasIllTyped(e.Model, st.Slots, o.NSrc) {
				if !ev.NewNil {
					w.Violation(i, "onwatchederror-new-not-nil-on-stacking-error", "stacking failed but newConfig is non-nil", trace)
				}
			} else {
				slotsFP, _ := modelFP(e.Model, st.Slots)
				if ev.NewNil || ev.NewFP != slotsFP {
					w.Violation(i, "onwatchederror-new-not-rejected-stack", fmt.Sprintf("OnWatchedError new=%+v (nil=%v), rejected stack %+v", ev.NewFP, ev.NewNil, slotsFP), trace)
				}
				if !strings.Contains(ev.Err, "harness: config invalid") {
					w.Violation(i, "onwatchederror-err-not-verify-error", "error passed: "+ev.Err, trace)
				}
			}
			if err == nil || (!l.IllTyped && !hasIllTyped(e.Model, st.Slots, o.NSrc) && !strings.Contains(err.Error(), "harness: config invalid")) {
				w.Violation(i, "blocking-report-error-not-the-rejection", fmt.Sprintf("report error %v", err), trace)
			}
			w.Count("rejections_checked_exactly", 1)
			if staleTokOK && r.Chance(35) {
				// a callback registered now with a token older than the installed version is caught up at once: with
				// the installed config, never with the config that was just rejected
				var got []*conc.Cfg
				var gmu sync.Mutex
				unreg := e.D.RegisterCallback(ctx, staleTok, func(_ context.Context, _, nw *conc.Cfg) {
					gmu.Lock()
					got = append(got, nw)
					gmu.Unlock()
				})
				if unreg != nil {
					if !e.FenceCallbacks(ctx) {
						w.Inconclusive(i, "callback fence failed")
						return
					}
					unreg(ctx)
					gmu.Lock()
					g := append([]*conc.Cfg(nil), got...)
					gmu.Unlock()
					if len(g) != 1 || g[0] != curPtr {
						detail := fmt.Sprintf("%d catch-up calls", len(g))
						if len(g) > 0 {
							detail = fmt.Sprintf("catch-up delivered %+v; installed config is %+v", conc.FPOf(g[0]), conc.FPOf(curPtr))
						}
						w.Violation(i, "catch-up-after-rejection-not-the-installed-config", detail, trace)
						return
					}
					w.Count("catch_ups_after_a_rejection_checked", 1)
				}
			}
		} else {
			installed++
			sig.WriteString("i")
			if curPtr != nil {
				staleTok, staleTokOK = tokBefore, tokBeforeOK
			}
			curPtr = cfg
		}
		c04Validity(w, i, e, cfg, conc.SerialOf(tok), enabled, "view")
	}
	w.Count("sequential_histories", 1)
	c04VerifyLog(w, i, e)
	if rejected > 0 && installed > 0 {
		w.Distinct(sig.String())
	}
	if i%37 == 0 {
		w.Sample(map[string]any{"mode": "sequential", "opts": fmt.Sprintf("%+v", o), "signature": sig.String(), "last_ops": trace})
	}
}

// c04IsSentinel: the OnWatchedError call made for the harness's own monitor-fence error (the cancelled-at-the-answer
// episodes fence the monitor with it); it is not the report of a rejected update.
func c04IsSentinel(ev conc.CBEvent) bool {
	return strings.Contains(ev.Err, conc.ErrSentinel.Error())
}

func hasIllTyped(m *conc.Model, slots [conc.MaxSrc]int, n int) bool {
	for i := 0; i < n; i++ {
		if l := m.Layers[slots[i]]; l != nil && l.IllTyped {
			return true
		}
	}
	return false
}

func modelFP(m *conc.Model, slots [conc.MaxSrc]int) (conc.FP, bool) {
	ls := make([]*conc.Layer, m.NSrc)
	for i := 0; i < m.NSrc; i++ {
		ls[i] = m.Layers[slots[i]]
	}
	return conc.Stack(m.Def, ls)
}

// c04Validity checks one observed config against the predicate when
// verification was active for it.
func c04Validity(w *fw.Worker, i int, e *conc.Env, cfg *conc.Cfg, serial uint64, enabled bool, where string) {
	if cfg == nil {
		w.Violation(i, "nil-config-observed:"+where, "nil config from "+where, nil)
		return
	}
	judged := false
	switch {
	case e.Opts.Delay:
		judged = false // handled by C09
	case serial >= 1:
		judged = true
	case !e.Opts.Skip:
		judged = true
	}
	_ = enabled
	if !judged {
		return
	}
	w.Count("configs_validity_checked", 1)
	if !conc.Valid(cfg) {
		w.Violation(i, "unverified-config-visible:"+where, fmt.Sprintf("config %+v (serial %d) observed through %s fails Verify (opts %+v)", conc.FPOf(cfg), serial, where, e.Opts), nil)
	}
}

func c04VerifyLog(w *fw.Worker, i int, e *conc.Env) {
	vl := e.S.VerifyLog()
	w.Count("verify_calls_observed", int64(len(vl)))
	for _, vc := range vl {
		if vc.Visible && !vc.DuringEnable {
			w.Violation(i, "verify-receiver-already-visible", fmt.Sprintf("Verify ran on %+v which View() already returned (stored before verification)", vc.FP), nil)
			return
		}
	}
}

func c04Concurrent(w *fw.Worker, i int, r *fw.Rand) {
	o := c04Opts(r)
	o.SlowCB = r.Intn(3)
	e := c04Start(w, i, r, o)
	if e == nil {
		return
	}
	defer e.Stop()
	e.Jitter = r.Range(0, 60)
	ctx := e.S.Ctx

	var sigMu sync.Mutex
	var sig strings.Builder
	fmt.Fprintf(&sig, "conc|%v%v%v%d%v|", o.Skip, o.Delay, o.Suppress, o.NSrc, o.StaticFirst)
	var rejected, installed atomic.Int64

	// mon.stored observer: earliest instant a config is visible
	e.ExtraHook = func(name string, _ context.Context, args []any) {
		if name == "mon.stored" && len(args) >= 3 {
			serial, _ := args[1].(uint64)
			cfg, _ := args[2].(*conc.Cfg)
			c04Validity(w, i, e, cfg, serial, true, "mon.stored")
		}
	}
	// registered callback observer
	_, tok := e.D.ViewVersion()
	unreg := e.D.RegisterCallback(ctx, tok, e.RegisteredCB(1, func(old, nw *conc.Cfg) {
		c04Validity(w, i, e, nw, 1, true, "registered-callback")
	}))

	stop := make(chan struct{})
	var wg sync.WaitGroup
	// Events observer
	wg.Add(1)
	go func() {
		defer wg.Done()
		for {
			select {
			case c := <-e.D.Events():
				c04Validity(w, i, e, c, 1, true, "Events")
			case <-stop:
				return
			}
		}
	}()
	// spinning readers
	for rd := 0; rd < 2; rd++ {
		wg.Add(1)
		go func(rd int) {
			defer wg.Done()
			lastSer := uint64(0)
			recorded := 0
			for k := 0; ; k++ {
				select {
				case <-stop:
					return
				default:
				}
				if recorded < 12 && k%3 == 0 {
					ser, cfg := e.Read(10 + rd)
					recorded++
					c04Validity(w, i, e, cfg, ser, true, "ViewVersion")
					lastSer = ser
				} else {
					cfg, tok := e.D.ViewVersion()
					ser := conc.SerialOf(tok)
					c04Validity(w, i, e, cfg, ser, true, "ViewVersion")
					if ser < lastSer {
						w.Violation(i, "serial-went-backwards", fmt.Sprintf("reader saw serial %d after %d", ser, lastSer), nil)
					}
					lastSer = ser
				}
				if k%4 == 0 {
					time.Sleep(20 * time.Microsecond)
				}
			}
		}(rd)
	}
	// reporters: one per watching source
	var rwg sync.WaitGroup
	var mu sync.Mutex
	var leftovers []func(ret int64)
	// keep histories small: linearizability checking is exponential in the number of overlapping state-changing operations
	nops := r.Range(3, 24/o.NSrc)
	for s := 0; s < o.NSrc; s++ {
		if e.Srcs[s] == nil {
			continue
		}
		rr := r.Fork()
		rwg.Add(1)
		go func(s int, rr *fw.Rand) {
			defer rwg.Done()
			type pend struct {
				in   conc.In
				call int64
				out  conc.Out
			}
			var pending []pend
			flush := func(ret int64) {
				for _, p := range pending {
					e.H.AddBounded(s, p.in, p.call, p.out, ret)
				}
				pending = nil
			}
			defer func() {
				mu.Lock()
				leftovers = append(leftovers, func(ret int64) { flush(ret) })
				mu.Unlock()
			}()
			for k := 0; k < nops; k++ {
				l := e.RandLayer(rr, 30, 6)
				if e.Wrapped != 0 && s == e.Wrapped {
					l.IllTyped = false
				}
				blocking := rr.Chance(65)
				var res int
				if !blocking {
					// a non-blocking report's effect is bounded by this goroutine's next blocking report
					call := e.S.Tick()
					err := e.Srcs[s].Report(ctx, l, false)
					rs, es := conc.ClassifyReportErr(err, false)
					res = rs
					in := conc.In{Kind: conc.OpReport, Src: s, Layer: l}
					if rs == conc.ResSubmittedUnk {
						pending = append(pending, pend{in, call, conc.Out{Res: rs, Err: es}})
					} else {
						e.H.Add(s, in, call, conc.Out{Res: rs, Err: es}, e.S.Tick())
					}
				} else {
					res, _ = e.Report(ctx, s, s, l, true)
					if res == conc.ResNil || res == conc.ResRejected {
						flush(e.S.Tick())
					}
				}
				sigMu.Lock()
				fmt.Fprintf(&sig, "%d", res)
				sigMu.Unlock()
				switch res {
				case conc.ResNil:
					installed.Add(1)
					ser, cfg := e.Read(s)
					c04Validity(w, i, e, cfg, ser, true, "ViewVersion")
				case conc.ResRejected:
					rejected.Add(1)
				}
				if rr.Chance(30) {
					time.Sleep(time.Duration(rr.Intn(100)) * time.Microsecond)
				}
			}
		}(s, rr)
	}
	rwg.Wait()
	// fence: a blocking report goes through the same FIFO as every earlier
	// non-blocking one, so when it returns they have all been processed.
	last := e.NewLayer()
	last.Set[2] = true
	fenceSrc := o.NSrc - 1
	e.Report(ctx, 0, fenceSrc, last, true)
	// every non-blocking report was received by the monitor before the fence was: bounded by the fence's return
	fenceRet := e.S.Tick()
	for _, f := range leftovers {
		f(fenceRet)
	}
	e.Read(0)
	close(stop)
	wg.Wait()
	if unreg != nil {
		unreg(ctx)
	}
	e.FenceCallbacks(ctx)
	for _, ev := range e.CBLog() {
		if ev.Kind == "new" {
			c04Validity(w, i, e, ev.New, 1, true, "OnNewConfig")
		}
	}
	c04VerifyLog(w, i, e)
	switch e.H.Check(e.Model, 8*time.Second) {
	case "ok":
		w.Count("linearizable_histories", 1)
		w.Count("history_ops", int64(e.H.Len()))
	case "illegal":
		w.Violation(i, "history-not-linearizable", "the report/read history has no linearization under the sequential model (rejected update changed the view, a nil blocking report not visible, or a config/serial pair that never existed)", e.H.Describe())
	default:
		w.Inconclusive(i, fmt.Sprintf("porcupine timeout (%d ops)", e.H.Len()))
		w.Note("timed-out history: " + strings.Join(e.H.Describe(), " || "))
		if w.Verbose {
			for _, l := range e.H.Describe() {
				fmt.Println(l)
			}
		}
	}
	if rejected.Load() > 0 && installed.Load() > 0 {
		w.Distinct(sig.String())
	}
	if i%41 == 1 {
		d := e.H.Describe()
		if len(d) > 14 {
			d = d[:14]
		}
		w.Sample(map[string]any{"mode": "concurrent", "opts": fmt.Sprintf("%+v", o), "history_prefix": d})
	}
}

// c04RejectThenShutdown: an update is rejected while the callback goroutine is
// busy in an earlier (slow) callback, then every watcher calls Done and the
// monitor exits. The queue never overflowed (one or two events), so the
// rejection's OnWatchedError must still be delivered when the callback
// goroutine catches up.
func c04RejectThenShutdown(w *fw.Worker, i int, r *fw.Rand) {
	o := conc.Opts{NSrc: 2}
	e, err := conc.Start(context.Background(), r.U64(), o, nil)
	if err != nil {
		w.Violation(i, "config-failed", err.Error(), nil)
		return
	}
	defer e.Stop()
	tr := conc.NewCBTrace()
	e.ExtraHook = func(name string, hctx context.Context, args []any) { tr.OnHook(e.S, name, hctx, args) }
	ctx := e.S.Ctx
	desc := map[string]any{"mode": "reject-then-shutdown"}
	e.SetCBGate(make(chan struct{}))
	ok := e.RandLayer(r, 0, 0)
	e.Report(ctx, 0, 0, ok, true)
	if !conc.WaitUntil(func() bool { return e.InCB() > 0 }, 20*time.Second) {
		w.Inconclusive(i, "callback goroutine never parked")
		close(e.CBGate)
		return
	}
	nRej := r.Range(1, 3)
	for k := 0; k < nRej; k++ {
		bad := e.RandLayer(r, 100, 0)
		if res, _ := e.Report(ctx, 0, k%2, bad, true); res != conc.ResRejected {
			w.Violation(i, "blocking-report-result-disagrees-with-model", "an invalid update was not rejected", desc)
			close(e.CBGate)
			return
		}
	}
	for _, s := range e.Srcs {
		s.WA().Done(ctx)
	}
	select {
	case <-dials.VerifMonitorDone(e.D):
	case <-time.After(20 * time.Second):
		w.Inconclusive(i, "monitor exit not observed")
		close(e.CBGate)
		return
	}
	close(e.CBGate)
	if !conc.WaitUntil(func() bool { return tr.Exited() }, 20*time.Second) {
		w.Inconclusive(i, "callback goroutine exit not observed")
		return
	}
	got := 0
	for _, ev := range e.CBLog() {
		if ev.Kind == "err" && strings.Contains(ev.Err, "harness: config invalid") {
			got++
		}
	}
	if got != nRej {
		w.Violation(i, "rejection-error-lost-at-shutdown", fmt.Sprintf("%d updates were rejected while the callback goroutine was busy; after shutdown only %d OnWatchedError calls were made although the queue never overflowed", nRej, got), desc)
		return
	}
	w.Count("rejections_checked_exactly", int64(nRej))
	w.Count("reject_then_shutdown_cases", 1)
}

// c04LateCtx is a context whose Done(), from its second call on, first runs fire (once). A blocking report asks its
// context for Done() once when it submits the value and once more when it starts waiting for the answer: fire then runs
// on the reporter's goroutine after the value was handed to the monitor and before the reporter looks at the answer.
type c04LateCtx struct {
	context.Context
	calls atomic.Int32
	once  sync.Once
	fire  func()
}

func (c *c04LateCtx) Done() <-chan struct{} {
	if c.calls.Add(1) >= 2 {
		c.once.Do(c.fire)
	}
	return c.Context.Done()
}

// c04CancelAtAnswer performs a blocking report of l from source src whose context ends right when the monitor answers it.
// mode 0: the reporter, about to wait for the answer, first lets the monitor finish the update (monitor fence) and only
// then has its context cancelled: answer and cancellation are both there when it looks.
// mode 1: the context is cancelled on the monitor goroutine at the schedule point just before the answer is sent: the
// reporter is woken by the cancellation and the answer arrives while it wakes up.
// exercised: the cancellation was placed as intended (after submission).
func c04CancelAtAnswer(e *conc.Env, monHook *atomic.Pointer[func(string, []any)], src int, l *conc.Layer, mode int) (res int, err error, exercised bool) {
	cctx, cancel := context.WithCancel(e.S.Ctx)
	defer cancel()
	var fired atomic.Bool
	var rctx context.Context = cctx
	if mode == 0 {
		rctx = &c04LateCtx{Context: cctx, fire: func() {
			if e.FenceMonitor(e.S.Ctx) {
				fired.Store(true)
			}
			cancel()
		}}
	} else {
		f := func(name string, args []any) {
			if name != "mon.beforeReply" || len(args) < 3 {
				return
			}
			if blocking, _ := args[2].(bool); blocking && fired.CompareAndSwap(false, true) {
				cancel()
			}
		}
		monHook.Store(&f)
		defer monHook.Store(nil)
	}
	res, err = e.Report(rctx, 0, src, l, true)
	return res, err, fired.Load()
}

// c04NoWatcher: stacks made of non-watching sources only (no monitor goroutine). Config verifies the initial stack unless
// told to skip or delay; with DelayInitialVerification, EnableVerification is the one place where the stack is verified:
// it must fail exactly when the installed config fails Verify (content, or an impure Verify that refuses).
func c04NoWatcher(w *fw.Worker, i int, r *fw.Rand) {
	for rep := 0; rep < 4; rep++ {
		o := conc.Opts{Skip: r.Chance(35), Delay: r.Chance(65), Suppress: r.Chance(30), NSrc: r.Range(1, 3)}
		e, err := conc.StartWith(context.Background(), r.U64(), o, c04InitLayers(r, 30), func(_ int, def dials.Source) dials.Source {
			if ws, ok := def.(*conc.WSrc); ok {
				return &ws.Src // Value only: not a dials.Watcher
			}
			return def
		})
		initFP := c04InitialFP(e)
		valid := conc.ValidFP(initFP)
		desc := map[string]any{"mode": "no-watcher", "opts": fmt.Sprintf("%+v", o), "initial_stack": fmt.Sprintf("%+v", initFP)}
		w.Count("no_watcher_scenarios", 1)
		if !o.Skip && !o.Delay && !valid {
			w.Count("initial_invalid_configs", 1)
			if err == nil {
				w.Violation(i, "config-succeeded-on-invalid-initial-stack", fmt.Sprintf("Config (no watching source) returned nil error although the initial stack %+v fails Verify (opts %+v)", initFP, o), desc)
				e.Stop()
			} else if !strings.Contains(err.Error(), "harness: config invalid") {
				w.Violation(i, "config-initial-error-not-wrapping-verify", "Config failed but not with the Verify error: "+err.Error(), desc)
			}
			continue
		}
		if err != nil {
			w.Violation(i, "config-failed-on-valid-initial-stack", fmt.Sprintf("Config (no watching source) error %v on initial stack %+v opts %+v", err, initFP, o), desc)
			continue
		}
		ctx := e.S.Ctx
		view, tok := e.D.ViewVersion()
		if got := conc.FPOf(view); got != initFP {
			w.Violation(i, "initial-view-mismatch", fmt.Sprintf("initial view %+v, reference stack %+v", got, initFP), desc)
		}
		if vl := e.S.VerifyLog(); (o.Skip || o.Delay) && len(vl) != 0 {
			w.Violation(i, "verify-called-despite-skip-or-delay", fmt.Sprintf("%d Verify calls during Config with opts %+v", len(vl), o), desc)
		}
		c04Validity(w, i, e, view, conc.SerialOf(tok), true, "view")
		if o.Delay {
			refuse := valid && r.Chance(35)
			if refuse {
				e.S.ForceVerifyErr(func(*conc.Cfg) error { return fmt.Errorf("harness: impure Verify refuses") })
			}
			for round := 0; round < 3; round++ {
				cfg, etok, eerr := e.D.EnableVerification(ctx)
				switch {
				case !valid:
					w.Count("no_watcher_enable_on_invalid_stack", 1)
					if eerr == nil {
						w.Violation(i, "enable-succeeded-on-invalid-config:no-watchers", fmt.Sprintf("EnableVerification (no watching source, call %d) returned (%+v, nil) although the installed config %+v fails Verify", round+1, conc.FPOf(cfg), initFP), desc)
					} else if !strings.Contains(eerr.Error(), "harness: config invalid") {
						w.Violation(i, "enable-error-not-the-verify-error:no-watchers", "EnableVerification failed with: "+eerr.Error(), desc)
					}
				case refuse:
					w.Count("no_watcher_enable_with_refusing_verify", 1)
					if eerr == nil {
						w.Violation(i, "enable-succeeded-although-verify-failed:no-watchers", fmt.Sprintf("EnableVerification (no watching source) returned nil although the config's Verify method returned an error (config %+v)", initFP), desc)
					} else if !strings.Contains(eerr.Error(), "impure Verify refuses") {
						w.Violation(i, "enable-error-not-the-verify-error:no-watchers", "EnableVerification failed with: "+eerr.Error(), desc)
					}
					// Verify stops refusing: the next call switches verification on
					e.S.ForceVerifyErr(nil)
					refuse = false
				default:
					w.Count("no_watcher_enable_on_valid_stack", 1)
					if eerr != nil {
						w.Violation(i, "enable-failed-on-valid-config:no-watchers", fmt.Sprintf("EnableVerification error %v on valid installed config %+v", eerr, initFP), desc)
					} else if cfg != view || conc.SerialOf(etok) != conc.SerialOf(tok) {
						w.Violation(i, "enable-returned-other-config:no-watchers", fmt.Sprintf("EnableVerification returned (%p,%d), installed (%p,%d)", cfg, conc.SerialOf(etok), view, conc.SerialOf(tok)), desc)
					}
				}
				if eerr == nil && cfg != nil {
					// verification is active now: what the program sees has passed Verify
					w.Count("configs_validity_checked", 2)
					if now := e.D.View(); !conc.Valid(cfg) || !conc.Valid(now) {
						w.Violation(i, "unverified-config-visible:EnableVerification", fmt.Sprintf("verification was enabled (no watching source) and the visible config %+v fails Verify", conc.FPOf(now)), desc)
					}
				}
				if v2, t2 := e.D.ViewVersion(); v2 != view || conc.SerialOf(t2) != conc.SerialOf(tok) {
					w.Violation(i, "view-changed-by-enable-verification:no-watchers", "view or serial changed across EnableVerification without any update", desc)
				}
			}
		}
		c04VerifyLogCount(w, e)
		e.Stop()
	}
}

func c04VerifyLogCount(w *fw.Worker, e *conc.Env) {
	w.Count("verify_calls_observed", int64(len(e.S.VerifyLog())))
}

// c04EnableAfterMonitorExit: delayed verification, watching sources, an initial stack that may fail Verify; then the
// monitor goes away (every watcher calls Done, or the Config context is cancelled) and only then is
// EnableVerification called, with a short context of its own. Nobody is left to verify, so the call cannot report
// success for a config that fails Verify: a nil error would declare verification active while the visible config
// never passed it. (What it returns otherwise - the Verify error or its context's error - is not judged here.)
func c04EnableAfterMonitorExit(w *fw.Worker, i int, r *fw.Rand) {
	for rep := 0; rep < 3; rep++ {
		o := conc.Opts{Delay: true, Suppress: r.Chance(30), NSrc: r.Range(1, 3)}
		e, err := conc.StartWith(context.Background(), r.U64(), o, c04InitLayers(r, 60), nil)
		if err != nil {
			w.Violation(i, "config-failed-with-verification-delayed", err.Error(), nil)
			continue
		}
		initFP := c04InitialFP(e)
		valid := conc.ValidFP(initFP)
		how := []string{"every-watcher-done", "context-cancelled"}[r.Intn(2)]
		desc := map[string]any{"mode": "enable-after-monitor-exit", "opts": fmt.Sprintf("%+v", o), "initial_stack": fmt.Sprintf("%+v", initFP), "shutdown": how}
		w.BeginDesc(i, fmt.Sprintf("%v", desc))
		if how == "every-watcher-done" {
			for _, ws := range e.Srcs {
				if ws != nil && ws.WA() != nil {
					dctx, dcancel := context.WithTimeout(context.Background(), 20*time.Second)
					ws.WA().Done(dctx)
					dcancel()
				}
			}
		} else {
			e.S.Cancel()
		}
		select {
		case <-dials.VerifMonitorDone(e.D):
		case <-time.After(20 * time.Second):
			w.Inconclusive(i, "monitor did not exit within 20s ("+how+")")
			e.Stop()
			continue
		}
		ectx, ecancel := context.WithTimeout(context.Background(), 40*time.Millisecond)
		cfg, _, eerr := e.D.EnableVerification(ectx)
		ecancel()
		w.Count("enable_calls_after_monitor_exit", 1)
		if !valid {
			w.Count("enable_calls_after_monitor_exit_on_invalid_config", 1)
			if eerr == nil {
				w.Violation(i, "enable-succeeded-on-invalid-config:after-monitor-exit", fmt.Sprintf("EnableVerification, called after the monitor had exited (%s), returned (%+v, nil) although the installed config %+v fails Verify", how, conc.FPOf(cfg), initFP), desc)
			}
		} else if eerr == nil && cfg != nil && !conc.Valid(cfg) {
			w.Violation(i, "unverified-config-visible:EnableVerification", fmt.Sprintf("EnableVerification after monitor exit returned a config that fails Verify: %+v", conc.FPOf(cfg)), desc)
		}
		w.Distinct(fmt.Sprintf("enable-after-exit|%s|%v|%d", how, valid, o.NSrc))
		e.Stop()
	}
}
