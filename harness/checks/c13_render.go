package checks

// C13 renderers: four writers (JSON, YAML, TOML, Cue) over ONE data tree.
// They are harness code; nothing here calls dials.

import (
	"encoding/json"
	"fmt"
	"regexp"
	"sort"
	"strconv"
	"strings"
	"time"
	"unicode/utf8"

	"verifharness/fw"
)

type c13Entry struct {
	key string
	val *c13Val
}

type c13Renderer struct {
	r  *fw.Rand
	fm c13Fmt
}

// entries lists what a struct value contributes to a document of format fm:
// the present fields under their effective keys, plus the decoys meant for fm.
func (rd *c13Renderer) entries(v *c13Val) []c13Entry {
	var out []c13Entry
	for i, f := range v.fields {
		out = append(out, c13Entry{f.keys[rd.fm], v.fvals[i]})
	}
	for _, d := range v.decoys {
		if d.fmts[rd.fm] {
			out = append(out, c13Entry{d.key, d.val})
		}
	}
	p := rd.r.Perm(len(out))
	sh := make([]c13Entry, len(out))
	for i, j := range p {
		sh[i] = out[j]
	}
	return sh
}

// ---------------------------------------------------------------------------
// strings

// c13Quote writes s as a double-quoted literal that is valid, with the same
// meaning, in YAML, TOML and Cue: short escapes for quote, backslash, \n, \t,
// \r; \u00XX for other controls; non-ASCII either raw or \uXXXX.
func c13Quote(s string, r *fw.Rand) string { return c13QuoteOpt(s, r, false) }

// c13QuoteValue is c13Quote for string VALUES: now and then a plain ASCII
// character is written as \uXXXX too. (Not for keys: go-toml does not decode
// escapes in the quoted parts of a table header.)
func c13QuoteValue(s string, r *fw.Rand) string { return c13QuoteOpt(s, r, true) }

func c13QuoteOpt(s string, r *fw.Rand, asciiEsc bool) string {
	var b strings.Builder
	b.WriteByte('"')
	for _, c := range s {
		switch {
		case c == '"':
			b.WriteString(`\"`)
		case c == '\\':
			b.WriteString(`\\`)
		case c == '\n':
			b.WriteString(`\n`)
		case c == '\t':
			b.WriteString(`\t`)
		case c == '\r':
			b.WriteString(`\r`)
		case c < 0x20 || c == 0x7f:
			fmt.Fprintf(&b, `\u%04x`, c)
		case c < 0x80:
			// now and then a plain ASCII character as \uXXXX: the same
			// string in YAML, TOML and Cue double-quoted literals
			if asciiEsc && r != nil && r.Chance(4) {
				fmt.Fprintf(&b, `\u%04x`, c)
			} else {
				b.WriteRune(c)
			}
		case c < 0xa0 || c == 0x2028 || c == 0x2029 || c == 0xfeff || c == 0xfffe || c == 0xffff:
			fmt.Fprintf(&b, `\u%04x`, c)
		case c < 0x10000 && r != nil && r.Chance(30):
			fmt.Fprintf(&b, `\u%04x`, c)
		default:
			b.WriteRune(c)
		}
	}
	b.WriteByte('"')
	return b.String()
}

func c13PrintableASCII(s string) bool {
	for i := 0; i < len(s); i++ {
		if s[i] < 0x20 || s[i] > 0x7e {
			return false
		}
	}
	return true
}

var c13PlainRe = regexp.MustCompile(`^[A-Za-z][A-Za-z0-9_./-]*$`)
var c13BareKeyRe = regexp.MustCompile(`^[A-Za-z][A-Za-z0-9_-]*$`)
var c13IdentRe = regexp.MustCompile(`^[A-Za-z][A-Za-z0-9_]*$`)

var c13Reserved = map[string]bool{
	"y": true, "n": true, "yes": true, "no": true, "on": true, "off": true, "true": true, "false": true,
	"null": true, "nan": true, "inf": true, "infinity": true, "nil": true, "none": true,
	"in": true, "for": true, "if": true, "let": true, "import": true, "package": true,
	"div": true, "mod": true, "quo": true, "rem": true, "and": true, "or": true, "len": true, "close": true,
	"string": true, "int": true, "float": true, "bool": true, "number": true, "bytes": true, "uint": true,
}

func c13IsReserved(s string) bool { return c13Reserved[strings.ToLower(s)] }

// str renders a string value for the renderer's format. flow: inside a YAML
// flow collection (only quoted forms there).
func (rd *c13Renderer) str(s string, flow bool) string {
	r := rd.r
	switch rd.fm {
	case c13YAML:
		if c13PrintableASCII(s) && r.Chance(25) {
			return "'" + strings.ReplaceAll(s, "'", "''") + "'"
		}
		if !flow && c13PlainRe.MatchString(s) && !c13IsReserved(s) && r.Chance(30) {
			return s
		}
	case c13TOML:
		if c13PrintableASCII(s) && !strings.Contains(s, "'") && r.Chance(25) {
			return "'" + s + "'"
		}
	case c13Cue:
		if c13PrintableASCII(s) && !strings.ContainsAny(s, "\"\\") && r.Chance(20) {
			return `#"` + s + `"#`
		}
	}
	return c13QuoteValue(s, r)
}

// key renders a struct key (letters, digits, '_' and '-' only) or a data map key.
func (rd *c13Renderer) key(k string, data bool) string {
	r := rd.r
	if !data && !c13IsReserved(k) && r.Chance(60) {
		switch rd.fm {
		case c13YAML, c13TOML:
			if c13BareKeyRe.MatchString(k) {
				return k
			}
		case c13Cue:
			if c13IdentRe.MatchString(k) {
				return k
			}
		}
	}
	if rd.fm == c13TOML && c13PrintableASCII(k) && !strings.Contains(k, "'") && r.Chance(20) {
		return "'" + k + "'"
	}
	if rd.fm == c13YAML && c13PrintableASCII(k) && k != "" && r.Chance(20) {
		return "'" + strings.ReplaceAll(k, "'", "''") + "'"
	}
	return c13Quote(k, r)
}

// ---------------------------------------------------------------------------
// scalars

func c13IsScalarKind(k c13Kind) bool { return k <= c13Text }

func c13TimeTOML(t time.Time) string { return t.Format(time.RFC3339Nano) }

// scalar renders a scalar leaf (not raw) for YAML/TOML/Cue.
func (rd *c13Renderer) scalar(v *c13Val, flow bool) string {
	switch v.node.kind {
	case c13Bool:
		return strconv.FormatBool(v.b)
	case c13Int:
		return rd.intLit(strconv.FormatInt(v.i, 10))
	case c13Uint:
		return rd.intLit(strconv.FormatUint(v.u, 10))
	case c13Float:
		return v.ftext
	case c13String:
		return rd.str(v.s, flow)
	case c13Duration:
		if v.durNS && rd.fm == c13Cue {
			return strconv.FormatInt(int64(v.d), 10)
		}
		if rd.fm == c13YAML && !flow && v.d >= 0 && rd.r.Chance(30) {
			return v.d.String() // plain scalar, the usual way to write a duration in YAML
		}
		return rd.str(v.d.String(), flow)
	case c13Time:
		if rd.fm == c13TOML {
			return c13TimeTOML(v.t) // TOML has a datetime type; go-toml fills time.Time only from it
		}
		if rd.fm == c13YAML && rd.r.Chance(40) {
			return v.s // YAML timestamp scalar
		}
		return c13Quote(v.s, nil)
	case c13IP:
		return c13Quote(v.s, nil)
	case c13Text:
		return rd.str(v.s, flow)
	}
	panic("c13: scalar on non-scalar")
}

// intLit sometimes writes digit-group underscores where the format has them.
func (rd *c13Renderer) intLit(s string) string {
	if (rd.fm == c13TOML || rd.fm == c13Cue) && rd.r.Chance(10) {
		neg := strings.HasPrefix(s, "-")
		d := strings.TrimPrefix(s, "-")
		if len(d) > 3 {
			var b strings.Builder
			for i, c := range d {
				if i > 0 && (len(d)-i)%3 == 0 {
					b.WriteByte('_')
				}
				b.WriteRune(c)
			}
			d = b.String()
		}
		if neg {
			return "-" + d
		}
		return d
	}
	return s
}

// rawInline renders an ill-typed replacement on one line (YAML flow, TOML
// inline, Cue).
func (rd *c13Renderer) rawInline(k c13RawKind) string {
	eq := ": "
	if rd.fm == c13TOML {
		eq = " = "
	}
	switch k {
	case c13RawInt:
		return "5"
	case c13RawBig:
		return "1099511627776"
	case c13RawStr:
		return `"xabc"`
	case c13RawBool:
		return "true"
	case c13RawIntList:
		return "[1, 2]"
	case c13RawStrList:
		return `["1s"]`
	case c13RawMixedList:
		return `[1, "x"]`
	case c13RawMap:
		return "{a" + eq + "1}"
	}
	panic("c13: rawInline")
}

// ---------------------------------------------------------------------------
// JSON

func (rd *c13Renderer) jsonTree(v *c13Val) any {
	switch v.raw {
	case c13RawInt:
		return json.Number("5")
	case c13RawBig:
		return json.Number("1099511627776")
	case c13RawStr:
		return "xabc"
	case c13RawBool:
		return true
	case c13RawIntList:
		return []any{json.Number("1"), json.Number("2")}
	case c13RawStrList:
		return []any{"1s"}
	case c13RawMixedList:
		return []any{json.Number("1"), "x"}
	case c13RawMap:
		return map[string]any{"a": json.Number("1")}
	}
	switch v.node.kind {
	case c13Bool:
		return v.b
	case c13Int:
		return json.Number(strconv.FormatInt(v.i, 10))
	case c13Uint:
		return json.Number(strconv.FormatUint(v.u, 10))
	case c13Float:
		return json.Number(v.ftext)
	case c13Time:
		return c13NoEscStr(v.s)
	case c13String, c13IP, c13Text:
		return v.s
	case c13Duration:
		if v.durNS && (rd.fm == c13JSON || rd.fm == c13Cue) {
			return json.Number(strconv.FormatInt(int64(v.d), 10))
		}
		return v.d.String()
	case c13Slice, c13SliceStruct:
		out := make([]any, len(v.list))
		for i, e := range v.list {
			out[i] = rd.jsonTree(e)
		}
		return out
	case c13Map:
		out := make(map[string]any, len(v.mkeys))
		for i, k := range v.mkeys {
			out[k] = rd.jsonTree(v.mvals[i])
		}
		return out
	case c13Set:
		out := make([]any, len(v.mkeys))
		for i, k := range v.mkeys {
			out[i] = k
		}
		return out
	case c13Struct, c13PtrStruct:
		out := map[string]any{}
		for _, e := range rd.entries(v) {
			out[e.key] = rd.jsonTree(e.val)
		}
		return out
	}
	panic("c13: jsonTree")
}

// JSON string modes. encoding/json never writes an escape it does not have
// to, so documents it produces contain no \uXXXX for printable characters;
// other encoders do (ASCII-only output is the default of several), and a
// JSON string means the same whatever escapes spell it.
const (
	c13JSONStd   = iota // encoding/json's own marshaller
	c13JSONASCII        // every non-ASCII character escaped (surrogate pairs above the BMP)
	c13JSONMixed        // any character, plain ASCII included, may be written as an escape
)

// c13NoEscStr is a string leaf of the generic tree that is always written
// without optional escapes: time.Time's own UnmarshalJSON (Go standard
// library) strips the quotes by hand and never decodes escapes, so an RFC 3339
// string spelled with \uXXXX is not the same data to encoding/json.
type c13NoEscStr string

// c13JSONString writes s as a JSON string literal in the given mode.
func c13JSONString(b *strings.Builder, s string, mode int, r *fw.Rand) {
	hex := func(c rune) {
		if r.Bool() {
			fmt.Fprintf(b, `\u%04x`, c)
		} else {
			fmt.Fprintf(b, `\u%04X`, c)
		}
	}
	esc := func(c rune) {
		if c >= 0x10000 {
			c -= 0x10000
			hex(0xd800 + (c>>10)&0x3ff)
			hex(0xdc00 + c&0x3ff)
			return
		}
		hex(c)
	}
	b.WriteByte('"')
	for _, c := range s {
		short := ""
		switch c {
		case '"':
			short = `\"`
		case '\\':
			short = `\\`
		case '\n':
			short = `\n`
		case '\t':
			short = `\t`
		case '\r':
			short = `\r`
		case '\b':
			short = `\b`
		case '\f':
			short = `\f`
		}
		switch {
		case short != "":
			if mode == c13JSONMixed && r.Chance(40) {
				esc(c)
			} else {
				b.WriteString(short)
			}
		case c < 0x20:
			esc(c)
		case c == '/' && mode == c13JSONMixed && r.Chance(40):
			b.WriteString(`\/`)
		case c >= 0x80 && mode == c13JSONASCII:
			esc(c)
		case mode == c13JSONMixed && r.Chance(20):
			esc(c)
		default:
			b.WriteRune(c)
		}
	}
	b.WriteByte('"')
}

// jsonWrite writes the generic tree with the harness's own JSON writer.
func (rd *c13Renderer) jsonWrite(b *strings.Builder, v any, mode int, indent bool, level int) {
	nl := func(l int) {
		if indent {
			b.WriteByte('\n')
			for k := 0; k < l; k++ {
				b.WriteString("  ")
			}
		}
	}
	switch x := v.(type) {
	case bool:
		b.WriteString(strconv.FormatBool(x))
	case json.Number:
		b.WriteString(string(x))
	case string:
		c13JSONString(b, x, mode, rd.r)
	case c13NoEscStr:
		c13JSONString(b, string(x), c13JSONStd, rd.r)
	case []any:
		if len(x) == 0 {
			b.WriteString("[]")
			return
		}
		b.WriteByte('[')
		for k, e := range x {
			if k > 0 {
				b.WriteByte(',')
			}
			nl(level + 1)
			rd.jsonWrite(b, e, mode, indent, level+1)
		}
		nl(level)
		b.WriteByte(']')
	case map[string]any:
		if len(x) == 0 {
			b.WriteString("{}")
			return
		}
		keys := make([]string, 0, len(x))
		for k := range x {
			keys = append(keys, k)
		}
		sort.Strings(keys)
		p := rd.r.Perm(len(keys))
		b.WriteByte('{')
		for k, pi := range p {
			if k > 0 {
				b.WriteByte(',')
			}
			nl(level + 1)
			c13JSONString(b, keys[pi], mode, rd.r)
			b.WriteByte(':')
			if indent {
				b.WriteByte(' ')
			}
			rd.jsonWrite(b, x[keys[pi]], mode, indent, level+1)
		}
		nl(level)
		b.WriteByte('}')
	default:
		panic(fmt.Sprintf("c13: jsonWrite: unexpected %T", v))
	}
}

func (rd *c13Renderer) renderJSON(top *c13Val) string {
	tree := rd.jsonTree(top)
	switch x := rd.r.Intn(100); {
	case x < 40:
		var b []byte
		var err error
		if rd.r.Bool() {
			b, err = json.MarshalIndent(tree, "", "  ")
		} else {
			b, err = json.Marshal(tree)
		}
		if err != nil {
			panic("c13: json render: " + err.Error())
		}
		return string(b)
	case x < 65:
		var b strings.Builder
		rd.jsonWrite(&b, tree, c13JSONASCII, rd.r.Bool(), 0)
		return b.String()
	default:
		var b strings.Builder
		rd.jsonWrite(&b, tree, c13JSONMixed, rd.r.Bool(), 0)
		return b.String()
	}
}

// ---------------------------------------------------------------------------
// YAML (block style, flow for some leaf collections)

func c13Indent(lines []string, first, rest string) []string {
	out := make([]string, len(lines))
	for i, l := range lines {
		if i == 0 {
			out[i] = first + l
		} else {
			out[i] = rest + l
		}
	}
	return out
}

// yamlValue returns (inline, nil) when the value fits after "key: ", or
// ("", lines) for a block to put on the following lines (already relative to
// the key's indentation + one level).
func (rd *c13Renderer) yamlValue(v *c13Val) (string, []string) {
	if v.raw != c13RawNone {
		return rd.rawInline(v.raw), nil
	}
	r := rd.r
	switch v.node.kind {
	case c13Slice:
		if len(v.list) == 0 {
			return "[]", nil
		}
		if r.Chance(40) {
			parts := make([]string, len(v.list))
			for i, e := range v.list {
				parts[i] = rd.scalar(e, true)
			}
			return "[" + strings.Join(parts, ", ") + "]", nil
		}
		var lines []string
		for _, e := range v.list {
			lines = append(lines, "- "+rd.scalar(e, false))
		}
		return "", lines
	case c13Set:
		if len(v.mkeys) == 0 {
			return "[]", nil
		}
		if r.Chance(40) {
			parts := make([]string, len(v.mkeys))
			for i, k := range v.mkeys {
				parts[i] = rd.str(k, true)
			}
			return "[" + strings.Join(parts, ", ") + "]", nil
		}
		var lines []string
		for _, k := range v.mkeys {
			lines = append(lines, "- "+rd.str(k, false))
		}
		return "", lines
	case c13Map:
		if len(v.mkeys) == 0 {
			return "{}", nil
		}
		var lines []string
		for i, k := range v.mkeys {
			lines = append(lines, rd.yamlEntry(rd.key(k, true), v.mvals[i])...)
		}
		return "", lines
	case c13Struct, c13PtrStruct:
		lines := rd.yamlMapping(v)
		if len(lines) == 0 {
			return "{}", nil
		}
		return "", lines
	case c13SliceStruct:
		var lines []string
		for _, e := range v.list {
			el := rd.yamlMapping(e)
			if len(el) == 0 {
				lines = append(lines, "- {}")
				continue
			}
			lines = append(lines, c13Indent(el, "- ", "  ")...)
		}
		return "", lines
	}
	return rd.scalar(v, false), nil
}

func (rd *c13Renderer) yamlEntry(key string, v *c13Val) []string {
	inline, block := rd.yamlValue(v)
	if block == nil {
		return []string{key + ": " + inline}
	}
	ind := "  "
	if rd.r.Chance(25) {
		ind = "    "
	}
	out := []string{key + ":"}
	return append(out, c13Indent(block, ind, ind)...)
}

func (rd *c13Renderer) yamlMapping(v *c13Val) []string {
	var lines []string
	for _, e := range rd.entries(v) {
		if rd.r.Chance(5) {
			lines = append(lines, "# note")
		}
		lines = append(lines, rd.yamlEntry(rd.key(e.key, false), e.val)...)
	}
	return lines
}

func (rd *c13Renderer) renderYAML(top *c13Val) string {
	lines := rd.yamlMapping(top)
	if len(lines) == 0 {
		return "{}\n"
	}
	s := strings.Join(lines, "\n") + "\n"
	if rd.r.Chance(20) {
		s = "---\n" + s
	}
	return s
}

// ---------------------------------------------------------------------------
// TOML

func (rd *c13Renderer) tomlInline(v *c13Val) string {
	if v.raw != c13RawNone {
		return rd.rawInline(v.raw)
	}
	switch v.node.kind {
	case c13Slice:
		parts := make([]string, len(v.list))
		for i, e := range v.list {
			parts[i] = rd.scalar(e, true)
		}
		return "[" + strings.Join(parts, ", ") + "]"
	case c13Set:
		parts := make([]string, len(v.mkeys))
		for i, k := range v.mkeys {
			parts[i] = rd.str(k, true)
		}
		return "[" + strings.Join(parts, ", ") + "]"
	case c13Map:
		parts := make([]string, len(v.mkeys))
		for i, k := range v.mkeys {
			parts[i] = rd.key(k, true) + " = " + rd.tomlInline(v.mvals[i])
		}
		return "{" + strings.Join(parts, ", ") + "}"
	case c13Struct, c13PtrStruct:
		var parts []string
		for _, e := range rd.entries(v) {
			parts = append(parts, rd.key(e.key, false)+" = "+rd.tomlInline(e.val))
		}
		return "{" + strings.Join(parts, ", ") + "}"
	case c13SliceStruct:
		parts := make([]string, len(v.list))
		for i, e := range v.list {
			parts[i] = rd.tomlInline(e)
		}
		return "[" + strings.Join(parts, ", ") + "]"
	}
	return rd.scalar(v, true)
}

func c13IsTableKind(v *c13Val) bool {
	if v.raw != c13RawNone {
		return false
	}
	switch v.node.kind {
	case c13Map, c13Struct, c13PtrStruct, c13SliceStruct:
		return true
	}
	return false
}

// tomlDotted writes prefix.key = value lines for a struct or map value.
func (rd *c13Renderer) tomlDotted(b *strings.Builder, prefix string, v *c13Val) {
	switch v.node.kind {
	case c13Map:
		for i, k := range v.mkeys {
			fmt.Fprintf(b, "%s.%s = %s\n", prefix, rd.key(k, true), rd.tomlInline(v.mvals[i]))
		}
	default:
		for _, e := range rd.entries(v) {
			k := prefix + "." + rd.key(e.key, false)
			if e.val.raw == c13RawNone && (e.val.node.kind == c13Struct || e.val.node.kind == c13PtrStruct) && len(e.val.fields)+len(e.val.decoys) > 0 && rd.r.Bool() {
				sub := &strings.Builder{}
				rd.tomlDotted(sub, k, e.val)
				if sub.Len() > 0 {
					b.WriteString(sub.String())
					continue
				}
			}
			fmt.Fprintf(b, "%s = %s\n", k, rd.tomlInline(e.val))
		}
	}
}

func c13TomlNonEmpty(v *c13Val, rd *c13Renderer) bool {
	if v.node.kind == c13Map {
		return len(v.mkeys) > 0
	}
	// a struct contributes dotted lines only if something is rendered for this format
	n := len(v.fields)
	for _, d := range v.decoys {
		if d.fmts[rd.fm] {
			n++
		}
	}
	return n > 0
}

// tomlTable writes the body of the table at path (simple keys first, then
// sub-tables with headers).
func (rd *c13Renderer) tomlTable(b *strings.Builder, path string, entries []c13Entry) {
	type later struct {
		key string
		val *c13Val
	}
	var headers []later
	for _, e := range entries {
		k := rd.key(e.key, false)
		if !c13IsTableKind(e.val) {
			fmt.Fprintf(b, "%s = %s\n", k, rd.tomlInline(e.val))
			continue
		}
		x := rd.r.Intn(100)
		switch {
		case x < 30:
			fmt.Fprintf(b, "%s = %s\n", k, rd.tomlInline(e.val))
		case x < 45 && e.val.node.kind != c13SliceStruct && c13TomlNonEmpty(e.val, rd):
			rd.tomlDotted(b, k, e.val)
		default:
			headers = append(headers, later{k, e.val})
		}
		if rd.r.Chance(4) {
			b.WriteString("# note\n")
		}
	}
	for _, h := range headers {
		p := h.key
		if path != "" {
			p = path + "." + h.key
		}
		switch h.val.node.kind {
		case c13Map:
			fmt.Fprintf(b, "[%s]\n", p)
			for i, k := range h.val.mkeys {
				fmt.Fprintf(b, "%s = %s\n", rd.key(k, true), rd.tomlInline(h.val.mvals[i]))
			}
		case c13Struct, c13PtrStruct:
			fmt.Fprintf(b, "[%s]\n", p)
			rd.tomlTable(b, p, rd.entries(h.val))
		case c13SliceStruct:
			for _, el := range h.val.list {
				fmt.Fprintf(b, "[[%s]]\n", p)
				rd.tomlTable(b, p, rd.entries(el))
			}
		}
	}
}

func (rd *c13Renderer) renderTOML(top *c13Val) string {
	var b strings.Builder
	rd.tomlTable(&b, "", rd.entries(top))
	return b.String()
}

// ---------------------------------------------------------------------------
// Cue

func (rd *c13Renderer) cueValue(v *c13Val) string {
	if v.raw != c13RawNone {
		return rd.rawInline(v.raw)
	}
	trail := ""
	if rd.r.Chance(15) {
		trail = ","
	}
	switch v.node.kind {
	case c13Slice:
		parts := make([]string, len(v.list))
		for i, e := range v.list {
			parts[i] = rd.scalar(e, true)
		}
		if len(parts) == 0 {
			return "[]"
		}
		return "[" + strings.Join(parts, ", ") + trail + "]"
	case c13Set:
		parts := make([]string, len(v.mkeys))
		for i, k := range v.mkeys {
			parts[i] = rd.str(k, true)
		}
		if len(parts) == 0 {
			return "[]"
		}
		return "[" + strings.Join(parts, ", ") + trail + "]"
	case c13Map:
		parts := make([]string, len(v.mkeys))
		for i, k := range v.mkeys {
			parts[i] = rd.key(k, true) + ": " + rd.cueValue(v.mvals[i])
		}
		return "{" + strings.Join(parts, ", ") + "}"
	case c13Struct, c13PtrStruct:
		return "{" + rd.cueBody(v, rd.r.Bool()) + "}"
	case c13SliceStruct:
		parts := make([]string, len(v.list))
		for i, e := range v.list {
			parts[i] = "{" + rd.cueBody(e, false) + "}"
		}
		return "[" + strings.Join(parts, ", ") + trail + "]"
	}
	return rd.scalar(v, true)
}

func (rd *c13Renderer) cueBody(v *c13Val, multiline bool) string {
	var parts []string
	for _, e := range rd.entries(v) {
		k := rd.key(e.key, false)
		ev := e.val
		// shorthand  a: b: 1  for a struct with exactly one entry
		if ev.raw == c13RawNone && (ev.node.kind == c13Struct || ev.node.kind == c13PtrStruct) && rd.r.Chance(40) {
			es := rd.entries(ev)
			if len(es) == 1 {
				parts = append(parts, k+": "+rd.key(es[0].key, false)+": "+rd.cueValue(es[0].val))
				continue
			}
		}
		parts = append(parts, k+": "+rd.cueValue(ev))
	}
	if multiline {
		s := ""
		for _, p := range parts {
			if rd.r.Chance(5) {
				s += "// note\n"
			}
			s += p + "\n"
		}
		return "\n" + s
	}
	return strings.Join(parts, ", ")
}

func (rd *c13Renderer) renderCue(top *c13Val) string {
	body := rd.cueBody(top, true)
	if rd.r.Chance(30) {
		return "{" + body + "}\n"
	}
	return body
}

func c13Render(fm c13Fmt, top *c13Val, r *fw.Rand) string {
	rd := &c13Renderer{r: r, fm: fm}
	var s string
	switch fm {
	case c13JSON:
		s = rd.renderJSON(top)
	case c13YAML:
		s = rd.renderYAML(top)
	case c13TOML:
		s = rd.renderTOML(top)
	default:
		s = rd.renderCue(top)
	}
	if !utf8.ValidString(s) {
		panic("c13: renderer produced invalid UTF-8")
	}
	return s
}
