package checks

import (
	"context"
	"encoding/csv"
	"fmt"
	"reflect"
	"sort"
	"strings"

	"github.com/spf13/pflag"
	"github.com/vimeo/dials"
	"github.com/vimeo/dials/ptrify"
	stdflagsrc "github.com/vimeo/dials/sources/flag"
	pflagsrc "github.com/vimeo/dials/sources/pflag"
	"github.com/vimeo/dials/tagformat/caseconversion"

	stdflag "flag"

	"verifharness/fw"
	"verifharness/gen"
)

func init() {
	fw.Register(&fw.Check{
		ID: "C12",
		Rule: "Each case: a seeded reflect.StructOf config type with flag-supported leaves (all integer widths, floats, complex, bool, string, duration, time.Time, net.IP, a harness TextUnmarshaler, []string, integer slices, string maps, sets, string->[]string maps, named scalars; nested/pointer/embedded structs; dials tags verbatim, source-specific tags on some leaves), a random template, and a random argument list (subset of flags, repeats of accumulating flags, any order, -x v / --x=v / bare bool forms), for both sources/flag and sources/pflag via NewSetWithArgs and for the default and a custom NameConfig. " +
			"Oracles: every leaf has a flag whose name is computed from the generator's word lists and verbatim tags; the advertised defaults, fed back as --name=<DefValue> to a second set built from a zero template, must reproduce the template's values; Set.Value stacked over zero defaults must equal the reference layer of exactly the flags in argv (repeated slice flags concatenate, sets union, maps merge, string->[]string maps append per key; the occurrences of a repeated flag are disjoint pieces of the value or OVERLAP: a later occurrence repeats list elements, set members, map entries or map keys that an earlier occurrence already gave); a set's own Parse, when its owner calls it first, must accept the same well-formed argv; a value outside the leaf's range (narrowing probes for every width below the carrier type) must be an error. " +
			"Every fourth case also runs a fixed config type whose leaves are user-declared pointers to pointers (**int, **Level, **string, **float64, **bool, **time.Duration, **uint16, ***int and **int8 one struct down, next to a plain *int) with seeded texts for a seeded subset of flags in both argument forms: each given flag's value must be reachable through every declared level and print as the text given, each flag not given must leave its field nil, and an out-of-range text for a narrow leaf must be an error (violation keys carry ptr-to-ptr-leaves). " +
			"distinct_nontrivial = distinct (package, name config, type-shape, argv pattern) signatures with >=1 flag given and >=1 omitted.",
		Assumptions: []string{
			"named slice/map types get no flag (outside the statement: 'named scalars'); not generated",
			"names falling into the open C19 finding are not generated here",
		},
		MinDistinct: map[string]int{"quick": 8000, "thorough": 1000000},
		MinCounters: map[string]map[string]int64{
			"quick":    {"flags_given_and_compared": 15000, "leaves_expected_unset": 15000, "default_roundtrips_checked": 3000, "out_of_range_probes_rejected": 300, "repeated_flag_accumulations": 1500,
				"later_occurrences_restating_earlier_ones": 500, "set_occurrences_repeating_a_member": 100,
				"ptrptr_flags_given_and_compared": 10000, "ptrptr_leaves_expected_unset": 10000, "ptrptr_out_of_range_probes_rejected": 300},
			"thorough": {"flags_given_and_compared": 600000, "later_occurrences_restating_earlier_ones": 50000, "set_occurrences_repeating_a_member": 10000},
		},
		Plan: func(tier string) fw.Plan {
			if tier == "thorough" {
				return fw.Plan{Shards: 96, CasesPerShard: 30000, Parallel: 16, TimeoutSec: 3000}
			}
			return fw.Plan{Shards: 16, CasesPerShard: 1500, TimeoutSec: 600}
		},
		Run: runC12,
	})
}

func flagLeaves() []*gen.Leaf { return gen.LeavesWith(gen.CapFlag, 0) }

type flagPkg struct {
	name   string
	tagKey string
	// build returns the source, a func listing (name -> DefValue) and the lookup.
	build func(custom bool, tmpl any, args []string) (dials.Source, func() map[string]string, error)
}

var flagPkgs = []flagPkg{
	{"flag", "dialsflag", func(custom bool, tmpl any, args []string) (dials.Source, func() map[string]string, error) {
		cfg := stdflagsrc.DefaultFlagNameConfig()
		if custom {
			cfg = &stdflagsrc.NameConfig{FieldNameEncodeCasing: caseconversion.EncodeUpperCamelCase, TagEncodeCasing: caseconversion.EncodeCasePreservingSnakeCase}
		}
		s, err := stdflagsrc.NewSetWithArgs(cfg, tmpl, args)
		if err != nil {
			return nil, nil, err
		}
		s.Flags.SetOutput(discard{})
		return s, func() map[string]string {
			m := map[string]string{}
			s.Flags.VisitAll(func(f *stdflag.Flag) { m[f.Name] = f.DefValue })
			return m
		}, nil
	}},
	{"pflag", "dialspflag", func(custom bool, tmpl any, args []string) (dials.Source, func() map[string]string, error) {
		cfg := pflagsrc.DefaultFlagNameConfig()
		if custom {
			cfg = &pflagsrc.NameConfig{FieldNameEncodeCasing: caseconversion.EncodeUpperCamelCase, TagEncodeCasing: caseconversion.EncodeCasePreservingSnakeCase}
		}
		s, err := pflagsrc.NewSetWithArgs(cfg, tmpl, args)
		if err != nil {
			return nil, nil, err
		}
		s.Flags.SetOutput(discard{})
		return s, func() map[string]string {
			m := map[string]string{}
			s.Flags.VisitAll(func(f *pflag.Flag) { m[f.Name] = f.DefValue })
			return m
		}, nil
	}},
}

type discard struct{}

func (discard) Write(p []byte) (int, error) { return len(p), nil }

func flagName(pkgTag string, custom bool, lr *gen.LeafRef) string {
	if t, ok := lr.Leaf().Tags[pkgTag]; ok {
		return t
	}
	var parts []string
	for _, f := range lr.Path {
		if t, ok := f.Tags["dials"]; ok && f.TagWords != nil {
			parts = append(parts, t)
		} else if !f.IsEmbedded() {
			parts = append(parts, f.Words...)
		}
	}
	if custom {
		return strings.Join(parts, "_")
	}
	return strings.Join(parts, "-")
}

// splitForRepeats splits an accumulating value into 1-4 argument values and
// returns the value the accumulation must produce, plus the name of the overlap
// pattern if a later occurrence restates something an earlier one already gave
// ("" if the occurrences are disjoint).
func splitForRepeats(r *fw.Rand, lf *gen.Leaf, v reflect.Value) ([]string, reflect.Value, string) {
	n := 1
	switch lf.Type.Kind() {
	case reflect.Slice:
		if lf.Caps&gen.CapTextU != 0 {
			return []string{lf.Text(v)}, v, ""
		}
		if v.Len() >= 1 && r.Chance(15) {
			// a later occurrence repeats elements an earlier occurrence already appended: a list keeps both
			k := r.Range(1, min(2, v.Len()))
			if r.Chance(30) {
				k = v.Len()
			}
			acc := reflect.AppendSlice(reflect.AppendSlice(reflect.MakeSlice(lf.Type, 0, v.Len()+k), v), v.Slice(0, k))
			return []string{lf.Text(v), lf.Text(v.Slice(0, k))}, acc, "list-element-repeated-by-a-later-occurrence"
		}
		if v.Len() < 2 {
			return []string{lf.Text(v)}, v, ""
		}
		n = r.Range(1, min(3, v.Len()))
		if n == 1 {
			return []string{lf.Text(v)}, v, ""
		}
		var out []string
		per := (v.Len() + n - 1) / n
		for s := 0; s < v.Len(); s += per {
			e := min(s+per, v.Len())
			out = append(out, lf.Text(v.Slice(s, e)))
		}
		return out, v, ""
	case reflect.Map:
		keys := v.MapKeys()
		sort.Slice(keys, func(i, j int) bool { return keys[i].String() < keys[j].String() })
		sub := func(ks ...reflect.Value) string {
			m := reflect.MakeMap(lf.Type)
			for _, k := range ks {
				m.SetMapIndex(k, v.MapIndex(k))
			}
			return lf.Text(m)
		}
		if lf.Type.Elem().Kind() == reflect.Struct && len(keys) >= 1 && r.Chance(40) {
			// a set: later occurrences name members that earlier occurrences already added; the result is the union
			switch pat := r.Intn(3); {
			case pat == 0 || len(keys) == 1:
				return []string{lf.Text(v), lf.Text(v)}, v, "set-same-value-twice"
			case pat == 1:
				a := r.Range(1, len(keys))
				b := r.Intn(a)
				return []string{sub(keys[:a]...), sub(keys[b:]...)}, v, "set-occurrences-overlap"
			}
			var out []string
			for _, k := range keys {
				out = append(out, sub(k))
			}
			last := []reflect.Value{keys[r.Intn(len(keys)-1)]}
			if r.Bool() {
				last = append(last, keys[len(keys)-1])
			}
			return append(out, sub(last...)), v, "set-last-occurrence-repeats-an-earlier-member"
		}
		if lf.Type.Elem().Kind() == reflect.Slice && len(keys) >= 1 && r.Chance(35) {
			// string -> []string: a later occurrence names a key again; its values are appended to the key's list
			k0 := keys[r.Intn(len(keys))]
			old := v.MapIndex(k0)
			extra := reflect.MakeSlice(lf.Type.Elem(), 0, 2)
			if old.Len() > 0 && r.Bool() {
				extra = reflect.Append(extra, old.Index(0)) // the very value the key already holds
			}
			if extra.Len() == 0 || r.Bool() {
				extra = reflect.Append(extra, reflect.ValueOf("later").Convert(lf.Type.Elem().Elem()))
			}
			acc := reflect.MakeMap(lf.Type)
			for _, k := range keys {
				acc.SetMapIndex(k, v.MapIndex(k))
			}
			acc.SetMapIndex(k0, reflect.AppendSlice(reflect.AppendSlice(reflect.MakeSlice(lf.Type.Elem(), 0, old.Len()+extra.Len()), old), extra))
			second := reflect.MakeMap(lf.Type)
			second.SetMapIndex(k0, extra)
			return []string{lf.Text(v), lf.Text(second)}, acc, "list-map-key-named-again-by-a-later-occurrence"
		}
		if len(keys) < 2 || r.Bool() {
			return []string{lf.Text(v)}, v, ""
		}
		if lf.Type.Elem().Kind() == reflect.String && r.Chance(40) {
			if r.Chance(30) {
				// a later occurrence restates an entry exactly as an earlier one gave it
				return []string{lf.Text(v), sub(keys[r.Intn(len(keys))])}, v, "map-entry-restated-by-a-later-occurrence"
			}
			// an early occurrence gives one key an older value; a later, larger occurrence restates it: the later one wins
			first := reflect.MakeMap(lf.Type)
			first.SetMapIndex(keys[0], reflect.ValueOf("superseded").Convert(lf.Type.Elem()))
			return []string{lf.Text(first), lf.Text(v)}, v, "map-entry-superseded-by-a-later-occurrence"
		}
		var out []string
		for _, k := range keys {
			out = append(out, sub(k))
		}
		return out, v, ""
	}
	return []string{lf.Text(v)}, v, ""
}

// narrowingProbe returns an out-of-range literal for leaves narrower than their flag's carrier type.
func narrowingProbe(lf *gen.Leaf) string {
	if lf.Type.Kind() == reflect.Slice && lf.Caps&gen.CapTextU == 0 {
		// an element just outside the element type's range, after a valid one
		var lit string
		switch lf.Type.Elem().Kind() {
		case reflect.Int8:
			lit = "128"
		case reflect.Int16:
			lit = "32768"
		case reflect.Int32:
			lit = "2147483648"
		case reflect.Int, reflect.Int64:
			lit = "9223372036854775808"
		case reflect.Uint8:
			lit = "256"
		case reflect.Uint16:
			lit = "65536"
		case reflect.Uint32:
			lit = "4294967296"
		case reflect.Uint, reflect.Uint64:
			lit = "18446744073709551616"
		default:
			return ""
		}
		return "1," + lit
	}
	switch lf.Type.Kind() {
	case reflect.Int8:
		return "128"
	case reflect.Int16:
		return "-32769"
	case reflect.Int32:
		return "2147483648"
	case reflect.Uint8:
		return "256"
	case reflect.Uint16:
		return "65536"
	case reflect.Uint32:
		return "4294967296"
	case reflect.Float32:
		return "3.5e38"
	case reflect.Int, reflect.Int64:
		return "9223372036854775808"
	case reflect.Uint, reflect.Uint64:
		return "18446744073709551616"
	case reflect.Complex64:
		return "(1e39+1i)"
	}
	return ""
}

func runC12(w *fw.Worker) {
	w.Cases(func(i int, r *fw.Rand) {
		pk := flagPkgs[i%2]
		if i%8 == 3 || i%8 == 6 {
			// own random stream: the generated case below keeps the values it had before these episodes existed
			c12PtrPtr(w, i, fw.NewRand(fw.Mix(w.CaseSeed(i), 0x5a17c0de)), pk)
		}
		custom := r.Chance(30)
		o := gen.GenOpts{MaxDepth: 3 - r.Intn(2), MaxFields: r.Range(2, 6), StructPct: r.Range(10, 45), TagPct: r.Range(0, 40), SkipPct: r.Range(0, 15),
			Leaves: flagLeaves(), InitialismPct: 20, SingleLetterPct: 3, UnicodePct: 8}
		spec := gen.RandomSpec(r, o)
		leaves := spec.LeafRefs()
		for k, lr := range leaves {
			if r.Chance(12) {
				lr.Leaf().Tags[pk.tagKey] = fmt.Sprintf("custom-%s-%d", gen.Kebab(lr.Leaf().Words), k)
			}
		}
		if !gen.FlattenedNamesDistinct(leaves) {
			w.Count("skipped_ambiguous_flag_names", 1)
			return
		}
		names := map[string]*gen.LeafRef{}
		for _, lr := range leaves {
			n := flagName(pk.tagKey, custom, lr)
			if names[n] != nil {
				w.Count("skipped_ambiguous_flag_names", 1)
				return
			}
			names[n] = lr
		}
		c := &gen.Counter{}
		tmpl := reflect.New(spec.Type())
		tmpl.Elem().Set(spec.RandomDefaults(r, c, r.Range(0, 70)))
		tmplClone := gen.CloneValue(tmpl.Elem())
		ptrType := ptrify.Pointerify(spec.Type(), tmpl.Elem())
		layer := &gen.Layer{Vals: map[*gen.LeafRef]reflect.Value{}}
		var args [][]string // each entry is the argv words of one flag occurrence
		setPct := r.Range(15, 75)
		var probe *gen.LeafRef
		repeats := 0
		occurrences, overlapOf := map[*gen.LeafRef]int{}, map[*gen.LeafRef]string{}
		var overlaps []string // later occurrences restating what earlier ones gave (counted once the case was compared)
		var pattern strings.Builder
		for _, lr := range leaves {
			lf := lr.Leaf().Leaf
			if !r.Chance(setPct) {
				pattern.WriteByte('0')
				continue
			}
			name := flagName(pk.tagKey, custom, lr)
			dash := "--"
			if pk.name == "flag" && r.Bool() {
				dash = "-"
			}
			if probe == nil && r.Chance(5) {
				if lit := narrowingProbe(lf); lit != "" {
					probe = lr
					args = append(args, []string{dash + name + "=" + lit})
					pattern.WriteByte('P')
					continue
				}
			}
			v := lf.Gen(r, c.Next())
			texts, acc, overlap := splitForRepeats(r, lf, v)
			if k := lf.Type.Kind(); (k == reflect.Slice || k == reflect.Map) && lf.Caps&gen.CapTextU == 0 && r.Chance(10) {
				// the flag is given with an empty value: the leaf becomes an empty (non-nil) collection, whatever the template holds
				if k == reflect.Slice {
					v = reflect.MakeSlice(lf.Type, 0, 0)
				} else {
					v = reflect.MakeMap(lf.Type)
				}
				texts, acc, overlap = []string{""}, v, ""
				w.Count("flags_given_with_an_empty_value", 1)
			}
			if pk.name == "pflag" && lf.Name == "[]string" && v.Len() > 0 {
				// pflag's own StringSlice flag reads CSV, not Go-quoted lists
				texts, overlap = nil, ""
				items := pflagCSVNorm(v.Interface().([]string))
				acc = reflect.ValueOf(items)
				k := r.Range(1, len(items))
				per := (len(items) + k - 1) / k
				for s0 := 0; s0 < len(items); s0 += per {
					texts = append(texts, csvLine(items[s0:min(s0+per, len(items))]))
				}
			}
			if k := lf.Type.Kind(); (k == reflect.Slice || k == reflect.Map) && lf.Caps&gen.CapTextU == 0 && len(texts) > 0 && texts[0] != "" && r.Chance(10) {
				// an empty occurrence before the others adds nothing
				texts = append([]string{""}, texts...)
				w.Count("empty_occurrence_before_others", 1)
			}
			layer.Vals[lr] = acc
			if len(texts) > 1 {
				repeats++
			}
			occurrences[lr] = len(texts)
			if overlap != "" {
				overlaps = append(overlaps, overlap)
				overlapOf[lr] = overlap
			}
			pattern.WriteByte(byte('0' + len(texts)))
			for _, t := range texts {
				switch {
				case lf.Type.Kind() == reflect.Bool:
					if v.Bool() && r.Bool() {
						args = append(args, []string{dash + name})
					} else {
						args = append(args, []string{dash + name + "=" + t})
					}
				case r.Chance(35) && t != "":
					args = append(args, []string{dash + name, t})
				default:
					args = append(args, []string{dash + name + "=" + t})
				}
			}
		}
		// random interleaving of the flags' occurrences that keeps each flag's own occurrences in order
		groups := map[string][]int{}
		var gnames []string
		for k, a := range args {
			n := strings.SplitN(a[0], "=", 2)[0]
			if _, ok := groups[n]; !ok {
				gnames = append(gnames, n)
			}
			groups[n] = append(groups[n], k)
		}
		var argv []string
		for left := len(args); left > 0; left-- {
			g := gnames[r.Intn(len(gnames))]
			for len(groups[g]) == 0 {
				g = gnames[r.Intn(len(gnames))]
			}
			argv = append(argv, args[groups[g][0]]...)
			groups[g] = groups[g][1:]
		}
		witness := func() any {
			return map[string]any{"package": pk.name, "custom_name_config": custom, "type": spec.Describe(), "template": fmt.Sprintf("%+v", tmplClone), "argv": argv}
		}
		if r.Chance(20) {
			// some other component asked for the default naming configuration and customised ITS copy
			pc := pflagsrc.DefaultFlagNameConfig()
			pc.TagEncodeCasing, pc.FieldNameEncodeCasing = caseconversion.EncodeUpperSnakeCase, caseconversion.EncodeUpperSnakeCase
			sc := stdflagsrc.DefaultFlagNameConfig()
			sc.TagEncodeCasing, sc.FieldNameEncodeCasing = caseconversion.EncodeUpperSnakeCase, caseconversion.EncodeUpperSnakeCase
			w.Count("default_name_configs_customised_by_someone_else", 1)
		}
		if r.Chance(40) {
			// elsewhere in the process the same struct type was registered earlier under the other naming configuration
			if other, _, oerr := pk.build(!custom, tmpl.Interface(), nil); oerr == nil {
				other.Value(context.Background(), dials.NewType(ptrType))
			}
			w.Count("cases_after_a_set_with_the_other_name_config", 1)
		}
		src, defs, err := pk.build(custom, tmpl.Interface(), argv)
		if err != nil {
			w.Violation(i, "flag-registration-error:"+pk.name, err.Error(), witness())
			return
		}
		// names
		defvals := defs()
		for n, lr := range names {
			if _, ok := defvals[n]; !ok {
				shape := "plain"
				if _, ok := lr.Leaf().Tags[pk.tagKey]; ok {
					shape = "source-tag"
				}
				w.Violation(i, "flag-missing-or-misnamed:"+pk.name+":"+shape+":"+lr.Leaf().Leaf.Name, fmt.Sprintf("no flag named %q for leaf %s; flags: %v", n, lr, keysOf(defvals)), witness())
				return
			}
		}
		// errClass: which flag does a parse error name, and how was that flag given
		errClass := func(e error) string {
			class, best := "", ""
			for n, lr := range names {
				if len(n) > len(best) && (strings.Contains(e.Error(), "-"+n+":") || strings.Contains(e.Error(), "--"+n+"\"")) {
					best = n
					class = ":" + lr.Leaf().Leaf.Name
					switch {
					case overlapOf[lr] != "":
						class += ":" + overlapOf[lr]
					case occurrences[lr] > 1:
						class += ":repeated-flag"
					default:
						class += ":single-occurrence"
					}
				}
			}
			return class
		}
		if probe == nil && r.Chance(25) {
			// the program parses the FlagSet itself (as cobra or a main() with other flags would) before dials asks for
			// the values: nothing may be parsed, or accumulated, a second time
			var perr error
			switch ps := src.(type) {
			case *pflagsrc.Set:
				perr = ps.Flags.Parse(argv)
			case *stdflagsrc.Set:
				perr = ps.Flags.Parse(argv)
			}
			if perr != nil {
				// every value in argv is well-formed (no probe): the set's own flags must accept it whoever calls Parse
				w.Violation(i, "owner-parse-error-on-well-formed-argv:"+pk.name+errClass(perr), perr.Error(), witness())
				return
			}
			w.Count("flagsets_parsed_by_their_owner_first", 1)
		}
		got, verr := src.Value(context.Background(), dials.NewType(ptrType))
		if probe != nil {
			if verr == nil {
				w.Violation(i, "out-of-range-flag-accepted:"+pk.name+":"+probe.Leaf().Leaf.Name, fmt.Sprintf("leaf %s", probe), witness())
				return
			}
			w.Count("out_of_range_probes_rejected", 1)
			return
		}
		if verr != nil {
			w.Violation(i, "value-error-on-well-formed-argv:"+pk.name+errClass(verr), verr.Error(), witness())
			return
		}
		zero := reflect.New(spec.Type())
		res, cerr := dials.VerifCompose(zero.Interface(), []reflect.Value{got})
		if cerr != nil {
			w.Violation(i, "compose-error-on-flag-value:"+pk.name, cerr.Error(), witness())
			return
		}
		want := gen.ReferenceStack(reflect.New(spec.Type()).Elem(), []*gen.Layer{layer})
		if d := gen.Diff(want, reflect.ValueOf(res).Elem()); d != "" {
			w.Violation(i, "flag-result-differs:"+pk.name+":"+c11Classify(spec, leaves, layer, d), "reference vs flag source at "+d, witness())
			return
		}
		if i%3 == 0 {
			// the same source asked again (one Set handed to a second Config): the same flags, the same answer
			againV, againErr := src.Value(context.Background(), dials.NewType(ptrType))
			w.Count("sources_asked_a_second_time", 1)
			if againErr != nil {
				w.Violation(i, "value-error-on-the-second-call:"+pk.name, againErr.Error(), witness())
				return
			}
			res2, cerr2 := dials.VerifCompose(reflect.New(spec.Type()).Interface(), []reflect.Value{againV})
			if cerr2 != nil {
				w.Violation(i, "compose-error-on-flag-value:"+pk.name+":second-call", cerr2.Error(), witness())
				return
			}
			if d := gen.Diff(want, reflect.ValueOf(res2).Elem()); d != "" {
				w.Violation(i, "flag-result-differs-on-the-second-call:"+pk.name, "reference vs the source's second answer at "+d, witness())
				return
			}
		}
		w.Count("flags_given_and_compared", int64(len(layer.Vals)))
		w.Count("leaves_expected_unset", int64(len(leaves)-len(layer.Vals)))
		w.Count("repeated_flag_accumulations", int64(repeats))
		for _, ov := range overlaps {
			w.Count("later_occurrences_restating_earlier_ones", 1)
			if strings.HasPrefix(ov, "set-") {
				w.Count("set_occurrences_repeating_a_member", 1)
			}
			w.SetAdd("overlap_patterns:"+pk.name, ov)
		}
		// advertised defaults denote the template's values
		var args2 []string
		for n, dv := range defvals {
			if lr := names[n]; lr != nil && pk.name == "pflag" && lr.Leaf().Leaf.Name == "[]string" {
				// pflag's own StringSlice prints its default as "[csv]", which it
				// does not read back; compare the text instead
				tv := leafValue(tmplClone, lr)
				wantText := "[]"
				if tv.IsValid() && tv.Len() > 0 {
					wantText = "[" + csvLine(tv.Interface().([]string)) + "]"
				}
				if dv != wantText {
					w.Violation(i, "advertised-default-differs-from-template:pflag:[]string", fmt.Sprintf("flag %s advertises %q, template value prints as %q", n, dv, wantText), witness())
					return
				}
				defvals[n] = ""
				continue
			}
			if dv != "" {
				args2 = append(args2, "--"+n+"="+dv)
			}
		}
		sort.Strings(args2)
		zt := reflect.New(spec.Type())
		src2, _, err2 := pk.build(custom, zt.Interface(), args2)
		if err2 != nil {
			w.Violation(i, "flag-registration-error:"+pk.name, err2.Error(), witness())
			return
		}
		zptr := ptrify.Pointerify(spec.Type(), zt.Elem())
		got2, verr2 := src2.Value(context.Background(), dials.NewType(zptr))
		if verr2 != nil {
			w.Violation(i, "advertised-default-does-not-parse:"+pk.name, fmt.Sprintf("%v (args %v)", verr2, args2), witness())
			return
		}
		res2, _ := dials.VerifCompose(reflect.New(spec.Type()).Interface(), []reflect.Value{got2})
		// expectation: the template's value for every flagged leaf (nil *struct parents zero)
		wantDef := reflect.New(spec.Type()).Elem()
		for _, lr := range leaves {
			tv := leafValue(tmplClone, lr)
			if !tv.IsValid() {
				continue // nil pointer struct on the way: zero default
			}
			if dv := defvals[flagName(pk.tagKey, custom, lr)]; dv == "" {
				continue
			}
			l1 := &gen.Layer{Vals: map[*gen.LeafRef]reflect.Value{lr: tv}}
			l1.ApplyTo(wantDef)
		}
		if d := diffLeavesOnly(spec, leaves, wantDef, reflect.ValueOf(res2).Elem(), defvals, pk.tagKey, custom); d != "" {
			w.Violation(i, "advertised-default-differs-from-template:"+pk.name+":"+c01Classify(spec, d), d, map[string]any{"case": witness(), "default_args": args2})
			return
		}
		w.Count("default_roundtrips_checked", 1)
		for lr := range layer.Vals {
			w.SetAdd("leaf_kinds_given:"+pk.name, lr.Leaf().Leaf.Name)
		}
		if len(layer.Vals) > 0 && len(layer.Vals) < len(leaves) {
			w.Distinct(pk.name + fmt.Sprint(custom) + spec.Signature() + "#" + pattern.String())
		}
		if i%211 == 0 {
			w.Sample(witness())
		}
	})
}

// pflagCSVNorm: pflag's own StringSlice flag reads its value with encoding/csv, which turns "\r\n" inside a quoted
// field into "\n" (third-party format): values for such flags are generated without that sequence.
func pflagCSVNorm(items []string) []string {
	out := make([]string, len(items))
	for k, it := range items {
		out[k] = strings.ReplaceAll(it, "\r\n", "\n")
	}
	return out
}

func csvLine(items []string) string {
	var b strings.Builder
	cw := csv.NewWriter(&b)
	cw.Write(items)
	cw.Flush()
	return strings.TrimSuffix(b.String(), "\n")
}

func keysOf(m map[string]string) []string {
	out := make([]string, 0, len(m))
	for k := range m {
		out = append(out, k)
	}
	sort.Strings(out)
	return out
}

// leafValue fetches the leaf's value from a value of the spec's type (invalid if a nil pointer is on the way).
func leafValue(v reflect.Value, lr *gen.LeafRef) reflect.Value {
	for _, f := range lr.Path {
		for v.Kind() == reflect.Ptr {
			if v.IsNil() {
				return reflect.Value{}
			}
			v = v.Elem()
		}
		v = v.FieldByName(f.Name)
	}
	return v
}

// diffLeavesOnly compares leaf by leaf (semantically: nil and empty collections are the same default).
func diffLeavesOnly(spec *gen.Spec, leaves []*gen.LeafRef, want, got reflect.Value, defvals map[string]string, tagKey string, custom bool) string {
	for _, lr := range leaves {
		a, b := leafValue(want, lr), leafValue(got, lr)
		if !a.IsValid() {
			a = reflect.Zero(lr.Leaf().Leaf.Type)
		}
		if !b.IsValid() {
			b = reflect.Zero(lr.Leaf().Leaf.Type)
		}
		switch a.Kind() {
		case reflect.Slice, reflect.Map:
			if a.Len() == 0 && b.Len() == 0 {
				continue
			}
		}
		if d := gen.Diff(a, b); d != "" {
			p := ""
			for _, f := range lr.Path {
				p += "." + f.Name
			}
			return p + d + fmt.Sprintf(" (DefValue %q)", defvals[flagName(tagKey, custom, lr)])
		}
	}
	return ""
}
