package checks

// C13 static corpus: one compiled-in config type that goes through the public
// generic API (dials.Config with a static.StringSource) in addition to the
// direct decoder path, and one hand-written four-format document set with a
// hand-checked expected config (a floor under the generators).

import (
	"context"
	"fmt"
	"net"
	"reflect"
	"time"

	"github.com/vimeo/dials"
	"github.com/vimeo/dials/sources/static"

	"verifharness/fw"
)

type c13StaticInner struct {
	Depth  int                 `dials:"depth" yaml:"yaml_depth"`
	Wait   time.Duration       `dials:"wait"`
	Labels map[string]string   `dials:"labels"`
	Tags   map[string]struct{} `dials:"tags" json:"jsonTags"`
	// an exported field whose Go name starts with an upper-case letter
	// outside ASCII (the key is given by the tag, as for every field)
	Ürl string `dials:"url"`
}

// Embedded (anonymous) members of the static type. With their dials tags
// they are named members of the document. C13Quota and *C13Pool carry the tag
// a Go programmer would write (the type's name in another case), C13Backoff a
// tag spelled differently from its name.
type C13Quota struct {
	MaxConns int           `dials:"max_conns"`
	Burst    time.Duration `dials:"burst"`
}

type C13Pool struct {
	Size  int32    `dials:"size"`
	Names []string `dials:"names"`
}

type C13Backoff struct {
	Factor float64 `dials:"factor"`
}

type c13Static struct {
	ListenAddr string              `geojson:"Point" dials:"listen_addr"`
	MaxConn    int32               `dials:"max_conn" json:"maxConn" goyaml:"mc" oldtoml:"legacy_name"`
	Ratio      float64             `dials:"ratio" toml:"toml-ratio"`
	Debug      bool                `dials:"debug"`
	Timeout    time.Duration       `dials:"timeout"`
	Started    time.Time           `dials:"started"`
	Peer       net.IP              `dials:"peer"`
	Pair       C13Text             `dials:"pair"`
	Hosts      []string            `dials:"hosts"`
	Ports      []uint16            `dials:"ports" yaml:"yamlPorts"`
	Limits     map[string]int64    `dials:"limits"`
	Seen       map[string]struct{} `dials:"seen"`
	Ignored    int                 `dials:"-"`
	Inner      c13StaticInner      `dials:"inner"`
	Opt        *c13StaticInner     `dials:"opt" cue:"inert"`
	Items      []c13StaticInner    `dials:"items"`
	C13Quota   `dials:"c13quota"`
	*C13Pool   `dials:"c13Pool"`
	C13Backoff `dials:"back_off"`
	// exported fields whose Go names start with an upper-case letter outside
	// ASCII: a leaf, a duration, a pointer to a struct
	Ärger   string        `dials:"aerger"`
	Öffnung time.Duration `dials:"oeffnung"`
	Éclair  *C13Backoff   `dials:"eclair"`
}

func (c *c13Run) configStatic(fm c13Fmt, doc string) (*c13Static, *dials.Dials[c13Static], error) {
	dflt := c.newDefaults().Interface().(*c13Static)
	d, err := dials.Config(context.Background(), dflt, &static.StringSource{Data: doc, Decoder: c13NewDecoder(fm, true)})
	if err != nil || d == nil {
		return nil, d, err
	}
	return d.View(), d, nil
}

func (c *c13Run) configStaticValid(res [4]c13Result, merged *c13Val) {
	for fm := c13JSON; fm <= c13Cue; fm++ {
		if res[fm].err != nil {
			continue
		}
		name := c13FmtNames[fm]
		view, _, err := c.configStatic(fm, res[fm].doc)
		if err != nil {
			c.w.Violation(c.i, "config-api-error:"+name, fmt.Sprintf("dials.Config with a %s StringSource failed on a valid document: %v", name, err), c.witness(fm, res[fm].doc, nil))
			continue
		}
		if view == nil {
			c.w.Violation(c.i, "config-api-nil:"+name, "dials.Config returned neither an error nor a config", c.witness(fm, res[fm].doc, nil))
			continue
		}
		c.w.Count("config_api_valid", 1)
		m := &c13Matcher{fm: fm}
		m.matchFields(c.schema, merged, reflect.ValueOf(view).Elem(), true, "", false, false)
		if view.Ignored != 42 {
			m.add("absent-key-set", ".Ignored", c13Leaf(c13Int, 0), false, false, false, fmt.Sprintf("dials:\"-\" field changed from 42 to %d", view.Ignored))
		}
		if len(m.diffs) > 0 {
			c.reportDiffs("config-api-", fm, res[fm].doc, m.diffs)
		}
	}
}

func (c *c13Run) configStaticRejected(fm c13Fmt, doc, kind, class string) {
	name := c13FmtNames[fm]
	view, d, err := c.configStatic(fm, doc)
	c.w.Count("config_api_rejected", 1)
	if err == nil || d != nil || view != nil {
		c.w.Violation(c.i, "config-api-"+kind+"-accepted:"+name+":"+class,
			fmt.Sprintf("dials.Config with a %s StringSource on a%s document (class %s): err=%v, Dials non-nil=%v", name,
				map[string]string{"illtyped": "n ill-typed", "malformed": " malformed"}[kind], class, err, d != nil),
			c.witness(fm, doc, nil))
	}
}

var c13FixedDocs = [4]string{
	`{"listen_addr":"0.0.0.0:8080","maxConn":250,"ratio":0.75,"debug":true,"timeout":"1m30s",
 "started":"2021-03-04T05:06:07.5+01:00","peer":"192.168.1.7","pair":"left|right","hosts":["a.example","b.example"],
 "ports":[80,443],"limits":{"rps":1000,"burst":-5},"seen":["x","y","x"],
 "inner":{"depth":3,"wait":2500000000,"labels":{"env":"prod"},"jsonTags":["t1"],"url":"http://in"},"opt":{"depth":-1},
 "items":[{"depth":1,"wait":"1s","url":"http://one"},{"labels":{"k":"v"}}],
 "c13quota":{"max_conns":64,"burst":"250ms"},"c13Pool":{"size":8,"names":["p1","p2"]},"back_off":{"factor":1.5},
 "aerger":"viel","oeffnung":3000000000,"eclair":{"factor":0.25}}`,
	`listen_addr: "0.0.0.0:8080"
max_conn: 250
ratio: 0.75
debug: true
timeout: 1m30s
started: 2021-03-04T05:06:07.5+01:00
peer: 192.168.1.7
pair: left|right
hosts:
  - a.example
  - b.example
yamlPorts: [80, 443]
limits:
  rps: 1000
  burst: -5
seen: [x, "y", x]
inner:
  yaml_depth: 3
  wait: 2.5s
  labels:
    env: prod
  tags:
    - t1
  url: http://in
opt:
  yaml_depth: -1
items:
  - yaml_depth: 1
    wait: 1s
    url: http://one
  - labels:
      k: v
c13quota:
  max_conns: 64
  burst: 250ms
c13Pool:
  size: 8
  names: [p1, p2]
back_off:
  factor: 1.5
aerger: viel
oeffnung: 3s
eclair:
  factor: 0.25
`,
	`listen_addr = "0.0.0.0:8080"
max_conn = 250
toml-ratio = 0.75
debug = true
timeout = "1m30s"
started = 2021-03-04T05:06:07.5+01:00
peer = "192.168.1.7"
pair = "left|right"
hosts = ["a.example", "b.example"]
ports = [80, 443]
seen = ["x", "y", "x"]
aerger = "viel"
oeffnung = "3s"

[limits]
rps = 1000
burst = -5

[inner]
depth = 3
wait = "2.5s"
tags = ["t1"]
url = "http://in"
[inner.labels]
env = "prod"

[opt]
depth = -1

[[items]]
depth = 1
wait = "1s"
url = "http://one"
[[items]]
[items.labels]
k = "v"

[c13quota]
max_conns = 64
burst = "250ms"

[c13Pool]
size = 8
names = ["p1", "p2"]

[back_off]
factor = 1.5

[eclair]
factor = 0.25
`,
	`listen_addr: "0.0.0.0:8080"
maxConn: 250
ratio: 0.75
debug: true
timeout: "1m30s"
started: "2021-03-04T05:06:07.5+01:00"
peer: "192.168.1.7"
pair: "left|right"
hosts: ["a.example", "b.example"]
ports: [80, 443]
limits: {rps: 1000, burst: -5}
seen: ["x", "y", "x"]
inner: {
	depth: 3
	wait: 2500000000
	labels: env: "prod"
	jsonTags: ["t1"]
	url: "http://in"
}
opt: depth: -1
items: [{depth: 1, wait: "1s", url: "http://one"}, {labels: k: "v"}]
c13quota: {max_conns: 64, burst: "250ms"}
c13Pool: {size: 8, names: ["p1", "p2"]}
back_off: factor: 1.5
aerger: "viel"
oeffnung: "3s"
eclair: factor: 0.25
`,
}

// c13FixedStatic: hand-written documents, hand-checked expectation, public API.
func c13FixedStatic(w *fw.Worker, idx int) {
	want := c13Static{
		ListenAddr: "0.0.0.0:8080", MaxConn: 250, Ratio: 0.75, Debug: true, Timeout: 90 * time.Second,
		Started: time.Date(2021, 3, 4, 5, 6, 7, 500000000, time.FixedZone("", 3600)),
		Peer:    net.ParseIP("192.168.1.7"), Pair: C13Text{A: "left", B: "right"},
		Hosts: []string{"a.example", "b.example"}, Ports: []uint16{80, 443},
		Limits: map[string]int64{"rps": 1000, "burst": -5}, Seen: map[string]struct{}{"x": {}, "y": {}},
		Ignored:  42,
		Inner:    c13StaticInner{Depth: 3, Wait: 2500 * time.Millisecond, Labels: map[string]string{"env": "prod"}, Tags: map[string]struct{}{"t1": {}}, Ürl: "http://in"},
		Opt:      &c13StaticInner{Depth: -1},
		Items:    []c13StaticInner{{Depth: 1, Wait: time.Second, Ürl: "http://one"}, {Labels: map[string]string{"k": "v"}}},
		C13Quota: C13Quota{MaxConns: 64, Burst: 250 * time.Millisecond}, C13Pool: &C13Pool{Size: 8, Names: []string{"p1", "p2"}},
		C13Backoff: C13Backoff{Factor: 1.5},
		Ärger:      "viel", Öffnung: 3 * time.Second, Éclair: &C13Backoff{Factor: 0.25},
	}
	for fm := c13JSON; fm <= c13Cue; fm++ {
		name := c13FmtNames[fm]
		dflt := &c13Static{ListenAddr: ":80", MaxConn: 10, Ratio: 0.5, Timeout: 5 * time.Second, Hosts: []string{"default"},
			Limits: map[string]int64{"rps": 1}, Ignored: 42, Inner: c13StaticInner{Depth: 9, Wait: time.Second, Labels: map[string]string{"a": "b"}},
			C13Quota: C13Quota{MaxConns: 1, Burst: time.Second}, C13Backoff: C13Backoff{Factor: 2},
			Ärger: "default-aerger", Öffnung: time.Minute}
		d, err := dials.Config(context.Background(), dflt, &static.StringSource{Data: c13FixedDocs[fm], Decoder: c13NewDecoder(fm, true)})
		w.Count("fixed_corpus_documents", 1)
		if err != nil {
			w.Violation(idx, "fixed-corpus-error:"+name, fmt.Sprintf("hand-written %s document rejected: %v", name, err), map[string]any{"document": c13FixedDocs[fm]})
			continue
		}
		got := d.View()
		if !c13DeepEq(reflect.ValueOf(*got), reflect.ValueOf(want)) {
			w.Violation(idx, "fixed-corpus-mismatch:"+name, fmt.Sprintf("hand-written %s document: got %+v, want %+v", name, *got, want), map[string]any{"document": c13FixedDocs[fm]})
		}
	}
}

// c13FixedTextSlice: the smallest member of the slice-of-time.Time family.
func c13FixedTextSlice(w *fw.Worker, idx int) {
	f := &c13Field{name: "Windows", dialsKey: "windows", node: c13SliceOf(c13Leaf(c13Time, 0)), tag: `dials:"windows"`}
	for fm := c13JSON; fm <= c13Cue; fm++ {
		f.keys[fm] = "windows"
	}
	schema := c13StructOf([]*c13Field{f})
	c := &c13Run{w: w, i: idx, r: fw.NewRand(77), schema: schema, T: schema.typ, family: "slice-of-time.Time(fixed)"}
	vg := &c13ValGen{r: c.r}
	c.defaults = &c13Val{node: schema}
	c.pt = ptrifyFor(c)
	elem := vg.value(f.node.elem, 100)
	tree := &c13Val{node: schema, fields: []*c13Field{f}, fvals: []*c13Val{{node: f.node, list: []*c13Val{elem}}}}
	c.judgeValid(tree)
}

type c13Backend struct {
	MaxConn int           `dials:"max_conn"`
	Wait    time.Duration `dials:"wait"`
}

type c13MapOfStruct struct {
	Backends map[string]c13Backend `dials:"backends"`
}

// c13ObserveMapOfStruct records (without judging) what the decoders do with
// a string-keyed map whose VALUES are structs with dials tags. The statement
// lists "string-keyed maps" without saying whether struct values are meant,
// so this shape is observed only (DESIGN section 6).
func c13ObserveMapOfStruct(w *fw.Worker) {
	docs := [4]string{
		`{"backends":{"a":{"max_conn":5,"wait":"3s"}}}`,
		"backends:\n  a:\n    max_conn: 5\n    wait: 3s\n",
		"[backends.a]\nmax_conn = 5\nwait = \"3s\"\n",
		`backends: a: {max_conn: 5, wait: "3s"}`,
	}
	for fm := c13JSON; fm <= c13Cue; fm++ {
		d, err := dials.Config(context.Background(), &c13MapOfStruct{}, &static.StringSource{Data: docs[fm], Decoder: c13NewDecoder(fm, false)})
		outcome := ""
		switch {
		case err != nil:
			outcome = "error: " + c13Trim(err.Error(), 160)
		case reflect.DeepEqual(d.View().Backends, map[string]c13Backend{"a": {MaxConn: 5, Wait: 3 * time.Second}}):
			outcome = "read as tagged"
		default:
			outcome = fmt.Sprintf("no error, got %+v", d.View().Backends)
		}
		w.SetAdd("observed_only_map_of_struct", c13FmtNames[fm]+": "+outcome)
	}
	w.Count("observed_only_probes", 1)
}
