package checks

import (
	"context"
	"encoding/json"
	"fmt"
	"os"
	"path/filepath"
	"reflect"
	"strings"

	"github.com/vimeo/dials/ez"
	stdflagsrc "github.com/vimeo/dials/sources/flag"
	"github.com/vimeo/dials/tagformat/caseconversion"
	yaml "gopkg.in/yaml.v2"

	"verifharness/fw"
)

type c14EzNested struct {
	IdleTimeout int    `dials:"idleTimeout" dialsalias:"idleLimit"`
	Plain       string `dials:"plainField"`
	// alias tags that belong to other sources only: in a file this field has one name
	Zone string `dials:"zone" dialsenvalias:"LEGACY_ZONE" dialspflagalias:"legacy-zone"`
}

type c14EzCfg struct {
	Path        string      `dials:"path"`
	BindAddress string      `dials:"bindAddress" dialsalias:"listenAddress"`
	MaxConn     int         `dialsalias:"connLimit"`
	Nested      c14EzNested `dials:"nestedBlock" dialsalias:"legacyBlock"`
	// a collection under an alias: an explicitly empty list is a value too
	HostList []string `dials:"hostList" dialsalias:"serverList"`
	// the flag source knows this field under two names, the file decoder and the environment source under one
	Region string `dials:"region" dialsflagalias:"oldRegion"`
}

// ConfigPath implements ez.ConfigWithConfigPath.
func (c *c14EzCfg) ConfigPath() (string, bool) { return c.Path, c.Path != "" }

// c14Ez: aliases through the ez entry points, with and without a FileFieldNameEncoder (which re-cases primary AND alias names).
func c14Ez(w *fw.Worker, i int, r *fw.Rand) {
	kebab := r.Chance(65)
	useYAML := r.Bool()
	key := func(lowerCamel string, words ...string) string {
		if kebab {
			return strings.Join(words, "-")
		}
		return lowerCamel
	}
	type field struct {
		goName         string
		primary, alias string
		nested         bool
	}
	fields := []field{
		{"BindAddress", key("bindAddress", "bind", "address"), key("listenAddress", "listen", "address"), false},
		// without a dials tag and without an encoder the primary key is the decoder's own default for the field name
		{"MaxConn", key(map[bool]string{true: "maxconn", false: "MaxConn"}[useYAML], "max", "conn"), key("connLimit", "conn", "limit"), false},
		{"IdleTimeout", key("idleTimeout", "idle", "timeout"), key("idleLimit", "idle", "limit"), true},
	}
	doc := map[string]any{}
	nested := map[string]any{}
	want := c14EzCfg{}
	var both []string
	pat := ""
	uniq := 10
	for _, f := range fields {
		p := r.Intn(4)
		pat += fmt.Sprint(p)
		tgt := doc
		if f.nested {
			tgt = nested
		}
		val := func() any {
			uniq++
			if f.goName == "BindAddress" {
				return fmt.Sprintf("addr%d", uniq)
			}
			return uniq
		}
		set := func(v any) {
			switch f.goName {
			case "BindAddress":
				want.BindAddress = v.(string)
			case "MaxConn":
				want.MaxConn = v.(int)
			case "IdleTimeout":
				want.Nested.IdleTimeout = v.(int)
			}
		}
		switch p {
		case 1:
			v := val()
			tgt[f.primary] = v
			set(v)
		case 2:
			v := val()
			tgt[f.alias] = v
			set(v)
		case 3:
			tgt[f.primary] = val()
			tgt[f.alias] = val()
			both = append(both, f.goName)
		}
	}
	// the aliased list: neither / primary / alias / both, with empty lists among the values
	hostDefault := []string(nil)
	if r.Bool() {
		hostDefault = []string{"from-default"}
	}
	want.HostList = hostDefault
	{
		hp, ha := key("hostList", "host", "list"), key("serverList", "server", "list")
		list := func() []string {
			if r.Chance(40) {
				return []string{}
			}
			uniq++
			return []string{fmt.Sprintf("h%d", uniq)}
		}
		p := r.Intn(4)
		pat += fmt.Sprintf("|list=%d", p)
		switch p {
		case 1:
			l := list()
			doc[hp], want.HostList = l, l
		case 2:
			l := list()
			doc[ha], want.HostList = l, l
		case 3:
			doc[hp], doc[ha] = list(), list()
			both = append(both, "HostList")
		}
		if l, ok := doc[hp].([]string); ok && len(l) == 0 {
			pat += "e"
		}
		if l, ok := doc[ha].([]string); ok && len(l) == 0 {
			pat += "E"
		}
	}
	if r.Bool() {
		nested[key("plainField", "plain", "field")] = "pf"
		want.Nested.Plain = "pf"
	}
	foreign := ""
	if r.Chance(60) {
		nested["zone"] = "z1"
		want.Nested.Zone = "z1"
		foreign += "z"
	}
	if r.Chance(60) {
		doc["region"] = "r1"
		want.Region = "r1"
		foreign += "r"
	}
	if foreign != "" {
		w.Count("leaves_with_only_another_sources_alias_tag_supplied", int64(len(foreign)))
	}
	pat += "|" + foreign
	// the struct-typed field is aliased too: its section may appear under either name (inner aliases work in both),
	// and a document holding both keys is an error even when one section is empty
	blockPrimary, blockAlias := key("nestedBlock", "nested", "block"), key("legacyBlock", "legacy", "block")
	blockPat := "none"
	if len(nested) > 0 {
		switch r.Intn(6) {
		case 0, 1:
			blockPat = "primary"
			doc[blockPrimary] = nested
		case 2, 3:
			blockPat = "alias"
			doc[blockAlias] = nested
		case 4:
			blockPat = "both-one-empty"
			if r.Bool() {
				doc[blockPrimary], doc[blockAlias] = nested, map[string]any{}
			} else {
				doc[blockPrimary], doc[blockAlias] = map[string]any{}, nested
			}
			both = append(both, "Nested")
		case 5:
			blockPat = "both"
			doc[blockPrimary], doc[blockAlias] = nested, map[string]any{key("plainField", "plain", "field"): "other"}
			both = append(both, "Nested")
		}
	} else if r.Chance(30) {
		blockPat = "one-empty-section"
		doc[fw.Pick(r, []string{blockPrimary, blockAlias})] = map[string]any{}
	}
	pat += "|" + blockPat
	var text []byte
	ext := ".json"
	if useYAML {
		text, _ = yaml.Marshal(doc)
		ext = ".yaml"
	} else {
		text, _ = json.Marshal(doc)
	}
	path := filepath.Join(w.Scratch, fmt.Sprintf("c14ez_%d%s", i, ext))
	if err := os.WriteFile(path, text, 0o644); err != nil {
		w.Note("cannot write scratch file: " + err.Error())
		return
	}
	defer os.Remove(path)
	cfg := &c14EzCfg{Path: path, HostList: append([]string(nil), hostDefault...)}
	want.Path = path
	fs, err := stdflagsrc.NewSetWithArgs(stdflagsrc.DefaultFlagNameConfig(), cfg, nil)
	if err != nil {
		w.Violation(i, "ez-flag-registration-error", err.Error(), nil)
		return
	}
	// (the config has no set-typed field, so switching the automatic set-to-slice conversion off changes nothing)
	noSetSlice := r.Chance(35)
	params := ez.Params[c14EzCfg]{FlagSource: fs, DisableAutoSetToSlice: noSetSlice}
	if kebab {
		params.FileFieldNameEncoder = caseconversion.EncodeKebabCase
		params.DialsTagNameDecoder = caseconversion.DecodeGoTags
	}
	desc := map[string]any{"source": "ez", "file_field_name_encoder_kebab": kebab, "yaml": useYAML, "document": string(text), "pattern": pat, "disable_auto_set_to_slice": noSetSlice}
	ctx, cancel := context.WithCancel(context.Background())
	defer cancel()
	d, derr := ez.FileExtensionDecoderConfigEnvFlag(ctx, cfg, params)
	w.Count("aliased_leaves_judged", 5)
	w.Count("ez_alias_cases", 1)
	if len(both) > 0 {
		if derr == nil {
			w.Violation(i, "both-primary-and-alias-accepted:ez:block="+blockPat, fmt.Sprintf("fields %v supplied under both names, no error", both), desc)
			return
		}
		named := false
		for _, f := range both {
			if strings.Contains(derr.Error(), f) {
				named = true
			}
		}
		if !named {
			w.Violation(i, "both-set-error-does-not-name-the-field:ez", derr.Error(), desc)
			return
		}
		w.Count("both_set_errors_checked", 1)
	} else {
		if derr != nil {
			w.Violation(i, "error-without-both-set:ez:block="+blockPat, derr.Error(), desc)
			return
		}
		got := *d.View()
		if !reflect.DeepEqual(got, want) {
			cls := "file-field-name-encoder"
			if !kebab {
				cls = "plain"
			}
			cls += ":block=" + blockPat
			if got.Region != want.Region || got.Nested.Zone != want.Nested.Zone {
				cls += ":field-whose-only-alias-tags-belong-to-other-sources"
			}
			w.Violation(i, "alias-result-differs:ez:"+cls, fmt.Sprintf("want %+v got %+v", want, got), desc)
			return
		}
	}
	w.Distinct(fmt.Sprintf("ez|%v%v|%s", kebab, useYAML, pat))
}
