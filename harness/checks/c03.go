package checks

import (
	"context"
	"encoding/json"
	"fmt"
	"os"
	"os/exec"
	"path/filepath"
	"reflect"
	"strconv"
	"strings"
	"time"

	"github.com/vimeo/dials"

	"verifharness/fw"
)

func init() {
	fw.Register(&fw.Check{
		ID: "C03",
		Rule: "Each case draws a graph plan (1..12 nodes quick, 1..24 thorough; random Next/Kids/Pair/Pairs/M/MM/Any/Leaf edges incl. self-loops, cycles, diamonds, shared maps, " +
			"map[string]any containing itself, interface payloads *Node, Node, []*Node, [2]*Node, map[string]*Node, **Node, []any, typed nils) and materialises it twice: one graph is given to dials, " +
			"the disjoint twin is the expectation. Path (a), 3 of 4 cases: node family A (direct *Node field) through the real deep copier (VerifDeepCopy) with 5 entry shapes. " +
			"Path (b), 1 of 4 cases: node family B (recursion through slices, arrays, maps, interfaces only) through dials.Config + View, with the graph in the defaults, in static source values, " +
			"in a watching source's value and in 1..2 blocking re-stacks. Every result is judged by reflect.DeepEqual against the expectation, by the identity-bijection walk (split/merge) over pointer- and map-typed " +
			"struct fields, slice/array elements and map values, and by identity-set disjointness from every input (freshness: pointers, maps incl. empty non-nil ones, slice backing arrays with cap>0, interface-held ones included). " +
			"Every node also has exported dials:\"-\" fields (Skip *Node, SkipM map, SkipS slice, SkipAny any) populated like any other edge: sources cannot set them, defaults and nested nodes carry them through every copy, and they are judged like any other location. " +
			"Interface payloads include overlapping windows of one backing array ([]*Node views Backs[i][lo:hi] and []any views: same start/different length, different start, same header twice); deep equality is judged for them, what their copies share is only counted. " +
			"Interface payloads also include structs held by value that have non-zero unexported fields (time.Time with and without a *Location, a harness struct with private fields and an exported reference); they must come out reflect.DeepEqual, and the monitor compares their unexported scalar fields itself (key unexported-field-lost:<type>). " +
			"In path (b) each source hands its value over in one of three forms: pointer to the pointerified struct, addressable struct value, non-addressable struct value (reflect.ValueOf(v.Interface())); freshness is judged against every value handed over (key suffix :shared-with-non-addressable-source-value). " +
			"Nodes are also held BY VALUE: entry shape holder-with-by-value-nodes (path a) and a holder config type (path b, defaults + no-op source + 0..2 re-stacks) place 1..6 nodes in Head (struct field), Arr ([2]Node) and Arena ([]Node) ahead of All/Idx/Any; a by-value node points at itself, at earlier by-value nodes and at heap nodes, anything may point at Head; the address of every addressable by-value struct takes part in the judged bijection (key split:pointer-to-by-value-struct). Pointers met BEFORE their by-value target is copied (forward pointers between arena elements, heap nodes pointing into the arena) are not generated: the copier gives those a stand-alone duplicate (order dependence, same class as interior pointers: observed, see FINDINGS). " +
			"Every node has an array-valued map MA map[string][2]*Node (also as interface payload), judged like any other location (key suffix -in-array-valued-map). " +
			"Empty non-nil maps and zero-length slices with spare capacity are generated in every position (struct field, map value, []any element, interface payload). " +
			"A case is distinct and non-trivial when its judged graph contains a reference cycle or a pointer/map identity referenced from >=2 locations; signature = path + entry/scenario + plan JSON. " +
			"Not generated (kept to the fixed corpus or out of scope): a []any that reaches itself without passing a pointer or map; two layers that both set Any with a pointer/struct/scalar payload. " +
			"Leaf pointers into another node's ID field (interior pointers) are used in ~2.4% of path (a) graphs; they are outside the quantifier (not an edge between nodes), so their identity is measured (interior_pointer_identity_lost), never judged. " +
			"Family R (1 of 16 cases, path a, entry shapes 1..5, heap nodes only): the same node struct, but every reference between nodes (struct fields, slice/array elements, map values, pointers held in interface values, pointees of pointer-to-pointer) is of a DEFINED pointer type (type Ref *Node), which is a pointer type like any other but not reflect.PointerTo(Node); judged exactly like family A (key suffix :defined-pointer-type). " +
			"Layers sharing nodes (1 of 32 cases, path b): the defaults, the values of 2..3 sources and 0..2 values a watching source reports later are all cut from ONE materialisation of a family-B graph, so several layers of one stack refer to the same nodes, maps, slices and structs; the config type has three slots of type pointer-to-unnamed-struct with nil-able fields only (Pointerify maps that type to itself, so the config adopts a layer's copy of such a struct and later layers are merged through the pointer) plus Roots []*Node and Idx map[string]*Node. Expectation: every layer taken on its own (a private twin per layer), stacked field by field in source order; judged by reflect.DeepEqual and freshness against every value handed over (key suffix :layers-sharing-nodes); no identity walk. " +
			"A fixed corpus (regression cases for the repaired defects and hand-written topologies) runs at every seed in shard 0, each case in its own child process.",
		Assumptions: []string{
			"interior pointers (a pointer to a field inside a node) are not edges of the quantified graphs: generated at low rate, observed only",
			"freshness is judged for every pointer, map (empty ones included) and slice backing array with capacity > 0 reachable from a result, wherever it is held (struct field, element, map value, interface payload, pointee); zero-capacity slices are skipped (runtime.zerobase)",
			"identity clause judged only at the locations the statement lists (pointer-/map-typed struct fields, slice/array elements, map values); references that are the dynamic value of an interface, pointees of pointer-to-pointer and the root handle are measured (held_identity_kept/lost), not judged",
			"node types with a direct *Node struct field make ptrify.Pointerify recurse on the type, so family A is exercised through the deep copier only; dials.Config sees family B only",
			"layers sharing nodes: what the copies of two different layers of one stack share with one another is not judged (the statement's identity clause is read per supplied value); one layer never puts the same struct into two slots (a later layer merged into one of them would be seen through the other: a layering question, not a copying one); the slot structs have no interface-typed field",
			"family R mixes no unnamed *Node references with the defined pointer type (a node referenced through both types is outside what is generated)",
			"in path (b) a source never sets Any when the defaults' Any is non-nil (merge semantics of two non-nil interface values are outside C03)",
			"map keys are strings; scalar payloads are int and string",
			"reflect.DeepEqual and the harness's reflect walks are trusted",
		},
		MinDistinct: map[string]int{"quick": 120000, "thorough": 1500000},
		MinCounters: map[string]map[string]int64{
			"quick": {"iso_locations_compared": 10000000, "cycles_through_interface": 200000, "b_views_judged": 60000, "b_restacks": 20000, "fixed_cases_run": 40, "judged_ptr_locations": 3000000, "judged_map_locations": 500000, "held_refs_measured": 300000,
				"a_graphs_defined_pointer_type": 8000, "layered_views_judged": 5000, "layered_stacks_merging_into_a_struct_a_later_layer_also_refers_to": 2000},
			"thorough": {"iso_locations_compared": 150000000, "cycles_through_interface": 3000000, "b_views_judged": 800000, "b_restacks": 300000, "fixed_cases_run": 40, "judged_ptr_locations": 40000000, "judged_map_locations": 7000000, "held_refs_measured": 4000000,
				"a_graphs_defined_pointer_type": 100000, "layered_views_judged": 60000, "layered_stacks_merging_into_a_struct_a_later_layer_also_refers_to": 25000},
		},
		Plan: func(tier string) fw.Plan {
			if tier == "thorough" {
				return fw.Plan{Shards: 16, CasesPerShard: 180000, TimeoutSec: 3000}
			}
			return fw.Plan{Shards: 16, CasesPerShard: 15000, TimeoutSec: 600}
		},
		Run: runC03,
	})
}

// c03Viol records a violation, but stops handing a key to the framework once
// it was reported 8 times by this worker (the framework keeps 5 per key and
// re-writes its violation file on every call; a broken copier fails
// thousands of cases and must not turn the run into a timeout).
var c03ViolSeen = map[string]int{}

func c03Viol(w *fw.Worker, i int, key, detail string, witness any) {
	c03ViolSeen[key]++
	if c03ViolSeen[key] > 8 {
		w.Count("violations_beyond_per_key_cap", 1)
		return
	}
	w.Violation(i, key, detail, witness)
}

func c03JSON(v any) string {
	b, err := json.Marshal(v)
	if err != nil {
		return fmt.Sprintf("%+v", v)
	}
	return string(b)
}

func runC03(w *fw.Worker) {
	fixed := c03Fixed()
	// the fixed corpus first: its verdicts survive a shard that a random case kills
	if w.ReplayCase < 0 && w.Shard == 0 {
		for k := range fixed {
			c03RunIsolated(w, w.N+k, &fixed[k])
		}
	}
	w.Cases(func(i int, r *fw.Rand) {
		if i >= w.N {
			// fixed corpus case, in-process (child of c03RunIsolated, or ./run replay)
			k := i - w.N
			if k >= len(fixed) {
				return
			}
			c03RunFixed(w, i, &fixed[k])
			return
		}
		maxNodes := w.Pick(12, 24)
		if i%4 == 3 && r.Chance(15) {
			// by-value nodes in the defaults of a holder config type
			p := c03GenPlan(r, "B", c03GenOpts{MaxNodes: maxNodes})
			c03AddByValueNodes(r, p, r.Range(1, 6))
			restacks := r.Intn(3)
			w.BeginDesc(i, fmt.Sprintf("b-holder:restacks=%d:%s", restacks, c03JSON(p)))
			c03RunHolderConfig(w, i, p, restacks, "")
		} else if i%32 == 7 {
			// two or three layers of one stack whose values share nodes
			ls := c03GenLayered(r, maxNodes)
			w.BeginDesc(i, "b-layers:"+c03JSON(ls))
			c03RunLayered(w, i, ls, "")
		} else if i%4 == 3 {
			sc := c03GenScenario(r, maxNodes)
			w.BeginDesc(i, "b:"+c03JSON(sc))
			c03RunScenario(w, i, sc, "")
		} else {
			entry := r.Intn(6)
			interior := 0
			if r.Chance(6) && entry != 5 {
				interior = 40
			}
			fam := "A"
			if i%16 == 5 {
				// family R: every reference is of a defined pointer type
				// (heap nodes only: no holder entry shape)
				fam = "R"
				if entry == 5 {
					entry = 0
				}
			}
			p := c03GenPlan(r, fam, c03GenOpts{MaxNodes: maxNodes, Interior: interior})
			if entry == 5 {
				c03AddByValueNodes(r, p, r.Range(1, 6))
			}
			w.BeginDesc(i, fmt.Sprintf("a:entry=%d:%s", entry, c03JSON(p)))
			c03RunDeepCopy(w, i, p, entry, "")
		}
	})
}

// ---------------------------------------------------------------------------
// path (a): the deep copier directly

var c03EntryNames = []string{"root-pointer", "slice-of-all-nodes", "struct-value", "map-of-all-nodes", "addressable-struct", "holder-with-by-value-nodes"}

func c03RunDeepCopy(w *fw.Worker, i int, p *c03Plan, entry int, fixedName string) {
	in := c03Build(p)
	exp := c03Build(p)
	mk := func(b *c03Built) reflect.Value {
		switch entry {
		case 1:
			s := reflect.MakeSlice(b.fam.slice, len(b.nodes), len(b.nodes))
			for j, n := range b.nodes {
				s.Index(j).Set(n)
			}
			return s
		case 2:
			return reflect.ValueOf(b.root().Elem().Interface())
		case 3:
			m := reflect.MakeMap(b.fam.mp)
			for j, n := range b.nodes {
				m.SetMapIndex(reflect.ValueOf("n"+strconv.Itoa(j)), n)
			}
			return m
		case 4:
			return b.root().Elem()
		case 5:
			c03FillHolder(b, p)
			return b.holder
		}
		return b.root()
	}
	inV, expV := mk(in), mk(exp)
	out := dials.VerifDeepCopy(inV)
	w.Count("a_graphs", 1)
	w.SetAdd("a_entry_shapes", c03EntryNames[entry])
	where := "deepcopy"
	if p.Fam == "R" {
		where = "deepcopy:" + c03DefinedPtr
		w.Count("a_graphs_defined_pointer_type", 1)
		w.SetAdd("a_entry_shapes_defined_pointer_type", c03EntryNames[entry])
	}
	if !out.IsValid() || out.Type() != inV.Type() {
		c03Viol(w, i, "wrong-result-type:"+where, fmt.Sprintf("VerifDeepCopy(%s) returned %v", inV.Type(), out), map[string]any{"plan": p, "entry": c03EntryNames[entry], "fixed": fixedName})
		return
	}
	ok := c03Judge(w, i, where, expV, out, []c03Input{{v: inV}}, exp, map[string]any{"plan": p, "entry": c03EntryNames[entry], "fixed": fixedName},
		"a|"+c03EntryNames[entry]+"|"+c03JSON(p))
	if p.Fam == "R" && ok {
		w.Count("a_graphs_defined_pointer_type_held", 1)
	}
}

// c03DefinedPtr: key suffix for graphs whose references are of a defined
// pointer type (family R).
const c03DefinedPtr = "defined-pointer-type"

// c03Judge applies the three oracles to one result. exp is the harness-built
// expectation (twin of the input), out what dials produced, ins every value
// that was handed to dials.
func c03Judge(w *fw.Worker, i int, where string, exp, out reflect.Value, ins []c03Input, expBuilt *c03Built, witness map[string]any, sig string) bool {
	ok := true
	// (1) deep equality, by the standard library
	if !reflect.DeepEqual(exp.Interface(), out.Interface()) {
		c03Viol(w, i, "not-deep-equal:"+where, "result is not reflect.DeepEqual to what was supplied", witness)
		ok = false
	}
	// (2) identity bijection
	iso := newC03Iso()
	if expBuilt != nil {
		iso.interior = map[uintptr]bool{}
		for _, n := range expBuilt.nodes {
			iso.interior[n.Elem().Field(expBuilt.fam.fID).Addr().Pointer()] = true
		}
	}
	iso.walk(exp, out, false)
	w.Count("iso_locations_compared", iso.locations)
	w.Count("judged_ptr_locations", iso.ptrJudged)
	w.Count("judged_map_locations", iso.mapJudged)
	w.Count("held_refs_measured", iso.heldMeasured)
	w.Count("held_identity_kept", iso.heldKept)
	w.Count("held_identity_lost", iso.heldLost)
	w.Count("unexported_fields_compared", iso.unexportedCompared)
	w.Count("by_value_struct_locations_judged", iso.byValueLocs)
	w.Count("by_value_structs_met_through_overlapping_views", iso.viewsMeasured)
	w.Count("interior_pointers_measured", iso.interiorMeasured)
	w.Count("interior_pointer_identity_lost", iso.interiorLost)
	if iso.err != nil {
		wit := map[string]any{"path": iso.err.Path, "detail": iso.err.Detail}
		for k, v := range witness {
			wit[k] = v
		}
		key := iso.err.Kind + ":" + where
		if strings.HasSuffix(where, c03TwoLayers) {
			// one class whatever the step and the reference kind
			key = strings.SplitN(iso.err.Kind, ":", 2)[0] + ":" + c03TwoLayers
		}
		c03Viol(w, i, key, iso.err.String(), wit)
		ok = false
	}
	// (3) freshness
	ow := newC03Walk()
	ow.walk(out, false, false)
	var iws []*c03Walk
	for _, in := range ins {
		iw := newC03Walk()
		iw.tag = in.tag
		iw.walk(in.v, false, false)
		if in.tag != "" {
			w.Count("inputs_"+strings.ReplaceAll(in.tag, "-", "_"), 1)
		}
		iws = append(iws, iw)
	}
	hits := c03NotFresh(ow, iws...)
	w.Count("fresh_identities_checked", int64(len(ow.idents)))
	w.Count("fresh_slice_backing_arrays_checked", int64(len(ow.spans)))
	for _, hit := range hits {
		wit := map[string]any{"identity": hit.Detail}
		for k, v := range witness {
			wit[k] = v
		}
		key := "not-fresh:" + hit.Label + ":" + where
		if hit.Tag != "" {
			key += ":shared-with-" + hit.Tag
		}
		c03Viol(w, i, key, "result is not fresh: "+hit.Detail, wit)
		ok = false
	}
	// evidence about the judged graph (the expectation is isomorphic to the input)
	ew := newC03Walk()
	ew.walk(exp, false, false)
	sp, sm := ew.shared()
	w.Count("cycles", int64(ew.cycles))
	w.Count("cycles_through_interface", int64(ew.cyclesIface))
	w.Count("self_loops", int64(ew.selfLoops))
	w.Count("shared_pointer_identities", int64(sp))
	w.Count("shared_map_identities", int64(sm))
	w.Count("typed_nil_pointers_in_interfaces", int64(ew.typedNilIface))
	w.Count("empty_non_nil_maps", int64(ew.emptyMaps))
	w.Count("zero_length_slices_with_capacity", int64(ew.spareSlices))
	// overlapping views of one backing array: what their copies share is not
	// in the statement; observed only
	w.Count("overlapping_slice_views_in_inputs", int64(ew.overlappingSpans()))
	w.Count("overlapping_slice_views_in_results", int64(ow.overlappingSpans()))
	w.Count("interface_held_refs_in_inputs", int64(ew.ifaceHeldRefs))
	for f := range ew.feats {
		w.SetAdd("features", f)
	}
	if ew.nonTrivial() {
		w.Distinct(sig)
		w.Count("nontrivial_results_judged", 1)
	} else {
		w.Count("trivial_results_judged", 1)
	}
	if ok && (ew.cyclesIface > 0 || sm > 0) && w.WantSample() {
		w.Sample(map[string]any{"where": where, "case": i, "witness": witness, "cycles": ew.cycles, "cycles_through_interface": ew.cyclesIface,
			"shared_pointers": sp, "shared_maps": sm, "locations_compared": iso.locations})
	}
	return ok
}

// ---------------------------------------------------------------------------
// path (b): dials.Config + View + re-stack

const c03TwoLayers = "any-set-by-two-layers"

var c03BFields = []string{"ID", "Kids", "Pair", "Pairs", "M", "MM", "Any", "Leaf", "MA"}

type c03SrcPlan struct {
	Plan *c03Plan `json:"plan"`
	Set  []string `json:"set"` // root fields this source sets (nil-valued ones stay unset)
	Ptr  bool     `json:"ptr"` // hand over a pointer to the pointerified struct
	// NoAddr (when !Ptr): hand over a NON-addressable struct value
	// (reflect.ValueOf(v.Interface())) instead of an addressable one.
	NoAddr bool `json:"noaddr,omitempty"`
}

type c03Scenario struct {
	Defaults *c03Plan     `json:"defaults"`
	Sources  []c03SrcPlan `json:"sources"`
	Watch    int          `json:"watch"`   // index into Sources of the watching source, -1 none
	Updates  []c03SrcPlan `json:"updates"` // values the watching source reports (blocking) after Config
}

func c03GenSrc(r *fw.Rand, maxNodes int, anyAllowed bool) c03SrcPlan {
	s := c03SrcPlan{Plan: c03GenPlan(r, "B", c03GenOpts{MaxNodes: maxNodes}), Ptr: r.Intn(3) == 0}
	if !s.Ptr {
		s.NoAddr = r.Bool()
	}
	for _, f := range c03BFields {
		if f == "Any" && !anyAllowed {
			continue
		}
		if r.Chance(55) {
			s.Set = append(s.Set, f)
		}
	}
	return s
}

func c03GenScenario(r *fw.Rand, maxNodes int) *c03Scenario {
	sc := &c03Scenario{Watch: -1}
	mode := r.Intn(10)
	switch {
	case mode < 3: // graph in the defaults only
		sc.Defaults = c03GenPlan(r, "B", c03GenOpts{MaxNodes: maxNodes})
		if r.Bool() {
			sc.Sources = append(sc.Sources, c03SrcPlan{Plan: c03TrivialPlan("B"), Set: []string{"ID"}})
		}
	case mode < 5: // graph in one source only
		sc.Defaults = c03TrivialPlan("B")
		s := c03GenSrc(r, maxNodes, true)
		s.Set = []string{"Kids", "Pair", "Pairs", "M", "MM", "Any", "Leaf", "MA"}
		sc.Sources = append(sc.Sources, s)
	default: // both
		sc.Defaults = c03GenPlan(r, "B", c03GenOpts{MaxNodes: maxNodes})
		anyOK := sc.Defaults.Nodes[0].Any.K == "nil" || sc.Defaults.Nodes[0].Any.K == ""
		for n := r.Range(1, 3); n > 0; n-- {
			sc.Sources = append(sc.Sources, c03GenSrc(r, maxNodes, anyOK))
		}
	}
	anyOK := sc.Defaults.Nodes[0].Any.K == "nil" || sc.Defaults.Nodes[0].Any.K == ""
	if r.Chance(60) {
		if len(sc.Sources) == 0 || r.Chance(30) {
			sc.Sources = append(sc.Sources, c03GenSrc(r, maxNodes, anyOK))
		}
		sc.Watch = r.Intn(len(sc.Sources))
		for n := r.Range(1, 2); n > 0; n-- {
			sc.Updates = append(sc.Updates, c03GenSrc(r, maxNodes, anyOK))
		}
		if r.Chance(25) {
			// report the very same plan again (an identical re-stack)
			sc.Updates = append(sc.Updates, sc.Updates[len(sc.Updates)-1])
		}
	}
	// At most one layer (the defaults or one source position) sets Any: what
	// overlaying one non-nil interface value on another should give is a
	// layering question (C01), not a copying one.
	strip := func(sp *c03SrcPlan) {
		var keep []string
		for _, f := range sp.Set {
			if f != "Any" {
				keep = append(keep, f)
			}
		}
		sp.Set = keep
	}
	// Exception (30% of scenarios): layers above the owner may set Any too when
	// their payload is a slice, array or map: overlayInterface replaces the
	// lower value by such a payload as a whole, so the expectation is the top
	// layer's value.
	replaceKind := func(sp *c03SrcPlan) bool {
		switch sp.Plan.Nodes[0].Any.K {
		case "slice", "arr", "map", "mm", "amap", "aslice":
			return true
		}
		return false
	}
	owner := -1
	if anyOK && len(sc.Sources) > 0 {
		owner = r.Intn(len(sc.Sources))
	}
	stack := owner >= 0 && r.Chance(30)
	for k := range sc.Sources {
		if k == owner || (stack && k > owner && replaceKind(&sc.Sources[k])) {
			continue
		}
		strip(&sc.Sources[k])
	}
	for k := range sc.Updates {
		if owner >= 0 && (sc.Watch == owner || (stack && sc.Watch > owner && replaceKind(&sc.Updates[k]))) {
			continue
		}
		strip(&sc.Updates[k])
	}
	return sc
}

// c03Source is a fake dials.Source; c03WatchSource additionally implements dials.Watcher.
type c03Source struct {
	sp    *c03SrcPlan
	built *c03Built
	given []c03Input // every value handed to dials (for the freshness oracle)
	err   error
}

// value builds a value of the pointerified type t from the root of a
// materialised plan, by field name.
func c03SourceValue(t reflect.Type, sp *c03SrcPlan, b *c03Built) (reflect.Value, error) {
	pv := reflect.New(t)
	v := pv.Elem()
	root := b.root().Elem()
	for _, name := range sp.Set {
		tf, ok := t.FieldByName(name)
		if !ok {
			return reflect.Value{}, fmt.Errorf("pointerified type has no field %s", name)
		}
		src := root.FieldByName(name)
		dst := v.FieldByIndex(tf.Index)
		if c03Unset(src) {
			if src.Kind() != reflect.Interface || src.IsNil() {
				continue
			}
			// a typed nil held in the interface is handed over as it is:
			// dials treats it as "not set", and so does the expectation.
		}
		switch {
		case tf.Type == src.Type():
			dst.Set(src)
		case tf.Type == reflect.PointerTo(src.Type()):
			p := reflect.New(src.Type())
			p.Elem().Set(src)
			dst.Set(p)
		default:
			return reflect.Value{}, fmt.Errorf("field %s: pointerified type %s cannot take a %s", name, tf.Type, src.Type())
		}
	}
	if sp.Ptr {
		return pv, nil
	}
	if sp.NoAddr {
		// a plain copy of the struct header: shares every map, slice,
		// pointer and interface payload with v, but is not addressable
		return reflect.ValueOf(v.Interface()), nil
	}
	return v, nil
}

// c03Input is a value that was handed to dials, with a tag naming its form
// when that matters for the violation key.
type c03Input struct {
	v   reflect.Value
	tag string
}

func c03GivenInput(sp *c03SrcPlan, v reflect.Value) c03Input {
	if !sp.Ptr && sp.NoAddr {
		return c03Input{v: v, tag: "non-addressable-source-value"}
	}
	return c03Input{v: v}
}

func (s *c03Source) Value(_ context.Context, t *dials.Type) (reflect.Value, error) {
	s.built = c03Build(s.sp.Plan)
	v, err := c03SourceValue(t.Type(), s.sp, s.built)
	if err != nil {
		s.err = err
		return reflect.Value{}, err
	}
	s.given = append(s.given, c03GivenInput(s.sp, v))
	return v, nil
}

type c03WatchSource struct {
	c03Source
	typ  *dials.Type
	args dials.WatchArgs
}

func (s *c03WatchSource) Watch(_ context.Context, t *dials.Type, args dials.WatchArgs) error {
	s.typ = t
	s.args = args
	return nil
}

// c03Expect builds the expectation: a twin of the defaults graph whose root
// fields are replaced, in source order, by the fields each source sets.
func c03Expect(defaults *c03Plan, srcs []*c03SrcPlan) (reflect.Value, *c03Built) {
	e := c03Build(defaults)
	root := e.root().Elem()
	for _, sp := range srcs {
		g := c03Build(sp.Plan)
		groot := g.root().Elem()
		for _, name := range sp.Set {
			src := groot.FieldByName(name)
			if c03Unset(src) {
				continue
			}
			root.FieldByName(name).Set(src)
		}
	}
	return e.root(), e
}

func c03RunScenario(w *fw.Worker, i int, sc *c03Scenario, fixedName string) {
	w.Count("b_scenarios", 1)
	witness := map[string]any{"scenario": sc, "fixed": fixedName}
	def := c03Build(sc.Defaults)
	defPtr := def.root().Interface().(*c03BNode)
	var sources []dials.Source
	var fakes []*c03Source
	var watcher *c03WatchSource
	cur := make([]*c03SrcPlan, len(sc.Sources))
	for k := range sc.Sources {
		cur[k] = &sc.Sources[k]
		if k == sc.Watch {
			watcher = &c03WatchSource{c03Source: c03Source{sp: cur[k]}}
			sources = append(sources, watcher)
			fakes = append(fakes, &watcher.c03Source)
		} else {
			s := &c03Source{sp: cur[k]}
			sources = append(sources, s)
			fakes = append(fakes, s)
		}
	}
	mode := "defaults-only"
	switch {
	case len(sc.Sources) > 0 && len(sc.Defaults.Nodes) == 1 && !sc.Defaults.hasRefs():
		mode = "source-only"
	case len(sc.Sources) > 0:
		mode = "defaults+sources"
	}
	if watcher != nil {
		mode += "+restack"
	}
	w.SetAdd("b_modes", mode)

	ctx, cancel := context.WithCancel(context.Background())
	defer cancel()
	d, err := dials.Config(ctx, defPtr, sources...)
	for _, f := range fakes {
		if f.err != nil {
			c03Viol(w, i, "harness:source-value", f.err.Error(), witness)
			return
		}
	}
	if err != nil {
		c03Viol(w, i, "config-error", "dials.Config returned an error for a well-formed graph: "+err.Error(), witness)
		return
	}
	inputs := func() []c03Input {
		ins := []c03Input{{v: def.root()}}
		for _, f := range fakes {
			ins = append(ins, f.given...)
		}
		return ins
	}
	judge := func(step string, view *c03BNode) bool {
		if view == nil {
			c03Viol(w, i, "nil-view:"+step, "View returned nil", witness)
			return false
		}
		exp, eb := c03Expect(sc.Defaults, cur)
		w.Count("b_views_judged", 1)
		if c03AnySetters(cur) >= 2 {
			step += ":" + c03TwoLayers
			w.Count("b_views_any_set_by_two_layers", 1)
		}
		return c03Judge(w, i, step, exp, reflect.ValueOf(view), inputs(), eb, witness, "b|"+step+"|"+c03JSON(sc))
	}
	ok := judge("config", d.View())
	if watcher != nil && ok {
		for u := range sc.Updates {
			up := &sc.Updates[u]
			b := c03Build(up.Plan)
			v, verr := c03SourceValue(watcher.typ.Type(), up, b)
			if verr != nil {
				c03Viol(w, i, "harness:source-value", verr.Error(), witness)
				break
			}
			watcher.given = append(watcher.given, c03GivenInput(up, v))
			if rerr := watcher.args.BlockingReportNewValue(ctx, v); rerr != nil {
				c03Viol(w, i, "restack-error", "BlockingReportNewValue returned an error for a well-formed graph: "+rerr.Error(), witness)
				break
			}
			cur[sc.Watch] = up
			w.Count("b_restacks", 1)
			if !judge("restack", d.View()) {
				break
			}
		}
	}
	cancel()
	if watcher != nil {
		if done := dials.VerifMonitorDone(d); done != nil {
			select {
			case <-done:
			case <-time.After(20 * time.Second):
				w.Inconclusive(i, "monitor goroutine did not exit within the 20s watchdog after cancel")
			}
		}
	}
}

// c03Unset: a nil pointer/map/slice/interface, or an interface holding a
// typed nil, is "not set" in a source layer (dials' layering contract).
func c03Unset(v reflect.Value) bool {
	switch v.Kind() {
	case reflect.Pointer, reflect.Map, reflect.Slice:
		return v.IsNil()
	case reflect.Interface:
		if v.IsNil() {
			return true
		}
		switch e := v.Elem(); e.Kind() {
		case reflect.Pointer, reflect.Map, reflect.Slice:
			return e.IsNil()
		}
	}
	return false
}

// c03AnySetters counts the source layers whose value sets Any (typed nils do not).
func c03AnySetters(cur []*c03SrcPlan) int {
	n := 0
	for _, sp := range cur {
		for _, f := range sp.Set {
			if f == "Any" {
				switch sp.Plan.Nodes[0].Any.K {
				case "", "nil", "nilptr", "nilmap", "nilslice":
				default:
					n++
				}
			}
		}
	}
	return n
}

func (p *c03Plan) hasRefs() bool {
	n := p.Nodes[0]
	return n.Kids != nil || n.M >= 0 || n.MM >= 0 || n.Leaf >= 0 || (n.Any.K != "" && n.Any.K != "nil") || n.Pair != [2]int{-1, -1} || n.Pairs != nil ||
		n.MA >= 0 || n.Skip >= 0 || n.SkipM >= 0 || n.SkipS != nil || (n.SkipAny.K != "" && n.SkipAny.K != "nil")
}

// c03NoopSource hands over an all-unset value of the pointerified type (and,
// as a watcher, reports such values again): the holder's by-value nodes can
// only come from the defaults, which every compose copies.
type c03NoopSource struct {
	typ   *dials.Type
	args  dials.WatchArgs
	given []c03Input
}

func (s *c03NoopSource) Value(_ context.Context, t *dials.Type) (reflect.Value, error) {
	v := reflect.New(t.Type()).Elem()
	s.given = append(s.given, c03Input{v: v})
	return v, nil
}

func (s *c03NoopSource) Watch(_ context.Context, t *dials.Type, args dials.WatchArgs) error {
	s.typ, s.args = t, args
	return nil
}

// c03RunHolderConfig: dials.Config over a c03BHolder whose defaults hold
// nodes by value (Head, Arr, Arena) with pointers to them from inside and
// from the trailing fields; judged after Config and after each re-stack.
func c03RunHolderConfig(w *fw.Worker, i int, p *c03Plan, restacks int, fixedName string) {
	w.Count("b_holder_scenarios", 1)
	w.SetAdd("b_modes", "holder-defaults-with-by-value-nodes")
	witness := map[string]any{"plan": p, "restacks": restacks, "fixed": fixedName}
	def := c03Build(p)
	c03FillHolder(def, p)
	defPtr := def.holder.Interface().(*c03BHolder)
	src := &c03NoopSource{}
	ctx, cancel := context.WithCancel(context.Background())
	defer cancel()
	d, err := dials.Config(ctx, defPtr, src)
	if err != nil {
		c03Viol(w, i, "config-error:holder", "dials.Config returned an error for a well-formed graph: "+err.Error(), witness)
		return
	}
	judge := func(step string) bool {
		view := d.View()
		if view == nil {
			c03Viol(w, i, "nil-view:"+step, "View returned nil", witness)
			return false
		}
		exp := c03Build(p)
		c03FillHolder(exp, p)
		w.Count("b_views_judged", 1)
		ins := append([]c03Input{{v: def.holder}}, src.given...)
		return c03Judge(w, i, step, exp.holder, reflect.ValueOf(view), ins, exp, witness, "bh|"+step+"|"+c03JSON(p))
	}
	ok := judge("config-holder")
	for k := 0; ok && k < restacks; k++ {
		v := reflect.New(src.typ.Type()).Elem()
		src.given = append(src.given, c03Input{v: v})
		if rerr := src.args.BlockingReportNewValue(ctx, v); rerr != nil {
			c03Viol(w, i, "restack-error:holder", "BlockingReportNewValue returned an error: "+rerr.Error(), witness)
			break
		}
		w.Count("b_restacks", 1)
		ok = judge("restack-holder")
	}
	cancel()
	if done := dials.VerifMonitorDone(d); done != nil {
		select {
		case <-done:
		case <-time.After(20 * time.Second):
			w.Inconclusive(i, "monitor goroutine did not exit within the 20s watchdog after cancel")
		}
	}
}

// ---------------------------------------------------------------------------
// fixed corpus

type c03FixedCase struct {
	Name     string
	Plan     *c03Plan     // path (a)
	Entry    int          // path (a)
	Scenario *c03Scenario // path (b)
	// Layered: layers of one stack sharing nodes (c03RunLayered)
	Layered *c03Layered
	// Custom: a hand-written case outside the plan machinery (c03RunCustom)
	Custom string
	// HolderRestacks >= 0 with a family-B Plan: c03RunHolderConfig
	HolderRestacks int
	// CrashKey: violation key used when the isolated child process dies on this case.
	CrashKey string
}

func c03RunFixed(w *fw.Worker, i int, fc *c03FixedCase) {
	w.SetAdd("fixed_cases", fc.Name)
	if fc.Custom != "" {
		w.BeginDesc(i, "fixed custom:"+fc.Name)
		c03RunCustom(w, i, fc)
		return
	}
	if fc.Layered != nil {
		w.BeginDesc(i, "fixed b-layers:"+fc.Name+":"+c03JSON(fc.Layered))
		c03RunLayered(w, i, fc.Layered, fc.Name)
		return
	}
	if fc.Scenario != nil {
		w.BeginDesc(i, "fixed b:"+fc.Name+":"+c03JSON(fc.Scenario))
		c03RunScenario(w, i, fc.Scenario, fc.Name)
		return
	}
	if fc.Plan != nil && fc.Plan.Fam == "B" {
		w.BeginDesc(i, "fixed b-holder:"+fc.Name+":"+c03JSON(fc.Plan))
		c03RunHolderConfig(w, i, fc.Plan, fc.HolderRestacks, fc.Name)
		return
	}
	w.BeginDesc(i, "fixed a:"+fc.Name+":"+c03JSON(fc.Plan))
	c03RunDeepCopy(w, i, fc.Plan, fc.Entry, fc.Name)
}

// c03RunIsolated runs one fixed case in a child worker process (the same
// binary, replaying exactly that case index), so that a fatal stack overflow
// costs one case and not the shard, and merges the child's observations.
func c03RunIsolated(w *fw.Worker, idx int, fc *c03FixedCase) {
	w.BeginDesc(idx, "fixed (isolated):"+fc.Name)
	w.Eval(1)
	w.Count("fixed_cases_run", 1)
	bin, err := os.Executable()
	if err != nil {
		w.Inconclusive(idx, "os.Executable: "+err.Error())
		return
	}
	scratch := w.Scratch
	if scratch == "" {
		scratch = os.TempDir()
	}
	out := filepath.Join(scratch, fmt.Sprintf("c03_fixed_%d.json", idx))
	errPath := out + ".stderr"
	ef, err := os.Create(errPath)
	if err != nil {
		w.Inconclusive(idx, "create stderr file: "+err.Error())
		return
	}
	cmd := exec.Command(bin, "worker", "-id", "C03", "-tier", w.Tier, "-seed", strconv.FormatUint(w.Seed, 10),
		"-shard", strconv.Itoa(w.Shard), "-shards", strconv.Itoa(w.Shards), "-n", strconv.Itoa(w.N),
		"-case", strconv.Itoa(idx), "-out", out, "-scratch", scratch)
	cmd.Stdout = ef
	cmd.Stderr = ef
	cmd.Env = append(os.Environ(), "VERIF_MAXSTACK_MB=64", "GOTRACEBACK=single")
	if err := cmd.Start(); err != nil {
		ef.Close()
		w.Inconclusive(idx, "start child: "+err.Error())
		return
	}
	done := make(chan error, 1)
	go func() { done <- cmd.Wait() }()
	select {
	case <-done:
	case <-time.After(120 * time.Second):
		cmd.Process.Kill()
		<-done
		ef.Close()
		w.Inconclusive(idx, "fixed case "+fc.Name+": child exceeded the 120s watchdog")
		return
	}
	ef.Close()
	var res fw.Result
	b, rerr := os.ReadFile(out)
	if rerr == nil && json.Unmarshal(b, &res) == nil && res.Completed {
		for k, v := range res.Counters {
			if k != "violations_raw" {
				w.Count(k, v)
			}
		}
		for k, l := range res.Sets {
			for _, m := range l {
				w.SetAdd(k, m)
			}
		}
		w.Count("distinct_by_construction", int64(len(res.Distinct)))
		for _, v := range res.Violations {
			c03Viol(w, idx, v.Key, "[fixed case "+fc.Name+"] "+v.Detail, v.Witness)
		}
		if len(res.Violations) == 0 {
			w.Count("fixed_cases_held", 1)
		}
		return
	}
	// the child died
	stderr, _ := os.ReadFile(errPath)
	text := string(stderr)
	line := ""
	for _, l := range strings.Split(text, "\n") {
		if strings.HasPrefix(l, "fatal error:") || strings.HasPrefix(l, "panic:") {
			line = l
			break
		}
	}
	if line == "" {
		w.Inconclusive(idx, "fixed case "+fc.Name+": child exited without a result and without a crash line")
		return
	}
	key := "crash:" + fw.TopDialsFrame(text) + ":fixed:" + fc.Name
	if fc.CrashKey != "" && strings.Contains(line, "stack overflow") {
		key = fc.CrashKey
	}
	wit := map[string]any{"fixed": fc.Name, "stderr": fw.TrimStack(text), "top_dials_frame": fw.TopDialsFrame(text)}
	if fc.Layered != nil {
		wit["layered"] = fc.Layered
	} else if fc.Scenario != nil {
		wit["scenario"] = fc.Scenario
	} else {
		wit["plan"] = fc.Plan
	}
	c03Viol(w, idx, key, fmt.Sprintf("[fixed case %s] worker process died: %s (innermost dials frame %s)", fc.Name, line, fw.TopDialsFrame(text)), wit)
}
