package checks

import (
	"context"
	"fmt"
	"reflect"
	"sort"
	"strings"
	"sync"
	modelv1 "verifharness/twin/model/v1"
	wirev1 "verifharness/twin/wire/v1"

	"github.com/vimeo/dials"
	"github.com/vimeo/dials/ptrify"

	"verifharness/fw"
	"verifharness/gen"
)

func init() {
	fw.Register(&fw.Check{
		ID: "C01",
		Rule: "Each case: a seeded config struct type built with reflect.StructOf (depth <=3 quick / <=4 thorough, 1-7 fields per struct; leaves from 48 kinds: every integer width, floats, complex, bool, string, duration, time.Time, net.IP, a harness TextUnmarshaler, slices, maps, sets, arrays, slices/arrays of structs, user-declared pointers, named types; nested / pointer / embedded / embedded-pointer structs; skipped fields - unexported, dials:\"-\", chan, func - in any position), random defaults (same-typed pointer leaves sometimes pointing at one variable; same-typed slice leaves sometimes views of one backing array: s and s[:k], s[:k:k], s[j:], s[j:k]), 1-5 layers (same-typed slice leaves set by one layer sometimes such views as well, the value then materialised without cloning) (a quarter of the cases list one layer's value object a second time, later) with seeded set/unset patterns (values unique per case, occasionally empty-but-non-nil collections), " +
			"materialised BY FIELD NAME into ptrify.Pointerify(T, defaults) and stacked by the real compose (build-tagged export). Oracle: an independent reference stack over leaf paths (clone defaults, assign each set leaf in layer order, allocate a nil *struct only when a child is set), compared with a strict differ (floats bitwise, nil vs empty, chan/func identity); result type must be *T; inserting an all-unset layer at a random position must change nothing. " +
			"Plus a static corpus (types with genuinely unexported defaulted fields, embedded named structs; two []string settings that are views of one backing array in the defaults and/or in one layer) through the public dials.Config API. distinct_nontrivial = distinct (type-shape signature, set-pattern matrix) among cases with >=2 layers and >=1 leaf set by two layers.",
		Assumptions: []string{
			"interface-typed fields are outside C01's quantifier and are not generated",
			"layers never carry a non-nil nested struct pointer with no child set (what that should mean is not fixed by the statement)",
		},
		MinDistinct: map[string]int{"quick": 5000, "thorough": 200000},
		MinCounters: map[string]map[string]int64{
			"quick":    {"cases_with_one_layer_object_listed_twice": 2000, "default_pointer_leaves_sharing_a_pointee": 150, "static_cases_with_defaults_sharing_a_pointee": 1500, "watcher_updates_compared": 4000, "leaves_compared": 100000, "cases_with_skipped_field_between_set_leaves": 1500, "metamorphic_empty_layer_checks": 3000, "static_corpus_cases": 200,
				"cases_with_slice_views_compared": 1000, "cases_with_slice_views_in_a_layer_compared": 700, "static_cases_with_slice_views_of_one_backing_array": 1500},
			"thorough": {"leaves_compared": 5000000},
		},
		Plan: func(tier string) fw.Plan {
			if tier == "thorough" {
				return fw.Plan{Shards: 96, CasesPerShard: 60000, Parallel: 16, TimeoutSec: 3000} // many short-lived shards: reflect.StructOf types are never freed
			}
			return fw.Plan{Shards: 16, CasesPerShard: 6000, TimeoutSec: 600}
		},
		Run: runC01,
	})
}

func c01Opts(w *fw.Worker, r *fw.Rand) gen.GenOpts {
	return gen.GenOpts{MaxDepth: w.Pick(3, 4) - r.Intn(2), MaxFields: r.Range(2, 7), SkipPct: r.Range(0, 35), StructPct: r.Range(10, 45), TagPct: 10,
		Leaves: gen.Leaves, InitialismPct: 20, HollowPct: 8}
}

// setMatrix renders which layer sets which leaf (for signatures/witnesses).
func setMatrix(leaves []*gen.LeafRef, layers []*gen.Layer) (string, int) {
	var b strings.Builder
	double := 0
	for _, lr := range leaves {
		n := 0
		for _, l := range layers {
			if _, ok := l.Vals[lr]; ok {
				b.WriteByte('1')
				n++
			} else {
				b.WriteByte('0')
			}
		}
		if n >= 2 {
			double++
		}
		b.WriteByte('|')
	}
	return b.String(), double
}

func describeLayers(layers []*gen.Layer) []string {
	var out []string
	for i, l := range layers {
		var p []string
		for lr, v := range l.Vals {
			p = append(p, fmt.Sprintf("%s=%v", lr, fmtVal(v)))
		}
		sort.Strings(p)
		out = append(out, fmt.Sprintf("layer %d: %s", i, strings.Join(p, "; ")))
	}
	return out
}

func fmtVal(v reflect.Value) string {
	for v.Kind() == reflect.Ptr && !v.IsNil() {
		v = v.Elem()
	}
	s := fmt.Sprintf("%+v", v)
	if len(s) > 80 {
		s = s[:80] + "..."
	}
	return s
}

// skippedBetweenSetLeaves: some struct has a skipped field with set leaves before and after it.
func skippedBetweenSetLeaves(s *gen.Spec, set map[*gen.Field]bool) bool {
	found := false
	var walk func(sp *gen.Spec)
	walk = func(sp *gen.Spec) {
		before := false
		pendingSkip := false
		for _, f := range sp.Fields {
			switch {
			case f.IsSkipped():
				if before {
					pendingSkip = true
				}
			case f.Kind == gen.KLeaf:
				if set[f] {
					if pendingSkip {
						found = true
					}
					before = true
				}
			case f.IsStruct():
				walk(f.Sub)
				if pendingSkip && before {
					// a struct counts as a position too
				}
			}
		}
	}
	walk(s)
	return found
}

func runC01(w *fw.Worker) {
	w.Cases(func(i int, r *fw.Rand) {
		if i%20 == 19 {
			c01StaticCase(w, i, r)
			return
		}
		if i%20 == 9 {
			c01Watchers(w, i, r)
			return
		}
		if i%40 == 3 {
			c01Homonyms(w, i, r)
			return
		}
		spec := gen.RandomSpec(r, c01Opts(w, r))
		c := &gen.Counter{}
		leaves := spec.LeafRefs()
		defaults := spec.RandomDefaults(r, c, r.Range(20, 80))
		// some applications point two settings at one variable: the leaves stay separate leaves for precedence
		if n := c01ShareDefaultPointees(r, defaults); n > 0 {
			w.Count("default_pointer_leaves_sharing_a_pointee", int64(n))
		}
		// ... or keep a list and a view of it (s and s[:k], s[j:], s[:k:k]) in two settings: one backing array, but each
		// leaf is its own value (its own length and elements) for precedence
		viewLeaves := map[*gen.Field]bool{}
		if n := sliceViewsInDefaults(r, leaves, defaults, viewLeaves); n > 0 {
			w.Count("default_slice_leaves_made_views_of_one_backing_array", int64(n))
		}
		defPtr := reflect.New(spec.Type())
		defPtr.Elem().Set(defaults)
		defClone := gen.CloneValue(defaults)
		ptrType := ptrify.Pointerify(spec.Type(), defPtr.Elem())
		nLayers := r.Range(1, 5)
		setPct := r.Range(20, 80)
		layers := make([]*gen.Layer, nLayers)
		vals := make([]reflect.Value, nLayers)
		setFields := map[*gen.Field]bool{}
		layersWithViews := 0
		for k := range layers {
			layers[k] = gen.RandomLayer(r, c, leaves, setPct)
			if n := sliceViewsInLayer(r, leaves, layers[k], viewLeaves); n > 0 {
				// the layer's value must keep the shared backing array: materialise without cloning
				vals[k] = materializeShared(layers[k], ptrType)
				w.Count("layer_slice_leaves_made_views_of_one_backing_array", int64(n))
				layersWithViews++
			} else {
				vals[k] = layers[k].Materialize(ptrType)
			}
			if r.Bool() {
				// sources may hand over a pointer to the struct as well
				p := reflect.New(ptrType)
				p.Elem().Set(vals[k])
				vals[k] = p
			}
			for lr := range layers[k].Vals {
				setFields[lr.Leaf()] = true
			}
		}
		if nLayers >= 2 && r.Chance(25) {
			// the very same value object listed again later (one source given twice, or a source that caches its value)
			j := r.Intn(nLayers - 1)
			layers, vals = append(layers, layers[j]), append(vals, vals[j])
			nLayers++
			w.Count("cases_with_one_layer_object_listed_twice", 1)
		}
		matrix, double := setMatrix(leaves, layers)
		witness := func() any {
			return map[string]any{"type": spec.Describe(), "defaults": fmt.Sprintf("%+v", defClone), "layers": describeLayers(layers)}
		}
		res, err := dials.VerifCompose(defPtr.Interface(), vals)
		if err != nil {
			w.Violation(i, "compose-error-on-well-typed-layers", err.Error(), witness())
			return
		}
		got := reflect.ValueOf(res)
		if got.Type() != reflect.PtrTo(spec.Type()) {
			w.Violation(i, "result-type-not-pointer-to-config-type", fmt.Sprintf("got %s", got.Type()), witness())
			return
		}
		want := gen.ReferenceStack(defClone, layers)
		if d := gen.Diff(want, got.Elem()); d != "" {
			key := "stack-differs-from-reference:" + c01Classify(spec, d)
			if f := c01FieldAt(spec, d); f != nil && viewLeaves[f] {
				// the leaf is one of several slices that were handed over as views of one backing array
				key = "stack-differs-from-reference:slice-leaf-sharing-a-backing-array-with-another-leaf:" + f.Leaf.Name
			}
			w.Violation(i, key, "reference vs dials at "+d, witness())
			return
		}
		w.Count("leaves_compared", int64(len(leaves)))
		if len(viewLeaves) > 0 {
			w.Count("cases_with_slice_views_compared", 1)
			if layersWithViews > 0 {
				w.Count("cases_with_slice_views_in_a_layer_compared", 1)
			}
		}
		// defaults untouched (C02 judges aliasing; here only that stacking did not change the input)
		if d := gen.Diff(defClone, defPtr.Elem()); d != "" {
			w.Violation(i, "defaults-modified-by-stacking", d, witness())
			return
		}
		// metamorphic: an all-unset layer anywhere changes nothing
		pos := r.Intn(nLayers + 1)
		empty := reflect.New(ptrType).Elem()
		vals2 := append(append(append([]reflect.Value{}, vals[:pos]...), empty), vals[pos:]...)
		res2, err2 := dials.VerifCompose(defPtr.Interface(), vals2)
		if err2 != nil {
			w.Violation(i, "compose-error-with-empty-layer", err2.Error(), witness())
			return
		}
		if d := gen.Diff(want, reflect.ValueOf(res2).Elem()); d != "" {
			w.Violation(i, "empty-layer-changed-the-stack", fmt.Sprintf("all-unset layer inserted at %d: %s", pos, d), witness())
			return
		}
		w.Count("metamorphic_empty_layer_checks", 1)
		if skippedBetweenSetLeaves(spec, setFields) {
			w.Count("cases_with_skipped_field_between_set_leaves", 1)
		}
		for _, lr := range leaves {
			w.SetAdd("leaf_kinds_stacked", lr.Leaf().Leaf.Name)
		}
		if nLayers >= 2 && double >= 1 {
			w.Distinct(spec.Signature() + "#" + matrix)
		}
		if i%211 == 0 {
			w.Sample(witness())
		}
	})
}

// c01ShareDefaultPointees makes some same-typed non-nil pointer-to-non-struct fields of the defaults point at one
// variable (they hold equal values afterwards). Returns how many fields were redirected.
func c01ShareDefaultPointees(r *fw.Rand, v reflect.Value) int {
	byType := map[reflect.Type][]reflect.Value{}
	var walk func(v reflect.Value)
	walk = func(v reflect.Value) {
		switch v.Kind() {
		case reflect.Ptr:
			if v.IsNil() {
				return
			}
			if v.Type().Elem().Kind() == reflect.Struct {
				walk(v.Elem())
			} else if v.CanSet() {
				byType[v.Type()] = append(byType[v.Type()], v)
			}
		case reflect.Struct:
			for k := 0; k < v.NumField(); k++ {
				if v.Type().Field(k).IsExported() {
					walk(v.Field(k))
				}
			}
		}
	}
	walk(v)
	n := 0
	types := make([]reflect.Type, 0, len(byType))
	for t := range byType {
		types = append(types, t)
	}
	sort.Slice(types, func(a, b int) bool { return types[a].String() < types[b].String() })
	for _, t := range types {
		l := byType[t]
		for k := 1; k < len(l); k++ {
			if r.Chance(60) {
				l[k].Set(l[0])
				n++
			}
		}
	}
	return n
}

// c01Classify names the kind of the field at the diff path.
func c01Classify(spec *gen.Spec, d string) string {
	_, kind := c01Locate(spec, d)
	return kind
}

// c01FieldAt returns the leaf field the diff path leads to (nil if it ends elsewhere).
func c01FieldAt(spec *gen.Spec, d string) *gen.Field {
	f, _ := c01Locate(spec, d)
	return f
}

func c01Locate(spec *gen.Spec, d string) (*gen.Field, string) {
	path := d
	if k := strings.Index(path, ":"); k >= 0 {
		path = path[:k]
	}
	parts := strings.FieldsFunc(path, func(r rune) bool { return r == '.' || r == '*' || r == '[' || r == ']' })
	sp := spec
	kind := "?"
	for _, p := range parts {
		var f *gen.Field
		for _, cand := range sp.Fields {
			if cand.Name == p {
				f = cand
				break
			}
		}
		if f == nil {
			break
		}
		switch {
		case f.IsStruct():
			kind = f.Kind.String()
			sp = f.Sub
		case f.Kind == gen.KLeaf:
			return f, f.Leaf.Name
		default:
			return nil, "skipped-" + f.Kind.String()
		}
	}
	return nil, kind
}

// ---- slices that are views of one backing array

// sliceViewOf returns a slice that shares s's backing array (s is non-nil, len >= 1): most often a shorter prefix with
// the same capacity (hosts and hosts[:1]; buf and buf[:0]), else a prefix with clipped capacity, a suffix, an inner
// window, a longer view into the spare capacity, or the same header again.
func sliceViewOf(r *fw.Rand, s reflect.Value) reflect.Value {
	n, c := s.Len(), s.Cap()
	switch r.Intn(10) {
	case 0, 1, 2, 3, 4:
		return s.Slice(0, r.Intn(n))
	case 5:
		k := r.Intn(n + 1)
		return s.Slice3(0, k, k)
	case 6:
		return s.Slice(r.Range(1, n), n)
	case 7:
		j := r.Intn(n)
		return s.Slice(j, r.Range(j, n))
	case 8:
		if c > n {
			return s.Slice(0, r.Range(n+1, c))
		}
		return s.Slice(0, r.Intn(n))
	}
	return s
}

// sliceViewGroups: of the given slice-typed leaf values, per slice type, one that is non-empty becomes the base and
// each of the others is, with chance 60, replaced (through set) by a view of the base. Random draws happen only when
// two leaves of one slice type are present. Returns how many leaves were replaced.
func sliceViewGroups(r *fw.Rand, refs []*gen.LeafRef, get func(*gen.LeafRef) reflect.Value, set func(*gen.LeafRef, reflect.Value), involved map[*gen.Field]bool) int {
	byType := map[reflect.Type][]*gen.LeafRef{}
	var order []reflect.Type
	for _, lr := range refs {
		if lr.Leaf().Leaf.Type.Kind() != reflect.Slice {
			continue
		}
		if v := get(lr); !v.IsValid() {
			continue
		}
		t := lr.Leaf().Leaf.Type
		if byType[t] == nil {
			order = append(order, t)
		}
		byType[t] = append(byType[t], lr)
	}
	n := 0
	for _, t := range order {
		g := byType[t]
		var bases []*gen.LeafRef
		for _, lr := range g {
			if v := get(lr); !v.IsNil() && v.Len() >= 1 {
				bases = append(bases, lr)
			}
		}
		if len(g) < 2 || len(bases) == 0 {
			continue
		}
		base := bases[r.Intn(len(bases))]
		bv := get(base)
		for _, lr := range g {
			if lr == base || !r.Chance(60) {
				continue
			}
			set(lr, sliceViewOf(r, bv))
			involved[lr.Leaf()], involved[base.Leaf()] = true, true
			n++
		}
	}
	return n
}

// sliceViewsInLayer makes some same-typed slice leaves that one layer sets views of one backing array.
func sliceViewsInLayer(r *fw.Rand, leaves []*gen.LeafRef, l *gen.Layer, involved map[*gen.Field]bool) int {
	return sliceViewGroups(r, leaves,
		func(lr *gen.LeafRef) reflect.Value { return l.Vals[lr] },
		func(lr *gen.LeafRef, v reflect.Value) { l.Vals[lr] = v }, involved)
}

// sliceViewsInDefaults does the same among the reachable slice leaves of the defaults value.
func sliceViewsInDefaults(r *fw.Rand, leaves []*gen.LeafRef, defaults reflect.Value, involved map[*gen.Field]bool) int {
	get := func(lr *gen.LeafRef) reflect.Value {
		if v := leafValue(defaults, lr); v.IsValid() && v.CanSet() {
			return v
		}
		return reflect.Value{}
	}
	return sliceViewGroups(r, leaves, get, func(lr *gen.LeafRef, v reflect.Value) { get(lr).Set(v) }, involved)
}

// ---- static corpus through the public API

type c01Inner struct {
	secret int
	Host   string
	Port   int
	note   string
	Tags   []string
}

type c01Emb struct {
	Depth int
	Label string
}

type c01Static struct {
	First  int
	hidden string
	Second string
	Skip   int `dials:"-"`
	Third  map[string]int
	C      chan int
	Inner  c01Inner
	PInner *c01Inner
	// a second pointer field of the same struct type (Primary / Backup), always non-nil in the defaults
	PInner2 *c01Inner
	c01Emb
	F    func() int
	Last float64
	P    *int
	// Q may default to the same variable as P; Burst may default to the address of First
	Q     *int
	Burst *int
}

type c01Src struct{ v reflect.Value }

func (s c01Src) Value(_ context.Context, t *dials.Type) (reflect.Value, error) {
	out := reflect.New(t.Type()).Elem()
	copyByName(out, s.v)
	return out, nil
}

// copyByName copies set fields of src (an arbitrary anonymous struct
// describing a layer) into dst (pointerified type) by field name, recursing
// into nested structs.
func copyByName(dst, src reflect.Value) {
	for i := 0; i < src.NumField(); i++ {
		name := src.Type().Field(i).Name
		sv := src.Field(i)
		dv := dst.FieldByName(name)
		if !dv.IsValid() {
			panic("harness: no field " + name)
		}
		if sv.Kind() == reflect.Ptr && sv.IsNil() {
			continue
		}
		if sv.Kind() == reflect.Ptr && sv.Type().Elem().Kind() == reflect.Struct && dv.Kind() == reflect.Ptr && dv.Type().Elem().Kind() == reflect.Struct && dv.Type() != sv.Type() {
			dv.Set(reflect.New(dv.Type().Elem()))
			copyByName(dv.Elem(), sv.Elem())
			continue
		}
		dv.Set(sv)
	}
}

func c01StaticCase(w *fw.Worker, i int, r *fw.Rand) {
	ch := make(chan int, 1)
	fn := func() int { return 42 }
	seven := 7
	def := &c01Static{First: 1, hidden: "keep", Second: "two", Skip: 99, Third: map[string]int{"d": 1}, C: ch,
		Inner: c01Inner{secret: 5, Host: "h0", Port: 80, note: "n", Tags: []string{"a"}}, F: fn, Last: 1.5, P: &seven}
	def.c01Emb = c01Emb{Depth: 3, Label: "emb"}
	if r.Bool() {
		def.PInner = &c01Inner{secret: 6, Host: "ph0", note: "pn"}
	}
	def.PInner2 = &c01Inner{secret: 8, Host: "backup-host", Port: 8080, note: "bn", Tags: []string{"b"}}
	type innerL struct {
		Host *string
		Port *int
		Tags []string
	}
	type embL struct {
		Depth *int
		Label *string
	}
	type layer struct {
		First   *int
		Second  *string
		Third   map[string]int
		Inner   *innerL
		PInner  *innerL
		PInner2 *innerL
		C01Emb  *embL `name:"c01Emb"`
		Last    *float64
		P       *int
		Q       *int
		Burst   *int
	}
	shareMode := r.Intn(3)
	switch shareMode {
	case 1:
		def.Q = def.P
	case 2:
		def.Burst = &def.First
	}
	// a list and a view of it in two settings of the defaults (one backing array, two values)
	viewMode := r.Intn(4)
	if all := []string{"a", "b", "c"}; viewMode != 0 {
		switch viewMode {
		case 1:
			def.Inner.Tags, def.PInner2.Tags = all, all[:1]
		case 2:
			def.Inner.Tags, def.PInner2.Tags = all[:1], all
		case 3:
			def.Inner.Tags, def.PInner2.Tags = all[:2], all[1:]
		}
	}
	want := *def
	if def.Q != nil {
		q := *def.Q
		want.Q = &q
	}
	if def.Burst != nil {
		b := *def.Burst
		want.Burst = &b
	}
	want.Inner.Tags = append([]string(nil), def.Inner.Tags...)
	if def.PInner != nil {
		cp := *def.PInner
		want.PInner = &cp
	}
	{
		cp := *def.PInner2
		cp.Tags = append([]string(nil), def.PInner2.Tags...)
		want.PInner2 = &cp
	}
	n := r.Range(1, 4)
	var srcs []dials.Source
	layerViews := 0
	uniq := 100
	for k := 0; k < n; k++ {
		var l layer
		next := func() int { uniq++; return uniq }
		if r.Bool() && shareMode != 2 {
			v := next()
			l.First = &v
			want.First = v
		}
		if r.Bool() && shareMode == 1 {
			v := next()
			l.Q = &v
			vv := v
			want.Q = &vv
		}
		if r.Bool() && shareMode == 2 {
			v := next()
			l.Burst = &v
			vv := v
			want.Burst = &vv
		}
		if r.Bool() {
			v := fmt.Sprint("s", next())
			l.Second = &v
			want.Second = v
		}
		if r.Bool() {
			v := map[string]int{"k": next()}
			l.Third = v
			want.Third = map[string]int{"k": v["k"]}
		}
		if r.Bool() {
			il := &innerL{}
			if r.Bool() {
				v := fmt.Sprint("h", next())
				il.Host = &v
				want.Inner.Host = v
			}
			if r.Bool() {
				v := next()
				il.Port = &v
				want.Inner.Port = v
			}
			if r.Bool() {
				il.Tags = []string{fmt.Sprint("t", next())}
				if r.Bool() {
					il.Tags = append(il.Tags, fmt.Sprint("t", next()))
				}
				want.Inner.Tags = append([]string(nil), il.Tags...)
			}
			if il.Host != nil || il.Port != nil || il.Tags != nil {
				l.Inner = il
			}
		}
		if r.Bool() {
			il := &innerL{}
			v := next()
			il.Port = &v
			l.PInner = il
			if want.PInner == nil {
				want.PInner = &c01Inner{}
			}
			want.PInner.Port = v
		}
		if r.Bool() {
			// only part of the second pointer-to-struct is set: the rest keeps its default
			il := &innerL{}
			v := next()
			il.Port = &v
			l.PInner2 = il
			want.PInner2.Port = v
			if l.Inner != nil && len(l.Inner.Tags) >= 1 && r.Bool() {
				// this layer sets both Tags leaves from one backing array: the list and a shorter view of it
				il.Tags = l.Inner.Tags[:len(l.Inner.Tags)-1]
				want.PInner2.Tags = append([]string{}, il.Tags...)
				layerViews++
			}
		}
		if r.Bool() {
			v := next()
			l.C01Emb = &embL{Depth: &v}
			want.Depth = v
		}
		if r.Bool() {
			v := float64(next()) + 0.5
			l.Last = &v
			want.Last = v
		}
		if r.Bool() {
			v := next()
			l.P = &v
			vv := v
			want.P = &vv
		}
		// build the source value by name; the embedded field's name is c01Emb (unexported type name => skipped by dials)
		lv := reflect.ValueOf(l)
		srcs = append(srcs, c01SrcNamed{lv})
	}
	d, err := dials.Config(context.Background(), def, srcs...)
	if err != nil {
		w.Violation(i, "static-corpus-config-error", err.Error(), nil)
		return
	}
	got := d.View()
	// the embedded struct has an unexported type name, so dials skips it entirely: it must keep its default
	want.c01Emb = def.c01Emb
	if d := gen.Diff(reflect.ValueOf(want), reflect.ValueOf(*got)); d != "" {
		w.Violation(i, "static-corpus-stack-differs:"+strings.SplitN(strings.TrimPrefix(d, "."), ":", 2)[0], d, fmt.Sprintf("want %+v got %+v", want, *got))
		return
	}
	if got.hidden != "keep" || got.Skip != 99 || got.C != ch || got.Inner.secret != 5 || got.Inner.note != "n" || reflect.ValueOf(got.F).Pointer() != reflect.ValueOf(fn).Pointer() {
		w.Violation(i, "static-corpus-skipped-field-changed", fmt.Sprintf("%+v", *got), nil)
		return
	}
	w.Count("static_corpus_cases", 1)
	if shareMode != 0 {
		w.Count("static_cases_with_defaults_sharing_a_pointee", 1)
	}
	if viewMode != 0 || layerViews > 0 {
		w.Count("static_cases_with_slice_views_of_one_backing_array", 1)
	}
}

// c01SrcNamed materialises a layer struct into the pointerified type by name, skipping fields dials does not expose.
type c01SrcNamed struct{ v reflect.Value }

func (s c01SrcNamed) Value(_ context.Context, t *dials.Type) (reflect.Value, error) {
	out := reflect.New(t.Type()).Elem()
	for i := 0; i < s.v.NumField(); i++ {
		name := s.v.Type().Field(i).Name
		if n, ok := s.v.Type().Field(i).Tag.Lookup("name"); ok {
			name = n
		}
		sv := s.v.Field(i)
		if (sv.Kind() == reflect.Ptr || sv.Kind() == reflect.Map || sv.Kind() == reflect.Slice) && sv.IsNil() {
			continue
		}
		dv := out.FieldByName(name)
		if !dv.IsValid() {
			continue // not exposed by dials (unexported embedded type)
		}
		if dv.Type() == sv.Type() {
			dv.Set(sv)
			continue
		}
		if sv.Kind() == reflect.Ptr && sv.Type().Elem().Kind() == reflect.Struct && dv.Kind() == reflect.Ptr {
			dv.Set(reflect.New(dv.Type().Elem()))
			copyByName(dv.Elem(), sv.Elem())
			continue
		}
		panic(fmt.Sprintf("harness: cannot place %s into %s (%s)", sv.Type(), dv.Type(), name))
	}
	return out, nil
}

// ---- precedence after updates from watching sources (public API)

type c01Live struct {
	A string
	B string
	C int
	D *int
}

// Verify rejects negative C: a rejected re-stack leaves the view alone, but the reporting source's value stays its
// latest value for every later re-stack.
func (c *c01Live) Verify() error {
	if c.C < 0 {
		return fmt.Errorf("harness: C must not be negative (%d)", c.C)
	}
	return nil
}

type c01LiveSrc struct {
	// keep: this watcher keeps one value object, rewrites it in place and reports the same pointer
	keep bool
	obj  reflect.Value
	mu   sync.Mutex
	cur  [4]any // nil = unset; A,B string; C int; D int
	wa   dials.WatchArgs
	typ  *dials.Type
}

func (s *c01LiveSrc) value(t reflect.Type, cur [4]any) reflect.Value {
	v := reflect.New(t).Elem()
	for k, name := range []string{"A", "B", "C", "D"} {
		if cur[k] == nil {
			continue
		}
		p := reflect.New(reflect.TypeOf(cur[k]))
		p.Elem().Set(reflect.ValueOf(cur[k]))
		v.FieldByName(name).Set(p)
	}
	return v
}

func (s *c01LiveSrc) Value(_ context.Context, t *dials.Type) (reflect.Value, error) {
	s.mu.Lock()
	defer s.mu.Unlock()
	return s.value(t.Type(), s.cur), nil
}

func (s *c01LiveSrc) Watch(_ context.Context, t *dials.Type, wa dials.WatchArgs) error {
	s.mu.Lock()
	s.wa, s.typ = wa, t
	s.mu.Unlock()
	return nil
}

// c01Watchers: 2-4 sources, each watching or static; after Config the watching ones report new layers in a seeded order.
// After every (blocking) report the view must equal the reference stack over each source's latest layer.
func c01Watchers(w *fw.Worker, i int, r *fw.Rand) {
	n := r.Range(2, 4)
	uniq := 0
	draw := func() [4]any {
		var l [4]any
		for k := range l {
			if !r.Chance(55) {
				continue
			}
			uniq++
			switch k {
			case 0, 1:
				l[k] = fmt.Sprintf("v%d", uniq)
			default:
				l[k] = uniq
			}
		}
		return l
	}
	srcs := make([]*c01LiveSrc, n)
	watching := make([]bool, n)
	dsrcs := make([]dials.Source, n)
	type staticOnly struct{ dials.Source }
	nW := 0
	for k := range srcs {
		srcs[k] = &c01LiveSrc{cur: draw(), keep: r.Chance(40)}
		watching[k] = r.Chance(70)
		if watching[k] {
			nW++
			dsrcs[k] = srcs[k]
		} else {
			dsrcs[k] = staticOnly{srcs[k]} // hides the Watch method
		}
	}
	seven := 7
	def := c01Live{A: "da", B: "db", C: 1, D: &seven}
	ref := func() c01Live {
		out := def
		d := *def.D
		out.D = &d
		for _, s := range srcs {
			for k, v := range s.cur {
				if v == nil {
					continue
				}
				switch k {
				case 0:
					out.A = v.(string)
				case 1:
					out.B = v.(string)
				case 2:
					out.C = v.(int)
				case 3:
					x := v.(int)
					out.D = &x
				}
			}
		}
		return out
	}
	ctx, cancel := context.WithCancel(context.Background())
	defer cancel()
	d, err := dials.Config(ctx, &def, dsrcs...)
	desc := map[string]any{"mode": "watchers", "sources": n, "watching": fmt.Sprint(watching)}
	if err != nil {
		w.Violation(i, "static-corpus-config-error", err.Error(), desc)
		return
	}
	cmp := func(when string) bool {
		want := ref()
		if df := gen.Diff(reflect.ValueOf(want), reflect.ValueOf(*d.View())); df != "" {
			w.Violation(i, "stack-differs-after-watcher-update:"+strings.SplitN(strings.TrimPrefix(df, "."), ":", 2)[0], when+": "+df, desc)
			return false
		}
		w.Count("leaves_compared", 4)
		return true
	}
	if !cmp("initial") {
		return
	}
	if nW == 0 {
		return
	}
	for step := r.Range(2, 7); step > 0; step-- {
		k := r.Intn(n)
		for !watching[k] {
			k = r.Intn(n)
		}
		s := srcs[k]
		l := draw()
		if r.Chance(20) {
			uniq++
			l[2] = -uniq // Verify will reject the stack if this C wins
		}
		s.mu.Lock()
		s.cur = l
		wa, t := s.wa, s.typ
		s.mu.Unlock()
		val := s.value(t.Type(), l)
		if s.keep {
			if !s.obj.IsValid() {
				s.obj = reflect.New(t.Type())
			}
			s.obj.Elem().Set(val)
			val = s.obj
			w.Count("reports_of_one_rewritten_value_object", 1)
		}
		before := *d.View()
		rerr := wa.BlockingReportNewValue(ctx, val)
		want := ref()
		if want.C < 0 {
			// rejected: error returned, view unchanged; the slot still holds the new layer
			if rerr == nil {
				w.Violation(i, "invalid-stack-accepted-after-watcher-update", fmt.Sprintf("stack %+v fails Verify but the blocking report returned nil", want), desc)
				return
			}
			if df := gen.Diff(reflect.ValueOf(before), reflect.ValueOf(*d.View())); df != "" {
				w.Violation(i, "view-changed-by-rejected-watcher-update", df, desc)
				return
			}
			w.Count("rejected_watcher_updates", 1)
			continue
		}
		if rerr != nil {
			w.Violation(i, "watcher-update-failed", rerr.Error(), desc)
			return
		}
		w.Count("watcher_updates_compared", 1)
		if !cmp(fmt.Sprintf("after an update from source %d of %d", k, n)) {
			return
		}
	}
}

// ---- two distinct types that print alike

type c01HomWM struct {
	Wire  wirev1.Endpoint
	Model modelv1.Endpoint
}

type c01HomMW struct {
	Model modelv1.Endpoint
	Wire  wirev1.Endpoint
}

type c01HomSrc struct {
	port     int
	wire     *wirev1.Endpoint
	observed string
}

func (s *c01HomSrc) Value(_ context.Context, t *dials.Type) (reflect.Value, error) {
	v := reflect.New(t.Type()).Elem()
	m := v.FieldByName("Model")
	s.observed = m.Type().String()
	if s.port != 0 {
		// set Model.Port only, in whatever shape the field was given
		m.Set(reflect.New(m.Type().Elem()))
		pf := m.Elem().FieldByName("Port")
		if pf.Kind() == reflect.Ptr {
			pf.Set(reflect.ValueOf(&s.port))
		} else {
			pf.SetInt(int64(s.port))
		}
	}
	if s.wire != nil {
		wf := v.FieldByName("Wire")
		if wf.Type() == reflect.TypeOf(s.wire) {
			wf.Set(reflect.ValueOf(s.wire))
		}
	}
	return v, nil
}

// c01Homonyms: wire/v1.Endpoint (text-unmarshalable: one value) and model/v1.Endpoint (plain struct: stacked per leaf)
// both print as "v1.Endpoint". A layer that sets only Model.Port must leave Model.Host at its default; a layer that
// sets Wire replaces it as a whole. Shards alternate which of the two types the process meets first.
func c01Homonyms(w *fw.Worker, i int, r *fw.Rand) {
	port := 1000 + r.Intn(1000)
	src := &c01HomSrc{port: port}
	if r.Bool() {
		src.wire = &wirev1.Endpoint{Host: "w-new", Port: 2}
	}
	wantWire := wirev1.Endpoint{Host: "w-default", Port: 1}
	if src.wire != nil {
		wantWire = *src.wire
	}
	wantModel := modelv1.Endpoint{Host: "m-default", Port: port}
	var gotWire wirev1.Endpoint
	var gotModel modelv1.Endpoint
	var err error
	if w.Shard%2 == 0 {
		var d *dials.Dials[c01HomWM]
		d, err = dials.Config(context.Background(), &c01HomWM{Wire: wirev1.Endpoint{Host: "w-default", Port: 1}, Model: modelv1.Endpoint{Host: "m-default", Port: 9}}, src)
		if err == nil {
			gotWire, gotModel = d.View().Wire, d.View().Model
		}
	} else {
		var d *dials.Dials[c01HomMW]
		d, err = dials.Config(context.Background(), &c01HomMW{Wire: wirev1.Endpoint{Host: "w-default", Port: 1}, Model: modelv1.Endpoint{Host: "m-default", Port: 9}}, src)
		if err == nil {
			gotWire, gotModel = d.View().Wire, d.View().Model
		}
	}
	desc := map[string]any{"mode": "homonymous-types", "first_field": map[bool]string{true: "Wire", false: "Model"}[w.Shard%2 == 0], "model_field_type_given_to_the_source": src.observed}
	if err != nil {
		w.Violation(i, "static-corpus-config-error", err.Error(), desc)
		return
	}
	if gotModel != wantModel {
		w.Violation(i, "stack-differs-from-reference:homonymous-plain-struct", fmt.Sprintf("Model: want %+v got %+v", wantModel, gotModel), desc)
		return
	}
	if gotWire != wantWire {
		w.Violation(i, "stack-differs-from-reference:homonymous-text-unmarshaler", fmt.Sprintf("Wire: want %+v got %+v", wantWire, gotWire), desc)
		return
	}
	w.Count("homonymous_type_cases", 1)
	w.Count("leaves_compared", 4)
}
