package checks

// C15 — text parsing inverts formatting and never wraps out-of-range numbers.
//
// Every execution calls the real github.com/vimeo/dials/parse entry points
// (and the flag helpers' Set/String) and is judged by oracles that do not use
// them: identity against the generating value (floats bitwise, NaN by class,
// nil==empty), and math/big for range probes (the literal's exact value is
// known by construction or re-read with big.Rat; outside the target range =>
// the call must return an error).

import (
	"fmt"
	"hash/fnv"
	"math"
	"math/big"
	"reflect"
	"runtime/debug"
	"sort"
	"strconv"
	"strings"
	"time"

	"github.com/vimeo/dials/parse"
	"github.com/vimeo/dials/sources/flag/flaghelper"

	"verifharness/fw"
)

func init() {
	fw.Register(&fw.Check{
		ID: "C15",
		Rule: "Fixed corpus (same at every seed, sharded by index): the literals min-1,min,max,max+1 of every integer width (builtin, named, and the 11 integral-slice element types) in 8 literal forms " +
			"(decimal, 0x, 0X, 0b, 0B, 0o, 0O, legacy 0) through every entry point (parse.String scalar, slice element, map value, map key, parse.Signed/UnsignedIntegralSlice alone and padded in the middle of a list, flag helper Set); " +
			"every literal in [-300,300] for the 8-bit types and every value of the 16-bit types; all float32/float64 edge bit patterns as scalars and as complex parts; the canonical text of float32 bit patterns (thorough: all 2^32, exhaustively; quick: a seeded stride sample of 2^22 plus the two patterns whose text is double-rounding-sensitive) as scalar, and every 64th as []float32 element and named type; float literals at the exact round-to-even overflow threshold and its neighbours; " +
			"duration limits; every single and every ordered pair of " + strconv.Itoa(len(c15HostilePieces)) + " hostile string pieces as []string, set, map[string]string and map[string][]string. " +
			"Seeded cases draw one of 8 families: scalar round-trip (33 types), integral slices (canonical, decorated literals with base prefixes/'_'/whitespace, out-of-range elements), " +
			"string collections of hostile strings (flag helper String() text and the harness's own formatter; dedicated parser, parse.String and flag helper Set), typed slices via parse.String, typed maps via parse.Map, " +
			"integer / float+complex / duration range probes in scalar, slice-element, map-value and map-key position (map positions both Go-quoted and, when the literal is made of digits, letters, '_', '.', '+', '-' only, as the unquoted word numbers are written as). " +
			"The decorated in-range integer literals (base prefixes, '_', no whitespace) are also given as the unquoted values of a map[string]T (keys Go-quoted) to parse.Map / parse.String and must come back with their exact values. " +
			"A case is non-trivial when its value is a collection with >=1 element, a scalar other than the zero value, or a literal probe; distinct_nontrivial hashes (family, type, input text) for seeded cases and counts corpus entries (distinct by construction). " +
			"In the thorough tier only signatures in a fixed 1/16 slice of the hash space are hashed (exact distinct count within the slice; counter nontrivial_cases has the total).",
		Assumptions: []string{
			"strconv.Quote/FormatInt/FormatFloat, fmt %g, time.Duration.String and math/big are trusted (standard library, not code under test)",
			"float range: a decimal literal is outside the range iff its exact magnitude is >= max+ulp/2 (the round-to-nearest-even overflow threshold); the canonical text of MaxFloat32 (3.4028235e+38) is larger than MaxFloat32 and must parse",
			"canonical text of []T for non-string, non-integer T (no flag helper prints it) is taken to be the comma-joined canonical scalars, as the integral-slice helpers print",
			"round-trips of map[K]V other than map[string]string (no flag helper prints them) and the value returned for in-range non-canonical scalar literals are recorded, not judged; out-of-range literals are judged in every position",
			"the integer values of a map[string]T are integer elements in the statement's sense: written unquoted (Go quoting is for strings) with base prefixes and digit separators they must be accepted with their exact value; whitespace around them and decorated map keys are not judged",
			"texts that are not the canonical form of any value (duplicate set members / map keys, string literals Go cannot unquote) are outside the statement: acceptance is recorded in observed_sets.noncanonical_accepted, not judged",
			"map texts are lists of independent entries: what parse.Map / StringStringSliceMap return for a list must be the union of what they return for each entry alone (and an error iff some entry fails alone); the meaning of an entry without value text is whatever the code gives it alone",
			"which literal spells a map key must not matter (integers accept base prefixes): a list that names one key value twice must have the same outcome whether the second mention repeats the spelling or uses another spelling of the same value; what that outcome is (today: an error) is not judged",
			"map entries whose value list is empty have no text form and are not generated; NaN and -0 are not used as map keys",
			"int/uint/uintptr are 64 bits wide on this platform",
		},
		MinDistinct: map[string]int{"quick": 2500000, "thorough": 2000000},
		MinCounters: map[string]map[string]int64{
			"quick":    {"range_probes_as_unquoted_map_elements": 400000, "decorated_literals_accepted_as_map_values": 1000000, "map_key_spellings_checked": 30000, "map_entry_lists_checked": 100000, "float32_bit_patterns_roundtripped": 4000000, "comparisons": 5000000, "range_probes_rejected": 2000000, "decorated_literals_accepted": 2000000, "hostile_strings_roundtripped": 5000000},
			"thorough": {"range_probes_as_unquoted_map_elements": 400000, "decorated_literals_accepted_as_map_values": 1000000, "float32_bit_patterns_roundtripped": 4294967296, "comparisons": 60000000, "range_probes_rejected": 24000000, "decorated_literals_accepted": 24000000, "hostile_strings_roundtripped": 60000000},
		},
		Plan: func(tier string) fw.Plan {
			if tier == "thorough" {
				return fw.Plan{Shards: 16, CasesPerShard: 3000000, TimeoutSec: 3600}
			}
			return fw.Plan{Shards: 16, CasesPerShard: 250000, TimeoutSec: 900}
		},
		Run: runC15,
	})
}

// ------------------------------------------------------------- evaluation

type c15Fail struct {
	key, detail string
	witness     map[string]any
}

// c15Eval collects the failures of one case. In quiet mode (shrinking a
// failing case) nothing is counted.
type c15Eval struct {
	w     *fw.Worker
	quiet bool
	fails []c15Fail
}

func (e *c15Eval) count(name string, n int64) {
	if !e.quiet {
		e.w.Count(name, n)
	}
}

func (e *c15Eval) setAdd(set, member string) {
	if !e.quiet {
		e.w.SetAdd(set, member)
	}
}

func (e *c15Eval) fail(key, detail string, wit map[string]any) {
	for _, f := range e.fails {
		if f.key == key {
			return
		}
	}
	e.fails = append(e.fails, c15Fail{key, detail, wit})
}

func c15Show(v reflect.Value) string {
	if !v.IsValid() {
		return "<invalid>"
	}
	s := fmt.Sprintf("%#v", v.Interface())
	if len(s) > 300 {
		s = s[:300] + "..."
	}
	return s
}

func c15Clip(s string) string {
	if len(s) > 400 {
		return s[:400] + "..."
	}
	return s
}

// deref turns the *T that parse.String returns for scalars into the T.
func c15Deref(t reflect.Type, v reflect.Value) reflect.Value {
	if !v.IsValid() {
		return v
	}
	switch t.Kind() {
	case reflect.Slice, reflect.Map:
		return v
	}
	if v.Kind() == reflect.Ptr {
		if v.IsNil() {
			return reflect.Value{}
		}
		return v.Elem()
	}
	return v
}

// wantValue judges one round-trip: text is canonical for want.
func (e *c15Eval) wantValue(entry, typ, text string, want, got reflect.Value, err error, suffix string) bool {
	e.count("comparisons", 1)
	e.setAdd("entry_points", entry)
	wit := map[string]any{"entry": entry, "type": typ, "text": text, "want": c15Show(want)}
	if err != nil {
		wit["error"] = err.Error()
		e.fail("roundtrip-error:"+entry+":"+typ+suffix, fmt.Sprintf("%s(%s, %s) returned error %q; text is the canonical form of %s", entry, strconv.Quote(c15Clip(text)), typ, err.Error(), c15Show(want)), wit)
		return false
	}
	if got.IsValid() && got.Type() != want.Type() {
		wit["got_type"] = got.Type().String()
		e.fail("result-type:"+entry+":"+typ, fmt.Sprintf("%s(%s, %s) returned a %s, not a %s", entry, strconv.Quote(c15Clip(text)), typ, got.Type(), want.Type()), wit)
		return false
	}
	if !c15Equal(want, got) {
		wit["got"] = c15Show(got)
		e.fail("roundtrip-mismatch:"+entry+":"+typ+suffix, fmt.Sprintf("%s(%s, %s) = %s, want %s", entry, strconv.Quote(c15Clip(text)), typ, c15Show(got), c15Show(want)), wit)
		return false
	}
	return true
}

// wantReject judges one range probe: the literal's exact value is outside
// the target range, so the call must fail.
func (e *c15Eval) wantReject(entry, typ, text, lit, exact string, got reflect.Value, err error) {
	e.setAdd("entry_points", entry)
	e.setAdd("range_probe_positions", entry+":"+typ)
	if err != nil {
		e.count("range_probes_rejected", 1)
		return
	}
	e.count("range_probes_accepted", 1)
	wit := map[string]any{"entry": entry, "type": typ, "text": text, "literal": lit, "exact_value": exact, "returned": c15Show(got)}
	e.fail("range-accepted:"+entry+":"+typ, fmt.Sprintf("%s(%s, %s) returned %s without error; literal %s has exact value %s, outside the range of the target", entry, strconv.Quote(c15Clip(text)), typ, c15Show(got), lit, c15Clip(exact)), wit)
}

// parseString calls parse.String and dereferences scalar results.
func c15ParseString(text string, t reflect.Type) (reflect.Value, error) {
	v, err := parse.String(text, t)
	if err != nil {
		return reflect.Value{}, err
	}
	return c15Deref(t, v), nil
}

// ------------------------------------------------------- family: scalars

func (e *c15Eval) scalarRoundTrip(s c15Scalar, v reflect.Value) string {
	text := c15Canon(v)
	got, err := c15ParseString(text, s.typ)
	e.wantValue("String", s.name, text, v, got, err, "")
	e.setAdd("scalar_types", s.name)
	if s.kind == reflect.Float32 {
		// the standard-library flag source registers float32 fields as float64
		// flags, which print the widened value with 64-bit shortest formatting
		wide := strconv.FormatFloat(v.Float(), 'g', -1, 64)
		if wide != text {
			got, err := c15ParseString(wide, s.typ)
			e.wantValue("String", s.name, wide, v, got, err, ":widened-text")
		}
	}
	if s.isComplex() {
		// the dedicated entry points and the flag helpers (whose String() is %g)
		if s.kind == reflect.Complex64 {
			c := complex64(v.Complex())
			ht := flaghelper.NewComplex64Var(&c).String()
			g, err := parse.Complex64(ht)
			e.wantValue("Complex64", "complex64", ht, reflect.ValueOf(c), reflect.ValueOf(g), err, "")
			var dst complex64
			err = flaghelper.NewComplex64Var(&dst).Set(ht)
			e.wantValue("Complex64Var.Set", "complex64", ht, reflect.ValueOf(c), reflect.ValueOf(dst), err, "")
		} else {
			c := v.Complex()
			ht := flaghelper.NewComplex128Var(&c).String()
			g, err := parse.Complex128(ht)
			e.wantValue("Complex128", "complex128", ht, reflect.ValueOf(c), reflect.ValueOf(g), err, "")
			var dst complex128
			err = flaghelper.NewComplex128Var(&dst).Set(ht)
			e.wantValue("Complex128Var.Set", "complex128", ht, reflect.ValueOf(c), reflect.ValueOf(dst), err, "")
		}
	}
	return text
}

// ----------------------------------------------- family: integral slices

func c15JoinDec(vals []*big.Int) string {
	p := make([]string, len(vals))
	for i, v := range vals {
		p[i] = v.Text(10)
	}
	return strings.Join(p, ",")
}

// intSliceCanonical: helper String() text (and the harness's own, when
// different) through the parser, the helper's Set and parse.String.
func (e *c15Eval) intSliceCanonical(ops c15IntOps, vals []*big.Int) string {
	want := ops.build(vals)
	typ := "[]" + ops.name
	suffix := ""
	texts := []string{ops.helperText(vals)}
	if own := c15JoinDec(vals); own != texts[0] {
		e.count("helper_text_differs_from_harness_formatter", 1)
		texts = append(texts, own)
	}
	for _, text := range texts {
		run := func(entry string, got any, err error) {
			gv := reflect.Value{}
			if err == nil && got != nil {
				gv = reflect.ValueOf(got)
			}
			before := len(e.fails)
			e.wantValue(entry, typ, text, want, gv, err, suffix)
			if len(vals) == 0 && len(e.fails) > before {
				// keep the key the design reserved for this class
				e.fails[len(e.fails)-1].key = "integral-slice-empty"
			}
		}
		g, err := ops.sliceParse(text)
		run(ops.parseName, g, err)
		g, err = ops.helperSet(text)
		run("IntegralSliceFlag.Set", g, err)
		if ops.stringOK {
			gv, err := c15ParseString(text, reflect.SliceOf(ops.elem))
			var gi any
			if err == nil && gv.IsValid() {
				gi = gv.Interface()
			}
			run("String", gi, err)
		}
	}
	e.setAdd("integral_slice_types", ops.name)
	return texts[0]
}

// intSliceDecorated: in-range elements written with base prefixes, digit
// separators and surrounding whitespace must be accepted with their exact value.
func (e *c15Eval) intSliceDecorated(r *fw.Rand, ops c15IntOps, vals []*big.Int) string {
	if len(vals) == 0 {
		return ""
	}
	parts := make([]string, len(vals))
	bare := make([]string, len(vals))
	forms := map[string]bool{}
	for i, v := range vals {
		lit, f := c15IntLit(r, v, -1)
		forms[f] = true
		bare[i] = lit
		parts[i] = c15Pad(r, lit)
	}
	text := strings.Join(parts, ",")
	want := ops.build(vals)
	typ := "[]" + ops.name
	check := func(entry string, got any, err error) {
		e.setAdd("entry_points", entry)
		wit := map[string]any{"entry": entry, "type": typ, "text": text, "want": c15Show(want)}
		if err != nil {
			wit["error"] = err.Error()
			e.fail("literal-rejected:"+entry+":"+typ, fmt.Sprintf("%s[%s](%s) returned error %q; every element is an in-range Go integer literal (values %s)", entry, ops.name, strconv.Quote(c15Clip(text)), err.Error(), c15Clip(c15JoinDec(vals))), wit)
			return
		}
		gv := reflect.ValueOf(got)
		if !c15Equal(want, gv) {
			wit["got"] = c15Show(gv)
			e.fail("literal-mismatch:"+entry+":"+typ, fmt.Sprintf("%s[%s](%s) = %s, want %s", entry, ops.name, strconv.Quote(c15Clip(text)), c15Show(gv), c15Show(want)), wit)
			return
		}
		e.count("decorated_literals_accepted", int64(len(vals)))
	}
	g, err := ops.sliceParse(text)
	check(ops.parseName, g, err)
	g, err = ops.helperSet(text)
	check("IntegralSliceFlag.Set", g, err)
	if ops.stringOK {
		// the same integer elements as a []T given to parse.String: prefixes
		// and digit separators are judged; whitespace around the elements is
		// only recorded there (the whitespace clause is anchored in the
		// integral-slice parsers, whose documentation promises trimming;
		// parse.String goes through the string-slice scanner)
		padded := text
		text = strings.Join(bare, ",")
		gv, err := c15ParseString(text, reflect.SliceOf(ops.elem))
		var gi any
		if err == nil && gv.IsValid() {
			gi = gv.Interface()
		}
		check("String", gi, err)
		if padded != text {
			gv, err := c15ParseString(padded, reflect.SliceOf(ops.elem))
			if err == nil && gv.IsValid() && c15Equal(want, gv) {
				e.count("string_path_padded_int_elements_accepted_recorded", 1)
			} else {
				e.count("string_path_padded_int_elements_not_accepted_recorded", 1)
				if !e.quiet && len(padded) < 40 {
					e.setAdd("string_path_padded_int_elements_not_accepted", typ+" "+strconv.Quote(padded))
				}
			}
		}
	}
	if ops.stringOK {
		// the same integer elements as the values of a map[string]T: strings Go-quoted, numbers as they are
		// written. Base prefixes and digit separators are judged, whitespace is not used (see above).
		mt := reflect.MapOf(reflect.TypeOf(""), ops.elem)
		wantM := reflect.MakeMap(mt)
		// (at most 6 entries, taken from a random offset of the list: the splitter's work is per entry)
		n, off := len(vals), 0
		if n > 6 {
			n, off = 6, r.Intn(len(vals)-5)
		}
		ents := make([]string, n)
		for j := range ents {
			i := off + j
			k := "k" + strconv.Itoa(i)
			ents[j] = strconv.Quote(k) + ":" + bare[i]
			wantM.SetMapIndex(reflect.ValueOf(k), want.Index(i))
		}
		mtext := strings.Join(ents, ",")
		var got reflect.Value
		var err error
		entry := "Map"
		if r.Bool() {
			got, err = parse.Map(mtext, mt)
		} else {
			entry = "String"
			got, err = c15ParseString(mtext, mt)
		}
		e.setAdd("entry_points", entry)
		wit := map[string]any{"entry": entry, "type": mt.String(), "text": mtext, "want": c15Show(wantM)}
		switch {
		case err != nil:
			wit["error"] = err.Error()
			e.fail("literal-rejected:"+entry+":"+mt.String()+":unquoted-value", fmt.Sprintf("%s(%s, %s) returned error %q; every value is an in-range Go integer literal (values %s)", entry, strconv.Quote(c15Clip(mtext)), mt, err.Error(), c15Clip(c15JoinDec(vals[off:off+n]))), wit)
		case !got.IsValid() || got.Type() != mt || !c15Equal(wantM, got):
			wit["got"] = c15Show(got)
			e.fail("literal-mismatch:"+entry+":"+mt.String()+":unquoted-value", fmt.Sprintf("%s(%s, %s) = %s, want %s", entry, strconv.Quote(c15Clip(mtext)), mt, c15Show(got), c15Show(wantM)), wit)
		default:
			e.count("decorated_literals_accepted_as_map_values", int64(n))
		}
	}
	for f := range forms {
		e.setAdd("int_literal_forms", f)
	}
	return text
}

// intSliceOut: one element replaced by an out-of-range literal => error.
func (e *c15Eval) intSliceOut(r *fw.Rand, ops c15IntOps, vals []*big.Int, x *big.Int, form int) string {
	lit, f := c15IntLit(r, x, form)
	e.setAdd("int_literal_forms", f)
	typ := "[]" + ops.name
	pos := 0
	if len(vals) > 0 {
		pos = r.Intn(len(vals) + 1)
	}
	// padded/decorated text for the dedicated parsers
	parts := []string{}
	plain := []string{}
	for i := 0; i <= len(vals); i++ {
		if i == pos {
			parts = append(parts, c15Pad(r, lit))
			plain = append(plain, lit)
		}
		if i < len(vals) {
			l, _ := c15IntLit(r, vals[i], -1)
			parts = append(parts, c15Pad(r, l))
			plain = append(plain, vals[i].Text(10))
		}
	}
	text := strings.Join(parts, ",")
	g, err := ops.sliceParse(text)
	gv := reflect.Value{}
	if err == nil {
		gv = reflect.ValueOf(g)
	}
	e.wantReject(ops.parseName, typ, text, lit, x.Text(10), gv, err)
	g, err = ops.helperSet(text)
	gv = reflect.Value{}
	if err == nil {
		gv = reflect.ValueOf(g)
	}
	e.wantReject("IntegralSliceFlag.Set", typ, text, lit, x.Text(10), gv, err)
	if ops.stringOK {
		ptext := strings.Join(plain, ",")
		gv, err := c15ParseString(ptext, reflect.SliceOf(ops.elem))
		e.wantReject("String", typ, ptext, lit, x.Text(10), gv, err)
	}
	return text
}

// --------------------------------------------- family: string collections

type c15Coll struct {
	kind string // "[]string", "map[string]struct {}", "map[string]string", "map[string][]string"
	sl   []string
	set  map[string]struct{}
	m    map[string]string
	ms   map[string][]string
}

func (c c15Coll) size() int {
	switch c.kind {
	case "[]string":
		return len(c.sl)
	case "map[string]struct {}":
		return len(c.set)
	case "map[string]string":
		return len(c.m)
	}
	return len(c.ms)
}

// singles returns the one-entry sub-collections (for shrinking).
func (c c15Coll) singles() []c15Coll {
	var out []c15Coll
	switch c.kind {
	case "[]string":
		for _, s := range c.sl {
			out = append(out, c15Coll{kind: c.kind, sl: []string{s}})
		}
	case "map[string]struct {}":
		for _, k := range c15SortedKeys(c.set) {
			out = append(out, c15Coll{kind: c.kind, set: map[string]struct{}{k: {}}})
		}
	case "map[string]string":
		for _, k := range c15SortedKeys(c.m) {
			out = append(out, c15Coll{kind: c.kind, m: map[string]string{k: c.m[k]}})
		}
	default:
		for _, k := range c15SortedKeys(c.ms) {
			for _, v := range c.ms[k] {
				out = append(out, c15Coll{kind: c.kind, ms: map[string][]string{k: {v}}})
			}
		}
	}
	return out
}

func c15SortedKeys[V any](m map[string]V) []string {
	ks := make([]string, 0, len(m))
	for k := range m {
		ks = append(ks, k)
	}
	sort.Strings(ks)
	return ks
}

// class names the hostile feature of a one-entry collection.
func (c c15Coll) class() string {
	switch c.kind {
	case "[]string":
		return c15StrClass(c.sl[0])
	case "map[string]struct {}":
		for k := range c.set {
			return c15StrClass(k)
		}
	case "map[string]string":
		for k, v := range c.m {
			return "key=" + c15StrClass(k) + ",val=" + c15StrClass(v)
		}
	default:
		for k, vs := range c.ms {
			return "key=" + c15StrClass(k) + ",val=" + c15StrClass(vs[0])
		}
	}
	return "?"
}

func (c c15Coll) hasEmptyKey() bool {
	switch c.kind {
	case "map[string]string":
		_, ok := c.m[""]
		return ok
	case "map[string][]string":
		_, ok := c.ms[""]
		return ok
	}
	return false
}

var (
	c15TStringSlice = reflect.TypeOf([]string{})
	c15TStringSet   = reflect.TypeOf(map[string]struct{}{})
	c15TStringMap   = reflect.TypeOf(map[string]string{})
	c15TStringSlMap = reflect.TypeOf(map[string][]string{})
)

// eval round-trips the collection through every entry point. Returns the
// canonical text.
func (c c15Coll) eval(e *c15Eval) string {
	var want reflect.Value
	var helperText, ownText string
	var typ reflect.Type
	type entry struct {
		name string
		f    func(string) (any, error)
	}
	var entries []entry
	switch c.kind {
	case "[]string":
		sl := append([]string{}, c.sl...)
		want, typ = reflect.ValueOf(sl), c15TStringSlice
		helperText, ownText = flaghelper.NewStringSliceFlag(&sl).String(), c15OwnSliceText(sl)
		entries = []entry{
			{"StringSlice", func(s string) (any, error) { return parse.StringSlice(s) }},
			{"StringSliceFlag.Set", func(s string) (any, error) {
				var dst []string
				h := flaghelper.NewStringSliceFlag(&dst)
				if err := h.Set(s); err != nil {
					return nil, err
				}
				return h.Get(), nil
			}},
		}
	case "map[string]struct {}":
		want, typ = reflect.ValueOf(c.set), c15TStringSet
		m := c.set
		helperText, ownText = flaghelper.NewStringSetFlag(&m).String(), c15OwnSetText(c.set)
		entries = []entry{
			{"StringSet", func(s string) (any, error) { return parse.StringSet(s) }},
			{"StringSetFlag.Set", func(s string) (any, error) {
				var dst map[string]struct{}
				h := flaghelper.NewStringSetFlag(&dst)
				if err := h.Set(s); err != nil {
					return nil, err
				}
				return h.Get(), nil
			}},
		}
	case "map[string]string":
		want, typ = reflect.ValueOf(c.m), c15TStringMap
		m := c.m
		helperText, ownText = flaghelper.NewMapStringStringFlag(&m).String(), c15OwnMapText(c.m)
		entries = []entry{
			{"Map", func(s string) (any, error) {
				v, err := parse.Map(s, c15TStringMap)
				if err != nil {
					return nil, err
				}
				return v.Interface(), nil
			}},
			{"MapStringStringFlag.Set", func(s string) (any, error) {
				var dst map[string]string
				h := flaghelper.NewMapStringStringFlag(&dst)
				if err := h.Set(s); err != nil {
					return nil, err
				}
				return h.Get(), nil
			}},
		}
	default:
		want, typ = reflect.ValueOf(c.ms), c15TStringSlMap
		m := c.ms
		helperText, ownText = flaghelper.NewMapStringStringSliceFlag(&m).String(), c15OwnMapSliceText(c.ms)
		entries = []entry{
			{"StringStringSliceMap", func(s string) (any, error) { return parse.StringStringSliceMap(s) }},
			{"MapStringStringSliceFlag.Set", func(s string) (any, error) {
				var dst map[string][]string
				h := flaghelper.NewMapStringStringSliceFlag(&dst)
				if err := h.Set(s); err != nil {
					return nil, err
				}
				return h.Get(), nil
			}},
		}
	}
	entries = append(entries, entry{"String", func(s string) (any, error) {
		v, err := parse.String(s, typ)
		if err != nil {
			return nil, err
		}
		return v.Interface(), nil
	}})
	texts := []string{helperText}
	if ownText != helperText {
		e.count("helper_text_differs_from_harness_formatter", 1)
		texts = append(texts, ownText)
	}
	ok := true
	for _, text := range texts {
		for _, en := range entries {
			g, err := en.f(text)
			gv := reflect.Value{}
			if err == nil && g != nil {
				gv = reflect.ValueOf(g)
			}
			if !e.wantValue(en.name, c.kind, text, want, gv, err, "") {
				ok = false
				continue
			}
			// the result belongs to the caller: changing it must not change what the same text parses to next
			if gv.IsValid() && c15Scribble(gv) {
				g2, err2 := en.f(text)
				gv2 := reflect.Value{}
				if err2 == nil && g2 != nil {
					gv2 = reflect.ValueOf(g2)
				}
				e.count("reparsed_after_modifying_the_previous_result", 1)
				if !e.wantValue(en.name, c.kind, text, want, gv2, err2, ":after-the-previous-result-was-modified") {
					ok = false
				}
			}
		}
	}
	if ok {
		e.count("hostile_strings_roundtripped", int64(c.size()*len(entries)*len(texts)))
	}
	e.setAdd("collection_types", c.kind)
	return helperText
}

// c15Scribble modifies a parsed collection in place (what a holder of the result may do).
func c15Scribble(v reflect.Value) bool {
	switch v.Kind() {
	case reflect.Map:
		if v.IsNil() {
			return false
		}
		v.SetMapIndex(reflect.ValueOf("#added-by-the-holder").Convert(v.Type().Key()), reflect.Zero(v.Type().Elem()))
		return true
	case reflect.Slice:
		if v.Len() == 0 {
			return false
		}
		v.Index(0).Set(reflect.Zero(v.Type().Elem()))
		return true
	}
	return false
}

// evalShrunk runs eval; on failure it looks for a single entry that fails
// on its own and puts that entry's class into the key (so that different
// defects get different keys, and the witness is minimal).
func (c c15Coll) evalShrunk(e *c15Eval) string {
	before := len(e.fails)
	text := c.eval(e)
	if len(e.fails) == before {
		return text
	}
	class := "multi-entry"
	var min *c15Coll
	if c.size() == 0 {
		class = "empty-collection"
	} else {
		for _, s := range c.singles() {
			q := &c15Eval{w: e.w, quiet: true}
			s.eval(q)
			if len(q.fails) > 0 {
				s := s
				min = &s
				class = s.class()
				break
			}
		}
	}
	emptyKey := false
	if min != nil && min.hasEmptyKey() {
		emptyKey = true
	}
	for i := before; i < len(e.fails); i++ {
		if emptyKey {
			e.fails[i].key = "map-empty-key"
		} else {
			e.fails[i].key += ":" + class
		}
		if min != nil {
			q := &c15Eval{w: e.w, quiet: true}
			mt := min.eval(q)
			e.fails[i].witness["minimal_text"] = mt
			if len(q.fails) > 0 {
				e.fails[i].witness["minimal_detail"] = q.fails[0].detail
			}
		}
	}
	return text
}

func c15RandColl(r *fw.Rand) c15Coll {
	n := c15CollLen(r)
	switch r.Intn(4) {
	case 0:
		c := c15Coll{kind: "[]string", sl: make([]string, n)}
		for i := range c.sl {
			c.sl[i] = c15Str(r)
		}
		return c
	case 1:
		c := c15Coll{kind: "map[string]struct {}", set: map[string]struct{}{}}
		for i := 0; i < n; i++ {
			c.set[c15Str(r)] = struct{}{}
		}
		return c
	case 2:
		c := c15Coll{kind: "map[string]string", m: map[string]string{}}
		for i := 0; i < n; i++ {
			c.m[c15Str(r)] = c15Str(r)
		}
		return c
	default:
		c := c15Coll{kind: "map[string][]string", ms: map[string][]string{}}
		for i := 0; i < n; i++ {
			k := c15Str(r)
			m := 1 + r.Intn(3)
			for j := 0; j < m; j++ {
				c.ms[k] = append(c.ms[k], c15Str(r))
			}
		}
		return c
	}
}

// ---------------------------------------------------- family: typed slices

// typedSlice: []T through parse.String with the comma-joined canonical
// scalars (quoted for string kinds).
func (e *c15Eval) typedSlice(s c15Scalar, vals []reflect.Value) string {
	st := reflect.SliceOf(s.typ)
	want := reflect.MakeSlice(st, 0, len(vals))
	parts := make([]string, len(vals))
	for i, v := range vals {
		want = reflect.Append(want, v)
		if s.kind == reflect.String {
			parts[i] = strconv.Quote(v.String())
		} else {
			parts[i] = c15Canon(v)
		}
	}
	text := strings.Join(parts, ",")
	got, err := c15ParseString(text, st)
	e.wantValue("String", st.String(), text, want, got, err, "")
	e.setAdd("typed_slice_types", st.String())
	return text
}

// ------------------------------------------------------ family: typed maps

// typedMap: map[K]V through parse.Map / parse.String, every key and value
// Go-quoted. Only recorded (no flag helper defines this text).
func (e *c15Eval) typedMap(k, v c15Scalar, keys, vals []reflect.Value) string {
	mt := reflect.MapOf(k.typ, v.typ)
	want := reflect.MakeMap(mt)
	parts := make([]string, len(keys))
	for i := range keys {
		want.SetMapIndex(keys[i], vals[i])
		parts[i] = strconv.Quote(c15Canon(keys[i])) + ":" + strconv.Quote(c15Canon(vals[i]))
	}
	text := strings.Join(parts, ",")
	for _, entry := range []string{"Map", "String"} {
		var got reflect.Value
		var err error
		if entry == "Map" {
			got, err = parse.Map(text, mt)
		} else {
			got, err = c15ParseString(text, mt)
		}
		e.count("typed_map_roundtrips_recorded", 1)
		if err != nil || !got.IsValid() || got.Type() != mt || !c15Equal(want, got) {
			e.count("typed_map_roundtrip_differences_recorded", 1)
			e.setAdd("typed_map_differences", mt.String())
			if !e.quiet {
				e.w.Note(fmt.Sprintf("recorded, not judged: %s(%s, %s) err=%v got=%s want=%s", entry, strconv.Quote(c15Clip(text)), mt, err, c15Show(got), c15Show(want)))
			}
		}
	}
	e.setAdd("typed_map_types", mt.String())
	return text
}

// ------------------------------------------------ family: literal probes

// probeContexts feeds an out-of-range literal of scalar type s to
// parse.String in scalar, slice-element, map-value and map-key position.
func (e *c15Eval) probeContexts(r *fw.Rand, s c15Scalar, lit, exact string) {
	// scalar
	got, err := c15ParseString(lit, s.typ)
	e.wantReject("String", s.name, lit, lit, exact, got, err)
	// slice element between two valid elements
	a, b := c15ScalarValue(r, s, false), c15ScalarValue(r, s, false)
	parts := []string{c15Canon(a), c15Canon(b)}
	pos := r.Intn(3)
	parts = append(parts[:pos], append([]string{lit}, parts[pos:]...)...)
	text := strings.Join(parts, ",")
	st := reflect.SliceOf(s.typ)
	got, err = c15ParseString(text, st)
	e.wantReject("String", st.String(), text, lit, exact, got, err)
	// map value (quoted) and map key
	mt := reflect.MapOf(reflect.TypeOf(""), s.typ)
	text = `"k":` + strconv.Quote(lit)
	if r.Bool() {
		text = `"a":` + strconv.Quote(c15Canon(a)) + "," + text
	}
	got, err = parse.Map(text, mt)
	e.wantReject("Map", mt.String(), text, lit, exact, got, err)
	got, err = c15ParseString(text, mt)
	e.wantReject("String", mt.String(), text, lit, exact, got, err)
	kt := reflect.MapOf(s.typ, reflect.TypeOf(""))
	text = strconv.Quote(lit) + `:"v"`
	got, err = parse.Map(text, kt)
	e.wantReject("Map", kt.String(), text, lit, exact, got, err)
	// the same two positions with the number written as numbers are written (Go quoting is for strings): a bare
	// word between the separators. Only for literals made of characters that cannot be mistaken for syntax.
	if c15BareWord(lit) {
		text = `"k":` + lit
		switch r.Intn(3) {
		case 0:
			text = `"a":` + c15Canon(a) + "," + text
		case 1:
			text += `,"z":` + c15Canon(b)
		}
		if r.Bool() {
			got, err = parse.Map(text, mt)
			e.wantReject("Map", mt.String()+":unquoted-literal", text, lit, exact, got, err)
		} else {
			got, err = c15ParseString(text, mt)
			e.wantReject("String", mt.String()+":unquoted-literal", text, lit, exact, got, err)
		}
		text = lit + `:"v"`
		got, err = parse.Map(text, kt)
		e.wantReject("Map", kt.String()+":unquoted-literal", text, lit, exact, got, err)
		e.count("range_probes_as_unquoted_map_elements", 2)
	}
}

// c15BareWord: the literal consists of digits, ASCII letters, '_', '.', '+' and '-' only (every integer literal
// form with digit separators, every decimal / hexadecimal float literal), and is not empty.
func c15BareWord(lit string) bool {
	if lit == "" {
		return false
	}
	for i := 0; i < len(lit); i++ {
		c := lit[i]
		switch {
		case c >= '0' && c <= '9', c >= 'a' && c <= 'z', c >= 'A' && c <= 'Z', c == '_', c == '.', c == '+', c == '-':
		default:
			return false
		}
	}
	return true
}

// intProbe: an out-of-range integer literal for an integer scalar type.
func (e *c15Eval) intProbe(r *fw.Rand, s c15Scalar, x *big.Int, form int) string {
	lit, f := c15IntLit(r, x, form)
	e.setAdd("int_literal_forms", f)
	e.probeContexts(r, s, lit, x.Text(10))
	// control: the same form with an in-range value; recorded, and judged
	// only for the plain decimal form (which is the canonical text)
	y := c15IntIn(r, s.bits(), s.isInt())
	cl, _ := c15IntLit(r, y, form)
	got, err := c15ParseString(cl, s.typ)
	if err == nil && got.IsValid() && c15Equal(c15SetInt(s, y), got) {
		e.count("scalar_inrange_literal_controls_accepted", 1)
	} else {
		e.count("scalar_inrange_literal_controls_not_accepted_recorded", 1)
		e.setAdd("scalar_inrange_literal_not_accepted", s.name+" "+cl)
	}
	return lit
}

// c15IntFloatNotation writes the integer x in a float notation (forms: "x.0", "xe0", "x.", "d.ddde+NN").
func c15IntFloatNotation(x *big.Int, form int) string {
	d := x.Text(10)
	switch form % 4 {
	case 0:
		return d + ".0"
	case 1:
		return d + "e0"
	case 2:
		return d + "."
	}
	neg := ""
	if strings.HasPrefix(d, "-") {
		neg, d = "-", d[1:]
	}
	if len(d) == 1 {
		return neg + d + "e+00"
	}
	return neg + d[:1] + "." + d[1:] + "e+" + strconv.Itoa(len(d)-1)
}

// intFloatNotationProbe: an integer literal outside the target's range stays outside it when it is written with a
// decimal point or an exponent. Whether such a notation is accepted at all for in-range values is not judged; if it is
// accepted, nothing may be wrapped, truncated or saturated.
func (e *c15Eval) intFloatNotationProbe(r *fw.Rand, s c15Scalar, x *big.Int, form int) string {
	lit := c15IntFloatNotation(x, form)
	e.setAdd("int_literal_forms", "float-notation")
	e.probeContexts(r, s, lit, x.Text(10))
	e.count("out_of_range_integers_in_float_notation", 1)
	return lit
}

// floatProbe: decimal float literal around/beyond the overflow threshold.
func (e *c15Eval) floatProbe(r *fw.Rand, s c15Scalar, lit string, x *big.Rat) {
	bits := s.floatBits()
	out := c15FloatOutOfRange(x, bits)
	exact := x.FloatString(0)
	if s.isFloat() {
		if out {
			e.probeContexts(r, s, lit, exact)
			return
		}
		// in range: recorded
		got, err := c15ParseString(lit, s.typ)
		var nearest float64
		if bits == 32 {
			f, _ := x.Float32()
			nearest = float64(f)
		} else {
			nearest, _ = x.Float64()
		}
		switch {
		case err != nil:
			e.count("float_inrange_literal_rejected_recorded", 1)
			e.setAdd("float_inrange_literal_rejected", s.name+" "+lit)
		case !got.IsValid() || !(got.Float() == nearest):
			e.count("float_inrange_literal_not_nearest_recorded", 1)
			e.setAdd("float_inrange_literal_not_nearest", s.name+" "+lit)
		default:
			e.count("float_inrange_literal_controls_accepted", 1)
		}
		return
	}
	// complex: the literal as real or as imaginary part
	if !out {
		return
	}
	other := strconv.FormatFloat(float64(r.Intn(100))/4, 'g', -1, 64)
	var text string
	if r.Bool() {
		text = lit + "+" + other + "i"
	} else {
		im := lit
		if !strings.HasPrefix(im, "-") {
			im = "+" + im
		}
		text = other + im + "i"
	}
	if r.Bool() {
		text = "(" + text + ")"
	}
	e.probeContexts(r, s, text, "part "+exact)
	if s.kind == reflect.Complex64 {
		g, err := parse.Complex64(text)
		e.wantReject("Complex64", "complex64", text, lit, exact, reflect.ValueOf(g), err)
		var dst complex64
		err = flaghelper.NewComplex64Var(&dst).Set(text)
		e.wantReject("Complex64Var.Set", "complex64", text, lit, exact, reflect.ValueOf(dst), err)
	} else {
		g, err := parse.Complex128(text)
		e.wantReject("Complex128", "complex128", text, lit, exact, reflect.ValueOf(g), err)
		var dst complex128
		err = flaghelper.NewComplex128Var(&dst).Set(text)
		e.wantReject("Complex128Var.Set", "complex128", text, lit, exact, reflect.ValueOf(dst), err)
	}
}

var c15DurScalar = c15MkScalar(time.Duration(0), false)

// durProbe: a duration literal whose exact nanosecond count is known.
func (e *c15Eval) durProbe(r *fw.Rand, lit string, ns *big.Int) {
	if !c15InRange(ns, 64, true) {
		e.probeContexts(r, c15DurScalar, lit, ns.Text(10)+"ns")
		return
	}
	got, err := c15ParseString(lit, c15DurScalar.typ)
	if err == nil && got.IsValid() && got.Int() == ns.Int64() {
		e.count("duration_inrange_literal_controls_accepted", 1)
	} else {
		e.count("duration_inrange_literal_not_accepted_recorded", 1)
		e.setAdd("duration_inrange_literal_not_accepted", lit)
	}
}

// ------------------------------------------- recorded: non-canonical texts

func (e *c15Eval) noncanonical() {
	rec := func(what string, err error) {
		if err != nil {
			e.count("noncanonical_rejected_recorded", 1)
		} else {
			e.count("noncanonical_accepted_recorded", 1)
			e.setAdd("noncanonical_accepted", what)
		}
	}
	_, err := parse.StringSet(`"a","a"`)
	rec(`StringSet duplicate member "a","a"`, err)
	_, err = parse.Map(`"a":"1","a":"2"`, c15TStringMap)
	rec(`Map(map[string]string) duplicate key "a":"1","a":"2"`, err)
	_, err = parse.Map(`"1":"x","0x1":"y"`, reflect.TypeOf(map[int]string{}))
	rec(`Map(map[int]string) duplicate key "1":"x","0x1":"y"`, err)
	for _, bad := range []string{`"\uD800"`, `"\U00110000"`, `"abc`, `"a""b"`, `'ab'`} {
		_, err = parse.StringSlice(bad)
		rec("StringSlice "+bad, err)
		_, err = parse.StringSet(bad)
		rec("StringSet "+bad, err)
		_, err = parse.Map(`"k":`+bad, c15TStringMap)
		rec(`Map "k":`+bad, err)
		_, err = parse.StringStringSliceMap(bad + `:"v"`)
		rec("StringStringSliceMap "+bad+`:"v"`, err)
	}
}

// ------------------------------------------------------------- fixed corpus

func c15Flush(w *fw.Worker, idx int, e *c15Eval) {
	for _, f := range e.fails {
		w.Violation(idx, f.key, f.detail, f.witness)
	}
	e.fails = e.fails[:0]
}

func c15Corpus(w *fw.Worker) {
	e := &c15Eval{w: w}
	// the corpus is a list of items; item k runs on shard k mod Shards, with
	// its own fixed PRNG (independent of VERIF_SEED), under a panic guard
	var items []func(r *fw.Rand) int64
	add := func(f func(r *fw.Rand) int64) { items = append(items, f) }

	add(func(r *fw.Rand) int64 {
		e.noncanonical()
		return 0
	})

	// 1. integer boundary matrix
	one := big.NewInt(1)
	for _, s := range c15IntScalars {
		min, max := c15IntBounds(s.bits(), s.isInt())
		for form := 0; form < 8; form++ {
			add(func(r *fw.Rand) int64 {
				for _, x := range []*big.Int{new(big.Int).Sub(min, one), new(big.Int).Add(max, one)} {
					e.intProbe(r, s, x, form)
					e.intFloatNotationProbe(r, s, x, form)
				}
				for _, x := range []*big.Int{min, max} {
					e.scalarRoundTrip(s, c15SetInt(s, x))
				}
				return 4
			})
		}
	}
	for _, ops := range c15IntSliceOps {
		min, max := c15IntBounds(ops.bits, ops.signed)
		for form := 0; form < 8; form++ {
			add(func(r *fw.Rand) int64 {
				for _, x := range []*big.Int{new(big.Int).Sub(min, one), new(big.Int).Add(max, one)} {
					e.intSliceOut(r, ops, nil, x, form)
					e.intSliceOut(r, ops, []*big.Int{c15IntIn(r, ops.bits, ops.signed), c15IntIn(r, ops.bits, ops.signed)}, x, form)
				}
				e.intSliceCanonical(ops, []*big.Int{min, max})
				e.intSliceCanonical(ops, []*big.Int{})
				e.intSliceCanonical(ops, []*big.Int{min})
				e.intSliceDecorated(r, ops, []*big.Int{min, max, new(big.Int), min, max})
				return 8
			})
		}
	}

	// 2. exhaustive small widths
	for _, s := range c15IntScalars {
		if s.bits() > 16 {
			continue
		}
		lo, hi := -300, 300
		if s.bits() == 16 {
			lo, hi = -32768-40, 65535+40
		}
		for blockStart := lo; blockStart <= hi; blockStart += 512 {
			add(func(r *fw.Rand) int64 {
				n := 0
				for xv := blockStart; xv < blockStart+512 && xv <= hi; xv++ {
					x := big.NewInt(int64(xv))
					if c15InRange(x, s.bits(), s.isInt()) {
						e.scalarRoundTrip(s, c15SetInt(s, x))
					} else {
						got, err := c15ParseString(x.Text(10), s.typ)
						e.wantReject("String", s.name, x.Text(10), x.Text(10), x.Text(10), got, err)
						if s.bits() == 8 {
							e.intProbe(r, s, x, -1)
						}
					}
					n++
				}
				return int64(n)
			})
		}
	}
	for _, ops := range c15IntSliceOps {
		if ops.bits != 8 {
			continue
		}
		for form := 0; form < 8; form++ {
			add(func(r *fw.Rand) int64 {
				for xv := -300; xv <= 300; xv++ {
					x := big.NewInt(int64(xv))
					if c15InRange(x, ops.bits, ops.signed) {
						e.intSliceDecorated(r, ops, []*big.Int{x})
					} else {
						e.intSliceOut(r, ops, nil, x, form)
					}
				}
				return 601
			})
		}
	}

	// 3. float edges as scalars and as complex parts; threshold literals
	edges32 := make([]float64, len(c15F32Edges))
	for i, b := range c15F32Edges {
		edges32[i] = float64(math.Float32frombits(b))
	}
	edges64 := make([]float64, len(c15F64Edges))
	for i, b := range c15F64Edges {
		edges64[i] = math.Float64frombits(b)
	}
	for _, s := range append(append([]c15Scalar{}, c15FloatScalars...), c15ComplexScalars...) {
		edges := edges64
		if s.floatBits() == 32 {
			edges = edges32
		}
		add(func(r *fw.Rand) int64 {
			n := 0
			for _, a := range edges {
				v := reflect.New(s.typ).Elem()
				if s.isFloat() {
					v.SetFloat(a)
					e.scalarRoundTrip(s, v)
					e.typedSlice(s, []reflect.Value{v, v})
					n++
					continue
				}
				for _, b := range edges {
					v.SetComplex(complex(a, b))
					e.scalarRoundTrip(s, v)
					n++
				}
			}
			return int64(n)
		})
	}
	for _, s := range append(append([]c15Scalar{}, c15FloatScalars...), c15ComplexScalars...) {
		add(func(r *fw.Rand) int64 {
			t := c15Thresh(s.floatBits()).Num()
			lits := []string{t.Text(10), new(big.Int).Add(t, one).Text(10), new(big.Int).Sub(t, one).Text(10), "-" + t.Text(10), "-" + new(big.Int).Sub(t, one).Text(10)}
			if s.floatBits() == 32 {
				lits = append(lits, "3.4028235e38", "3.4028236e38", "-3.4028236e38", "1e39", "3.5e38", "3.4028235677973366e38", "3.4028235677973365e38", "340282346638528859811704183484516925440")
			} else {
				lits = append(lits, "1.7976931348623157e308", "1.7976931348623159e308", "-1.7976931348623159e308", "1e309", "2e308", "1e400", "1.797693134862315807e308", "1.797693134862315809e308")
			}
			for _, lit := range lits {
				x, _ := new(big.Rat).SetString(lit)
				e.floatProbe(r, s, lit, x)
			}
			return int64(len(lits))
		})
	}

	// 4. durations
	{
		add(func(r *fw.Rand) int64 {
			for _, d := range c15DurEdges {
				v := reflect.ValueOf(time.Duration(d))
				e.scalarRoundTrip(c15DurScalar, v)
				e.typedSlice(c15DurScalar, []reflect.Value{v, v})
			}
			for _, p := range [][2]string{
				{"2562047h47m16.854775808s", "9223372036854775808"}, {"-2562047h47m16.854775809s", "-9223372036854775809"},
				{"9223372036854775808ns", "9223372036854775808"}, {"2562048h", "9223372800000000000"}, {"-2562048h", "-9223372800000000000"},
				{"153722868m", "9223372080000000000"}, {"9223372037s", "9223372037000000000"}, {"18446744073709551616ns", "18446744073709551616"},
				{"18446744073709551617ns", "18446744073709551617"}, {"9223372036854775807ns1ns", "9223372036854775808"},
			} {
				x, _ := new(big.Int).SetString(p[1], 10)
				e.durProbe(r, p[0], x)
			}
			return int64(len(c15DurEdges) + 10)
		})
	}

	// 5. hostile strings: every piece alone, every ordered pair
	for ai, a := range c15HostilePieces {
		add(func(r *fw.Rand) int64 {
			n := 0
			for _, c := range []c15Coll{
				{kind: "[]string", sl: []string{a}},
				{kind: "map[string]struct {}", set: map[string]struct{}{a: {}}},
				{kind: "map[string]string", m: map[string]string{a: a}},
				{kind: "map[string][]string", ms: map[string][]string{a: {a}}},
			} {
				c.evalShrunk(e)
				n++
			}
			for bi, b := range c15HostilePieces {
				if ai == bi {
					continue
				}
				for _, c := range []c15Coll{
					{kind: "[]string", sl: []string{a, b}},
					{kind: "map[string]struct {}", set: map[string]struct{}{a: {}, b: {}}},
					{kind: "map[string]string", m: map[string]string{a: b}},
					{kind: "map[string][]string", ms: map[string][]string{a: {b, a}}},
				} {
					c.evalShrunk(e)
					n++
				}
			}
			// scalar string and named string: identity
			for _, s := range c15Scalars {
				if s.kind == reflect.String {
					v := reflect.New(s.typ).Elem()
					v.SetString(a)
					e.scalarRoundTrip(s, v)
					e.typedSlice(s, []reflect.Value{v, v})
				}
			}
			return int64(n)
		})
	}

	for k, item := range items {
		if k%w.Shards != w.Shard {
			continue
		}
		c15Guard(w, k, func() {
			n := item(fw.NewRand(fw.Mix(0xC15C15, uint64(k))))
			c15Flush(w, -1, e)
			w.Eval(1)
			w.DistinctN(n)
		})
		e.fails = e.fails[:0]
	}
}

// c15Guard turns a panic inside a corpus item into a violation (seeded
// cases are guarded by fw.Worker.Cases).
func c15Guard(w *fw.Worker, k int, f func()) {
	defer func() {
		if p := recover(); p != nil {
			st := string(debug.Stack())
			w.Violation(-1, "panic:"+fw.TopDialsFrame(st), fmt.Sprintf("panic: %v (fixed corpus item %d)", p, k), map[string]any{"stack": fw.TrimStack(st), "corpus_item": k})
		}
	}()
	f()
}

// ------------------------------------------------------------- seeded cases

// c15Distinct records the signature of a non-trivial seeded case. In the
// thorough tier (48M cases) only signatures whose hash falls into a fixed
// 1/16 slice of the hash space are kept, so the reported number is the exact
// distinct count inside that slice (a lower bound of the total, about 1/16 of
// it) and the orchestrator does not have to hold 48M hashes.
func c15Distinct(w *fw.Worker, sig string) {
	w.Count("nontrivial_cases", 1)
	if !w.Quick() {
		h := fnv.New64a()
		h.Write([]byte(sig))
		if fw.Mix(h.Sum64(), 0xC15)%16 != 0 {
			return
		}
	}
	w.Distinct(sig)
}

func runC15(w *fw.Worker) {
	if w.ReplayCase < 0 {
		c15Corpus(w)
		c15Guard(w, -32, func() { c15Float32Sweep(w) })
	}
	w.Cases(func(i int, r *fw.Rand) {
		e := &c15Eval{w: w}
		var fam, typ, text string
		nontrivial := true
		switch p := r.Intn(100); {
		case p < 22:
			fam = "scalar"
			s := fw.Pick(r, c15Scalars)
			v := c15ScalarValue(r, s, false)
			typ = s.name
			text = e.scalarRoundTrip(s, v)
			nontrivial = !v.IsZero()
		case p < 42:
			fam = "intslice"
			ops := fw.Pick(r, c15IntSliceOps)
			typ = "[]" + ops.name
			n := c15CollLen(r)
			vals := make([]*big.Int, n)
			for j := range vals {
				vals[j] = c15IntIn(r, ops.bits, ops.signed)
			}
			text = e.intSliceCanonical(ops, vals)
			text += "|" + e.intSliceDecorated(r, ops, vals)
			if r.Chance(40) {
				text += "|" + e.intSliceOut(r, ops, vals, c15IntOut(r, ops.bits, ops.signed), -1)
			} else {
				nontrivial = n > 0
			}
		case p < 67:
			fam = "strings"
			c := c15RandColl(r)
			typ = c.kind
			text = c.evalShrunk(e)
			nontrivial = c.size() > 0
			for _, s := range c.sl {
				w.SetAdd("string_classes", c15StrClass(s))
			}
			for k, v := range c.m {
				w.SetAdd("string_classes", c15StrClass(k))
				w.SetAdd("string_classes", c15StrClass(v))
			}
		case p < 75:
			fam = "typedslice"
			s := fw.Pick(r, c15Scalars)
			n := c15CollLen(r)
			if n > 40 {
				n = 40
			}
			vals := make([]reflect.Value, n)
			for j := range vals {
				vals[j] = c15ScalarValue(r, s, false)
			}
			typ = "[]" + s.name
			text = e.typedSlice(s, vals)
			nontrivial = n > 0
		case p < 81:
			fam = "typedmap"
			k, v := fw.Pick(r, c15Scalars), fw.Pick(r, c15Scalars)
			n := r.Intn(6)
			var keys, vals []reflect.Value
			seen := map[string]bool{}
			for j := 0; j < n; j++ {
				kv := c15ScalarValue(r, k, true)
				if seen[c15Canon(kv)] {
					continue
				}
				seen[c15Canon(kv)] = true
				keys = append(keys, kv)
				vals = append(vals, c15ScalarValue(r, v, false))
			}
			// sorted by canonical key text so the input is a function of the value
			order := make([]int, len(keys))
			for j := range order {
				order[j] = j
			}
			sort.Slice(order, func(a, b int) bool { return c15Canon(keys[order[a]]) < c15Canon(keys[order[b]]) })
			sk, sv := make([]reflect.Value, len(keys)), make([]reflect.Value, len(keys))
			for j, o := range order {
				sk[j], sv[j] = keys[o], vals[o]
			}
			typ = "map[" + k.name + "]" + v.name
			text = e.typedMap(k, v, sk, sv)
			if len(sk) >= 2 {
				text += "|" + e.mapKeySpelling(k, v, sk[0], sv[0], sv[1])
				text += "|" + e.mapEntryIndependence(r, k, v, sk, sv)
			} else {
				text += "|" + e.ssMapEntryIndependence(r)
			}
			nontrivial = len(keys) > 0
		case p < 91:
			fam = "intprobe"
			s := fw.Pick(r, c15IntScalars)
			typ = s.name
			if r.Chance(25) {
				text = e.intFloatNotationProbe(r, s, c15IntOut(r, s.bits(), s.isInt()), r.Intn(4))
			} else {
				text = e.intProbe(r, s, c15IntOut(r, s.bits(), s.isInt()), -1)
			}
		case p < 97:
			fam = "floatprobe"
			s := fw.Pick(r, append(append([]c15Scalar{}, c15FloatScalars...), c15ComplexScalars...))
			typ = s.name
			lit, x := c15FloatLit(r, s.floatBits())
			text = lit
			e.floatProbe(r, s, lit, x)
		default:
			fam = "durprobe"
			typ = "time.Duration"
			lit, ns := c15DurLit(r)
			text = lit
			e.durProbe(r, lit, ns)
		}
		w.Count("cases_"+fam, 1)
		if nontrivial {
			c15Distinct(w, fam+"|"+typ+"|"+text)
		} else {
			w.Count("trivial_cases", 1)
		}
		if len(e.fails) == 0 && i%3001 == 17 && w.WantSample() {
			w.Sample(map[string]any{"family": fam, "type": typ, "input_text": c15Clip(text), "verdict": "held"})
		}
		c15Flush(w, i, e)
	})
}
