package checks

// C03, layers that share nodes: the values that the layers of ONE stack hand
// to dials (the defaults and every source's value, and the value a watching
// source reports later) are all cut from a single materialisation of a graph
// plan, so the same nodes, maps, slices and pointed-to structs are referenced
// from several layers. Each layer is "what was supplied" on its own: the
// expectation gives every layer a private twin of the graph and stacks the
// twins field by field in source order.
//
// The config type has three struct-pointer slots (A, B, C) that layers set
// and merge into. Their pointee is an UNNAMED struct type whose fields are all
// nil-able, so that ptrify.Pointerify maps the type to itself and a source's
// (pointerified) value can carry a pointer to the very struct type the config
// holds; the config then adopts a layer's copy of such a struct as it is and
// later layers are merged through that pointer.
//
// Judged: dials.Config / BlockingReportNewValue succeed, the view is
// reflect.DeepEqual to the stacked twins, and nothing reachable from the view
// is reachable from a value that was handed over (freshness). What the copies
// of two DIFFERENT layers share with one another is not in the statement and
// is not judged (no identity walk here); to keep the expectation independent
// of that, one layer never puts the same struct into two slots.

import (
	"context"
	"fmt"
	"reflect"
	"time"

	"github.com/vimeo/dials"

	"verifharness/fw"
)

const c03LayersShare = "layers-sharing-nodes"

// c03Slot is deliberately an alias of an unnamed struct type (see above).
type c03Slot = struct {
	Kids  []*c03BNode
	Pairs [][2]*c03BNode
	M     map[string]*c03BNode
	MM    map[string]map[string]*c03BNode
	MA    map[string][2]*c03BNode
	Leaf  *int
}

var c03SlotFields = []string{"Kids", "Pairs", "M", "MM", "MA", "Leaf"}

type c03LCfg struct {
	A     *c03Slot
	B     *c03Slot
	C     *c03Slot
	Roots []*c03BNode
	Idx   map[string]*c03BNode
}

var c03LSlotNames = []string{"A", "B", "C"}

// c03SlotPlan: a slot struct takes the listed fields from one node of the graph.
type c03SlotPlan struct {
	Node int      `json:"node"`
	Set  []string `json:"set"`
}

type c03LayerPlan struct {
	// Slots[k]: index into Pool of the struct put into slot A/B/C, -1 unset.
	// A pool struct is used at most once per layer.
	Slots [3]int `json:"slots"`
	Roots []int  `json:"roots"` // nil: unset; node indices, -1 a nil element
	Idx   []int  `json:"idx"`   // nil: unset; node indices under keys k0, k1, ...
	Ptr   bool   `json:"ptr,omitempty"`
	// NoAddr (when !Ptr): non-addressable struct value
	NoAddr bool `json:"noaddr,omitempty"`
}

type c03Layered struct {
	Graph    *c03Plan       `json:"graph"` // family B
	Pool     []c03SlotPlan  `json:"pool"`
	Defaults c03LayerPlan   `json:"defaults"`
	Layers   []c03LayerPlan `json:"layers"`
	// Updates: values the LAST source (then a watcher) reports after Config.
	Updates []c03LayerPlan `json:"updates,omitempty"`
}

func c03GenLayer(r *fw.Rand, n, pool int, slotPct int) c03LayerPlan {
	lp := c03LayerPlan{Slots: [3]int{-1, -1, -1}}
	used := map[int]bool{}
	for k := range lp.Slots {
		if !r.Chance(slotPct) {
			continue
		}
		x := r.Intn(pool)
		if used[x] {
			continue
		}
		used[x] = true
		lp.Slots[k] = x
	}
	if r.Chance(40) {
		lp.Roots = make([]int, r.Range(0, 3))
		for j := range lp.Roots {
			lp.Roots[j] = r.Intn(n+1) - 1
		}
	}
	if r.Chance(30) {
		lp.Idx = make([]int, r.Range(0, 2))
		for j := range lp.Idx {
			lp.Idx[j] = r.Intn(n)
		}
	}
	lp.Ptr = r.Intn(3) == 0
	if !lp.Ptr {
		lp.NoAddr = r.Bool()
	}
	return lp
}

func c03GenLayered(r *fw.Rand, maxNodes int) *c03Layered {
	ls := &c03Layered{Graph: c03GenPlan(r, "B", c03GenOpts{MaxNodes: maxNodes})}
	n := len(ls.Graph.Nodes)
	for k := r.Range(2, 4); k > 0; k-- {
		sp := c03SlotPlan{Node: r.Intn(n)}
		for _, f := range c03SlotFields {
			if r.Chance(60) {
				sp.Set = append(sp.Set, f)
			}
		}
		ls.Pool = append(ls.Pool, sp)
	}
	if r.Bool() {
		ls.Defaults = c03GenLayer(r, n, len(ls.Pool), 35)
	} else {
		ls.Defaults = c03LayerPlan{Slots: [3]int{-1, -1, -1}}
	}
	for k := r.Range(2, 3); k > 0; k-- {
		ls.Layers = append(ls.Layers, c03GenLayer(r, n, len(ls.Pool), 65))
	}
	if r.Chance(40) {
		for k := r.Range(1, 2); k > 0; k-- {
			ls.Updates = append(ls.Updates, c03GenLayer(r, n, len(ls.Pool), 65))
		}
	}
	return ls
}

// c03LMat is one materialisation of the shared graph with its pool structs.
type c03LMat struct {
	g    *c03Built
	pool []*c03Slot
}

func c03LMaterialise(ls *c03Layered) *c03LMat {
	m := &c03LMat{g: c03Build(ls.Graph)}
	for _, sp := range ls.Pool {
		s := &c03Slot{}
		nd := m.g.nodeOrNil(sp.Node).Interface().(*c03BNode)
		for _, f := range sp.Set {
			switch f {
			case "Kids":
				s.Kids = nd.Kids
			case "Pairs":
				s.Pairs = nd.Pairs
			case "M":
				s.M = nd.M
			case "MM":
				s.MM = nd.MM
			case "MA":
				s.MA = nd.MA
			case "Leaf":
				s.Leaf = nd.Leaf
			}
		}
		m.pool = append(m.pool, s)
	}
	return m
}

// layer builds the value of one layer, as the original config type, over m.
func (m *c03LMat) layer(lp *c03LayerPlan) *c03LCfg {
	c := &c03LCfg{}
	for k, x := range lp.Slots {
		if x < 0 || x >= len(m.pool) {
			continue
		}
		switch k {
		case 0:
			c.A = m.pool[x]
		case 1:
			c.B = m.pool[x]
		case 2:
			c.C = m.pool[x]
		}
	}
	node := func(i int) *c03BNode {
		if i < 0 || i >= len(m.g.nodes) {
			return nil
		}
		return m.g.nodes[i].Interface().(*c03BNode)
	}
	if lp.Roots != nil {
		c.Roots = make([]*c03BNode, len(lp.Roots))
		for j, i := range lp.Roots {
			c.Roots[j] = node(i)
		}
	}
	if lp.Idx != nil {
		c.Idx = map[string]*c03BNode{}
		for j, i := range lp.Idx {
			c.Idx[fmt.Sprintf("k%d", j)] = node(i)
		}
	}
	return c
}

// c03LHandOver turns a layer into a value of the type dials asks for (the
// pointerified config type), field by field; references are shared with c.
func c03LHandOver(t reflect.Type, lp *c03LayerPlan, c *c03LCfg) (reflect.Value, error) {
	pv := reflect.New(t)
	v := pv.Elem()
	src := reflect.ValueOf(c).Elem()
	for i := 0; i < src.NumField(); i++ {
		name := src.Type().Field(i).Name
		tf, ok := t.FieldByName(name)
		if !ok {
			return reflect.Value{}, fmt.Errorf("pointerified type has no field %s", name)
		}
		f := src.Field(i)
		if f.IsNil() {
			continue
		}
		if !f.Type().ConvertibleTo(tf.Type) {
			return reflect.Value{}, fmt.Errorf("field %s: pointerified type %s cannot take a %s", name, tf.Type, f.Type())
		}
		v.FieldByIndex(tf.Index).Set(f.Convert(tf.Type))
	}
	if lp.Ptr {
		return pv, nil
	}
	if lp.NoAddr {
		return reflect.ValueOf(v.Interface()), nil
	}
	return v, nil
}

// c03LExpect stacks private twins of the layers: a slot adopts the first
// struct it is given and later layers replace, field by field, what they set;
// Roots and Idx are replaced as a whole by every layer that sets them.
func c03LExpect(ls *c03Layered, layers []*c03LayerPlan) *c03LCfg {
	exp := &c03LCfg{}
	for _, lp := range layers {
		v := c03LMaterialise(ls).layer(lp)
		for k, dst := range []**c03Slot{&exp.A, &exp.B, &exp.C} {
			s := []*c03Slot{v.A, v.B, v.C}[k]
			if s == nil {
				continue
			}
			if *dst == nil {
				*dst = s
				continue
			}
			d := *dst
			if s.Kids != nil {
				d.Kids = s.Kids
			}
			if s.Pairs != nil {
				d.Pairs = s.Pairs
			}
			if s.M != nil {
				d.M = s.M
			}
			if s.MM != nil {
				d.MM = s.MM
			}
			if s.MA != nil {
				d.MA = s.MA
			}
			if s.Leaf != nil {
				d.Leaf = s.Leaf
			}
		}
		if v.Roots != nil {
			exp.Roots = v.Roots
		}
		if v.Idx != nil {
			exp.Idx = v.Idx
		}
	}
	return exp
}

type c03LSource struct {
	lp    *c03LayerPlan
	mat   *c03LMat
	given []c03Input
	err   error
}

func (s *c03LSource) Value(_ context.Context, t *dials.Type) (reflect.Value, error) {
	v, err := c03LHandOver(t.Type(), s.lp, s.mat.layer(s.lp))
	if err != nil {
		s.err = err
		return reflect.Value{}, err
	}
	s.given = append(s.given, c03LInput(s.lp, v))
	return v, nil
}

func c03LInput(lp *c03LayerPlan, v reflect.Value) c03Input {
	if !lp.Ptr && lp.NoAddr {
		return c03Input{v: v, tag: "non-addressable-source-value"}
	}
	return c03Input{v: v}
}

type c03LWatchSource struct {
	c03LSource
	typ  *dials.Type
	args dials.WatchArgs
}

func (s *c03LWatchSource) Watch(_ context.Context, t *dials.Type, args dials.WatchArgs) error {
	s.typ, s.args = t, args
	return nil
}

// c03LStats: how much the layers of a stack share (evidence only).
func c03LStats(w *fw.Worker, layers []*c03LayerPlan) {
	inLayers := map[int]int{}
	slotSetters := [3]int{}
	first := [3]int{-1, -1, -1} // pool struct a slot adopted
	firstAt := [3]int{}
	mergedLater := false
	for li, lp := range layers {
		seen := map[int]bool{}
		for k, x := range lp.Slots {
			if x < 0 {
				continue
			}
			if !seen[x] {
				seen[x] = true
				inLayers[x]++
			}
			slotSetters[k]++
			if first[k] < 0 {
				first[k], firstAt[k] = x, li
			}
		}
	}
	// a struct that a slot adopted from layer i, that a later layer j merges
	// into, and that a layer >= j also refers to (in any slot)
	for k := range first {
		if first[k] < 0 {
			continue
		}
		for lj := firstAt[k] + 1; lj < len(layers); lj++ {
			if layers[lj].Slots[k] < 0 {
				continue
			}
			for ll := lj; ll < len(layers); ll++ {
				for k2, x := range layers[ll].Slots {
					if x == first[k] && !(ll == lj && k2 == k) {
						mergedLater = true
					}
				}
			}
			break
		}
	}
	for _, c := range inLayers {
		if c >= 2 {
			w.Count("layered_structs_in_two_or_more_layers", 1)
		}
	}
	for _, c := range slotSetters {
		if c >= 2 {
			w.Count("layered_slots_set_by_two_or_more_layers", 1)
		}
	}
	if mergedLater {
		w.Count("layered_stacks_merging_into_a_struct_a_later_layer_also_refers_to", 1)
	}
}

func c03RunLayered(w *fw.Worker, i int, ls *c03Layered, fixedName string) {
	w.Count("layered_scenarios", 1)
	w.SetAdd("b_modes", "layers-sharing-nodes")
	witness := map[string]any{"layered": ls, "fixed": fixedName}
	mat := c03LMaterialise(ls) // the ONE graph every layer's value is cut from
	def := mat.layer(&ls.Defaults)
	cur := []*c03LayerPlan{&ls.Defaults}
	var sources []dials.Source
	var fakes []*c03LSource
	var watcher *c03LWatchSource
	for k := range ls.Layers {
		cur = append(cur, &ls.Layers[k])
		if k == len(ls.Layers)-1 && len(ls.Updates) > 0 {
			watcher = &c03LWatchSource{c03LSource: c03LSource{lp: &ls.Layers[k], mat: mat}}
			sources = append(sources, watcher)
			fakes = append(fakes, &watcher.c03LSource)
		} else {
			s := &c03LSource{lp: &ls.Layers[k], mat: mat}
			sources = append(sources, s)
			fakes = append(fakes, s)
		}
	}
	ctx, cancel := context.WithCancel(context.Background())
	defer cancel()
	d, err := dials.Config(ctx, def, sources...)
	for _, f := range fakes {
		if f.err != nil {
			c03Viol(w, i, "harness:source-value", f.err.Error(), witness)
			return
		}
	}
	if err != nil {
		c03Viol(w, i, "config-error:"+c03LayersShare, "dials.Config returned an error for a well-formed graph: "+err.Error(), witness)
		return
	}
	if watcher != nil && watcher.typ != nil {
		// evidence: does the pointerified config type still have the slot type?
		if tf, ok := watcher.typ.Type().FieldByName("A"); ok && tf.Type == reflect.TypeOf((*c03Slot)(nil)) {
			w.Count("layered_slot_type_kept_by_pointerify", 1)
		} else {
			w.Count("layered_slot_type_changed_by_pointerify", 1)
		}
	}
	judge := func(step string) bool {
		view := d.View()
		if view == nil {
			c03Viol(w, i, "nil-view:"+step+":"+c03LayersShare, "View returned nil", witness)
			return false
		}
		w.Count("b_views_judged", 1)
		w.Count("layered_views_judged", 1)
		c03LStats(w, cur)
		ok := true
		exp := c03LExpect(ls, cur)
		if !reflect.DeepEqual(exp, view) {
			c03Viol(w, i, "not-deep-equal:"+step+":"+c03LayersShare, "the stacked config is not reflect.DeepEqual to the layers that were supplied (each layer taken on its own)", witness)
			ok = false
		}
		ow := newC03Walk()
		ow.walk(reflect.ValueOf(view), false, false)
		ins := []c03Input{{v: reflect.ValueOf(def)}}
		for _, f := range fakes {
			ins = append(ins, f.given...)
		}
		var iws []*c03Walk
		for _, in := range ins {
			iw := newC03Walk()
			iw.tag = in.tag
			iw.walk(in.v, false, false)
			iws = append(iws, iw)
		}
		hits := c03NotFresh(ow, iws...)
		w.Count("fresh_identities_checked", int64(len(ow.idents)))
		keys := map[string]bool{}
		for _, hit := range hits {
			key := "not-fresh:" + hit.Label + ":" + step + ":" + c03LayersShare
			if keys[key] {
				continue
			}
			keys[key] = true
			wit := map[string]any{"identity": hit.Detail}
			for k, v := range witness {
				wit[k] = v
			}
			c03Viol(w, i, key, "result is not fresh: "+hit.Detail, wit)
			ok = false
		}
		ew := newC03Walk()
		ew.walk(reflect.ValueOf(exp), false, false)
		w.Count("cycles", int64(ew.cycles))
		w.Count("cycles_through_interface", int64(ew.cyclesIface))
		if ew.nonTrivial() {
			w.Distinct("bl|" + step + "|" + c03JSON(ls))
			w.Count("nontrivial_results_judged", 1)
		} else {
			w.Count("trivial_results_judged", 1)
		}
		return ok
	}
	ok := judge("config")
	if watcher != nil && ok {
		for u := range ls.Updates {
			up := &ls.Updates[u]
			v, verr := c03LHandOver(watcher.typ.Type(), up, mat.layer(up))
			if verr != nil {
				c03Viol(w, i, "harness:source-value", verr.Error(), witness)
				break
			}
			watcher.given = append(watcher.given, c03LInput(up, v))
			if rerr := watcher.args.BlockingReportNewValue(ctx, v); rerr != nil {
				c03Viol(w, i, "restack-error:"+c03LayersShare, "BlockingReportNewValue returned an error for a well-formed graph: "+rerr.Error(), witness)
				break
			}
			cur[len(cur)-1] = up
			w.Count("b_restacks", 1)
			w.Count("layered_restacks", 1)
			if !judge("restack") {
				break
			}
		}
	}
	cancel()
	if watcher != nil {
		if done := dials.VerifMonitorDone(d); done != nil {
			select {
			case <-done:
			case <-time.After(20 * time.Second):
				w.Inconclusive(i, "monitor goroutine did not exit within the 20s watchdog after cancel")
			}
		}
	}
}
