package checks

// C13 — file decoders agree: same data in JSON, YAML, TOML or Cue, same config.
//
// Four-way differential monitor with generating data: one data tree is
// rendered by four harness renderers, each document goes through the real
// decoder (static.StringSource -> Decoder.Decode on the pointerified type),
// the decoder output is compared leaf by leaf (by field NAME) with the tree,
// stacked over random defaults with the real compose and compared with the
// harness's reference stack, and the four stacks are compared pairwise.
// Ill-typed and malformed documents must yield an error and no value.

import (
	"context"
	"encoding/json"
	"fmt"
	"reflect"
	"runtime"
	"runtime/debug"
	"strings"

	"github.com/vimeo/dials"
	dcue "github.com/vimeo/dials/decoders/cue"
	djson "github.com/vimeo/dials/decoders/json"
	dtoml "github.com/vimeo/dials/decoders/toml"
	dyaml "github.com/vimeo/dials/decoders/yaml"
	"github.com/vimeo/dials/ptrify"
	"github.com/vimeo/dials/sources/static"
	"github.com/vimeo/dials/sourcewrap"
	"github.com/vimeo/dials/transform"

	"verifharness/fw"
)

func init() {
	fw.Register(&fw.Check{
		ID: "C13",
		Rule: "Each case draws a config struct type (reflect.StructOf; field names and `dials` tags from the harness's word lists in lower_snake/kebab/lowerCamel; optional json/yaml/toml tags and an inert cue tag; " +
			"kinds: bool, all int/uint widths, float32/64, string, time.Duration, time.Time, net.IP, a harness TextUnmarshaler struct, slices of scalars, map[string]scalar, map[string][]string, " +
			"map[string]struct{} sets, nested struct, *struct, []struct, dials:\"-\" fields; depth <= 3), or (1 case in 8) a compiled-in static type that also goes through dials.Config; random defaults; " +
			"two data trees (random subset of keys present, decoy entries under the keys a format must NOT read), each rendered into JSON, YAML, TOML and Cue from the one tree, decoded by the real decoders " +
			"(wrapped in NewTransformingDecoder(SetSliceMangler) whenever the type has a set, and in half of the other cases), compared by field name with the tree, stacked with the real compose over the defaults, " +
			"compared with the harness's reference stack and pairwise across formats; then two ill-typed documents (x4 formats) and one malformed document per format plus two single-byte JSON corruptions " +
			"(judged only when encoding/json.Valid is false). 2% of the generated types additionally carry a []time.Time field (family slice-of-time.Time, reported under its own key). " +
			"Before a disagreement about a valid document is reported, and on 1 case in 32 regardless, the document is re-parsed untyped with the format's own library and compared with the tree (renderer self-check; a failure is a harness failure, exit 2). " +
			"Shard 0 also runs a hand-written four-format corpus through dials.Config (case 0), the smallest []time.Time case (case 1), an observed-only map[string]struct probe (case 2) and three documents of 4.9-5.7 MB in every format (long string list, big map, long struct list, each with ordinary keys around it; case 3). " +
			"35% of nested struct / *struct fields outside slice elements are EMBEDDED (anonymous) fields carrying a dials tag: about half keyed by their own Go name in another case (Limits `dials:\"limits\"`, MaxConn `dials:\"maxConn\"`), the others by a differently spelled tag; the static type embeds three such members. " +
			"JSON documents are written by encoding/json (40%), by the harness's writer with every non-ASCII character escaped (25%, surrogate pairs above the BMP) or with any character - plain ASCII included, in keys and in values - possibly written as \\uXXXX / a short escape (35%); YAML, TOML and Cue double-quoted values now and then spell an ASCII character as \\uXXXX too. " +
			"Each field gets, with probability 12% per format name, a tag of another library whose key merely ends in json / yaml / toml (geojson, goyaml, legacytoml, ...; arbitrary value), usually without a real tag of that format; the static type carries three. " +
			"The Go NAME of 16% of the generated fields (never the document key, which the tags alone give) is spelled with letters outside ASCII: an upper-case initial from Latin-1 / Latin Extended / Greek / Cyrillic / Armenian / Deseret in front of the usual name (ÄMaxConn, ΩmaxConn; 11%), a non-ASCII letter at the end (MaxConné; 3%), or both (2%), in every position (leaf, nested struct, *struct, []struct and its element fields, embedded member with a differently spelled tag, dials:\"-\" field); the static type has four such fields (Ärger, Öffnung, *struct Éclair, and Ürl inside the nested / pointer / slice-element struct), also in the hand-written corpus. " +
			"distinct_nontrivial counts distinct (schema signature, presence pattern) pairs of data trees with >= 3 present leaves.",
		Assumptions: []string{
			"the Cue decoder's format tag is `json` (cue.go copies dials tags to json tags); a `cue:\"...\"` tag is inert and is generated only as a decoy",
			"time.Time values are written as TOML datetimes in TOML (go-toml fills time.Time only from its datetime type) and as RFC 3339 strings or YAML timestamps elsewhere; equality is instant + zone offset",
			"data outside what all four formats (as read by the pinned libraries) can express is not generated: uint64 > MaxInt64 (TOML), MinInt64 (cue v0.6.0: 'value was rounded up'), +-MaxFloat32 (go-toml and cue range-check the float64 literal), NaN/Inf/-0 (JSON), []uint8 (base64 in JSON), empty []struct (TOML), slices of a user-defined TextUnmarshaler struct (go-toml cannot fill them), invalid UTF-8, null, the empty document",
			"float32 literals are kept only when parse-as-float64-then-narrow equals parse-as-float32 (the libraries differ in which they do)",
			"ill-typed classes on which yaml.v2 legitimately coerces (number for string, float for int, list of small ints for net.IP) are not judged",
			"time.Time strings are written without optional escapes in JSON: the Go standard library's time.Time.UnmarshalJSON strips the quotes by hand and never decodes escapes (not dials code); every other string leaf, durations included, may be spelled with escapes",
			"escapes are not put into quoted TOML keys: go-toml does not decode them in table headers",
			"embedded struct members are generated only with a dials tag (a named member of the document in all four formats) and not inside slice elements, where go-toml alone falls back to filling an embedded struct VALUE whose key is absent from its parent's table",
			"map[string]struct values are observed only, not judged: the statement does not say whether 'string-keyed maps' includes struct values (on the pinned tree their dials tags are not honoured; see observed_only_map_of_struct)",
			"unknown document keys (the decoys) are expected to be ignored, which is what all four libraries do by default",
			"a struct field whose Go name starts with an upper-case letter outside ASCII is an exported field (Go specification; reflect, encoding/json, yaml.v2, go-toml and cue all fill it), so a `dials` tag on it names a leaf like any other",
			"trusted base: reflect, encoding/json (renderer and json.Valid), net.ParseIP, time.Format for producing literals",
		},
		MinDistinct: map[string]int{"quick": 15000, "thorough": 200000},
		MinCounters: map[string]map[string]int64{
			"quick": {
				"decode_ok_json": 20000, "decode_ok_yaml": 20000, "decode_ok_toml": 20000, "decode_ok_cue": 20000, "concurrent_direct_decodes_compared": 10000,
				"leaves_compared": 600000, "absent_leaves_checked": 400000, "own_tag_leaves_compared": 150000,
				"duration_ns_leaves_compared": 10000, "stacks_compared": 90000, "pairwise_compared": 130000,
				"illtyped_judged": 90000, "malformed_judged": 55000, "decoys_rendered": 150000,
				"config_api_valid": 10000, "config_api_rejected": 18000, "selfcheck_ok": 2500, "fixed_corpus_documents": 4,
				"fields_with_lookalike_foreign_tag_compared": 250000, "json_documents_with_unicode_escapes": 25000,
				"large_documents_judged": 12, "embedded_members_compared": 60000, "embedded_members_keyed_by_own_name_compared": 30000,
				"fields_with_non_ascii_go_name_compared": 150000, "fields_with_non_ascii_initial_go_name_compared": 120000,
			},
			"thorough": {
				"decode_ok_json": 300000, "decode_ok_yaml": 300000, "decode_ok_toml": 300000, "decode_ok_cue": 300000,
				"leaves_compared": 9000000, "absent_leaves_checked": 5000000, "own_tag_leaves_compared": 2000000,
				"duration_ns_leaves_compared": 150000, "stacks_compared": 1200000, "pairwise_compared": 1800000,
				"illtyped_judged": 1200000, "malformed_judged": 750000, "decoys_rendered": 2000000,
				"config_api_valid": 150000, "config_api_rejected": 250000, "selfcheck_ok": 35000, "fixed_corpus_documents": 4,
				"fields_with_lookalike_foreign_tag_compared": 2500000, "json_documents_with_unicode_escapes": 250000,
				"large_documents_judged": 12, "embedded_members_compared": 800000, "embedded_members_keyed_by_own_name_compared": 400000,
				"fields_with_non_ascii_go_name_compared": 1500000, "fields_with_non_ascii_initial_go_name_compared": 1200000,
			},
		},
		Plan: func(tier string) fw.Plan {
			if tier == "thorough" {
				return fw.Plan{Shards: 800, CasesPerShard: 500, Parallel: 16, TimeoutSec: 1800}
			}
			return fw.Plan{Shards: 48, CasesPerShard: 800, Parallel: 16, TimeoutSec: 900}
		},
		Run: runC13,
	})
}

func c13NewDecoder(fm c13Fmt, wrap bool) dials.Decoder {
	var d dials.Decoder
	switch fm {
	case c13JSON:
		d = &djson.Decoder{}
	case c13YAML:
		d = &dyaml.Decoder{}
	case c13TOML:
		d = &dtoml.Decoder{}
	default:
		d = &dcue.Decoder{}
	}
	if wrap {
		d = sourcewrap.NewTransformingDecoder(d, &transform.SetSliceMangler{})
	}
	return d
}

type c13Run struct {
	w        *fw.Worker
	i        int
	r        *fw.Rand
	schema   *c13Node
	T        reflect.Type
	pt       reflect.Type
	static   bool
	wrap     bool
	family   string
	defaults *c13Val
}

func (c *c13Run) newDefaults() reflect.Value {
	p := reflect.New(c.T)
	c13Build(c.defaults, p.Elem())
	if c.static {
		p.Elem().FieldByName("Ignored").SetInt(42)
	}
	return p
}

func (c *c13Run) decode(fm c13Fmt, doc string) (reflect.Value, error) {
	src := &static.StringSource{Data: doc, Decoder: c13NewDecoder(fm, c.wrap)}
	return src.Value(context.Background(), dials.NewType(c.pt))
}

func c13Trim(s string, n int) string {
	if len(s) > n {
		return s[:n] + "...(truncated)"
	}
	return s
}

func (c *c13Run) witness(fm c13Fmt, doc string, extra map[string]any) map[string]any {
	w := map[string]any{
		"format": c13FmtNames[fm], "document": c13Trim(doc, 6000), "type": c13Trim(c.T.String(), 4000),
		"set_slice_wrapper": c.wrap, "family": c.family,
	}
	for k, v := range extra {
		w[k] = v
	}
	return w
}

func c13DiffKey(prefix string, fm c13Fmt, d c13Diff) string {
	k := prefix + d.class + ":" + c13FmtNames[fm] + ":" + d.sig
	if d.ns {
		k += ":integer-ns"
	}
	if d.own {
		k += ":format-tag"
	}
	if d.lookalike {
		k += ":lookalike-tag"
	}
	if d.elem {
		k += ":in-slice-elem"
	}
	if d.nonASCIIInitial {
		k += ":go-name-with-non-ascii-initial"
	} else if d.nonASCII {
		k += ":go-name-with-non-ascii-letter"
	}
	return k
}

func (c *c13Run) reportDiffs(prefix string, fm c13Fmt, doc string, diffs []c13Diff) {
	for n, d := range diffs {
		if n >= 3 {
			break
		}
		c.w.Violation(c.i, c13DiffKey(prefix, fm, d)+c.keySuffix(),
			c13Trim(fmt.Sprintf("%s%s: %s decoder, leaf %s (%s): %s", prefix, d.class, c13FmtNames[fm], d.path, d.sig, d.text), 1500),
			c.witness(fm, doc, map[string]any{"path": d.path}))
	}
}

// keySuffix marks failures that belong to a special family, so that they are
// never folded into the key of the same leaf kind in an ordinary document.
func (c *c13Run) keySuffix() string {
	if strings.HasPrefix(c.family, "large-document") {
		return ":document-over-4MiB"
	}
	return ""
}

type c13Step struct {
	f   *c13Field
	idx int // >= 0: element of a slice of structs
}

// c13Only builds a copy of top that keeps just the chain of fields (and
// slice elements) in path.
func c13Only(top *c13Val, path []c13Step) *c13Val {
	out := &c13Val{node: top.node}
	st := path[0]
	fv := top.field(st.f)
	if st.idx >= 0 {
		el := fv.list[st.idx]
		if len(path) > 1 {
			el = c13Only(el, path[1:])
		}
		fv = &c13Val{node: fv.node, list: []*c13Val{el}}
	} else if len(path) > 1 {
		fv = c13Only(fv, path[1:])
	}
	out.fields, out.fvals = []*c13Field{st.f}, []*c13Val{fv}
	return out
}

// classifyDecodeError finds the smallest single-field document that the
// decoder of format fm still rejects and names that field's kind.
func (c *c13Run) classifyDecodeError(fm c13Fmt, top *c13Val) (string, string) {
	var path []c13Step
	cur := top
	sig := ""
	doc := ""
	// several renderings per candidate: whether a document is rejected may
	// depend on how it is spelled (quoting style, escapes), not only on its data
	rejects := func(p []c13Step, salt int) (string, bool) {
		only := c13Only(top, p)
		d := ""
		for k := 0; k < 6; k++ {
			d = c13Render(fm, only, fw.NewRand(uint64(salt+7919*k)))
			if _, err := c.decode(fm, d); err != nil {
				return d, true
			}
		}
		return d, false
	}
	for depth := 0; depth < 8 && cur != nil; depth++ {
		found := false
		for i, f := range cur.fields {
			p := append(append([]c13Step{}, path...), c13Step{f, -1})
			d, bad := rejects(p, depth*131+i)
			if !bad {
				continue
			}
			path, sig, doc, found = p, f.node.sig, d, true
			fv := cur.fvals[i]
			cur = nil
			switch f.node.kind {
			case c13Struct, c13PtrStruct:
				cur = fv
			case c13SliceStruct:
				for j, el := range fv.list {
					pj := append(append([]c13Step{}, path[:len(path)-1]...), c13Step{f, j})
					if dj, badj := rejects(pj, depth*131+i+7*j+1); badj {
						path, doc, cur = pj, dj, el
						break
					}
				}
			}
			break
		}
		if !found {
			break
		}
	}
	if sig == "" {
		return "no-single-field", ""
	}
	// the class is the kind of the innermost rejected field; the chain
	// leading to it is visible in the minimal document of the witness
	return sig, doc
}

type c13Result struct {
	doc      string
	out      reflect.Value
	err      error
	matched  bool
	composed reflect.Value
}

// judgeValid runs one data tree through the four decoders.
func (c *c13Run) judgeValid(tree *c13Val) [4]c13Result {
	w := c.w
	var res [4]c13Result
	merged := c13Merge(c.defaults, tree)
	kinds := map[string]struct{}{}
	for fm := c13JSON; fm <= c13Cue; fm++ {
		name := c13FmtNames[fm]
		doc := c13Render(fm, tree, c.r.Fork())
		res[fm].doc = doc
		if fm == c13JSON && strings.Contains(doc, "\\u00") {
			w.Count("json_documents_with_unicode_escapes", 1)
		}
		out, err := c.decode(fm, doc)
		res[fm].out, res[fm].err = out, err
		if err != nil {
			w.Count("decode_err_valid_doc_"+name, 1)
			if out.IsValid() {
				w.Violation(c.i, "error-with-value:"+name, fmt.Sprintf("%s decoder returned both an error (%v) and a value", name, err), c.witness(fm, doc, nil))
			}
			continue
		}
		w.Count("decode_ok_"+name, 1)
		if !out.IsValid() || out.Kind() != reflect.Struct {
			w.Violation(c.i, "no-error-no-struct:"+name, fmt.Sprintf("%s decoder returned no error and a non-struct value", name), c.witness(fm, doc, nil))
			continue
		}
		m := &c13Matcher{fm: fm, kinds: kinds}
		m.matchFields(c.schema, tree, out, false, "", false, false)
		w.Count("leaves_compared", m.leaves)
		w.Count("absent_leaves_checked", m.absent)
		w.Count("own_tag_leaves_compared", m.ownSeen)
		w.Count("duration_ns_leaves_compared", m.nsSeen)
		w.Count("embedded_members_compared", m.embSeen)
		w.Count("fields_with_lookalike_foreign_tag_compared", m.foreignSeen)
		w.Count("embedded_members_keyed_by_own_name_compared", m.embFoldSeen)
		w.Count("fields_with_non_ascii_go_name_compared", m.nonASCIISeen)
		w.Count("fields_with_non_ascii_initial_go_name_compared", m.nonASCIIInitialSeen)
		if len(m.diffs) > 0 {
			if c.rendererOK(fm, doc, tree) {
				c.reportDiffs("", fm, doc, m.diffs)
			}
			continue
		}
		res[fm].matched = true
		if c.i%32 == 0 {
			if ok, why := c13SelfCheck(fm, doc, tree); ok {
				w.Count("selfcheck_ok", 1)
			} else {
				c.selfCheckFailed(fm, why)
			}
		}
		// stack over the defaults with the real compose
		comp, cerr := dials.VerifCompose(c.newDefaults().Interface(), []reflect.Value{out})
		if cerr != nil {
			w.Violation(c.i, "stack-error:"+name, fmt.Sprintf("compose of the %s decoder's value over the defaults failed: %v", name, cerr), c.witness(fm, doc, nil))
			continue
		}
		cv := reflect.ValueOf(comp)
		if cv.Kind() != reflect.Ptr || cv.IsNil() || cv.Elem().Type() != c.T {
			w.Violation(c.i, "stack-type:"+name, fmt.Sprintf("compose returned %T, want *%s", comp, c.T), c.witness(fm, doc, nil))
			continue
		}
		sm := &c13Matcher{fm: fm}
		sm.matchFields(c.schema, merged, cv.Elem(), true, "", false, false)
		w.Count("stacks_compared", 1)
		w.Count("stack_leaves_compared", sm.leaves)
		if len(sm.diffs) > 0 {
			c.reportDiffs("stack-", fm, doc, sm.diffs)
			continue
		}
		res[fm].composed = cv.Elem()
	}
	for k := range kinds {
		w.SetAdd("leaf_kinds_compared", k)
	}
	// valid documents rejected: classify by the smallest rejected single-field document
	var failed []c13Fmt
	sigs := map[string]bool{}
	info := map[c13Fmt][2]string{}
	for fm := c13JSON; fm <= c13Cue; fm++ {
		if res[fm].err != nil {
			if !c.rendererOK(fm, res[fm].doc, tree) {
				continue
			}
			failed = append(failed, fm)
			s, d := c.classifyDecodeError(fm, tree)
			info[fm] = [2]string{s, d}
			sigs[s] = true
		}
	}
	if len(failed) == 4 && len(sigs) == 1 {
		fm := failed[0]
		c.w.Violation(c.i, "valid-document-rejected:all-formats:"+info[fm][0]+c.keySuffix(),
			fmt.Sprintf("all four decoders reject a well-formed, well-typed document; smallest rejected field kind %s; json error: %v", info[fm][0], res[c13JSON].err),
			c.witness(fm, res[fm].doc, map[string]any{"minimal_document_json": info[c13JSON][1], "minimal_document_yaml": info[c13YAML][1],
				"errors": []string{fmt.Sprint(res[0].err), fmt.Sprint(res[1].err), fmt.Sprint(res[2].err), fmt.Sprint(res[3].err)}}))
	} else {
		for _, fm := range failed {
			c.w.Violation(c.i, "valid-document-rejected:"+c13FmtNames[fm]+":"+info[fm][0]+c.keySuffix(),
				fmt.Sprintf("%s decoder rejects a well-formed, well-typed document (smallest rejected field kind %s): %v", c13FmtNames[fm], info[fm][0], res[fm].err),
				c.witness(fm, res[fm].doc, map[string]any{"minimal_document": info[fm][1]}))
		}
	}
	// pairwise agreement of the stacked configs
	for a := c13JSON; a <= c13Cue; a++ {
		for b := a + 1; b <= c13Cue; b++ {
			if !res[a].composed.IsValid() || !res[b].composed.IsValid() {
				continue
			}
			w.Count("pairwise_compared", 1)
			if !c13DeepEq(res[a].composed, res[b].composed) {
				w.Violation(c.i, "pairwise-differ:"+c13FmtNames[a]+"-"+c13FmtNames[b],
					fmt.Sprintf("the %s and %s documents of the same data produced different stacked configs", c13FmtNames[a], c13FmtNames[b]),
					c.witness(a, res[a].doc, map[string]any{"other_document": c13Trim(res[b].doc, 6000),
						"config_a": c13Trim(fmt.Sprintf("%+v", res[a].composed.Interface()), 3000), "config_b": c13Trim(fmt.Sprintf("%+v", res[b].composed.Interface()), 3000)}))
			}
		}
	}
	if c.static {
		c.configStaticValid(res, merged)
	}
	return res
}

// judgeRejected checks that a bad document yields an error and no value.
func (c *c13Run) judgeRejected(fm c13Fmt, doc, kind, class string) {
	name := c13FmtNames[fm]
	out, err := c.decode(fm, doc)
	c.w.Count(kind+"_judged", 1)
	c.w.SetAdd(kind+"_classes", name+":"+class)
	if err == nil {
		c.w.Violation(c.i, kind+"-accepted:"+name+":"+class,
			fmt.Sprintf("%s decoder accepted a%s document (class %s) and returned %s", name, map[string]string{"illtyped": "n ill-typed", "malformed": " malformed"}[kind], class, c13ShowOut(out)),
			c.witness(fm, doc, nil))
		return
	}
	if out.IsValid() {
		c.w.Violation(c.i, "error-with-value:"+name, fmt.Sprintf("%s decoder returned an error (%v) together with a value %s", name, err, c13ShowOut(out)), c.witness(fm, doc, nil))
	}
	if c.static {
		c.configStaticRejected(fm, doc, kind, class)
	}
}

func c13ShowOut(v reflect.Value) string {
	if !v.IsValid() {
		return "<no value>"
	}
	b, err := json.Marshal(v.Interface())
	if err != nil {
		return c13Trim(fmt.Sprintf("%+v", v.Interface()), 600)
	}
	return c13Trim(string(b), 600)
}

func (c *c13Run) corruptions(tree *c13Val, res [4]c13Result) {
	r := c.r
	// ill-typed: one field of the tree replaced by a value of the wrong shape
	targets := c13Targets(tree, nil)
	for k := 0; k < 2 && len(targets) > 0; k++ {
		t := targets[r.Intn(len(targets))]
		fv := t.parent.fvals[t.idx]
		if fv.raw != c13RawNone {
			continue
		}
		ms := c13MismatchesFor(fv.node)
		if len(ms) == 0 {
			continue
		}
		mm := ms[r.Intn(len(ms))]
		fv.raw = mm.raw
		for fm := c13JSON; fm <= c13Cue; fm++ {
			doc := c13Render(fm, tree, r.Fork())
			c.judgeRejected(fm, doc, "illtyped", mm.class+"("+fv.node.sig+")")
		}
		fv.raw = c13RawNone
	}
	// malformed by construction
	for fm := c13JSON; fm <= c13Cue; fm++ {
		if res[fm].doc == "" {
			continue
		}
		m := c13MalformedDoc(fm, res[fm].doc, r)
		if fm == c13JSON && json.Valid([]byte(m.doc)) {
			c.w.Count("json_corruption_still_valid", 1)
			continue
		}
		c.judgeRejected(fm, m.doc, "malformed", m.class)
	}
	for k := 0; k < 2; k++ {
		doc, class, ok := c13MutateJSON(res[c13JSON].doc, r)
		if !ok {
			c.w.Count("json_corruption_still_valid", 1)
			continue
		}
		c.judgeRejected(c13JSON, doc, "malformed", class)
	}
}

func (c *c13Run) describe() string {
	var b strings.Builder
	c13SchemaSig(c.schema, &b)
	return b.String()
}

func c13CountDecoys(v *c13Val) int64 {
	if v == nil {
		return 0
	}
	var n int64
	for _, d := range v.decoys {
		for _, on := range d.fmts {
			if on {
				n++
			}
		}
	}
	for _, fv := range v.fvals {
		n += c13CountDecoys(fv)
	}
	for _, e := range v.list {
		n += c13CountDecoys(e)
	}
	return n
}

func runC13(w *fw.Worker) {
	// sixteen single-threaded shards side by side: keep each worker's
	// scheduler and collector from competing for all cores (throughput only;
	// no verdict depends on it)
	runtime.GOMAXPROCS(2)
	debug.SetGCPercent(300)
	staticSchema := c13SchemaFromType(reflect.TypeOf(c13Static{}))
	if w.ReplayCase < 0 && w.Shard < 4 {
		c13Concurrent(w)
	}
	w.Cases(func(i int, r *fw.Rand) {
		if w.Shard == 0 && i == 0 {
			c13FixedStatic(w, i)
		}
		if w.Shard == 0 && i == 1 {
			c13FixedTextSlice(w, i)
		}
		if w.Shard == 0 && i == 2 {
			c13ObserveMapOfStruct(w)
		}
		if w.Shard == 0 && i == 3 {
			c13FixedLarge(w, i)
		}
		c := &c13Run{w: w, i: i, r: r}
		switch {
		case i%8 == 3:
			c.static, c.family = true, "static"
			c.schema = staticSchema
			c.wrap = true
		default:
			g := &c13SchemaGen{r: r, maxDepth: 2, budget: 22}
			if r.Chance(w.Pick(30, 50)) {
				g.maxDepth = 3
				g.budget = 30
			}
			c.family = "generated"
			if r.Chance(2) {
				g.allowTextSlice, g.forceTextSlice = true, true
				c.family = "slice-of-time.Time"
			}
			c.schema = g.structNode(0)
			c.wrap = c13HasSet(c.schema) || r.Bool()
		}
		c.T = c.schema.typ
		sig := c.describe()
		w.BeginDesc(i, c.family+" "+c13Trim(sig, 1500))
		vg := &c13ValGen{r: r}
		c.defaults = vg.value(c.schema, 55)
		dflt := c.newDefaults()
		c.pt = ptrify.Pointerify(c.T, dflt.Elem())
		w.Count("cases_"+c.family, 1)
		if c.wrap {
			w.Count("cases_with_set_slice_wrapper", 1)
		}
		var first *c13Val
		var firstRes [4]c13Result
		for rep := 0; rep < 2; rep++ {
			pct := fw.Pick(r, []int{30, 65, 65, 90})
			var tree *c13Val
			for try := 0; try < 5; try++ {
				tree = vg.value(c.schema, pct)
				if len(tree.fields) > 0 {
					break
				}
			}
			if rep == 0 || r.Chance(50) {
				vg.addDecoys(tree, 30)
			}
			w.Count("decoys_rendered", c13CountDecoys(tree))
			var pb strings.Builder
			leaves := c13Presence(tree, &pb)
			if leaves >= 3 {
				w.Distinct(sig + "|" + pb.String())
			}
			res := c.judgeValid(tree)
			if rep == 0 {
				first, firstRes = tree, res
			}
			if w.WantSample() && i%37 == 5 && rep == 0 {
				w.Sample(map[string]any{"family": c.family, "type": c13Trim(c.T.String(), 1500), "json": c13Trim(res[0].doc, 800),
					"yaml": c13Trim(res[1].doc, 800), "toml": c13Trim(res[2].doc, 800), "cue": c13Trim(res[3].doc, 800), "set_slice_wrapper": c.wrap})
			}
		}
		c.corruptions(first, firstRes)
	})
}

func ptrifyFor(c *c13Run) reflect.Type {
	return ptrify.Pointerify(c.T, c.newDefaults().Elem())
}

// rendererOK runs the renderer self-check for a document about which a
// disagreement is about to be reported; a failing self-check turns the case
// into an inconclusive one and makes the run a harness failure.
func (c *c13Run) rendererOK(fm c13Fmt, doc string, tree *c13Val) bool {
	ok, why := c13SelfCheck(fm, doc, tree)
	if ok {
		return true
	}
	c.selfCheckFailed(fm, why)
	return false
}

func (c *c13Run) selfCheckFailed(fm c13Fmt, why string) {
	c.w.Inconclusive(c.i, "renderer self-check failed for "+c13FmtNames[fm]+": "+c13Trim(why, 800))
	c.w.Note(fmt.Sprintf("HARNESS BUG case %d shard %d: %s renderer self-check failed: %s", c.i, c.w.Shard, c13FmtNames[fm], c13Trim(why, 800)))
	// a renderer bug must fail the run (exit 2): push the monitored counter below its minimum
	c.w.Count("selfcheck_ok", -1000000000)
	c.w.Count("selfcheck_failed", 1)
}
