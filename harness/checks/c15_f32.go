package checks

import (
	"fmt"
	"math"
	"reflect"
	"strconv"
	"strings"

	"github.com/vimeo/dials/parse"

	"verifharness/fw"
)

// c15F32Regress: the float32 values whose canonical text lies within half a float64 ulp of (but not on) the midpoint
// of two float32 neighbours - the only inputs on which parsing at 64 bits and narrowing differs from parsing at 32
// bits. Found by the thorough tier's exhaustive sweep; kept in the quick tier.
var c15F32Regress = []uint32{0x15ae43fd, 0x95ae43fd}

// c15Float32Sweep: canonical text -> parse.String -> same bits, over a slice of the float32 bit-pattern space.
// Thorough: every one of the 2^32 patterns (2^32/Shards per shard). Quick: a seeded stride sample of 2^18 per shard
// plus c15F32Regress. Every 64th pattern is also parsed as the last element of a []float32 and as the named type.
func c15Float32Sweep(w *fw.Worker) {
	f32 := reflect.TypeOf(float32(0))
	f32s := reflect.TypeOf([]float32(nil))
	named := reflect.TypeOf(c15Ratio(0))
	buf := make([]byte, 0, 48)
	var n, nan int64
	check := func(b uint32) {
		f := math.Float32frombits(b)
		buf = strconv.AppendFloat(buf[:0], float64(f), 'g', -1, 32)
		text := string(buf)
		v, err := parse.String(text, f32)
		n++
		var got uint32
		if err == nil {
			got = math.Float32bits(*(v.Interface().(*float32)))
		}
		if f != f {
			nan++
			if err != nil || math.Float32frombits(got) == math.Float32frombits(got) {
				w.Violation(-1, "float32-canonical-text:NaN", fmt.Sprintf("parse.String(%q, float32): err=%v bits=%#08x", text, err, got), map[string]any{"bits": fmt.Sprintf("%#08x", b), "text": text})
			}
			return
		}
		if err != nil || got != b {
			w.Violation(-1, "float32-canonical-text-does-not-round-trip", fmt.Sprintf("parse.String(%q, float32): err=%v, returned bits %#08x (%v), want %#08x", text, err, got, math.Float32frombits(got), b), map[string]any{"bits": fmt.Sprintf("%#08x", b), "text": text})
			return
		}
		if b%64 == 0 || b == c15F32Regress[0] || b == c15F32Regress[1] {
			lv, lerr := parse.String("1.5,"+text, f32s)
			if lerr != nil || lv.Len() != 2 || math.Float32bits(float32(lv.Index(1).Float())) != b {
				w.Violation(-1, "float32-canonical-text-does-not-round-trip:slice-element", fmt.Sprintf("parse.String(%q, []float32): err=%v value=%v", "1.5,"+text, lerr, c15Show(lv)), map[string]any{"bits": fmt.Sprintf("%#08x", b), "text": text})
			}
			nv, nerr := parse.String(text, named)
			if nerr != nil || math.Float32bits(float32(c15Deref(named, nv).Float())) != b {
				w.Violation(-1, "float32-canonical-text-does-not-round-trip:named-type", fmt.Sprintf("parse.String(%q, Ratio): err=%v", text, nerr), map[string]any{"bits": fmt.Sprintf("%#08x", b), "text": text})
			}
			n += 2
		}
	}
	if w.Quick() {
		for _, b := range c15F32Regress {
			if int(b%uint32(w.Shards)) == w.Shard {
				check(b)
			}
		}
		const per = 1 << 18
		stride := uint64(1<<32) / uint64(per*w.Shards)
		off := fw.Mix(w.Seed, 0xF32) % stride
		for k := 0; k < per; k++ {
			check(uint32((uint64(k*w.Shards+w.Shard))*stride + off))
		}
	} else {
		lo := uint64(w.Shard) << 32 / uint64(w.Shards)
		hi := uint64(w.Shard+1) << 32 / uint64(w.Shards)
		for b := lo; b < hi; b++ {
			check(uint32(b))
		}
		w.Note(fmt.Sprintf("float32 sweep: shard %d covered every bit pattern in [%#08x, %#08x)", w.Shard, lo, hi))
	}
	w.Eval(n)
	w.Count("comparisons", n)
	w.Count("float32_bit_patterns_roundtripped", n)
	w.Count("float32_nan_patterns", nan)
}

// mapEntryIndependence: a map text is a comma-separated list of entries, and what an entry contributes must not depend
// on its neighbours. Each entry is parsed alone (defining its meaning, including forms without value text such as `k`
// and `k:`), then the whole list: the list must fail iff some entry fails alone, and otherwise yield exactly the union.
func (e *c15Eval) mapEntryIndependence(r *fw.Rand, k, v c15Scalar, keys, vals []reflect.Value) string {
	mt := reflect.MapOf(k.typ, v.typ)
	entries := make([]string, len(keys))
	forms := ""
	for i := range keys {
		kq := strconv.Quote(c15Canon(keys[i]))
		switch f := r.Intn(5); {
		case f == 0:
			entries[i] = kq
			forms += "k"
		case f == 1:
			entries[i] = kq + ":"
			forms += "c"
		case f == 2:
			entries[i] = kq + `:""`
			forms += "e"
		default:
			entries[i] = kq + ":" + strconv.Quote(c15Canon(vals[i]))
			forms += "v"
		}
	}
	text := strings.Join(entries, ",")
	want := reflect.MakeMap(mt)
	var aloneErr error
	for _, en := range entries {
		m, err := parse.Map(en, mt)
		if err != nil {
			if aloneErr == nil {
				aloneErr = fmt.Errorf("entry %s alone: %w", en, err)
			}
			continue
		}
		for it := m.MapRange(); it.Next(); {
			want.SetMapIndex(it.Key(), it.Value())
		}
	}
	got, err := parse.Map(text, mt)
	e.count("comparisons", 1)
	e.count("map_entry_lists_checked", 1)
	wit := map[string]any{"type": mt.String(), "text": text, "entry_forms": forms}
	switch {
	case aloneErr != nil && err == nil:
		e.fail("map-entry-rejected-alone-accepted-in-a-list:"+v.name, fmt.Sprintf("Map(%s, %s) returned %s without error although %v", strconv.Quote(c15Clip(text)), mt, c15Show(got), aloneErr), wit)
	case aloneErr == nil && err != nil:
		e.fail("map-entries-accepted-alone-rejected-in-a-list:"+v.name, fmt.Sprintf("Map(%s, %s) failed (%v) although every entry parses alone", strconv.Quote(c15Clip(text)), mt, err), wit)
	case aloneErr == nil && !c15Equal(want, got):
		e.fail("map-entry-depends-on-its-neighbours:"+v.name, fmt.Sprintf("Map(%s, %s) = %s; the entries parsed one by one give %s", strconv.Quote(c15Clip(text)), mt, c15Show(got), c15Show(want)), wit)
	}
	if aloneErr != nil {
		e.count("map_entry_lists_with_an_invalid_entry", 1)
	}
	return text
}

// ssMapEntryIndependence: the same for map[string][]string (values of a repeated key accumulate in order).
func (e *c15Eval) ssMapEntryIndependence(r *fw.Rand) string {
	n := 2 + r.Intn(4)
	entries := make([]string, n)
	for i := range entries {
		kq := strconv.Quote(fw.Pick(r, []string{"a", "b", "", "k,1", "x:y"}))
		switch r.Intn(4) {
		case 0:
			entries[i] = kq
		case 1:
			entries[i] = kq + ":"
		default:
			entries[i] = kq + ":" + strconv.Quote(fw.Pick(r, c15HostilePieces))
		}
	}
	text := strings.Join(entries, ",")
	want := map[string][]string{}
	var aloneErr error
	for _, en := range entries {
		m, err := parse.StringStringSliceMap(en)
		if err != nil {
			if aloneErr == nil {
				aloneErr = fmt.Errorf("entry %s alone: %w", en, err)
			}
			continue
		}
		for k, l := range m {
			want[k] = append(want[k], l...)
		}
	}
	got, err := parse.StringStringSliceMap(text)
	e.count("comparisons", 1)
	e.count("map_entry_lists_checked", 1)
	wit := map[string]any{"type": "map[string][]string", "text": text}
	switch {
	case (aloneErr != nil) != (err != nil):
		e.fail("map-entry-list-error-differs-from-entries-alone:[]string", fmt.Sprintf("StringStringSliceMap(%s): err=%v; entries alone: %v", strconv.Quote(c15Clip(text)), err, aloneErr), wit)
	case err == nil && !reflect.DeepEqual(want, got):
		e.fail("map-entry-depends-on-its-neighbours:[]string", fmt.Sprintf("StringStringSliceMap(%s) = %#v; the entries parsed one by one give %#v", strconv.Quote(c15Clip(text)), got, want), wit)
	}
	return text
}

// c15AltSpelling returns another literal of the same scalar value (base prefix for integers, exponent form for floats,
// one-letter form for bools); ok=false when there is none.
func c15AltSpelling(s c15Scalar, v reflect.Value) (string, bool) {
	switch {
	case s.dur:
		return "", false
	case s.isInt():
		x := v.Int()
		if x < 0 {
			return "-0x" + strconv.FormatUint(uint64(-(x+1))+1, 16), true
		}
		return "0x" + strconv.FormatInt(x, 16), true
	case s.isUint():
		return "0b" + strconv.FormatUint(v.Uint(), 2), true
	case s.isFloat():
		f := v.Float()
		if math.IsNaN(f) || math.IsInf(f, 0) {
			return "", false
		}
		alt := strconv.FormatFloat(f, 'e', -1, s.floatBits())
		return alt, alt != c15Canon(v)
	case s.kind == reflect.Bool:
		if v.Bool() {
			return "T", true
		}
		return "F", true
	}
	return "", false
}

// mapKeySpelling: which literal spells a key must not matter. (1) one entry with the key in its canonical spelling and
// in another spelling gives the same map; (2) a list naming one key value twice gives the same outcome (error or not,
// and the same map) whether the second mention repeats the spelling or uses another one.
func (e *c15Eval) mapKeySpelling(k, v c15Scalar, key, v1, v2 reflect.Value) string {
	alt, ok := c15AltSpelling(k, key)
	if !ok {
		return ""
	}
	mt := reflect.MapOf(k.typ, v.typ)
	canon := c15Canon(key)
	q := strconv.Quote
	val1, val2 := q(c15Canon(v1)), q(c15Canon(v2))
	wit := map[string]any{"type": mt.String(), "key": canon, "other_spelling": alt}
	a, aerr := parse.Map(q(canon)+":"+val1, mt)
	b, berr := parse.Map(q(alt)+":"+val1, mt)
	e.count("comparisons", 2)
	e.count("map_key_spellings_checked", 1)
	if (aerr != nil) != (berr != nil) || (aerr == nil && !c15Equal(a, b)) {
		e.fail("map-key-spelling-changes-the-result:"+k.name, fmt.Sprintf("Map(%s:%s) -> %s err=%v; Map(%s:%s) -> %s err=%v", q(canon), val1, c15Show(a), aerr, q(alt), val1, c15Show(b), berr), wit)
		return alt
	}
	same := q(canon) + ":" + val1 + "," + q(canon) + ":" + val2
	other := q(canon) + ":" + val1 + "," + q(alt) + ":" + val2
	c, cerr := parse.Map(same, mt)
	d, derr := parse.Map(other, mt)
	if (cerr != nil) != (derr != nil) || (cerr == nil && !c15Equal(c, d)) {
		e.fail("repeated-map-key-outcome-depends-on-its-spelling:"+k.name, fmt.Sprintf("Map(%s) -> %s err=%v; Map(%s) -> %s err=%v", strconv.Quote(same), c15Show(c), cerr, strconv.Quote(other), c15Show(d), derr), wit)
	}
	return other
}
