package checks

import (
	"context"
	"fmt"
	"os"
	"path/filepath"
	"reflect"
	"runtime/debug"
	"sync"
	"sync/atomic"
	"time"

	"github.com/vimeo/dials"
	jsondec "github.com/vimeo/dials/decoders/json"
	"github.com/vimeo/dials/sources/file"

	"verifharness/fw"
)

// ---------------------------------------------------------------------------
// C17 scripted schedule: the context is cancelled while the watcher has a
// report pending.
//
// The generated histories cancel a watcher that has converged (idle in its own
// select) or - early-cancel - at an arbitrary instant, but their config type
// has no Verify, so the monitor takes every report within microseconds and the
// watcher is practically never cancelled INSIDE a report. Here the config type
// has a Verify() the episode can hold (user code dials calls on the monitor
// goroutine, DESIGN 2.1), which gives the schedule
//
//   1. content B is written; the monitor takes the watcher's report of B and
//      is held inside B's Verify();
//   2. content C (valid, or malformed: the pending report is an error report)
//      is written; the watcher reads it and blocks handing it to the monitor
//      (fence: a goroutine dump shows watchLoop inside (*watchArgs).Report*;
//      a seeded share of episodes skips the fence and uses a seeded pause);
//   3. the context is cancelled, then (seeded pause, or seeded: just before)
//      Verify is let go: the monitor comes back to its select with the
//      cancellation and, possibly, the pending report both ready.
//
// Oracle: only the release clause of the statement ("the watcher's goroutine
// and OS watches are released when the context is cancelled"), judged by
// c17Run.release exactly as after every generated history: WG.Wait() returns,
// no goroutine of the watcher remains, inotify descriptors are back. Nothing
// is demanded about the view (the statement promises nothing about updates
// racing with cancellation).
//
// Case indices: w.N+1 .. w.N+c17CancelEpisodes(w) (w.N is the overflow history).
// ---------------------------------------------------------------------------

// c17CancelEpisodes: episodes per shard.
func c17CancelEpisodes(w *fw.Worker) int { return w.Pick(6, 60) }

// c17VCfg is the config type of these episodes: its Verify can be held.
type c17VCfg struct {
	Alpha int    `dials:"alpha"`
	Beta  string `dials:"beta"`
}

type c17VGate struct {
	entered chan struct{}
	release chan struct{}
	once    sync.Once
	relOnce sync.Once
}

func (g *c17VGate) open() { g.relOnce.Do(func() { close(g.release) }) }

var (
	c17VGates        sync.Map // beta token -> *c17VGate
	c17VGateSeq      atomic.Int64
	c17VGateTimeouts atomic.Int64
)

// Verify implements dials.VerifiedConfig. It is harness code running on the
// monitor goroutine between compose and the version store.
func (c *c17VCfg) Verify() error {
	if v, ok := c17VGates.Load(c.Beta); ok {
		g := v.(*c17VGate)
		g.once.Do(func() { close(g.entered) })
		t := time.NewTimer(60 * time.Second)
		select {
		case <-g.release:
		case <-t.C:
			// safety net only: the episode always opens its gate
			c17VGateTimeouts.Add(1)
		}
		t.Stop()
	}
	return nil
}

func (e *c17Env) runCancelCase(i int) {
	w := e.w
	defer func() {
		if p := recover(); p != nil {
			st := string(debug.Stack())
			w.Violation(i, "panic:"+fw.TopDialsFrame(st), fmt.Sprintf("panic: %v", p), map[string]any{"stack": fw.TrimStack(st)})
		}
	}()
	for attempt := 0; attempt < 2; attempt++ {
		r := &c17Run{env: e, w: w, idx: i, attempt: attempt}
		r.executeCancelPending(w.Rand(i))
		if r.inconclusive == "" {
			break
		}
		if attempt == 0 {
			w.Count("inconclusive_retried", 1)
			continue
		}
		w.Inconclusive(i, r.inconclusive)
	}
	w.Eval(1)
}

// c17CancelWrite puts content b in place with one of the layout's operations.
func c17CancelWrite(fs *c17FS, kind string, b []byte) error {
	switch kind {
	case "inplace":
		return fs.inplace(b, nil, nil)
	case "rename-over":
		return fs.renameOver(b)
	case "delete-recreate":
		return fs.deleteRecreate(b, true, 0, nil, nil)
	case "k8s-swap":
		return fs.k8sSwap(b, true, true)
	case "symlink-swap":
		return fs.symlinkSwap(b, true, false, "json")
	}
	return fmt.Errorf("unknown step kind %q", kind)
}

func (r *c17Run) executeCancelPending(rnd *fw.Rand) {
	w := r.w
	layout := fw.Pick(rnd, []string{"plain", "plain", "k8s", "symfile"})
	kinds := map[string][]string{
		"plain":   {"inplace", "rename-over", "delete-recreate"},
		"k8s":     {"k8s-swap", "k8s-swap", "inplace", "rename-over"},
		"symfile": {"symlink-swap", "inplace", "rename-over"},
	}[layout]
	kindB, kindC := fw.Pick(rnd, kinds), fw.Pick(rnd, kinds)
	pendingError := rnd.Chance(30)
	fence := !rnd.Chance(20)
	blindPauseUs := rnd.Range(0, 3000)
	releaseFirst := rnd.Chance(20)
	gapUs := 0
	switch x := rnd.Intn(10); {
	case x < 4:
	case x < 6:
		gapUs = -1
	default:
		gapUs = rnd.Range(10, 800)
	}

	tok := fmt.Sprintf("hold-%d-%d-%d-%d", os.Getpid(), r.idx, r.attempt, c17VGateSeq.Add(1))
	c0 := []byte(fmt.Sprintf(`{"alpha": 100, "beta": "initial-%s"}`+"\n", tok))
	cB := []byte(fmt.Sprintf(`{"alpha": 200, "beta": %q}`+"\n", tok))
	cC := []byte(fmt.Sprintf(`{"alpha": 300, "beta": "after-%s"}`+"\n", tok))
	kindOfC := "valid"
	if pendingError {
		cC = []byte(fmt.Sprintf(`{"alpha": "not-a-number", "beta": "after-%s"`, tok))
		kindOfC = "malformed:type-mismatch+truncated"
	}
	r.h = &c17Hist{Layout: layout, Decoder: "json", Flavor: "cancel-with-report-pending",
		Contents: []c17Content{
			{ID: 0, Kind: "valid", Bytes: c0, Fresh: true, Text: string(c0)},
			{ID: 1, Kind: "valid", Bytes: cB, Fresh: true, Text: string(cB)},
			{ID: 2, Kind: kindOfC, Bytes: cC, Fresh: !pendingError, Text: string(cC)},
		},
		Ops: []c17Op{{Kind: kindB, Content: 1}, {Kind: "wait: monitor inside Verify() of content #1 (held)"},
			{Kind: kindC, Content: 2}, {Kind: fmt.Sprintf("fence on watchLoop inside a report=%v (else pause %dus)", fence, blindPauseUs)},
			{Kind: fmt.Sprintf("cancel; gap %dus; let Verify go (verify-first=%v)", gapUs, releaseFirst)}},
	}
	root := filepath.Join(w.Scratch, fmt.Sprintf("cancel%d_%d", r.idx, r.attempt))
	defer os.RemoveAll(root)
	fs, err := newC17FS(root, layout, "json", rnd.Bool(), c0)
	if err != nil {
		r.inconclusive = "harness: layout setup failed: " + err.Error()
		return
	}
	r.fs = fs
	r.hook = &c17HookState{t0: time.Now()}
	c17HookTable.Store(fs.cfgPath, r.hook)
	defer c17HookTable.Delete(fs.cfgPath)

	gate := &c17VGate{entered: make(chan struct{}), release: make(chan struct{})}
	c17VGates.Store(tok, gate)
	defer c17VGates.Delete(tok)
	defer gate.open()

	ws, err := file.NewWatchingSource(fs.cfgPath, &jsondec.Decoder{}, file.WithLogger(r.hook))
	if err != nil {
		r.inconclusive = "NewWatchingSource: " + err.Error()
		return
	}
	r.ws = ws
	ctx, cancel := context.WithCancel(context.Background())
	r.cancel = cancel
	a := r.env.audit
	a.mu.RLock()
	d, err := dials.Config(ctx, &c17VCfg{Alpha: -1, Beta: "default"}, ws)
	if err == nil {
		a.addLive(1)
	}
	a.mu.RUnlock()
	if err != nil {
		cancel()
		a.check()
		r.inconclusive = "dials.Config failed for the cancel-with-report-pending episode: " + err.Error()
		return
	}
	r.ptrs = c17Ptrs{ws: reflect.ValueOf(ws).Pointer(), backend: c17BackendPtr(ws), ctx: reflect.ValueOf(ctx).Pointer()}
	released := false
	defer func() {
		if !released {
			gate.open()
			r.release(false)
		}
	}()
	if v := d.View(); v.Alpha != 100 {
		r.inconclusive = fmt.Sprintf("harness: cancel episode: unexpected initial view %+v", *v)
		return
	}

	// 1. B: the monitor takes the report and is held in Verify
	if err := c17CancelWrite(fs, kindB, cB); err != nil {
		r.inconclusive = "harness: cancel episode: writing B failed: " + err.Error()
		return
	}
	r.executed = append(r.executed, kindB)
	t := time.NewTimer(c17Watchdog)
	select {
	case <-gate.entered:
		t.Stop()
	case <-t.C:
		r.inconclusive = "cancel episode: the monitor never reached Verify() of the second content"
		return
	}
	r.logf("monitor held inside Verify() of content #1 (watcher read #%d)", r.hook.reads.Load())

	// 2. C: the watcher's next report cannot be taken
	if err := c17CancelWrite(fs, kindC, cC); err != nil {
		r.inconclusive = "harness: cancel episode: writing C failed: " + err.Error()
		return
	}
	mark := kindC
	if pendingError {
		mark += "!"
	}
	r.executed = append(r.executed, mark)
	pendingSeen := false
	if fence {
		start := time.Now()
		sleep := 50 * time.Microsecond
		for time.Since(start) < 5*time.Second {
			if g, ok := c17WatchLoopState(c17Dump(), r.ptrs); ok && c17InReportFrame(g) {
				pendingSeen = true
				r.logf("watchLoop is inside a report: %s @ %s", g.state, g.top)
				break
			}
			time.Sleep(sleep)
			if sleep < 5*time.Millisecond {
				sleep *= 2
			}
		}
		if pendingSeen {
			w.Count("cancel_pending_report_seen_blocked", 1)
			if pendingError {
				w.Count("cancel_pending_error_report_seen_blocked", 1)
			}
		} else {
			w.Count("cancel_pending_fence_not_reached", 1)
		}
	} else {
		c17Pause(blindPauseUs)
		w.Count("cancel_pending_unfenced", 1)
	}

	// 3. cancel with the report pending, let the monitor go
	r.cancelScript = func() {
		if releaseFirst {
			gate.open()
			c17Pause(gapUs)
			cancel()
		} else {
			cancel()
			c17Pause(gapUs)
			gate.open()
		}
		r.logf("context cancelled and Verify() let go (verify-first=%v, gap %dus, pending report seen=%v)", releaseFirst, gapUs, pendingSeen)
	}
	w.Count("cancel_pending_episodes", 1)
	w.SetAdd("cancel_pending_variants", fmt.Sprintf("%s:%s>%s", layout, kindB, mark))
	released = true
	r.release(true)
	if !r.violated && r.inconclusive == "" {
		w.Count("cancel_pending_released", 1)
		w.Distinct(fmt.Sprintf("scripted|cancel-pending|%s|%s|%s|fence=%v|verify-first=%v|gap=%v", layout, kindB, mark, fence, releaseFirst, gapUs != 0))
	}
	w.Count("hook_reads", r.hook.reads.Load())
	if n := c17VGateTimeouts.Load(); n > 0 {
		w.SetAdd("verify_gate_safety_timeouts", fmt.Sprint(n))
	}
}
