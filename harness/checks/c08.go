package checks

import (
	"context"
	"errors"
	"fmt"
	"runtime"
	"strings"
	"sync"
	"sync/atomic"
	"time"

	"github.com/vimeo/dials"

	"verifharness/conc"
	"verifharness/fw"
)

func init() {
	fw.Register(&fw.Check{
		ID:   "C08",
		Race: true,
		Rule: "Chaos scenarios against a real Dials[Cfg] (2-3 fake watchers, optionally a Blank): 4-12 goroutines issue seeded random operations from {report value (blocking/not; valid, invalid, ill-typed), report error, Done, RegisterCallback (fresh/zero token), unregister (once, twice), EnableVerification, Blank.SetSource/Done, any of these with an own context that is already or soon cancelled, cancel the Config context} with seeded yields at the dials hook points; " +
			"then the instance is shut down (context cancel, or every watcher calls Done) and late calls are made after the monitor exited. Scripted placements: Config context cancelled exactly when the monitor has received an update (mon.recv gate), 1-4 late EnableVerification calls, late register/unregister/report, double unregister, a callback parked forever while 200 blocking reports must still install, unregister calls pending behind a parked callback when the instance shuts down (they must return, with failure, once their own context ends), and a Blank whose owner calls Done after SetSource calls that failed in the inner source's first Value() (watcher-shaped or plain inner sources; with the other watchers done the goroutines must exit). " +
			"Monitors: operation ledger (every call must return once its own context has ended; a call still blocked is confirmed by two goroutine dumps), leak monitor (no dials monitor/runCBs goroutine after shutdown once the harness released its callbacks), failure-indication check for post-shutdown calls, the race detector, and the process watcher (panic/fatal error = violation attributed to the pre-logged case). " +
			"distinct_nontrivial = distinct (options, op-kind multiset, shutdown mode) signatures.",
		Assumptions: []string{
			"a source that called Done does not report again (documented contract)",
			"post-shutdown EnableVerification is judged only with DelayInitialVerification (without it the call is a documented no-op that never talks to the monitor)",
		},
		MinDistinct: map[string]int{"quick": 150, "thorough": 5000},
		MinCounters: map[string]map[string]int64{
			"quick":    {"ops_issued": 15000, "ops_returned": 15000, "late_calls_checked": 1500, "leak_checks_passed": 300, "blocked_callback_reports": 2000, "pending_calls_at_shutdown_checked": 20, "unregister_calls_pending_at_shutdown": 15, "blank_done_after_failed_setsource_checked": 15},
			"thorough": {"ops_issued": 600000, "late_calls_checked": 60000, "pending_calls_at_shutdown_checked": 500, "blank_done_after_failed_setsource_checked": 500},
		},
		Plan: func(tier string) fw.Plan {
			if tier == "thorough" {
				return fw.Plan{Shards: 16, CasesPerShard: 2400, TimeoutSec: 3300}
			}
			return fw.Plan{Shards: 16, CasesPerShard: 60, TimeoutSec: 900}
		},
		Run: runC08,
	})
}

var c08APIFrames = []string{"RegisterCallback", "unregister", "EnableVerification", "BlockingReportNewValue", "ReportNewValue", "ReportError", ").Done(", "SetSource", "submitEventBlocking"}

// dialsGoroutines returns the goroutine dump blocks that contain a dials frame matching any of the needles.
func dialsGoroutines(needles []string) []string {
	buf := make([]byte, 4<<20)
	n := runtime.Stack(buf, true)
	var out []string
	for _, g := range strings.Split(string(buf[:n]), "\n\n") {
		if !strings.Contains(g, "github.com/vimeo/dials") {
			continue
		}
		for _, nd := range needles {
			if strings.Contains(g, nd) {
				out = append(out, g)
				break
			}
		}
	}
	return out
}

type c08Ledger struct {
	issued, returned atomic.Int64
	mu               sync.Mutex
	open             map[int64]string
	next             atomic.Int64
}

func (l *c08Ledger) begin(what string) int64 {
	id := l.next.Add(1)
	l.issued.Add(1)
	l.mu.Lock()
	l.open[id] = what
	l.mu.Unlock()
	return id
}

func (l *c08Ledger) end(id int64) {
	l.returned.Add(1)
	l.mu.Lock()
	delete(l.open, id)
	l.mu.Unlock()
}

func (l *c08Ledger) openOps() []string {
	l.mu.Lock()
	defer l.mu.Unlock()
	var out []string
	for _, w := range l.open {
		out = append(out, w)
	}
	return out
}

// c08EventsPollers: consumers that poll Events() (instead of sitting in the receive) while sources report as fast as
// they can. The monitor must stay responsive and shut down cleanly.
func c08EventsPollers(w *fw.Worker, i int, r *fw.Rand) {
	desc := map[string]any{"mode": "events-pollers-under-report-bursts"}
	w.BeginDesc(i, "events-pollers")
	e, err := conc.Start(context.Background(), r.U64(), conc.Opts{NSrc: 2}, nil)
	if err != nil {
		w.Violation(i, "config-failed", err.Error(), desc)
		return
	}
	ctx := e.S.Ctx
	stop := make(chan struct{})
	var pwg sync.WaitGroup
	var received atomic.Int64
	for p := 0; p < 2; p++ {
		rr := r.Fork()
		pwg.Add(1)
		go func(rr *fw.Rand) {
			defer pwg.Done()
			for k := 0; ; k++ {
				select {
				case <-stop:
					return
				default:
				}
				select {
				case <-e.D.Events():
					received.Add(1)
				default:
				}
				if k%(3+rr.Intn(5)) == 0 {
					runtime.Gosched()
				}
			}
		}(rr)
	}
	per := w.Pick(2500, 10000)
	var rwg sync.WaitGroup
	var halt atomic.Bool
	// The reports carry no deadline of their own: whether one is stuck is decided from goroutine states taken WHILE it is
	// still pending (after a timed-out call has returned the monitor is idle whatever happened; on a machine at load 300
	// a 5s deadline was met by scheduling delay alone).
	rctx, rcancel := context.WithCancel(ctx)
	defer rcancel()
	var prog [2]atomic.Int64
	var failed atomic.Pointer[error]
	for s := 0; s < 2; s++ {
		rwg.Add(1)
		go func(s int) {
			defer rwg.Done()
			for k := 0; k < per && !halt.Load(); k++ {
				l := e.NewLayer()
				l.Set[k%4], l.Set[2] = true, true
				if rerr := e.Srcs[s].Report(rctx, l, true); rerr != nil {
					halt.Store(true)
					failed.CompareAndSwap(nil, &rerr)
					return
				}
				prog[s].Add(1)
			}
		}(s)
	}
	finished := make(chan struct{})
	go func() { rwg.Wait(); close(finished) }()
	snapshot := func() [2]int64 { return [2]int64{prog[0].Load(), prog[1].Load()} }
	callerParked := func() bool {
		for _, g := range dialsGoroutines([]string{"BlockingReportNewValue"}) {
			if strings.Contains(strings.SplitN(g, "\n", 2)[0], "[select") {
				return true
			}
		}
		return false
	}
	endPollers := func() { close(stop); pwg.Wait() }
	last, lastChange := snapshot(), time.Now()
watch:
	for {
		select {
		case <-finished:
			break watch
		case <-time.After(250 * time.Millisecond):
		}
		if cur := snapshot(); cur != last {
			last, lastChange = cur, time.Now()
			continue
		}
		if time.Since(lastChange) < 5*time.Second {
			continue
		}
		// no blocking report has completed for 5s: two looks 300ms apart. The monitor parked in the same stuck state both
		// times, a caller parked inside BlockingReportNewValue both times and still no progress => stuck; else keep waiting.
		s1, d1 := monitorState()
		p1 := callerParked()
		time.Sleep(300 * time.Millisecond)
		s2, _ := monitorState()
		p2 := callerParked()
		keys := map[string]string{"idle": "call-never-answered:monitor-idle", "send-in-update": "monitor-blocked-on-abandoned-caller", "receive-in-update": "monitor-blocked-in-a-receive-while-installing", "blocked-in-submit": "monitor-blocked-submitting-callback-event"}
		if key, isStuck := keys[s1]; isStuck && s1 == s2 && p1 && p2 && snapshot() == last {
			w.Violation(i, key, fmt.Sprintf("blocking reports of valid values while Events() is being polled: none has completed for %v (%v done); a caller is parked inside BlockingReportNewValue and the monitor goroutine is %s, in two dumps 300ms apart", time.Since(lastChange).Round(time.Millisecond), last, s1), map[string]any{"case": desc, "goroutine": fw.TrimStack(d1)})
			halt.Store(true)
			rcancel()
			<-finished
			endPollers()
			e.S.Cancel()
			return
		}
		if time.Since(lastChange) > 90*time.Second {
			w.Inconclusive(i, fmt.Sprintf("blocking reports under Events() pollers: no progress for 90s, monitor state %s/%s, caller parked %v/%v", s1, s2, p1, p2))
			halt.Store(true)
			rcancel()
			<-finished
			endPollers()
			e.S.Cancel()
			return
		}
	}
	endPollers()
	w.Count("reports_under_events_pollers", prog[0].Load()+prog[1].Load())
	w.Count("events_values_polled", received.Load())
	if ep := failed.Load(); ep != nil {
		w.Violation(i, "valid-report-failed-under-events-pollers", (*ep).Error(), desc)
		e.S.Cancel()
		return
	}
	e.S.Cancel()
	select {
	case <-dials.VerifMonitorDone(e.D):
	case <-time.After(10 * time.Second):
		stuckVerdict(w, i, "monitor exit after cancelling the Config context (Events() pollers)", desc)
		return
	}
	if c08LeakCheck(w, i, desc) {
		w.Distinct(fmt.Sprintf("events-pollers|%d", received.Load()/1000))
	}
}

// blankDoneRetry: a Blank's Done whose context ends before the monitor takes the message (the monitor is busy in
// Verify) was not delivered; the owner calls Done again with a live context. When the other watcher is done too, the
// monitor and callback goroutines must exit.
func blankDoneRetry(w *fw.Worker, i int, r *fw.Rand, prop string) {
	desc := map[string]any{"mode": "blank-done-undelivered-then-retried"}
	w.BeginDesc(i, "blank-done-retry")
	c, err := c07Start(r, true, conc.Opts{NSrc: 2})
	if err != nil {
		w.Violation(i, "config-failed", err.Error(), desc)
		return
	}
	e := c.e
	defer e.Stop()
	ctx := e.S.Ctx
	// park the monitor inside Verify for a report of the other watcher, and call Done on the Blank meanwhile
	l := e.RandLayer(r, 0, 0)
	doneCalled := make(chan struct{})
	go func() {
		// wait until the monitor is inside Verify (the report below), then a Done that gives up after 20ms
		for k := 0; k < 100000 && !e.S.InVerify(); k++ {
			time.Sleep(50 * time.Microsecond)
		}
		sctx, cancel := context.WithTimeout(ctx, 20*time.Millisecond)
		c.blank.Done(sctx)
		cancel()
		close(doneCalled)
	}()
	abandoned, _ := e.HoldInVerify(1, 1, l, doneCalled)
	if !abandoned {
		w.Inconclusive(i, "the monitor never reached Verify for the parking report")
		return
	}
	// the owner retries with a live context, then the other watcher finishes as well
	dctx, dcancel := context.WithTimeout(ctx, 5*time.Second)
	c.blank.Done(dctx)
	e.Srcs[1].WA().Done(dctx)
	dcancel()
	w.Count("blank_done_retries_checked", 1)
	select {
	case <-dials.VerifMonitorDone(e.D):
	case <-time.After(10 * time.Second):
		s1, g := monitorState()
		time.Sleep(300 * time.Millisecond)
		s2, _ := monitorState()
		if s1 == "idle" && s2 == "idle" {
			w.Violation(i, "monitor-did-not-exit:all-done:blank-done-retried", "every watcher called Done (the Blank's first Done expired undelivered, its second had 5s) but the monitor is still idle in its loop, 10s later", map[string]any{"case": desc, "goroutine": fw.TrimStack(g)})
		} else {
			w.Inconclusive(i, "monitor exit not observed; state "+s1+"/"+s2)
		}
		return
	}
	if prop == "C08" {
		c08LeakCheck(w, i, desc)
	}
	w.Distinct("blank-done-retry")
}

// c08DoubleDone: one of several watchers calls Done twice. The others are still watching: their reports must be
// installed and new callbacks accepted.
func c08DoubleDone(w *fw.Worker, i int, r *fw.Rand) {
	n := r.Range(2, 3)
	desc := map[string]any{"mode": "one-watcher-calls-done-twice", "watchers": n}
	w.BeginDesc(i, "double-done")
	e, err := conc.Start(context.Background(), r.U64(), conc.Opts{NSrc: n}, nil)
	if err != nil {
		w.Violation(i, "config-failed", err.Error(), desc)
		return
	}
	defer e.Stop()
	ctx := e.S.Ctx
	// all but one watcher finish, the first of them twice (in some cases before, in some after the others)
	quitters := n - 1
	twiceFirst := r.Bool()
	if twiceFirst {
		e.Srcs[0].WA().Done(ctx)
		e.Srcs[0].WA().Done(ctx)
	}
	for k := 0; k < quitters; k++ {
		if !(twiceFirst && k == 0) {
			e.Srcs[k].WA().Done(ctx)
		}
	}
	if !twiceFirst {
		e.Srcs[0].WA().Done(ctx)
	}
	survivor := n - 1
	l := e.RandLayer(r, 0, 0)
	rctx, cancel := context.WithTimeout(ctx, 5*time.Second)
	rerr := e.Srcs[survivor].Report(rctx, l, true)
	cancel()
	w.Count("double_done_cases", 1)
	if rerr != nil {
		s1, g := monitorState()
		w.Violation(i, "live-watchers-report-lost-after-another-watcher-called-done-twice", fmt.Sprintf("a blocking report of the last live watcher failed (%v); monitor state: %s", rerr, s1), map[string]any{"case": desc, "goroutine": fw.TrimStack(g)})
		return
	}
	want := l.Apply(conc.DefaultsFP())
	if got := conc.FPOf(e.D.View()); got != want {
		w.Violation(i, "view-not-last-report-after-double-done", fmt.Sprintf("view %+v, want %+v", got, want), desc)
		return
	}
	_, tok := e.D.ViewVersion()
	if un := e.D.RegisterCallback(ctx, tok, func(context.Context, *conc.Cfg, *conc.Cfg) {}); un == nil {
		w.Violation(i, "register-refused-while-a-watcher-is-live", "RegisterCallback returned nil although one watcher has not called Done and the context is alive", desc)
		return
	}
	w.Distinct(fmt.Sprintf("double-done|%d|%v", n, twiceFirst))
}

// c08BlankRefusal: a Blank holding a watching inner source refuses a replacement. The refusal must leave the Blank
// usable: Done, Value and further SetSource calls return.
func c08BlankRefusal(w *fw.Worker, i int, r *fw.Rand) {
	desc := map[string]any{"mode": "blank-refuses-replacement-then-is-used-again"}
	w.BeginDesc(i, "blank-refusal")
	c, err := c07Start(r, true, conc.Opts{NSrc: 2})
	if err != nil {
		w.Violation(i, "config-failed", err.Error(), desc)
		return
	}
	e := c.e
	defer e.Stop()
	ctx := e.S.Ctx
	inner := &conc.WSrc{Src: conc.Src{Name: "inner-watcher", Init: e.RandLayer(r, 0, 0)}}
	if serr := c.blank.SetSource(ctx, inner); serr != nil {
		w.Violation(i, "blank-setsource-failed", serr.Error(), desc)
		return
	}
	if serr := c.blank.SetSource(ctx, &conc.Src{Name: "replacement", Init: e.RandLayer(r, 0, 0)}); serr == nil {
		w.Violation(i, "blank-replaced-a-watching-inner-source", "SetSource returned nil", desc)
		return
	}
	calls := []struct {
		name string
		f    func(ctx context.Context)
	}{
		{"Done", func(ctx context.Context) { c.blank.Done(ctx) }},
		{"Value", func(ctx context.Context) { c.blank.Value(ctx, dials.NewType(inner.Type())) }},
		{"SetSource", func(ctx context.Context) {
			c.blank.SetSource(ctx, &conc.Src{Name: "again", Init: e.RandLayer(r, 0, 0)})
		}},
	}
	call := calls[r.Intn(len(calls))]
	cctx, cancel := context.WithTimeout(ctx, 200*time.Millisecond)
	defer cancel()
	ret := make(chan struct{})
	go func() { call.f(cctx); close(ret) }()
	w.Count("calls_after_a_refused_setsource", 1)
	select {
	case <-ret:
		w.Distinct("blank-refusal|" + call.name)
	case <-time.After(5 * time.Second):
		g1 := dialsGoroutines([]string{"sourcewrap.(*Blank)"})
		time.Sleep(300 * time.Millisecond)
		g2 := dialsGoroutines([]string{"sourcewrap.(*Blank)"})
		if len(g1) > 0 && len(g2) > 0 {
			w.Violation(i, "blank-call-blocked-past-its-context:after-refused-setsource", "Blank."+call.name+" with a 200ms context is still blocked 5s later, after a refused SetSource", map[string]any{"case": desc, "goroutine": fw.TrimStack(g2[0])})
		} else {
			w.Inconclusive(i, "Blank."+call.name+" did not return; not provably blocked inside the Blank")
		}
	}
}

// errC08Value is what the failing inner sources of the Blank scenarios return from Value.
var errC08Value = errors.New("harness: inner source cannot produce a value yet")

// c08BlankFailedSetSource: the owner of a Blank tries to plug a source in, the source's first Value() fails (SetSource
// returns the error), possibly several times and possibly around a successful SetSource of a plain source; the owner then
// gives up and calls Done on the Blank. Once the other watchers have called Done too, every watching source has called
// Done: the monitor and the callback goroutine must exit and late calls must be refused. The failing sources come in both
// shapes (implementing dials.Watcher or not); none of them was ever handed WatchArgs, so none of them can be expected to
// call Done itself.
func c08BlankFailedSetSource(w *fw.Worker, i int, r *fw.Rand) {
	o := conc.Opts{NSrc: r.Range(2, 3), Delay: r.Chance(25), Suppress: r.Chance(25)}
	nFail := r.Range(1, 2)
	plainBefore, plainAfter := r.Chance(30), r.Chance(30)
	var shapes []string
	for k := 0; k < nFail; k++ {
		shapes = append(shapes, []string{"watcher", "watcher", "plain"}[r.Intn(3)])
	}
	// In half of the cases the first failing source is a Watcher whose Value() succeeds but whose first value is rejected
	// by Verify, so SetSource fails one step later, in the propagation; its Watch is never called either. (The library
	// failed this before /repo commit "fix: a Blank whose Watcher source failed to take over still owns its watch slot".)
	rejected := false
	if r.Bool() {
		shapes[0], rejected = "watcher-value-rejected", true
		o.Delay, o.Skip = false, false
	}
	blankDoneFirst := r.Bool()
	desc := map[string]any{"mode": "blank-done-after-failed-setsource", "opts": fmt.Sprintf("%+v", o), "failing_inner_sources": shapes, "plain_setsource_before": plainBefore, "plain_setsource_after": plainAfter, "blank_done_first": blankDoneFirst}
	w.BeginDesc(i, fmt.Sprintf("%v", desc))
	c, err := c07Start(r, true, o)
	if err != nil {
		w.Violation(i, "config-failed", err.Error(), desc)
		return
	}
	e := c.e
	defer e.S.Cancel()
	ctx := e.S.Ctx
	led := &c08Ledger{open: map[int64]string{}}
	// every Blank call gets a context the harness ends after 30s (nothing here should take that long: no verdict rests
	// on it) and runs under a watchdog
	blankCall := func(what string, f func(ctx context.Context)) bool {
		cctx, cancel := context.WithTimeout(ctx, 30*time.Second)
		defer cancel()
		ret := make(chan struct{})
		go func() { f(cctx); close(ret) }()
		select {
		case <-ret:
			return true
		case <-time.After(60 * time.Second):
			g1 := dialsGoroutines([]string{"sourcewrap.(*Blank)"})
			time.Sleep(300 * time.Millisecond)
			g2 := dialsGoroutines([]string{"sourcewrap.(*Blank)"})
			if len(g1) > 0 && len(g2) > 0 {
				w.Violation(i, "blank-call-blocked-past-its-context:around-failed-setsource", "Blank."+what+" with a 30s context is still blocked 60s later", map[string]any{"case": desc, "goroutine": fw.TrimStack(g2[0])})
			} else {
				w.Inconclusive(i, "Blank."+what+" did not return; not provably blocked inside the Blank")
			}
			return false
		}
	}
	if plainBefore {
		if !blankCall("SetSource", func(ctx context.Context) {
			c.blank.SetSource(ctx, &conc.Src{Name: "plain-before", Init: e.RandLayer(r, 0, 0)})
		}) {
			return
		}
	}
	for k, shape := range shapes {
		var inner dials.Source
		if shape == "watcher-value-rejected" {
			bad := e.NewLayer()
			bad.Set[0], bad.NegA = true, true
			inner = &conc.WSrc{Src: conc.Src{Name: "watcher-with-rejected-first-value", Init: bad}}
		} else if shape == "watcher" {
			inner = &conc.WSrc{Src: conc.Src{Name: fmt.Sprintf("failing-watcher-%d", k), ValueErr: errC08Value}}
		} else {
			inner = &conc.Src{Name: fmt.Sprintf("failing-plain-%d", k), ValueErr: errC08Value}
		}
		var serr error
		if !blankCall("SetSource", func(ctx context.Context) { serr = c.blank.SetSource(ctx, inner) }) {
			return
		}
		w.Count("failed_blank_setsource_calls", 1)
		if serr == nil && shape == "watcher-value-rejected" {
			w.Violation(i, "blank-setsource-succeeded-although-value-rejected", "SetSource returned nil for a source whose first value fails Verify (verification is on)", desc)
			return
		}
		if serr == nil {
			w.Violation(i, "blank-setsource-succeeded-although-value-failed", "SetSource returned nil for a source whose Value() returned an error", desc)
			return
		}
	}
	if plainAfter {
		// the result is not judged here (C20 judges the Blank's delegation); the call must return
		if !blankCall("SetSource", func(ctx context.Context) {
			c.blank.SetSource(ctx, &conc.Src{Name: "plain-after", Init: e.RandLayer(r, 0, 0)})
		}) {
			return
		}
	}
	// every watching source calls Done (live contexts)
	doneBlank := func() bool { return blankCall("Done", func(ctx context.Context) { c.blank.Done(ctx) }) }
	if blankDoneFirst && !doneBlank() {
		return
	}
	for s := 1; s < o.NSrc; s++ {
		dctx, dcancel := context.WithTimeout(ctx, 30*time.Second)
		e.Srcs[s].WA().Done(dctx)
		dcancel()
	}
	if !blankDoneFirst && !doneBlank() {
		return
	}
	select {
	case <-dials.VerifMonitorDone(e.D):
	case <-time.After(10 * time.Second):
		s1, g := monitorState()
		time.Sleep(300 * time.Millisecond)
		s2, _ := monitorState()
		if s1 == "idle" && s2 == "idle" && rejected {
			w.Violation(i, "monitor-did-not-exit:all-done:blank-done-after-rejected-watcher-setsource", "every watcher called Done with a live context (the Blank after a SetSource that failed because the Watcher-shaped source's first value was rejected by Verify; its Watch was never called), but the monitor is still idle in its loop 10s later", map[string]any{"case": desc, "goroutine": fw.TrimStack(g)})
		} else if s1 == "idle" && s2 == "idle" {
			w.Violation(i, "monitor-did-not-exit:all-done:blank-done-after-failed-setsource", "every watcher called Done with a live context (the Blank after a SetSource whose source failed its first Value()), but the monitor is still idle in its loop 10s later", map[string]any{"case": desc, "goroutine": fw.TrimStack(g)})
		} else {
			w.Inconclusive(i, "monitor exit not observed; state "+s1+"/"+s2)
		}
		return
	}
	w.Count("blank_done_after_failed_setsource_checked", 1)
	if !c08Late(w, i, e, c, nil, led, desc, r) {
		return
	}
	if c08LeakCheck(w, i, desc) {
		w.Distinct(fmt.Sprintf("blank-failed-setsource|%v|%v%v%v|%v%v", shapes, plainBefore, plainAfter, blankDoneFirst, o.Delay, o.NSrc))
	}
}

// pendingUnregisters returns the goroutines parked in the acknowledgement wait of an unregister call (innermost frame is
// unregister itself, state select).
func pendingUnregisters() []string {
	var out []string
	for _, g := range dialsGoroutines([]string{").unregister("}) {
		lines := strings.Split(g, "\n")
		if len(lines) > 1 && strings.Contains(lines[0], "[select") && strings.Contains(lines[1], ").unregister(") {
			out = append(out, g)
		}
	}
	return out
}

// c08PendingAtShutdown: a callback blocks forever, so the callback goroutine is parked inside user code. Unregister calls
// issued meanwhile are accepted into the queue and wait for their acknowledgement: they are pending. Then the instance
// shuts down (Config context cancelled, or every watcher calls Done), and after the monitor has exited the pending calls'
// own contexts end. Each call must return then, with a failure indication (the removal was never processed: the callback
// goroutine has been parked since before the call was issued).
func c08PendingAtShutdown(w *fw.Worker, i int, r *fw.Rand) {
	o := conc.Opts{NSrc: r.Range(2, 3)}
	blocker := []string{"global-OnNewConfig", "registered-callback"}[r.Intn(2)]
	mode := []string{"cancel", "all-done"}[r.Intn(2)]
	nPending := r.Range(1, 3)
	ownCtx := !r.Chance(20) // otherwise the pending calls' contexts are children of the Config context
	desc := map[string]any{"mode": "pending-unregister-at-shutdown", "blocked_callback": blocker, "shutdown": mode, "pending_calls": nPending, "own_context": ownCtx, "watchers": o.NSrc}
	w.BeginDesc(i, fmt.Sprintf("%v", desc))
	e, err := conc.Start(context.Background(), r.U64(), o, nil)
	if err != nil {
		w.Violation(i, "config-failed", err.Error(), desc)
		return
	}
	defer e.S.Cancel()
	ctx := e.S.Ctx
	gate := make(chan struct{})
	var gateOnce sync.Once
	release := func() { gateOnce.Do(func() { close(gate) }) }
	defer release()
	c := &c07Env{e: e}
	led := &c08Ledger{open: map[int64]string{}}
	var victims []dials.UnregisterCBFunc
	reg := func(handle int, extra func(old, nw *conc.Cfg)) dials.UnregisterCBFunc {
		_, tok := e.D.ViewVersion()
		if r.Chance(30) {
			tok = dials.CfgSerial[conc.Cfg]{}
		}
		// the callback goroutine is idle and its queue empty: the registration is accepted at once
		return e.D.RegisterCallback(ctx, tok, e.RegisteredCB(handle, extra))
	}
	blockerAt := -1
	if blocker == "registered-callback" {
		blockerAt = r.Intn(nPending + 1)
	} else {
		e.SetCBGate(gate)
	}
	for k := 0; k <= nPending; k++ {
		if k == blockerAt {
			if reg(1, func(_, _ *conc.Cfg) { <-gate }) == nil {
				w.Violation(i, "register-refused-while-a-watcher-is-live", "RegisterCallback returned nil on a live instance with an idle callback goroutine", desc)
				return
			}
		}
		if k < nPending {
			u := reg(10+k, nil)
			if u == nil {
				w.Violation(i, "register-refused-while-a-watcher-is-live", "RegisterCallback returned nil on a live instance with an idle callback goroutine", desc)
				return
			}
			victims = append(victims, u)
		}
	}
	// a new version: its announcement parks the callback goroutine inside the blocking callback
	rctx, rcancel := context.WithTimeout(ctx, 30*time.Second)
	rerr := e.Srcs[r.Intn(o.NSrc)].Report(rctx, e.RandLayer(r, 0, 0), true)
	rcancel()
	if rerr != nil {
		stuckVerdict(w, i, "valid blocking report on an idle instance", desc)
		return
	}
	if !conc.WaitUntil(func() bool { return e.InCB() > 0 }, 10*time.Second) {
		w.Inconclusive(i, "the callback goroutine never entered the blocking callback")
		return
	}
	type pend struct {
		res    chan bool
		cancel context.CancelFunc
		id     int64
	}
	var pending []pend
	for k := range victims {
		base := context.Background()
		if !ownCtx {
			base = ctx
		}
		uctx, ucancel := context.WithCancel(base)
		defer ucancel()
		p := pend{res: make(chan bool, 1), cancel: ucancel, id: led.begin("unregister (pending at shutdown)")}
		go func(u dials.UnregisterCBFunc) { p.res <- u(uctx) }(victims[k])
		pending = append(pending, p)
	}
	if conc.WaitUntil(func() bool { return len(pendingUnregisters()) >= len(pending) }, 5*time.Second) {
		w.Count("unregister_calls_pending_at_shutdown", int64(len(pending)))
	}
	if mode == "cancel" {
		e.S.Cancel()
	} else {
		for s := 0; s < o.NSrc; s++ {
			dctx, dcancel := context.WithTimeout(ctx, 30*time.Second)
			e.Srcs[s].WA().Done(dctx)
			dcancel()
		}
	}
	select {
	case <-dials.VerifMonitorDone(e.D):
	case <-time.After(10 * time.Second):
		s1, g := monitorState()
		time.Sleep(300 * time.Millisecond)
		s2, _ := monitorState()
		if s1 == s2 && (s1 == "idle" || s1 == "blocked-in-submit") {
			w.Violation(i, "monitor-did-not-exit:"+mode+":callback-parked", "the monitor goroutine is still "+s1+" 10s after shutdown ("+mode+") while a callback blocks", map[string]any{"case": desc, "goroutine": fw.TrimStack(g)})
		} else {
			w.Inconclusive(i, "monitor exit not observed; state "+s1+"/"+s2)
		}
		return
	}
	// let the pending callers notice the shutdown, then end their own contexts
	for k := r.Range(1, 20); k > 0; k-- {
		runtime.Gosched()
	}
	time.Sleep(time.Duration(r.Range(10, 40)) * time.Millisecond)
	for _, p := range pending {
		p.cancel()
	}
	for _, p := range pending {
		select {
		case ok := <-p.res:
			led.end(p.id)
			w.Count("pending_calls_at_shutdown_checked", 1)
			if ok {
				w.Violation(i, "pending-unregister-reported-success:callback-parked", "an unregister whose event cannot have been processed (the callback goroutine has been parked inside a callback since before the call) returned true", desc)
				return
			}
		case <-time.After(10 * time.Second):
			g1 := dialsGoroutines([]string{").unregister("})
			time.Sleep(300 * time.Millisecond)
			g2 := dialsGoroutines([]string{").unregister("})
			if len(g1) > 0 && len(g2) > 0 {
				w.Violation(i, "pending-unregister-blocked-past-its-context:callback-parked", "an unregister that was pending when the instance shut down ("+mode+") is still blocked 10s after its own context was cancelled; a callback is blocking the callback goroutine", map[string]any{"case": desc, "goroutine": fw.TrimStack(g2[0])})
			} else {
				w.Inconclusive(i, "pending unregister did not return; not provably blocked in dials")
			}
			return
		}
	}
	w.Count("ops_issued", led.issued.Load())
	w.Count("ops_returned", led.returned.Load())
	// the callback finally returns: the callback goroutine drains its queue and exits
	release()
	if !c08Late(w, i, e, c, victims, led, desc, r) {
		return
	}
	if c08LeakCheck(w, i, desc) {
		w.Distinct(fmt.Sprintf("pending-at-shutdown|%s|%s|%d|%v|%d", blocker, mode, nPending, ownCtx, blockerAt))
	}
}

func runC08(w *fw.Worker) {
	w.Cases(func(i int, r *fw.Rand) {
		// every shard gets its share of every episode kind (with i*Shards+Shard the expensive kinds landed on two of the
		// sixteen shards, which then ran twice as long as the rest)
		g := i + 3*w.Shard
		switch {
		case g%40 == 17:
			c08EventsPollers(w, i, r)
		case g%40 == 23:
			blankDoneRetry(w, i, r, "C08")
		case g%40 == 29:
			c08DoubleDone(w, i, r)
		case g%40 == 31:
			c08BlankRefusal(w, i, r)
		case g%40 == 11:
			c08BlankFailedSetSource(w, i, r)
		case g%40 == 13:
			c08PendingAtShutdown(w, i, r)
		case g%10 == 9:
			c08BlockedCallback(w, i, r)
		case g%10 == 8:
			c08CancelAtRecv(w, i, r)
		default:
			c08Chaos(w, i, r)
		}
	})
}

// c08LeakCheck waits for the dials goroutines of the (single, just shut down) instance to disappear.
func c08LeakCheck(w *fw.Worker, i int, desc any) bool {
	needles := []string{").monitor(", ").runCBs("}
	ok := conc.WaitUntil(func() bool { return len(dialsGoroutines(needles)) == 0 }, 5*time.Second)
	if ok {
		w.Count("leak_checks_passed", 1)
		return true
	}
	d1 := dialsGoroutines(needles)
	time.Sleep(300 * time.Millisecond)
	d2 := dialsGoroutines(needles)
	if len(d1) > 0 && len(d2) > 0 {
		which := "monitor"
		if strings.Contains(d2[0], "runCBs") {
			which = "runCBs"
		}
		w.Violation(i, "goroutine-leak-after-shutdown:"+which, "a dials background goroutine is still alive after shutdown (two dumps 300ms apart)", map[string]any{"case": desc, "goroutine": fw.TrimStack(d2[0])})
		return false
	}
	w.Count("leak_checks_passed", 1)
	return true
}

// c08Late issues calls after the monitor has exited and checks failure indications.
func c08Late(w *fw.Worker, i int, e *conc.Env, c *c07Env, unregs []dials.UnregisterCBFunc, led *c08Ledger, desc any, r *fw.Rand) bool {
	// NOTE: the Config context may be dead (cancel shutdown) or alive (Done shutdown); late calls use a fresh context.
	base := context.Background()
	short := func() (context.Context, context.CancelFunc) { return context.WithTimeout(base, 15*time.Millisecond) }
	check := func(what string, f func(ctx context.Context) (failed bool)) bool {
		ctx, cancel := short()
		defer cancel()
		id := led.begin("late " + what)
		done := make(chan bool, 1)
		go func() { done <- f(ctx) }()
		select {
		case failed := <-done:
			led.end(id)
			w.Count("late_calls_checked", 1)
			if !failed {
				w.Violation(i, "late-call-reported-success:"+what, "a call made after shutdown returned a success indication", desc)
				return false
			}
			return true
		case <-time.After(10 * time.Second):
			g1 := dialsGoroutines(c08APIFrames)
			time.Sleep(300 * time.Millisecond)
			g2 := dialsGoroutines(c08APIFrames)
			if len(g1) > 0 && len(g2) > 0 {
				w.Violation(i, "late-call-blocked-past-its-context:"+what, "a call made after shutdown is still blocked 10s after its 15ms context ended", map[string]any{"case": desc, "goroutine": fw.TrimStack(g2[0])})
			} else {
				w.Inconclusive(i, "late call did not return, not provably blocked in dials: "+what)
			}
			return false
		}
	}
	ok := check("RegisterCallback", func(ctx context.Context) bool {
		_, tok := e.D.ViewVersion()
		return e.D.RegisterCallback(ctx, tok, func(context.Context, *conc.Cfg, *conc.Cfg) {}) == nil
	})
	for k, u := range unregs {
		if !ok || k >= 3 {
			break
		}
		u := u
		ok = check("unregister", func(ctx context.Context) bool { return !u(ctx) })
	}
	for s := 0; ok && s < len(e.Srcs); s++ {
		if e.Srcs[s] == nil || e.Srcs[s].WA() == nil {
			continue
		}
		wa := e.Srcs[s].WA()
		l := e.RandLayer(r, 20, 0)
		v := l.Materialize(e.Srcs[s].Type())
		ok = check("ReportNewValue", func(ctx context.Context) bool { return wa.ReportNewValue(ctx, v) != nil })
		ok = ok && check("BlockingReportNewValue", func(ctx context.Context) bool { return wa.BlockingReportNewValue(ctx, v) != nil })
		ok = ok && check("ReportError", func(ctx context.Context) bool { return wa.ReportError(ctx, errSrcReported) != nil })
		ok = ok && check("Done", func(ctx context.Context) bool { wa.Done(ctx); return true })
		break
	}
	if ok && e.Opts.Delay {
		for k := r.Range(1, 4); ok && k > 0; k-- {
			ok = check("EnableVerification", func(ctx context.Context) bool {
				_, _, err := e.D.EnableVerification(ctx)
				return err != nil
			})
		}
	}
	if ok && c.blank != nil {
		ok = check("Blank.SetSource", func(ctx context.Context) bool {
			return c.blank.SetSource(ctx, &conc.Src{Name: "late", Init: e.NewLayer()}) != nil
		})
		ok = ok && check("Blank.Done", func(ctx context.Context) bool { c.blank.Done(ctx); return true })
	}
	return ok
}

func c08Chaos(w *fw.Worker, i int, r *fw.Rand) {
	o := conc.Opts{NSrc: r.Range(2, 3), Delay: r.Chance(30), Suppress: r.Chance(30), Skip: r.Chance(20), SlowCB: r.Intn(3)}
	useBlank := r.Chance(30)
	nG := r.Range(4, 12)
	shutdownByCancel := r.Bool()
	desc := map[string]any{"mode": "chaos", "opts": fmt.Sprintf("%+v", o), "blank": useBlank, "goroutines": nG, "shutdown_by_cancel": shutdownByCancel, "case_seed": w.CaseSeed(i)}
	w.BeginDesc(i, fmt.Sprintf("%v", desc))
	c, err := c07Start(r, useBlank, o)
	if err != nil {
		w.Violation(i, "config-failed", err.Error(), desc)
		return
	}
	e := c.e
	defer e.S.Cancel()
	e.Jitter = r.Range(0, 70)
	ctx := e.S.Ctx
	led := &c08Ledger{open: map[int64]string{}}
	srcDone := make([]atomic.Bool, o.NSrc)
	var blankDone atomic.Bool
	var killed atomic.Bool
	var umu sync.Mutex
	var unregs []dials.UnregisterCBFunc
	var kinds [12]atomic.Int64
	opctxs := make(chan context.CancelFunc, 4096)

	var wg sync.WaitGroup
	for gi := 0; gi < nG; gi++ {
		rr := r.Fork()
		wg.Add(1)
		go func(gi int, rr *fw.Rand) {
			defer wg.Done()
			for k := rr.Range(4, 14); k > 0; k-- {
				// every op gets its own context; some are cancelled early
				// every op's context ends on its own after a while: calls made
				// after an early monitor exit legitimately block until then
				octx, cancel := context.WithTimeout(ctx, time.Duration(20+rr.Intn(60))*time.Millisecond)
				opctxs <- cancel
				switch rr.Intn(10) {
				case 0:
					cancel()
				case 1:
					go func(d time.Duration) { time.Sleep(d); cancel() }(time.Duration(rr.Intn(300)) * time.Microsecond)
				}
				kind := rr.Intn(12)
				kinds[kind].Add(1)
				src := rr.Intn(o.NSrc)
				isBlankSlot := c.blank != nil && src == 0
				switch kind {
				case 0, 1, 2: // report value
					if isBlankSlot {
						if blankDone.Load() {
							continue
						}
						var inner dials.Source = &conc.Src{Name: "inner", Init: e.RandLayer(rr, 25, 5)}
						if rr.Chance(20) {
							// a source whose first Value() fails; half of them implement Watcher (never handed WatchArgs)
							if rr.Bool() {
								inner = &conc.WSrc{Src: conc.Src{Name: "inner-failing-watcher", ValueErr: errC08Value}}
							} else {
								inner = &conc.Src{Name: "inner-failing", ValueErr: errC08Value}
							}
						}
						id := led.begin("Blank.SetSource")
						c.blank.SetSource(octx, inner)
						led.end(id)
						continue
					}
					if srcDone[src].Load() {
						continue
					}
					l := e.RandLayer(rr, 25, 5)
					blocking := kind == 0
					id := led.begin(fmt.Sprintf("report blocking=%v", blocking))
					e.Srcs[src].Report(octx, l, blocking)
					led.end(id)
				case 3: // report error
					if isBlankSlot || srcDone[src].Load() {
						continue
					}
					id := led.begin("ReportError")
					e.Srcs[src].WA().ReportError(octx, errSrcReported)
					led.end(id)
				case 4: // Done (rare)
					if rr.Chance(70) {
						continue
					}
					if isBlankSlot {
						if blankDone.CompareAndSwap(false, true) {
							// Done with an already-ended context delivers nothing, so
							// use the scenario context: the flag must mean "delivered"
							id := led.begin("Blank.Done")
							c.blank.Done(ctx)
							led.end(id)
						}
						continue
					}
					if srcDone[src].CompareAndSwap(false, true) {
						id := led.begin("Done")
						e.Srcs[src].WA().Done(ctx)
						led.end(id)
					}
				case 5, 6: // register
					cfg, tok := e.D.ViewVersion()
					_ = cfg
					if rr.Chance(30) {
						tok = dials.CfgSerial[conc.Cfg]{}
					}
					id := led.begin("RegisterCallback")
					u := e.D.RegisterCallback(octx, tok, e.RegisteredCB(100+gi, nil))
					led.end(id)
					if u != nil {
						umu.Lock()
						unregs = append(unregs, u)
						umu.Unlock()
					}
				case 7, 8: // unregister, sometimes twice
					umu.Lock()
					var u dials.UnregisterCBFunc
					if len(unregs) > 0 {
						u = unregs[rr.Intn(len(unregs))]
					}
					umu.Unlock()
					if u == nil {
						continue
					}
					id := led.begin("unregister")
					u(octx)
					led.end(id)
					if kind == 8 {
						id := led.begin("unregister(again)")
						u(octx)
						led.end(id)
					}
				case 9: // enable
					id := led.begin("EnableVerification")
					e.D.EnableVerification(octx)
					led.end(id)
				case 10: // read
					if e.D.View() == nil {
						w.Violation(i, "view-returned-nil", "View() returned nil", desc)
					}
				case 11: // kill the whole instance (rare)
					if rr.Chance(8) && killed.CompareAndSwap(false, true) {
						e.S.Cancel()
					}
				}
				if rr.Chance(25) {
					runtime.Gosched()
				}
			}
		}(gi, rr)
	}
	opsDone := make(chan struct{})
	go func() { wg.Wait(); close(opsDone) }()
	select {
	case <-opsDone:
	case <-time.After(30 * time.Second):
		// cancel every op context: each call must return once its own context ended
		drainCancels(opctxs)
		select {
		case <-opsDone:
		case <-time.After(10 * time.Second):
			g1 := dialsGoroutines(c08APIFrames)
			time.Sleep(300 * time.Millisecond)
			g2 := dialsGoroutines(c08APIFrames)
			if len(g1) > 0 && len(g2) > 0 {
				w.Violation(i, "api-call-blocked-past-its-context", fmt.Sprintf("operations still open after their contexts were cancelled: %v", led.openOps()), map[string]any{"case": desc, "goroutine": fw.TrimStack(g2[0])})
			} else {
				w.Inconclusive(i, fmt.Sprintf("operations did not return (%v) but no goroutine is provably blocked in a dials API", led.openOps()))
			}
			e.S.Cancel()
			return
		}
	}
	drainCancels(opctxs)
	w.Count("ops_issued", led.issued.Load())
	w.Count("ops_returned", led.returned.Load())
	// shutdown
	mode := "cancel"
	if killed.Load() {
		mode = "killed-mid-run"
	} else if shutdownByCancel {
		e.S.Cancel()
	} else {
		mode = "all-done"
		for s := 0; s < o.NSrc; s++ {
			if c.blank != nil && s == 0 {
				if blankDone.CompareAndSwap(false, true) {
					c.blank.Done(ctx)
				}
				continue
			}
			if srcDone[s].CompareAndSwap(false, true) {
				e.Srcs[s].WA().Done(ctx)
			}
		}
	}
	select {
	case <-dials.VerifMonitorDone(e.D):
	case <-time.After(10 * time.Second):
		g1 := dialsGoroutines([]string{").monitor("})
		time.Sleep(300 * time.Millisecond)
		g2 := dialsGoroutines([]string{").monitor("})
		if len(g1) > 0 && len(g2) > 0 {
			w.Violation(i, "monitor-did-not-exit:"+mode, "the monitor goroutine is still running 10s after shutdown ("+mode+")", map[string]any{"case": desc, "goroutine": fw.TrimStack(g2[0])})
		} else {
			w.Inconclusive(i, "monitor exit not observed")
		}
		return
	}
	umu.Lock()
	us := append([]dials.UnregisterCBFunc(nil), unregs...)
	umu.Unlock()
	if !c08Late(w, i, e, c, us, led, desc, r) {
		return
	}
	if !c08LeakCheck(w, i, desc) {
		return
	}
	var sig strings.Builder
	fmt.Fprintf(&sig, "%v%v%v%d%v|%s|", o.Delay, o.Suppress, o.Skip, o.NSrc, useBlank, mode)
	for k := range kinds {
		fmt.Fprintf(&sig, "%d,", kinds[k].Load())
	}
	w.Distinct(sig.String())
	if i%43 == 0 {
		w.Sample(map[string]any{"case": desc, "ops": led.issued.Load(), "shutdown": mode, "op_kind_counts": sig.String()})
	}
}

func drainCancels(ch chan context.CancelFunc) {
	for {
		select {
		case c := <-ch:
			c()
		default:
			return
		}
	}
}

// c08BlockedCallback: a callback that blocks forever must not stop installs.
func c08BlockedCallback(w *fw.Worker, i int, r *fw.Rand) {
	o := conc.Opts{NSrc: 2}
	desc := map[string]any{"mode": "blocked-callback"}
	w.BeginDesc(i, "blocked-callback")
	e, err := conc.Start(context.Background(), r.U64(), o, nil)
	if err != nil {
		w.Violation(i, "config-failed", err.Error(), desc)
		return
	}
	e.SetCBGate(make(chan struct{}))
	ctx := e.S.Ctx
	n := 200
	var last *conc.Layer
	fail := false
	for k := 0; k < n && !fail; k++ {
		l := e.NewLayer()
		l.Set[k%4] = true
		l.Set[2] = true
		last = l
		done := make(chan error, 1)
		go func() { done <- e.Srcs[k%2].Report(ctx, l, true) }()
		select {
		case err := <-done:
			if err != nil {
				w.Violation(i, "install-failed-while-callback-blocked", fmt.Sprintf("report %d: %v", k, err), desc)
				fail = true
			}
			w.Count("blocked_callback_reports", 1)
		case <-time.After(10 * time.Second):
			stuckVerdict(w, i, fmt.Sprintf("blocking report %d while OnNewConfig is parked", k), desc)
			fail = true
		}
		// once the 64-slot queue is full: rejected updates and source errors must not block the monitor either,
		// and API calls that cannot be queued must give up when their own context ends
		if !fail && k >= 80 && k%20 == 0 {
			bad := e.RandLayer(r, 100, 0)
			bd := make(chan error, 1)
			go func() { bd <- e.Srcs[k%2].Report(ctx, bad, true) }()
			select {
			case berr := <-bd:
				if berr == nil {
					w.Violation(i, "invalid-update-accepted-while-callback-blocked", "an update failing Verify returned nil", desc)
					fail = true
				}
			case <-time.After(10 * time.Second):
				stuckVerdict(w, i, "rejected blocking report while OnNewConfig is parked and the callback queue is full", desc)
				fail = true
			}
			if !fail {
				// clear the rejected value out of that source's slot again (a rejected value lingers)
				fixl := e.NewLayer()
				fixl.Set[0], fixl.Set[1] = true, true
				last = fixl
				if ferr := e.Srcs[k%2].Report(ctx, fixl, true); ferr != nil {
					w.Violation(i, "install-failed-while-callback-blocked", fmt.Sprintf("valid report after a rejected one: %v", ferr), desc)
					fail = true
				}
			}
			if !fail {
				e.Srcs[0].WA().ReportError(ctx, errSrcReported)
				sctx, scancel := context.WithTimeout(ctx, 20*time.Millisecond)
				rdone := make(chan bool, 1)
				go func() {
					_, tok := e.D.ViewVersion()
					rdone <- e.D.RegisterCallback(sctx, tok, func(context.Context, *conc.Cfg, *conc.Cfg) {}) == nil
				}()
				select {
				case <-rdone:
					w.Count("late_calls_checked", 1)
				case <-time.After(10 * time.Second):
					g1 := dialsGoroutines(c08APIFrames)
					time.Sleep(300 * time.Millisecond)
					g2 := dialsGoroutines(c08APIFrames)
					if len(g1) > 0 && len(g2) > 0 {
						w.Violation(i, "api-call-blocked-past-its-context:queue-full", "RegisterCallback with a 20ms context is still blocked 10s later (callback queue full behind a parked callback)", map[string]any{"case": desc, "goroutine": fw.TrimStack(g2[0])})
					} else {
						w.Inconclusive(i, "RegisterCallback did not return; not provably blocked in dials")
					}
					fail = true
				}
				scancel()
			}
		}
	}
	if !fail {
		want := last.Apply(conc.FPOf(e.D.View()))
		if got := conc.FPOf(e.D.View()); got != want {
			w.Violation(i, "view-not-last-report-while-callback-blocked", fmt.Sprintf("view %+v does not contain the last report %s", got, last), desc)
		}
	}
	close(e.CBGate)
	e.S.Cancel()
	select {
	case <-dials.VerifMonitorDone(e.D):
	case <-time.After(10 * time.Second):
		w.Inconclusive(i, "monitor exit not observed")
		return
	}
	if c08LeakCheck(w, i, desc) {
		w.Distinct("blocked-callback|" + fmt.Sprint(i%5))
	}
}

// c08CancelAtRecv: the Config context is cancelled exactly when the monitor
// has received an update; callers racing with the shutdown must return.
func c08CancelAtRecv(w *fw.Worker, i int, r *fw.Rand) {
	o := conc.Opts{NSrc: 2, Delay: r.Bool()}
	desc := map[string]any{"mode": "cancel-at-mon.recv", "delay": o.Delay}
	w.BeginDesc(i, "cancel-at-mon.recv")
	e, err := conc.Start(context.Background(), r.U64(), o, nil)
	if err != nil {
		w.Violation(i, "config-failed", err.Error(), desc)
		return
	}
	defer e.S.Cancel()
	gates := conc.NewGates()
	defer gates.ReleaseAll()
	e.ExtraHook = func(name string, _ context.Context, args []any) { gates.OnHook(name, args) }
	c := &c07Env{e: e}
	led := &c08Ledger{open: map[int64]string{}}
	ctx := e.S.Ctx
	_, tok := e.D.ViewVersion()
	u := e.D.RegisterCallback(ctx, tok, e.RegisteredCB(1, nil))
	g := gates.Arm("mon.recv", isValueUpdate, false)
	// callers racing the shutdown, each with its own live context (fresh background)
	var wg sync.WaitGroup
	results := make(chan string, 16)
	octx, ocancel := context.WithCancel(context.Background())
	defer ocancel()
	wg.Add(1)
	go func() {
		defer wg.Done()
		err := e.Srcs[0].Report(octx, e.RandLayer(r.Fork(), 0, 0), true)
		results <- fmt.Sprintf("blocking report: %v", err)
	}()
	if !g.Wait(20 * time.Second) {
		w.Inconclusive(i, "monitor never received the update")
		return
	}
	for k := 0; k < 3; k++ {
		wg.Add(1)
		go func(k int) {
			defer wg.Done()
			switch k {
			case 0:
				nu := e.D.RegisterCallback(octx, tok, e.RegisteredCB(2, nil))
				results <- fmt.Sprintf("register -> nil=%v", nu == nil)
			case 1:
				if u != nil {
					results <- fmt.Sprintf("unregister -> %v", u(octx))
				}
			case 2:
				_, _, err := e.D.EnableVerification(octx)
				results <- fmt.Sprintf("enable -> %v", err)
			}
		}(k)
	}
	runtime.Gosched()
	e.S.Cancel() // the monitor is parked at mon.recv with the update in hand
	g.Release()
	select {
	case <-dials.VerifMonitorDone(e.D):
	case <-time.After(10 * time.Second):
		w.Inconclusive(i, "monitor exit not observed")
		return
	}
	// the racing callers' own context is still alive: give them a moment, then end it; they must return
	time.Sleep(2 * time.Millisecond)
	ocancel()
	done := make(chan struct{})
	go func() { wg.Wait(); close(done) }()
	select {
	case <-done:
	case <-time.After(10 * time.Second):
		g1 := dialsGoroutines(c08APIFrames)
		time.Sleep(300 * time.Millisecond)
		g2 := dialsGoroutines(c08APIFrames)
		if len(g1) > 0 && len(g2) > 0 {
			w.Violation(i, "api-call-blocked-past-its-context:shutdown-race", "a call racing with shutdown is still blocked after its own context ended", map[string]any{"case": desc, "goroutine": fw.TrimStack(g2[0])})
		} else {
			w.Inconclusive(i, "racing calls did not return; not provably blocked in dials")
		}
		return
	}
	w.Count("ops_issued", 4)
	w.Count("ops_returned", 4)
	if !c08Late(w, i, e, c, []dials.UnregisterCBFunc{u}, led, desc, r) {
		return
	}
	if c08LeakCheck(w, i, desc) {
		w.Distinct(fmt.Sprintf("cancel-at-recv|%v|%d", o.Delay, i%7))
	}
}
