package checks

import (
	"bytes"
	"context"
	"errors"
	"fmt"
	"os"
	"path/filepath"
	"reflect"
	"runtime/debug"
	"strings"
	"sync"
	"time"
	"unsafe"

	"github.com/vimeo/dials"
	jsondec "github.com/vimeo/dials/decoders/json"
	yamldec "github.com/vimeo/dials/decoders/yaml"
	"github.com/vimeo/dials/sources/file"

	"verifharness/fw"
)

// C17 — watched files: the view converges to the file's final content.
//
// Real files in the shard's scratch directory are driven through seeded
// histories of in-place rewrites, rename-over, Kubernetes AtomicWriter swaps,
// symlink swaps, delete+recreate, identical rewrites and malformed contents
// while a real file.WatchingSource feeds a real dials.Dials. The oracle is a
// fresh dials.Config over a static in-memory source of the same bytes (no
// file.go code involved). All verdicts are decided by state: "not converged"
// needs the watcher, fsnotify's reader, the monitor and the callback
// goroutine parked idle in three goroutine dumps >= 200ms apart with
// unchanged serial and unchanged read count; deadlines only yield
// "inconclusive".

const (
	c17Conc         = 6                // concurrently live watchers (= inotify instances) per shard process
	c17Watchdog     = 20 * time.Second // per wait; firing => inconclusive
	c17ProbeAfter   = 300 * time.Millisecond
	c17ProbeSpacing = 220 * time.Millisecond
	c17IdleProbes   = 3
	c17CbQueueCap   = 60 // dials' callback queue holds 64 events and drops on overflow
)

func init() {
	fw.Register(&fw.Check{
		ID:   "C17",
		Race: true,
		Rule: "One case = one history: layout (plain file | symlink to a file in another directory | k8s AtomicWriter layout), decoder (json|yaml; in 30% of histories behind a harness decoder that drains its reader with io.Copy / io.WriterTo / io.ReaderAt instead of io.ReadAll), 1..~14 steps over " +
			"{in-place truncate+rewrite in 1..6 pieces, in-place rewrite of the same byte length that restores the previous mtime or sets a fixed epoch mtime (cp -p / rsync --inplace -t; pwrite or O_TRUNC), write-temp+rename-over, k8s swap (with/without removing the old dir, file or link first), symlink swap (same/new dir, or to a sibling in the watched path's own directory), layout change by rename-over of the watched path (regular file -> symlink into another directory or to a sibling; symlink -> regular file; any number of times per history), " +
			"delete+recreate (in place or renamed in), identical bytes (in place and atomic), malformed or empty content (incl. well-formed content rejected by a text-unmarshalable field with an error wrapping fs.ErrNotExist), revert to the last good bytes, sync point, gate (watcher held between its read and its report/watch repair while 1-2 steps run)} " +
			"with seeded pauses (none, yield, 20us..50ms) and a seeded delay table on the file.read hook. A history is distinct by (layout, decoder, step-kind sequence with identical/revert/malformed/piece-count/variant marks) " +
			"and non-trivial when it has at least one content-changing step and the watcher was observed re-reading the file at least once. " +
			"Plus one scripted fault sequence in the first shard (first four in thorough): the watcher is stalled at the file.read hook, 2 x max_queued_events create+remove pairs overflow the inotify queue " +
			"(confirmed by the descriptor's FIONREAD count no longer growing), the config is replaced by rename-over, the watcher is released; the view must converge (key no-converge:after-queue-overflow). " +
			"Plus scripted schedules in every shard (6 quick / 60 thorough; config type with a Verify() the episode holds): the monitor is held in Verify() of one content, the watcher reads the next content (valid or malformed) and is seen, in a goroutine dump, " +
			"blocked handing its report to dials (20%: seeded pause instead of the fence), the context is cancelled and Verify is let go (seeded gap and order); only the release clause is judged " +
			"(key watcher-goroutine-survives-cancel:watchLoop-blocked-in-report-after-monitor-exit when, in 3 dumps >= 220ms apart, watchLoop is parked inside (*watchArgs).Report* and the monitor goroutine no longer exists).",
		Assumptions: []string{
			"expected config = fresh dials.Config over a static in-memory source of the final bytes with the same decoder (decoders are trusted here; file.go is the code under test)",
			"a sync point resets the set of admissible views only when the synced content is fresh (unique alpha) and was put in place atomically, so every later read sees complete contents",
			"the strict 'view is an admissible earlier valid content' and 'identical atomic replace adds no version' oracles are judged only in windows made of atomic steps; with in-place steps in the window (partial/mixed reads are legitimate) only convergence / error delivery is judged",
			"'error reported' = at least one *file.DecoderErr delivered to OnWatchedError after the content last turned invalid; not judged when the watcher re-read >= 60 times (dials may drop callback events when its 64-slot queue overflows)",
			"hard links, watch-setup failures and removal of the watched directory itself are outside the generated operations",
			"one filesystem (the sandbox's ext4), Linux inotify through fsnotify v1.8.0; pauses <= 50ms",
		},
		MinDistinct: map[string]int{"quick": 2500, "thorough": 40000},
		MinCounters: map[string]map[string]int64{
			"quick": {"final_valid_converged": 1200, "final_invalid_error_seen": 600, "identical_windows_judged": 500, "syncs_passed": 1800,
				"release_checked": 3500, "hook_reads": 20000, "gates_held": 1500, "probe_selftest_ok": 300, "admissible_view_judged": 300, "fd_audits_ok": 3500,
				"queue_overflow_confirmed": 1, "keep_mtime_same_length_rewrites": 800, "final_invalid_decoder_notexist_error_seen": 40, "histories_with_reader_style_decoder": 800,
				"cancel_pending_episodes": 40, "cancel_pending_report_seen_blocked": 20, "steps:to-symlink": 400, "steps:to-regular": 250},
			"thorough": {"final_valid_converged": 20000, "final_invalid_error_seen": 10000, "identical_windows_judged": 9000, "syncs_passed": 30000,
				"release_checked": 60000, "hook_reads": 300000, "gates_held": 25000, "probe_selftest_ok": 5000, "admissible_view_judged": 5000, "fd_audits_ok": 60000,
				"queue_overflow_confirmed": 3, "keep_mtime_same_length_rewrites": 15000, "final_invalid_decoder_notexist_error_seen": 800, "histories_with_reader_style_decoder": 15000,
				"cancel_pending_episodes": 800, "cancel_pending_report_seen_blocked": 400, "steps:to-symlink": 8000, "steps:to-regular": 5000},
		},
		Plan: func(tier string) fw.Plan {
			if tier == "thorough" {
				return fw.Plan{Shards: 16, CasesPerShard: 7000, Parallel: 8, TimeoutSec: 3600}
			}
			return fw.Plan{Shards: 8, CasesPerShard: 600, Parallel: 8, TimeoutSec: 900}
		},
		Run: runC17,
	})
}

type c17Env struct {
	w     *fw.Worker
	audit *c17Audit
}

func runC17(w *fw.Worker) {
	c17InstallHook()
	env := &c17Env{w: w, audit: &c17Audit{baseline: c17CountInotify()}}
	if b, err := os.ReadFile("/proc/sys/fs/inotify/max_user_instances"); err == nil {
		w.SetAdd("inotify_max_user_instances", strings.TrimSpace(string(b)))
	}
	if w.ReplayCase >= 0 {
		w.Begin(w.ReplayCase)
		if w.ReplayCase > w.N {
			env.runCancelCase(w.ReplayCase)
		} else if w.ReplayCase == w.N {
			env.runOverflowCase(w.ReplayCase)
		} else {
			env.runCase(w.ReplayCase)
		}
		c17TriageRaceLog(w.Count, w.SetAdd, w.Note)
		return
	}
	if w.Shard < c17OverflowShards(w) {
		// scripted fault sequence (inotify queue overflow), run alone: case index w.N
		w.BeginDesc(w.N, "scripted inotify queue-overflow history")
		env.runOverflowCase(w.N)
	}
	sem := make(chan struct{}, c17Conc)
	var wg sync.WaitGroup
	// scripted schedules (cancellation while a report is pending): case indices w.N+1..
	for k := 1; k <= c17CancelEpisodes(w); k++ {
		sem <- struct{}{}
		w.Begin(w.N + k)
		wg.Add(1)
		go func(i int) {
			defer wg.Done()
			defer func() { <-sem }()
			env.runCancelCase(i)
		}(w.N + k)
	}
	wg.Wait()
	for i := 0; i < w.N; i++ {
		sem <- struct{}{}
		w.Begin(i)
		wg.Add(1)
		go func(i int) {
			defer wg.Done()
			defer func() { <-sem }()
			env.runCase(i)
		}(i)
	}
	wg.Wait()
	if got, want, ok := env.audit.check(); !ok && got > want {
		w.Violation(w.N-1, "inotify-descriptor-leak", fmt.Sprintf("after all histories of the shard were cancelled and waited for, the process holds %d inotify descriptors, expected %d", got, want), nil)
	}
	w.Count("decoder_drained_reader_via:io.Copy", c17ReadViaCopy.Load())
	w.Count("decoder_drained_reader_via:WriterTo", c17ReadViaWriterTo.Load())
	w.Count("decoder_drained_reader_via:ReaderAt", c17ReadViaReaderAt.Load())
	w.Count("decoder_drained_reader_via:ReadAll-fallback", c17ReadViaRead.Load())
	if n := c17HookStray.Load(); n > 0 {
		w.Count("hook_stray_calls", n)
	}
	c17TriageRaceLog(w.Count, w.SetAdd, w.Note)
}

func (e *c17Env) runCase(i int) {
	w := e.w
	defer func() {
		if p := recover(); p != nil {
			st := string(debug.Stack())
			w.Violation(i, "panic:"+fw.TopDialsFrame(st), fmt.Sprintf("panic: %v", p), map[string]any{"stack": fw.TrimStack(st)})
		}
	}()
	h := c17Generate(w.Rand(i))
	for attempt := 0; attempt < 2; attempt++ {
		r := &c17Run{env: e, w: w, idx: i, h: h, attempt: attempt}
		r.execute()
		if r.inconclusive == "" {
			break
		}
		if attempt == 0 {
			w.Count("inconclusive_retried", 1)
			continue
		}
		w.Inconclusive(i, r.inconclusive)
	}
	w.Eval(1)
}

// ---- reference oracle ------------------------------------------------------

type c17Static struct {
	b   []byte
	dec dials.Decoder
}

func (s *c17Static) Value(_ context.Context, t *dials.Type) (reflect.Value, error) {
	return s.dec.Decode(bytes.NewReader(s.b), t)
}

type c17Ref struct {
	cfg *c17Cfg
	err error
}

// c17Reference: the config a fresh Dials computes from these bytes.
func c17Reference(b []byte, dec dials.Decoder) c17Ref {
	d, err := dials.Config(context.Background(), c17Defaults(), &c17Static{b: b, dec: dec})
	if err != nil {
		return c17Ref{err: err}
	}
	return c17Ref{cfg: d.View()}
}

// ---- one execution ---------------------------------------------------------

type c17Win struct {
	ok          bool // opened at a strong sync and only atomic steps since
	serial0     uint64
	adm         []*c17Cfg
	distinct    int
	identAtomic int
	invalid     int
	// lastValidID/validChanges: how often the valid content changed in the
	// window when invalid contents are skipped (A, M, A counts 0).
	lastValidID  int
	validChanges int
}

type c17Run struct {
	env     *c17Env
	w       *fw.Worker
	idx     int
	attempt int
	h       *c17Hist

	fs     *c17FS
	refs   []c17Ref
	hook   *c17HookState
	ws     *file.WatchingSource
	d      *dials.Dials[c17Cfg]
	cancel context.CancelFunc
	// cancelScript, when set, is run by release(true) in place of the plain
	// cancel (scripted schedules around the cancellation).
	cancelScript func()
	ptrs         c17Ptrs

	mu        sync.Mutex
	decErrs   int
	decTexts  []string
	otherErrs []string
	newCfgs   int

	executed     []string // step kinds executed so far (for keys/witness)
	log          []string
	inconclusive string
	violated     bool
}

func (r *c17Run) logf(f string, a ...any) {
	if len(r.log) < 200 {
		pre := ""
		if r.hook != nil {
			pre = fmt.Sprintf("+%dus ", time.Since(r.hook.t0).Microseconds())
		}
		r.log = append(r.log, pre+fmt.Sprintf(f, a...))
	}
	if r.w.Verbose {
		fmt.Printf("  [C17 case %d] "+f+"\n", append([]any{r.idx}, a...)...)
	}
}

func (r *c17Run) decErrCount() int {
	r.mu.Lock()
	defer r.mu.Unlock()
	return r.decErrs
}

func (r *c17Run) viewVersion() (*c17Cfg, uint64) {
	cfg, ser := r.d.ViewVersion()
	return cfg, c17Serial(ser)
}

func (r *c17Run) witness(extra map[string]any) map[string]any {
	m := map[string]any{"history": r.h, "log": r.log, "scratch_layout": r.h.Layout}
	if r.d != nil {
		cfg, ser := r.viewVersion()
		m["view"] = c17TrimCfg(cfg)
		m["serial"] = ser
	}
	if r.hook != nil {
		m["watcher_reads"] = r.hook.reads.Load()
		m["watcher_trail"] = r.hook.trailCopy()
	}
	r.mu.Lock()
	m["decoder_errors_delivered"] = r.decErrs
	m["other_errors_delivered"] = r.otherErrs
	m["new_config_callbacks"] = r.newCfgs
	r.mu.Unlock()
	for k, v := range extra {
		m[k] = v
	}
	return m
}

func c17TrimCfg(c *c17Cfg) any {
	if c == nil {
		return nil
	}
	cp := *c
	if len(cp.Pad) > 40 {
		cp.Pad = cp.Pad[:40] + fmt.Sprintf("...(%d)", len(c.Pad))
	}
	return cp
}

// naturalSchedule: the history uses no gate and no file.read hook delay, so
// the schedule that produced the outcome is the machine's own.
func (r *c17Run) naturalSchedule() bool {
	for _, o := range r.h.Ops {
		if o.Kind == "gate-arm" {
			return false
		}
	}
	for _, d := range r.h.DelaysUs {
		if d != 0 {
			return false
		}
	}
	return true
}

func (r *c17Run) violation(key, detail string, extra map[string]any) {
	r.violated = true
	if extra == nil {
		extra = map[string]any{}
	}
	extra["natural_schedule_no_gate_no_hook_delay"] = r.naturalSchedule()
	if r.naturalSchedule() {
		r.w.Count("violations_under_natural_schedule", 1)
	}
	r.w.Violation(r.idx, key, detail, r.witness(extra))
}

// opClass names the class of the last steps for violation keys: layout plus
// the last two content-changing step kinds ("=" identical, "!" malformed).
func (r *c17Run) opClass() string {
	n := len(r.executed)
	lo := n - 2
	if lo < 0 {
		lo = 0
	}
	lay := r.h.Layout
	if r.h.ReadMode != "" {
		lay += "/" + r.h.ReadMode
	}
	return lay + ":" + strings.Join(r.executed[lo:], ">")
}

// postMortem runs only after a non-convergence verdict has been reached. It
// gathers evidence for the witness and names the class of the failure for the
// key. Two classes are recognised; everything else is keyed by layout and the
// last two content-changing step kinds.
//
// "stale-after-swap-while-target-missing": symlinked layout; a delete+recreate
// step ran after a symlink swap, and the watcher is deaf to the current target:
// the nudge does not help, or the directory holding the file the watched path
// now resolves to is not in the watcher's fsnotify watch list, or the watcher
// has not found the file in any read since the most recent swap completed (it
// could not re-resolve the path while the target was missing, so its directory
// watch and/or its event-name filter still describe the previous target).
//
// "config-dir-not-watched" (any layout): see below; checked first.
//
// "update-lost-while-moving-dir-watch": symlinked layout; the current target
// directory IS watched now but was NOT in the watch list when the watcher did
// its last read that found the file (the file.read hook runs between the read
// and the watch repair, so that read's handling is the one that moved the
// directory watch), nothing was read afterwards, and rewriting the same final
// bytes in place (the "nudge") makes the condition hold: the watch set is
// intact and one update fell between the read and the watch move.
func (r *c17Run) postMortem(final []byte, cond func() bool, wit map[string]any) string {
	startedLast, doneLast, donePrev, doneTotal := r.hook.startedAtLast.Load(), r.hook.doneAtLast.Load(), r.hook.doneAtPrev.Load(), r.hook.swapsDone.Load()
	wit["view_at_verdict"] = c17TrimCfg(r.d.View())
	wl := c17WatchList(r.ws)
	for i := range wl {
		wl[i] = strings.TrimPrefix(wl[i], r.fs.root+"/")
	}
	wit["fsnotify_watch_list"] = wl
	resolved, rerr := filepath.EvalSymlinks(r.fs.cfgPath)
	watched, watchedAtLastRead := false, false
	if rerr == nil {
		dir := strings.TrimPrefix(filepath.Dir(resolved), r.fs.root+"/")
		wit["current_target_dir"] = dir
		for _, p := range wl {
			if p == dir {
				watched = true
			}
		}
		wit["current_target_dir_watched"] = watched
		r.hook.mu.Lock()
		for _, p := range r.hook.wlAtLast {
			if strings.TrimPrefix(p, r.fs.root+"/") == dir {
				watchedAtLastRead = true
			}
		}
		r.hook.mu.Unlock()
		wit["current_target_dir_watched_at_last_read_that_found_the_file"] = watchedAtLastRead
	}
	wit["swaps_done"] = doneTotal
	wit["last_read_that_found_the_file"] = map[string]int64{"swaps_started": startedLast, "swaps_done": doneLast, "swaps_done_at_the_one_before": donePrev}
	// "config-dir-not-watched": the directory that holds the watched path
	// itself is no longer in the watcher's fsnotify watch list, so nothing
	// that replaces the watched path (rename-over of a file or of a symlink)
	// can produce an event any more.
	cfgDirWatched := wl == nil
	for _, p := range wl {
		if p == strings.TrimPrefix(r.fs.cfgDir, r.fs.root+"/") {
			cfgDirWatched = true
		}
	}
	wit["config_dir_watched"] = cfgDirWatched
	wit["layout_at_verdict"] = r.fs.layout
	rec := r.nudge(final, cond)
	wit["nudge_recovers"] = rec
	if !cfgDirWatched {
		return "config-dir-not-watched"
	}
	if r.fs.layout == "plain" || rerr != nil || wl == nil {
		return r.opClass()
	}
	delAfterSwap, swapSeen := false, false
	for _, k := range r.executed {
		if strings.HasPrefix(k, "k8s-swap") || strings.HasPrefix(k, "symlink-swap") || strings.HasPrefix(k, "to-symlink") {
			swapSeen = true
		}
		if swapSeen && strings.HasPrefix(k, "delete-recreate") {
			delAfterSwap = true
		}
	}
	if delAfterSwap && (!rec || !watched || doneTotal > doneLast) {
		return "stale-after-swap-while-target-missing"
	}
	if watched && rec && !watchedAtLastRead {
		return "update-lost-while-moving-dir-watch"
	}
	return r.opClass()
}

// c17WatchList calls the (exported, internally locked) WatchList method of
// the WatchingSource's unexported fsnotify watcher.
func c17WatchList(ws *file.WatchingSource) (out []string) {
	defer func() {
		if recover() != nil {
			out = nil
		}
	}()
	f := reflect.ValueOf(ws).Elem().FieldByName("watcher")
	if !f.IsValid() || f.IsNil() {
		return nil
	}
	w := reflect.NewAt(f.Type(), unsafe.Pointer(f.UnsafeAddr())).Elem()
	res := w.MethodByName("WatchList").Call(nil)
	l, _ := res[0].Interface().([]string)
	return append([]string{}, l...)
}

// nudge rewrites the final bytes in place after a violation has been
// confirmed and reports whether the view/error condition is then reached. It
// is diagnostic only (witness and key class), never part of a verdict.
func (r *c17Run) nudge(b []byte, cond func() bool) bool {
	r.hook.off.Store(true)
	if err := r.fs.inplace(b, nil, nil); err != nil {
		return false
	}
	v, _ := r.await("nudge", cond)
	return v == c17Pass
}

type c17Verdict int

const (
	c17Pass c17Verdict = iota
	c17Violated
	c17Inconclusive
)

// await polls cond. Pass as soon as it holds. Violated only when it does not
// hold and c17IdleProbes consecutive goroutine dumps, >= 200ms apart, all show
// this watcher idle with the serial and the watcher's read count unchanged
// between them. The watchdog yields inconclusive.
func (r *c17Run) await(what string, cond func() bool) (c17Verdict, map[string]any) {
	start := time.Now()
	sleep := 20 * time.Microsecond
	var lastProbe time.Time
	var probes []any
	idleRun := 0
	var lastSer uint64
	var lastReads int64
	for {
		if cond() {
			return c17Pass, nil
		}
		el := time.Since(start)
		if el > c17Watchdog {
			return c17Inconclusive, map[string]any{"why": what + ": watchdog fired without idle confirmation", "probes": probes}
		}
		if el > c17ProbeAfter && time.Since(lastProbe) >= c17ProbeSpacing {
			gs := c17Dump()
			lastProbe = time.Now()
			pr := c17Classify(gs, r.ptrs)
			_, ser := r.viewVersion()
			reads := r.hook.reads.Load()
			r.w.Count("idle_probes", 1)
			if len(probes) < 12 {
				probes = append(probes, map[string]any{"at_ms": el.Milliseconds(), "probe": pr, "serial": ser, "reads": reads})
			}
			switch {
			case !pr.Idle:
				idleRun = 0
			case idleRun > 0 && ser == lastSer && reads == lastReads:
				idleRun++
			default:
				idleRun = 1
			}
			lastSer, lastReads = ser, reads
			if idleRun >= c17IdleProbes {
				if cond() {
					return c17Pass, nil
				}
				return c17Violated, map[string]any{"probes": probes, "idle_confirmed": fmt.Sprintf("%d dumps >= %v apart: watchLoop parked in its select, fsnotify reader in IO wait, monitor in select, callback goroutine in select, serial and read count unchanged", c17IdleProbes, c17ProbeSpacing)}
			}
		}
		time.Sleep(sleep)
		if sleep < 2*time.Millisecond {
			sleep *= 2
		}
	}
}

// flush waits (bounded) until the watcher's read count and the serial stop
// moving. It only makes the monotone checks that follow it more sensitive; no
// verdict depends on it.
func (r *c17Run) flush() {
	start := time.Now()
	_, ser := r.viewVersion()
	reads := r.hook.reads.Load()
	stable := time.Now()
	for time.Since(start) < 500*time.Millisecond {
		time.Sleep(3 * time.Millisecond)
		_, s2 := r.viewVersion()
		r2 := r.hook.reads.Load()
		if s2 != ser || r2 != reads {
			ser, reads, stable = s2, r2, time.Now()
		} else if time.Since(stable) >= 30*time.Millisecond {
			return
		}
	}
}

func c17BackendPtr(ws *file.WatchingSource) (p uintptr) {
	defer func() {
		if recover() != nil {
			p = 0
		}
	}()
	v := reflect.ValueOf(ws).Elem().FieldByName("watcher")
	if !v.IsValid() || v.IsNil() {
		return 0
	}
	b := v.Elem().FieldByName("b")
	if !b.IsValid() {
		return 0
	}
	if b.Kind() == reflect.Interface {
		b = b.Elem()
	}
	if b.Kind() == reflect.Ptr {
		return b.Pointer()
	}
	return 0
}

func (r *c17Run) execute() {
	w, h := r.w, r.h
	root := filepath.Join(w.Scratch, fmt.Sprintf("h%d_%d", r.idx, r.attempt))
	defer os.RemoveAll(root)

	var dec dials.Decoder
	ext := h.Decoder
	if h.Decoder == "json" {
		dec = &jsondec.Decoder{}
	} else {
		dec = &yamldec.Decoder{}
	}
	r.refs = make([]c17Ref, len(h.Contents))
	for k := range h.Contents {
		r.refs[k] = c17Reference(h.Contents[k].Bytes, dec)
		w.Count("reference_decodes", 1)
	}
	if r.refs[0].err != nil {
		r.inconclusive = "harness: initial content rejected by the reference decode: " + r.refs[0].err.Error()
		return
	}
	fs, err := newC17FS(root, h.Layout, ext, h.RelLink, h.Contents[0].Bytes)
	if err != nil {
		r.inconclusive = "harness: layout setup failed: " + err.Error()
		return
	}
	r.fs = fs
	r.hook = &c17HookState{t0: time.Now()}
	for _, us := range h.DelaysUs {
		r.hook.delays = append(r.hook.delays, time.Duration(us)*time.Microsecond)
	}
	c17HookTable.Store(fs.cfgPath, r.hook)
	defer c17HookTable.Delete(fs.cfgPath)

	// the watcher may get a decoder that drains its reader differently; the
	// reference above always uses the stock decoder on the bytes
	wdec := dec
	if h.ReadMode != "" {
		wdec = &c17ReadDecoder{inner: dec, mode: h.ReadMode}
		w.Count("histories_with_reader_style_decoder", 1)
		w.SetAdd("read_modes", h.ReadMode)
	}
	ws, err := file.NewWatchingSource(fs.cfgPath, wdec, file.WithLogger(r.hook))
	if err != nil {
		r.inconclusive = "NewWatchingSource: " + err.Error()
		return
	}
	r.ws = ws
	r.hook.watchList = func() []string { return c17WatchList(ws) }
	ctx, cancel := context.WithCancel(context.Background())
	r.cancel = cancel
	params := dials.Params[c17Cfg]{
		OnWatchedError: func(_ context.Context, err error, _, _ *c17Cfg) {
			var de *file.DecoderErr
			r.mu.Lock()
			if errors.As(err, &de) {
				r.decErrs++
				if len(r.decTexts) < 64 {
					r.decTexts = append(r.decTexts, de.Err.Error())
				}
			} else if len(r.otherErrs) < 16 {
				r.otherErrs = append(r.otherErrs, err.Error())
			}
			r.mu.Unlock()
		},
		OnNewConfig: func(_ context.Context, _, _ *c17Cfg) {
			r.mu.Lock()
			r.newCfgs++
			r.mu.Unlock()
		},
	}
	a := r.env.audit
	a.mu.RLock()
	d, err := params.Config(ctx, c17Defaults(), ws)
	if err == nil {
		a.addLive(1)
	}
	a.mu.RUnlock()
	if err != nil {
		cancel()
		// a failed Watch may have left an inotify instance behind: re-baseline
		a.check()
		if strings.Contains(err.Error(), "too many open files") || strings.Contains(err.Error(), "no space left") {
			time.Sleep(300 * time.Millisecond)
			r.inconclusive = "inotify limit reached while creating the watcher: " + err.Error()
		} else {
			r.inconclusive = "dials.Config failed on valid initial content: " + err.Error()
		}
		return
	}
	r.d = d
	r.ptrs = c17Ptrs{ws: reflect.ValueOf(ws).Pointer(), backend: c17BackendPtr(ws), ctx: reflect.ValueOf(ctx).Pointer()}
	released := false
	defer func() {
		if !released {
			r.release(false)
		}
	}()

	w.SetAdd("layouts", h.Layout)
	w.SetAdd("decoders", h.Decoder)
	w.SetAdd("flavors", h.Flavor)

	// zero-step history: the view is the initial content
	if cfg, _ := r.viewVersion(); !reflect.DeepEqual(cfg, r.refs[0].cfg) {
		r.violation("no-converge:initial", "the first view differs from the config decoded from the file's initial content",
			map[string]any{"expected": c17TrimCfg(r.refs[0].cfg)})
		return
	}
	if r.idx%8 == 0 {
		// self-test of the dump classifier on a watcher that has nothing to do
		ok := false
		var pr c17Probe
		for k := 0; k < 20 && !ok; k++ {
			pr = c17Classify(c17Dump(), r.ptrs)
			ok = pr.Idle
			if !ok {
				time.Sleep(5 * time.Millisecond)
			}
		}
		if ok {
			w.Count("probe_selftest_ok", 1)
		} else {
			w.Count("probe_selftest_fail", 1)
			w.Note(fmt.Sprintf("dump classifier self-test failed: %+v", pr))
		}
	}

	cur := 0
	curAtomic := true
	curFresh := true // the current bytes were never in the file before this write
	win := c17Win{ok: true, serial0: 0, adm: []*c17Cfg{r.refs[0].cfg}, lastValidID: h.Contents[0].ID}
	errSnap := -1
	var gate *c17Gate
	contentOps := 0

	judgeIdentical := func(where string) {
		if win.ok && (win.invalid > 0 || win.identAtomic > 0) {
			// recorded, not judged: in a window of atomic steps the watcher
			// can install at most one version per change of the valid content
			// (invalid contents skipped). The statement only forbids a version
			// for an identical-content replace, so an excess here is evidence,
			// not a violation (e.g. A, malformed, A re-installing A).
			r.flush()
			_, ser := r.viewVersion()
			w.Count("atomic_windows_observed", 1)
			if ex := int64(ser) - int64(win.serial0) - int64(win.validChanges); ex > 0 {
				w.Count("unjudged_atomic_window_versions_beyond_valid_content_changes", ex)
			}
		}
		if !(win.ok && win.invalid == 0 && win.distinct <= 1 && win.identAtomic >= 1) {
			return
		}
		r.flush()
		_, ser := r.viewVersion()
		delta := int64(ser) - int64(win.serial0)
		w.Count("identical_windows_judged", 1)
		w.Count("identical_atomic_replaces_judged", int64(win.identAtomic))
		if delta > int64(win.distinct) {
			key := "identical-replace-new-version:" + h.Layout
			r.violation(key, fmt.Sprintf("%s: between a sync point on fresh, atomically written content (serial %d) and now (serial %d) the file saw %d identical-content atomic replace(s) and %d distinct atomic write(s), yet %d versions were produced",
				where, win.serial0, ser, win.identAtomic, win.distinct, delta), nil)
		}
	}

	syncPoint := func() bool {
		exp := r.refs[cur].cfg
		var ser uint64
		v, wit := r.await("sync", func() bool {
			cfg, s := r.viewVersion()
			ser = s
			return reflect.DeepEqual(cfg, exp)
		})
		switch v {
		case c17Inconclusive:
			r.inconclusive = fmt.Sprintf("sync point after %v: %v", r.executed, wit["why"])
			return false
		case c17Violated:
			wit["expected"] = c17TrimCfg(exp)
			class := r.postMortem(h.Contents[cur].Bytes, func() bool { return reflect.DeepEqual(r.d.View(), exp) }, wit)
			r.violation("no-converge:"+class, fmt.Sprintf("sync point after steps %v: changes stopped, the watcher is idle, and the view differs from the config decoded from the file's content (%s)", r.executed, h.Contents[cur].Text), wit)
			return false
		}
		w.Count("syncs_passed", 1)
		r.logf("sync passed at serial %d (content #%d)", ser, cur)
		judgeIdentical("sync point")
		if r.violated {
			return false
		}
		if curFresh && curAtomic && (win.distinct > 0 || !win.ok) {
			_, s2 := r.viewVersion()
			if s2 == ser {
				win = c17Win{ok: true, serial0: ser, adm: []*c17Cfg{exp}, lastValidID: h.Contents[cur].ID}
				w.Count("strong_syncs", 1)
			}
		}
		return true
	}

	for oi := range h.Ops {
		op := &h.Ops[oi]
		c17Pause(op.PauseUs)
		switch op.Kind {
		case "gate-arm":
			gate = r.hook.arm()
			continue
		case "gate-wait":
			if gate != nil {
				t := time.NewTimer(50 * time.Millisecond)
				select {
				case <-gate.held:
					w.Count("gates_held", 1)
					r.logf("gate: watcher held after its read #%d", r.hook.reads.Load())
				case <-t.C:
				}
				t.Stop()
			}
			continue
		case "gate-release":
			r.hook.releaseGate()
			gate = nil
			continue
		case "sync":
			if gate != nil || r.refs[cur].err != nil {
				continue
			}
			if !syncPoint() {
				return
			}
			continue
		}
		// content-changing step
		nc := op.Content
		valid := r.refs[nc].err == nil
		if !valid && r.refs[cur].err == nil {
			errSnap = r.decErrCount()
		}
		if valid {
			errSnap = -1
		}
		if !op.atomic() {
			win.ok = false
		} else {
			if op.Identical {
				win.identAtomic++
			} else {
				win.distinct++
			}
			if valid {
				win.adm = append(win.adm, r.refs[nc].cfg)
				if id := h.Contents[nc].ID; id != win.lastValidID {
					win.lastValidID = id
					win.validChanges++
				}
			} else {
				win.invalid++
			}
		}
		if op.Identical {
			curAtomic = curAtomic && op.atomic()
		} else {
			curAtomic = op.atomic()
			curFresh = h.Contents[nc].Fresh && !op.Revert
		}
		fs.afterFirst = nil
		if gate != nil {
			g := gate
			fs.afterFirst = func() {
				t := time.NewTimer(20 * time.Millisecond)
				select {
				case <-g.held:
				case <-t.C:
				}
				t.Stop()
			}
		}
		b := h.Contents[nc].Bytes
		isSwap := op.Kind == "k8s-swap" || op.Kind == "symlink-swap" || op.Kind == "to-symlink"
		if isSwap {
			r.hook.swaps.Add(1)
		}
		var oerr error
		switch op.Kind {
		case "inplace":
			oerr = fs.inplace(b, op.Chunks, op.ChunkPausesUs)
		case "inplace-keep-mtime":
			oerr = fs.inplaceKeepMtime(b, op.Trunc, op.FixedMtime)
			if oerr == nil {
				if len(b) == len(h.Contents[cur].Bytes) {
					w.Count("keep_mtime_same_length_rewrites", 1)
				} else {
					w.Count("keep_mtime_length_differs", 1)
				}
			}
		case "rename-over":
			oerr = fs.renameOver(b)
		case "delete-recreate":
			oerr = fs.deleteRecreate(b, op.AtomicCreate, op.MidPauseUs, op.Chunks, op.ChunkPausesUs)
		case "k8s-swap":
			oerr = fs.k8sSwap(b, op.FileFirst, op.RemoveOld)
		case "symlink-swap":
			oerr = fs.swapLink(b, op.NewDir, op.RemoveOld, op.Sibling, ext)
		case "to-symlink":
			oerr = fs.swapLink(b, true, false, op.Sibling, ext)
		case "to-regular":
			oerr = fs.toRegular(b, op.RemoveOld)
		default:
			oerr = fmt.Errorf("unknown step kind %q", op.Kind)
		}
		if isSwap {
			r.hook.swapsDone.Add(1)
		}
		if op.Sibling {
			w.Count("steps_symlink_to_sibling", 1)
		}
		if oerr != nil {
			r.inconclusive = fmt.Sprintf("harness: step %d (%s) failed: %v", oi, op.Kind, oerr)
			w.Note(r.inconclusive)
			return
		}
		mark := op.Kind
		if op.Revert {
			mark += "<"
			w.Count("steps_revert", 1)
		} else if op.Identical {
			mark += "="
		} else if !valid {
			mark += "!"
		}
		if h.Contents[nc].Kind == "malformed:decoder-notexist" {
			// the decoder's error wraps fs.ErrNotExist although the file exists
			mark += "notexist"
			w.Count("steps_decoder_error_wrapping_notexist", 1)
		}
		r.executed = append(r.executed, mark)
		cur = nc
		contentOps++
		w.Count("steps:"+op.Kind, 1)
		if op.Identical {
			w.Count("steps_identical", 1)
		}
		if !valid {
			w.Count("steps_invalid_content", 1)
		}
		r.logf("step %d: %s -> content #%d (%s)", oi, mark, nc, h.Contents[nc].Kind)
	}
	r.hook.releaseGate()
	gate = nil

	if h.EarlyCancel {
		w.Count("early_cancel", 1)
		released = true
		r.release(true)
		r.finishEvidence(contentOps)
		return
	}

	// ---- changes have stopped ------------------------------------------------
	actual, rerr := os.ReadFile(fs.cfgPath)
	if rerr != nil || !bytes.Equal(actual, h.Contents[cur].Bytes) {
		r.inconclusive = fmt.Sprintf("harness: final bytes of the watched path are not the intended content (%v)", rerr)
		w.Note(r.inconclusive)
		return
	}
	final := r.refs[cur]
	if final.err == nil {
		v, wit := r.await("final", func() bool {
			cfg, _ := r.viewVersion()
			return reflect.DeepEqual(cfg, final.cfg)
		})
		switch v {
		case c17Inconclusive:
			r.inconclusive = fmt.Sprintf("final convergence after %v: %v", r.executed, wit["why"])
			return
		case c17Violated:
			wit["expected"] = c17TrimCfg(final.cfg)
			class := r.postMortem(h.Contents[cur].Bytes, func() bool { return reflect.DeepEqual(r.d.View(), final.cfg) }, wit)
			r.violation("no-converge:"+class, fmt.Sprintf("after steps %v changes stopped, the watcher is idle, and the view differs from the config decoded from the final content (%s)", r.executed, h.Contents[cur].Text), wit)
			return
		}
		w.Count("final_valid_converged", 1)
		judgeIdentical("end of history")
		if r.violated {
			return
		}
	} else {
		if errSnap < 0 {
			r.inconclusive = "harness: invalid final content without an error snapshot"
			return
		}
		v, wit := r.await("final-error", func() bool { return r.decErrCount() > errSnap })
		switch v {
		case c17Inconclusive:
			r.inconclusive = fmt.Sprintf("error delivery after %v: %v", r.executed, wit["why"])
			return
		case c17Violated:
			if r.hook.reads.Load() >= c17CbQueueCap {
				r.inconclusive = "no decoder error delivered, but the watcher re-read often enough for dials' callback queue to have overflowed"
				return
			}
			wit["reference_error"] = final.err.Error()
			wit["errors_before_content_turned_invalid"] = errSnap
			class := r.postMortem(h.Contents[cur].Bytes, func() bool { return r.decErrCount() > errSnap }, wit)
			r.violation("invalid-final-no-error:"+class, fmt.Sprintf("after steps %v the final content (%s) is invalid, the watcher is idle, and no *file.DecoderErr reached OnWatchedError since the content turned invalid", r.executed, h.Contents[cur].Text), wit)
			return
		}
		w.Count("final_invalid_error_seen", 1)
		if h.Contents[cur].Kind == "malformed:decoder-notexist" {
			w.Count("final_invalid_decoder_notexist_error_seen", 1)
		}
		judgeIdentical("end of history")
		r.flush()
		r.mu.Lock()
		matched := false
		for _, t := range r.decTexts {
			if strings.Contains(final.err.Error(), t) {
				matched = true
			}
		}
		r.mu.Unlock()
		if matched {
			w.Count("final_invalid_error_text_matches_reference", 1)
		}
		cfg, _ := r.viewVersion()
		if win.ok {
			w.Count("admissible_view_judged", 1)
			okAdm := false
			for _, a := range win.adm {
				if reflect.DeepEqual(cfg, a) {
					okAdm = true
				}
			}
			if !okAdm {
				var adm []any
				for _, a := range win.adm {
					adm = append(adm, c17TrimCfg(a))
				}
				r.violation("invalid-final-view-not-admissible:"+h.Layout, fmt.Sprintf("after steps %v the final content is invalid and the view is none of the valid contents written (atomically) since the last sync point", r.executed), map[string]any{"admissible": adm})
				return
			}
		} else {
			w.Count("admissible_view_unjudged_inplace_window", 1)
		}
	}

	released = true
	r.release(true)
	r.finishEvidence(contentOps)
}

func (r *c17Run) finishEvidence(contentOps int) {
	w := r.w
	reads := r.hook.reads.Load()
	_, ser := r.viewVersion()
	w.Count("histories_completed", 1)
	w.Count("hook_reads", reads)
	w.Count("hook_read_errors", r.hook.readErrs.Load())
	w.Count("versions_installed", int64(ser))
	w.Count("gate_safety_timeouts", r.hook.timedOut.Load())
	r.mu.Lock()
	w.Count("decoder_errors_delivered", int64(r.decErrs))
	w.Count("other_errors_delivered", int64(len(r.otherErrs)))
	for _, t := range r.otherErrs {
		// normalise paths out of the message
		if i := strings.LastIndex(t, ": "); i >= 0 {
			t = t[i+2:]
		}
		w.SetAdd("other_error_classes", t)
	}
	w.Count("new_config_callbacks", int64(r.newCfgs))
	decErrs := r.decErrs
	r.mu.Unlock()
	if contentOps > 0 && reads > 0 && !r.violated && r.inconclusive == "" {
		w.Distinct(r.h.signature())
	}
	if w.WantSample() && r.idx%7 == 0 {
		w.Sample(map[string]any{"case": r.idx, "layout": r.h.Layout, "decoder": r.h.Decoder, "flavor": r.h.Flavor, "steps": r.executed,
			"watcher_reads": reads, "versions": ser, "decoder_errors": decErrs, "final_content": r.h.Contents[len(r.h.Contents)-1].Kind})
	}
}

// release cancels the context and checks the release clause: WG.Wait
// returns, neither watchLoop nor fsnotify's reader of this watcher remains,
// and the process holds exactly baseline + live-watchers inotify descriptors.
func (r *c17Run) release(judge bool) {
	w := r.w
	a := r.env.audit
	r.hook.releaseGate()
	r.hook.off.Store(true)
	a.mu.RLock()
	if r.cancelScript != nil && judge {
		// a scripted schedule cancels in its own way (inside the audit's
		// read section, like every cancel)
		r.cancelScript()
	}
	r.cancel()
	done := make(chan struct{})
	go func() {
		r.ws.WG.Wait()
		close(done)
	}()
	// Wait for WG.Wait(). The watchdog only ever yields "inconclusive"; the
	// wait ends early when STATE shows that it cannot return: in
	// c17IdleProbes consecutive dumps >= c17ProbeSpacing apart watchLoop is
	// parked inside one of dials' report methods (a hand-over on the channel
	// only the monitor receives from) and the monitor goroutine of this
	// Dials is gone.
	t := time.NewTimer(c17Watchdog)
	returned := false
	blockedRun := 0
	var blockedDumps []any
	probe := time.NewTimer(c17ProbeAfter)
waitWG:
	for {
		select {
		case <-done:
			returned = true
			a.addLive(-1)
			break waitWG
		case <-t.C:
			break waitWG
		case <-probe.C:
			gs := c17Dump()
			w.Count("release_wait_probes", 1)
			if st, ok := c17BlockedInReport(gs, r.ptrs); ok {
				blockedRun++
				blockedDumps = append(blockedDumps, st)
			} else {
				blockedRun, blockedDumps = 0, nil
			}
			if blockedRun >= c17IdleProbes {
				break waitWG
			}
			probe.Reset(c17ProbeSpacing)
		}
	}
	t.Stop()
	probe.Stop()
	a.mu.RUnlock()

	confirmStuck := func() (bool, []any) {
		// state, not time: the goroutine is still there in three dumps >= 200ms apart
		var seen []any
		for k := 0; k < c17IdleProbes; k++ {
			if k > 0 {
				time.Sleep(c17ProbeSpacing)
			}
			pres := c17Present(c17Dump(), r.ptrs)
			seen = append(seen, pres)
			if len(pres) == 0 {
				return false, seen
			}
		}
		return true, seen
	}

	if !returned {
		a.mu.Lock()
		a.broken = true
		a.mu.Unlock()
		stuck, seen := confirmStuck()
		parked := stuck
		for _, s := range seen {
			ok := false
			for _, g := range s.([]string) {
				if strings.HasPrefix(g, "watchLoop[select @ ") && strings.Contains(g, ".watchLoop(") {
					ok = true
				}
			}
			parked = parked && ok
		}
		// second class, equally decided by state: in every dump watchLoop is
		// parked inside (*watchArgs).Report* and the monitor - the only
		// receiver of that channel - no longer exists
		inReport := stuck && blockedRun >= c17IdleProbes
		if inReport {
			gs := c17Dump()
			if _, ok := c17BlockedInReport(gs, r.ptrs); !ok {
				inReport = false
			}
		}
		if parked && judge {
			r.violation("watcher-goroutine-survives-cancel:watchLoop", "the context was cancelled, WG.Wait() does not return and watchLoop stays parked in its select", map[string]any{"dumps": seen})
		} else if inReport && judge {
			r.violation("watcher-goroutine-survives-cancel:watchLoop-blocked-in-report-after-monitor-exit",
				"the context was cancelled, the Dials monitor goroutine has exited, and watchLoop stays parked in a report to dials (a channel hand-over that only the monitor could complete): WG.Wait() can never return, the fsnotify watcher is never closed",
				map[string]any{"dumps": seen, "watch_loop_in_report_dumps": blockedDumps})
		} else if r.inconclusive == "" {
			r.inconclusive = fmt.Sprintf("WG.Wait() did not return within the watchdog; goroutines: %v", seen)
		}
		return
	}
	// goroutines gone? (the reader closes its channels after signalling Close, so allow it to finish)
	gone := false
	for k := 0; k < 8 && !gone; k++ {
		if k > 0 {
			time.Sleep(time.Duration(k) * 10 * time.Millisecond)
		}
		gone = len(c17Present(c17Dump(), r.ptrs)) == 0
	}
	if !gone {
		stuck, seen := confirmStuck()
		if stuck && judge {
			which := "fsnotify-reader"
			if strings.Contains(fmt.Sprint(seen), "watchLoop[") {
				which = "watchLoop"
			}
			r.violation("watcher-goroutine-survives-cancel:"+which, "WG.Wait() returned after cancel but a goroutine of this watcher is still present in three dumps >= 200ms apart", map[string]any{"dumps": seen})
			return
		}
	}
	got, want, ok := a.check()
	switch {
	case ok:
		w.Count("fd_audits_ok", 1)
	case got > want:
		if judge {
			r.violation("inotify-descriptor-leak", fmt.Sprintf("after cancel and WG.Wait() the process holds %d inotify descriptors; baseline + live watchers = %d", got, want), nil)
		}
		return
	default:
		w.Note(fmt.Sprintf("fd audit: %d descriptors, expected %d (harness accounting)", got, want))
	}
	if judge {
		w.Count("release_checked", 1)
	}
}
