package checks

import (
	"context"
	"fmt"
	"runtime"
	"strings"
	"sync"
	"sync/atomic"
	"time"

	"github.com/vimeo/dials"

	"verifharness/conc"
	"verifharness/fw"
)

func init() {
	fw.Register(&fw.Check{
		ID:   "C05",
		Race: true,
		Rule: "Each case is a history of 20-200 value reports (which source, which fields set, valid/invalid/ill-typed) against a real Dials[Cfg] with 2-4 watching sources of the same Go type. " +
			"Sequential phases use blocking reports and compare, at every k-th quiescent point, View() with (a) a brand-new dials.Config over static sources holding each source's latest value (or the last verified view when that fresh stack fails) and (b) the reference stack; " +
			"concurrent phases run all reporters at once with spinning readers and an Events consumer, then compare at the end. A serial monitor collects every (serial, config pointer) pair seen by any reader, callback, Events or the mon.stored hook: " +
			"install serials must be contiguous from 1, the pairing injective both ways, every reader and the Events stream non-decreasing. " +
			"Two families of purely sequential histories (4 of every 30 cases) add: watchers saying Done in any order and any number of times while the watchers that have not said Done go on reporting (every one of their reports must be taken; the monitor's done channel closing while one of them still watches is judged as such), " +
			"and DelayInitialVerification histories with values that do not verify and EnableVerification calls (failing and succeeding) at any point, compared with a fresh Params{DelayInitialVerification}.Config until a call has succeeded and with a fresh verifying Config afterwards. distinct_nontrivial = distinct (nsrc, source-order, outcome) signatures with >=2 sources reporting and >=1 field unset again by a later layer of the same source; a Done or delayed-verification history counts by its (nsrc, sequence of source/outcome, Done and EnableVerification steps) signature.",
		Assumptions: []string{"fresh-stack oracle is dials.Config itself over static sources (real code), cross-checked with the harness reference stack"},
		MinDistinct: map[string]int{"quick": 700, "thorough": 50000},
		MinCounters: map[string]map[string]int64{
			"quick": {"fresh_stack_comparisons": 1500, "installs_observed": 5000, "serial_pairs_checked": 20000,
				"reports_after_a_repeated_done": 200, "nonverifying_installs_after_a_failed_enableverification": 40, "fresh_stack_comparisons_with_verification_delayed": 80, "views_compared_right_after_a_report_cancelled_at_receive": 500},
			"thorough": {"fresh_stack_comparisons": 80000, "installs_observed": 400000,
				"reports_after_a_repeated_done": 10000, "nonverifying_installs_after_a_failed_enableverification": 2000},
		},
		Plan: func(tier string) fw.Plan {
			if tier == "thorough" {
				return fw.Plan{Shards: 16, CasesPerShard: 5000, TimeoutSec: 3000}
			}
			return fw.Plan{Shards: 8, CasesPerShard: 150, TimeoutSec: 900}
		},
		Run: runC05,
	})
}

// serialMon collects (serial, pointer) pairs.
type serialMon struct {
	mu       sync.Mutex
	bySerial map[uint64]*conc.Cfg
	byPtr    map[*conc.Cfg]uint64
	bad      string
	n        int64
}

func newSerialMon() *serialMon {
	return &serialMon{bySerial: map[uint64]*conc.Cfg{}, byPtr: map[*conc.Cfg]uint64{}}
}

func (m *serialMon) see(serial uint64, c *conc.Cfg, where string) {
	m.mu.Lock()
	defer m.mu.Unlock()
	m.n++
	if p, ok := m.bySerial[serial]; ok && p != c {
		if m.bad == "" {
			m.bad = fmt.Sprintf("serial %d paired with two configs (%+v and %+v), seen via %s", serial, conc.FPOf(p), conc.FPOf(c), where)
		}
		return
	}
	if s, ok := m.byPtr[c]; ok && s != serial {
		if m.bad == "" {
			m.bad = fmt.Sprintf("config %+v paired with serials %d and %d, seen via %s", conc.FPOf(c), s, serial, where)
		}
		return
	}
	m.bySerial[serial] = c
	m.byPtr[c] = serial
}

// c05ParkedCallback: a callback never returns, so after 64 announcements the callback queue overflows and further
// announcements are dropped (documented). Installs must go on as before: every one gets the next serial, config and
// serial stay paired, and the view equals the reference stack.
func c05ParkedCallback(w *fw.Worker, i int, r *fw.Rand) {
	o := conc.Opts{NSrc: 2}
	desc := map[string]any{"mode": "callback-parked-queue-overflow"}
	e, err := conc.Start(context.Background(), r.U64(), o, nil)
	if err != nil {
		w.Violation(i, "config-failed-on-valid-initial-stack", err.Error(), desc)
		return
	}
	defer e.Stop()
	e.SetCBGate(make(chan struct{}))
	defer close(e.CBGate)
	ctx := e.S.Ctx
	mon := newSerialMon()
	mon.see(0, e.D.View(), "initial View")
	e.ExtraHook = func(name string, _ context.Context, args []any) {
		if name == "mon.stored" && len(args) >= 3 {
			serial, _ := args[1].(uint64)
			cfg, _ := args[2].(*conc.Cfg)
			mon.see(serial, cfg, "mon.stored")
		}
	}
	st := e.Model.Initial
	n := r.Range(70, 110)
	for k := 1; k <= n; k++ {
		src := r.Intn(2)
		l := e.RandLayer(r, 0, 0)
		rd := make(chan int, 1)
		go func() { res, _ := e.Report(ctx, 0, src, l, true); rd <- res }()
		var res int
		select {
		case res = <-rd:
		case <-time.After(10 * time.Second):
			stuckVerdict(w, i, fmt.Sprintf("blocking report %d while a callback is parked", k), desc)
			return
		}
		ns := e.Model.Step(st, conc.In{Kind: conc.OpReport, Src: src, Layer: l, Blocking: true}, conc.Out{Res: res})
		if len(ns) == 0 {
			w.Violation(i, "blocking-report-result-disagrees-with-model", fmt.Sprintf("report %d of %s returned res=%d while a callback is parked", k, l, res), desc)
			return
		}
		st = ns[0].(conc.State)
		cfg, tok := e.D.ViewVersion()
		mon.see(conc.SerialOf(tok), cfg, "ViewVersion")
		wantFP, _ := modelFP(e.Model, st.Cur)
		if got := conc.FPOf(cfg); got != wantFP || conc.SerialOf(tok) != st.Serial {
			w.Violation(i, "view-differs-from-reference-stack", fmt.Sprintf("install %d with a parked callback: view %+v serial %d; reference %+v serial %d", k, got, conc.SerialOf(tok), wantFP, st.Serial), desc)
			return
		}
	}
	if mon.bad != "" {
		w.Violation(i, "serial-config-pairing-not-injective", mon.bad, desc)
		return
	}
	ins := e.Installs()
	for k, in := range ins {
		if in.Serial != uint64(k+1) {
			w.Violation(i, "install-serials-not-contiguous", fmt.Sprintf("install #%d has serial %d (callback parked, queue overflowing)", k+1, in.Serial), desc)
			return
		}
	}
	w.Count("installs_observed", int64(len(ins)))
	w.Count("installs_with_callback_queue_overflowing", int64(len(ins)-65))
	w.Distinct(fmt.Sprintf("parked|%d", n))
}

func runC05(w *fw.Worker) {
	w.Cases(func(i int, r *fw.Rand) {
		switch i % 30 {
		case 11:
			c05ParkedCallback(w, i, r)
			return
		case 2, 17:
			c05DoneHistory(w, i, r)
			return
		case 8, 23:
			c05DelayedHistory(w, i, r)
			return
		}
		o := conc.Opts{NSrc: r.Range(2, 4), Skip: r.Chance(15), StaticFirst: r.Chance(15), SlowCB: r.Intn(2)}
		// some histories start with verification delayed and have EnableVerification called over and over while the
		// sources report (only values that verify, so that whether verification is on never matters to the model)
		delayed := r.Chance(15)
		invPct, illPct := 15, 3
		if delayed {
			o.Delay, o.Skip = true, false
			invPct, illPct = 0, 0
		}
		e, err := conc.Start(context.Background(), r.U64(), o, func(e *conc.Env, k int) *conc.Layer {
			if r.Chance(30) {
				return nil
			}
			return e.RandLayer(r, 0, 0)
		})
		if err != nil {
			w.Violation(i, "config-failed-on-valid-initial-stack", err.Error(), nil)
			return
		}
		defer e.Stop()
		e.Jitter = r.Range(0, 40)
		ctx := e.S.Ctx
		mon := newSerialMon()
		mon.see(0, e.D.View(), "initial View")
		var cancelAtRecv atomic.Pointer[context.CancelFunc]
		e.ExtraHook = func(name string, _ context.Context, args []any) {
			if name == "mon.stored" && len(args) >= 3 {
				serial, _ := args[1].(uint64)
				cfg, _ := args[2].(*conc.Cfg)
				mon.see(serial, cfg, "mon.stored")
			}
			if name == "mon.recv" {
				// (on the monitor goroutine, before it handles what it received)
				if c := cancelAtRecv.Swap(nil); c != nil {
					(*c)()
				}
			}
		}
		st := e.Model.Initial
		lastSetBySrc := make([][conc.NumFields]bool, o.NSrc)
		unsetAgain := false
		srcsUsed := map[int]bool{}
		var sig strings.Builder
		fmt.Fprintf(&sig, "%d|", o.NSrc)
		var trace []string

		// Events consumer + readers run for the whole history
		stop := make(chan struct{})
		var wg sync.WaitGroup
		if delayed {
			wg.Add(1)
			go func() {
				defer wg.Done()
				for k := 0; ; k++ {
					select {
					case <-stop:
						return
					default:
					}
					e.D.EnableVerification(ctx)
					if k%4 == 0 {
						runtime.Gosched()
					}
				}
			}()
			w.Count("histories_with_enableverification_called_throughout", 1)
		}
		var evMu sync.Mutex
		var evPtrs []*conc.Cfg
		var evViewAfter []uint64 // serial read from ViewVersion right after each Events receipt
		wg.Add(1)
		go func() {
			defer wg.Done()
			for {
				select {
				case c := <-e.D.Events():
					_, tok := e.D.ViewVersion()
					evMu.Lock()
					evPtrs = append(evPtrs, c)
					evViewAfter = append(evViewAfter, conc.SerialOf(tok))
					evMu.Unlock()
				case <-stop:
					return
				}
			}
		}()
		for rd := 0; rd < 2; rd++ {
			wg.Add(1)
			go func(rd int) {
				defer wg.Done()
				last := uint64(0)
				for k := 0; ; k++ {
					select {
					case <-stop:
						return
					default:
					}
					cfg, tok := e.D.ViewVersion()
					ser := conc.SerialOf(tok)
					if ser < last {
						w.Violation(i, "reader-serial-went-backwards", fmt.Sprintf("reader %d saw serial %d after %d", rd, ser, last), nil)
					}
					last = ser
					mon.see(ser, cfg, "ViewVersion")
					if k%8 == 0 {
						time.Sleep(30 * time.Microsecond)
					}
				}
			}(rd)
		}

		pickSrc := func(rr *fw.Rand, prev int) int {
			s := rr.Intn(o.NSrc)
			if rr.Chance(35) && prev >= 0 {
				s = prev // same source repeatedly
			}
			if e.Srcs[s] == nil {
				s = o.NSrc - 1
			}
			return s
		}
		compare := func(where string) bool {
			cfg, tok := e.D.ViewVersion()
			got := conc.FPOf(cfg)
			wantFP, _ := modelFP(e.Model, st.Cur)
			if got != wantFP || conc.SerialOf(tok) != st.Serial {
				w.Violation(i, "view-differs-from-reference-stack", fmt.Sprintf("%s: view %+v serial %d; reference %+v serial %d", where, got, conc.SerialOf(tok), wantFP, st.Serial), trace)
				return false
			}
			// fresh Config over static sources holding the latest values
			srcs := make([]dials.Source, o.NSrc)
			for k := 0; k < o.NSrc; k++ {
				srcs[k] = &conc.Src{Name: "fresh", Init: e.Model.Layers[st.Slots[k]]}
			}
			fs := conc.NewScenario(context.Background())
			fd, ferr := dials.Config(fs.Ctx, fs.Defaults(), srcs...)
			fs.Cancel()
			w.Count("fresh_stack_comparisons", 1)
			if ferr != nil {
				// fresh stack fails: the view must be the last verified one (already compared with the model's Cur)
				slotsFP, ok := modelFP(e.Model, st.Slots)
				if ok && conc.ValidFP(slotsFP) {
					w.Violation(i, "fresh-config-failed-unexpectedly", fmt.Sprintf("fresh Config error %v for valid stack %+v", ferr, slotsFP), trace)
					return false
				}
				w.Count("fresh_stack_failed_as_expected", 1)
				return true
			}
			if ffp := conc.FPOf(fd.View()); ffp != got {
				slotsFP, ok := modelFP(e.Model, st.Slots)
				if ok && slotsFP == ffp && st.Slots != st.Cur {
					// Skip-mode start: cannot happen after a verified history; treat as mismatch
				}
				w.Violation(i, "view-differs-from-fresh-config", fmt.Sprintf("%s: view %+v; fresh Config over latest values %+v", where, got, ffp), trace)
				return false
			}
			return true
		}

		nPhases := r.Range(2, 5)
		prev := -1
		inPlace := map[int]bool{}
		for s := 0; s < o.NSrc; s++ {
			inPlace[s] = r.Chance(30)
		}
	phases:
		for ph := 0; ph < nPhases; ph++ {
			if ph > 0 && o.NSrc >= 3 && r.Chance(20) {
				// one watcher (never the last source) finishes for good; its last value stays part of every later stack
				cand := r.Intn(o.NSrc - 1)
				// (its slot must hold a value that can stack and verify, or the fences of the concurrent phases could
				// never make the stack valid again)
				if cl := e.Model.Layers[st.Slots[cand]]; e.Srcs[cand] != nil && (cl == nil || (!cl.NegA && !cl.NegB && !cl.IllTyped)) {
					e.Srcs[cand].WA().Done(ctx)
					e.Srcs[cand] = nil
					w.Count("watchers_done_mid_history", 1)
					sig.WriteString("D")
				}
			}
			if r.Chance(60) {
				// sequential phase
				n := r.Range(8, 50)
				every := r.Range(1, 6)
				for k := 0; k < n; k++ {
					s := pickSrc(r, prev)
					prev = s
					l := e.RandLayer(r, invPct, illPct)
					if r.Chance(10) {
						l.Set = [conc.NumFields]bool{} // empty layer
						l.NegA, l.NegB = false, false
					}
					for f := range l.Set {
						if lastSetBySrc[s][f] && !l.Set[f] {
							unsetAgain = true
						}
					}
					lastSetBySrc[s] = l.Set
					srcsUsed[s] = true
					if st.Verifying && e.Srcs[s] != nil && r.Chance(6) {
						// the reporter gives up inside Verify; the monitor finishes that update, and the next blocking
						// report of the same source must be answered for itself
						al := e.RandLayer(r, invPct*3, 0)
						abandoned, ares := e.AbandonInVerify(0, s, al)
						var ans []any
						for _, guess := range []int{conc.ResNil, conc.ResRejected} {
							if !abandoned {
								guess = ares
							}
							if ans = e.Model.Step(st, conc.In{Kind: conc.OpReport, Src: s, Layer: al, Blocking: true}, conc.Out{Res: guess}); len(ans) > 0 {
								break
							}
						}
						if len(ans) == 0 {
							w.Violation(i, "blocking-report-result-disagrees-with-model", fmt.Sprintf("report %s (abandoned in Verify: %v) res=%d", al, abandoned, ares), trace)
							break phases
						}
						st = ans[0].(conc.State)
						trace = append(trace, fmt.Sprintf("src=%d %s abandoned-in-verify=%v", s, al, abandoned))
						if abandoned {
							w.Count("reports_abandoned_inside_verify", 1)
						}
					}
					if e.Srcs[s] != nil && r.Chance(6) {
						// the reporter's context ends at the moment the monitor receives the value: the hand-over has
						// happened, so the monitor stacks the value like any other, whatever the call returns; the view
						// is compared at once (after a monitor fence), before anything else re-stacks
						cl := e.RandLayer(r, invPct, 0)
						cctx, ccancel := context.WithCancel(ctx)
						cf := ccancel
						cancelAtRecv.Store(&cf)
						cres, _ := e.Report(cctx, 0, s, cl, true)
						cancelAtRecv.Store(nil)
						ccancel()
						ans := e.Model.Step(st, conc.In{Kind: conc.OpReport, Src: s, Layer: cl, Blocking: true}, conc.Out{Res: cres})
						if len(ans) == 0 {
							w.Violation(i, "blocking-report-result-disagrees-with-model", fmt.Sprintf("report %s (context ended as the monitor received it) res=%d", cl, cres), trace)
							break phases
						}
						trace = append(trace, fmt.Sprintf("src=%d %s cancelled-at-receive -> %d", s, cl, cres))
						w.Count("reports_cancelled_as_the_monitor_received_them", 1)
						if len(ans) == 1 && e.FenceMonitor(ctx) {
							st = ans[0].(conc.State)
							w.Count("views_compared_right_after_a_report_cancelled_at_receive", 1)
							if !compare(fmt.Sprintf("right after a report of source %d whose context ended as the monitor received it", s)) {
								break phases
							}
						} else {
							// the outcome is not determined by what was observed: settle it with an ordinary report of the
							// same source (the loop's next step does that), as for the abandoned-in-Verify step
							st = ans[0].(conc.State)
						}
					}
					var res int
					var err error
					if inPlace[s] && !l.IllTyped {
						// this watcher keeps one value object, rewrites it and reports the same pointer again
						res, err = e.ReportInPlace(ctx, 0, s, l)
						w.Count("reports_of_one_rewritten_value_object", 1)
					} else {
						res, err = e.Report(ctx, 0, s, l, true)
					}
					ns := e.Model.Step(st, conc.In{Kind: conc.OpReport, Src: s, Layer: l, Blocking: true}, conc.Out{Res: res})
					trace = append(trace, fmt.Sprintf("src=%d %s -> %d", s, l, res))
					if len(trace) > 10 {
						trace = trace[1:]
					}
					if len(ns) == 0 {
						w.Violation(i, "blocking-report-result-disagrees-with-model", fmt.Sprintf("report %s res=%d err=%v", l, res, err), trace)
						break phases
					}
					st = ns[0].(conc.State)
					fmt.Fprintf(&sig, "%d%d", s, res)
					if k%every == 0 || k == n-1 {
						if !compare(fmt.Sprintf("after sequential report %d of phase %d", k, ph)) {
							break phases
						}
					}
				}
			} else {
				// concurrent phase: every watching source reports at once
				var rwg sync.WaitGroup
				type rep struct {
					s int
					l *conc.Layer
				}
				var order sync.Mutex
				var done []rep
				for s := 0; s < o.NSrc; s++ {
					if e.Srcs[s] == nil {
						continue
					}
					srcsUsed[s] = true
					rr := r.Fork()
					n := r.Range(3, 15)
					rwg.Add(1)
					go func(s int, rr *fw.Rand, n int) {
						defer rwg.Done()
						for k := 0; k < n; k++ {
							l := e.RandLayer(rr, invPct*2/3, 0)
							e.Report(ctx, s+1, s, l, rr.Chance(50))
							order.Lock()
							done = append(done, rep{s, l})
							order.Unlock()
						}
					}(s, rr, n)
				}
				rwg.Wait()
				// fence per source with a blocking report so each source's latest value is known
				for s := 0; s < o.NSrc; s++ {
					if e.Srcs[s] == nil {
						continue
					}
					l := e.RandLayer(r, 0, 0)
					lastSetBySrc[s] = l.Set
					if res, err := e.Report(ctx, 0, s, l, true); res != conc.ResNil && res != conc.ResRejected {
						w.Inconclusive(i, fmt.Sprintf("fence report failed: %v", err))
						break phases
					}
					st.Slots[s] = l.ID
				}
				// after the fences the slots are known; the installed tuple is the
				// latest one that verified. Recompute by the model: all fences valid.
				fp, ok := modelFP(e.Model, st.Slots)
				if ok && conc.ValidFP(fp) {
					st.Cur = st.Slots
				} else {
					// an ill-typed or invalid leftover cannot exist: fences replaced every watching slot
					w.Inconclusive(i, "unexpected invalid stack after fences")
					break phases
				}
				_, tok := e.D.ViewVersion()
				st.Serial = conc.SerialOf(tok) // serial continuity is judged by the install log below
				sig.WriteString("C")
				if !compare(fmt.Sprintf("after concurrent phase %d", ph)) {
					break phases
				}
			}
		}
		close(stop)
		wg.Wait()
		e.FenceCallbacks(ctx)

		// serial monitor verdicts
		w.Count("serial_pairs_checked", mon.n)
		if mon.bad != "" {
			w.Violation(i, "serial-config-pairing-not-injective", mon.bad, trace)
		}
		ins := e.Installs()
		w.Count("installs_observed", int64(len(ins)))
		for k, in := range ins {
			if in.Serial != uint64(k+1) {
				w.Violation(i, "install-serials-not-contiguous", fmt.Sprintf("install #%d has serial %d", k+1, in.Serial), nil)
				break
			}
		}
		// Events stream never goes backwards
		ser := map[*conc.Cfg]uint64{}
		for _, in := range ins {
			ser[in.Cfg] = in.Serial
		}
		lastS := uint64(0)
		for k, p := range evPtrs {
			s, ok := ser[p]
			if !ok {
				w.Violation(i, "events-value-never-installed", fmt.Sprintf("Events delivered %+v which the install log does not contain", conc.FPOf(p)), nil)
				break
			}
			if evViewAfter[k] < s {
				// one reader, two observation points: what Events delivered is already older than what View shows next
				w.Violation(i, "view-older-than-the-version-events-just-delivered", fmt.Sprintf("Events delivered serial %d; the ViewVersion read right after it returned serial %d", s, evViewAfter[k]), nil)
				break
			}
			if s <= lastS {
				w.Violation(i, "events-stream-went-backwards", fmt.Sprintf("Events delivered serial %d after %d", s, lastS), nil)
				break
			}
			lastS = s
		}
		w.Count("events_values_checked", int64(len(evPtrs)))
		// callbacks: old is the predecessor, serial pairing
		for _, ev := range e.CBLog() {
			if ev.Kind == "new" {
				if s, ok := ser[ev.New]; ok {
					mon.see(s, ev.New, "OnNewConfig")
				}
			}
		}
		if len(srcsUsed) >= 2 && unsetAgain {
			w.Distinct(sig.String())
		}
		if i%29 == 0 {
			w.Sample(map[string]any{"nsrc": o.NSrc, "signature": sig.String(), "installs": len(ins), "last_ops": trace})
		}
	})
}
