package checks

import (
	"fmt"
	"context"
	"reflect"

	"github.com/vimeo/dials"

	"verifharness/fw"
)

// C03 fixed corpus: runs at every seed and in both tiers (shard 0), each case
// in its own child process. It holds the regression cases for the defects
// that were repaired in /repo (9d2cf19 deep copy through interface values,
// 5fec96c Pointerify around an interface cycle in the defaults) and
// hand-written topologies that put a floor under the generator.

func c03N() c03NodePlan {
	return c03NodePlan{Next: -1, M: -1, MM: -1, Leaf: -1, Skip: -1, SkipM: -1, MA: -1, Pair: [2]int{-1, -1}, Any: c03AnyPlan{K: "nil"}, SkipAny: c03AnyPlan{K: "nil"}}
}

func c03PlanOf(fam string, nodes ...c03NodePlan) *c03Plan {
	return &c03Plan{Fam: fam, Nodes: nodes}
}

func c03With(n c03NodePlan, f func(*c03NodePlan)) c03NodePlan { f(&n); return n }

const c03SliceSelfKey = "crash-stack-overflow:slice-reaching-itself-through-interface-values"

// c03SelfSlice: a typed slice whose by-value element holds the slice itself
// (no pointer, map or interface on the cycle).
type c03SelfSlice struct {
	ID   int
	Vals []c03SelfSlice
}

const c03TypedSliceSelfKey = "crash-stack-overflow:slice-reaching-itself-through-struct-values"

// c03IncludeTypedSliceSelfCase: the fixed case below is a finite cyclic
// graph of slices that the copier does not terminate on (see FINDINGS.md,
// F4); it stays in the corpus as long as that is so.
const c03IncludeTypedSliceSelfCase = true

func c03BuildSelfSlice() *c03SelfSlice {
	v := &c03SelfSlice{ID: 1, Vals: make([]c03SelfSlice, 2)}
	v.Vals[0].ID, v.Vals[1].ID = 2, 3
	v.Vals[0].Vals = v.Vals
	v.Vals[1].Vals = v.Vals[:1]
	return v
}

// c03ListCfg: a config type with the most common recursive node type, a struct that points at its own type through
// a direct pointer field (linked list). ptrify.Pointerify recurses on such a TYPE for ever, so dials.Config overflows
// the stack whatever the values are (open finding, see known_findings.json and DESIGN.md).
type c03ListNode struct {
	ID   int
	Next *c03ListNode
}

type c03ListCfg struct {
	Head *c03ListNode
	Name string
}

const c03RecursiveTypeKey = "crash-stack-overflow:config-type-with-a-direct-self-referential-pointer-field"

// c03MixNode / c03MixRef / c03MixHolder: ONE node referenced through the
// unnamed pointer type and through a defined pointer type, in the order
// *Node, Ref, *Node.
type c03MixNode struct {
	ID   int
	Kids []c03MixRef
}

type c03MixRef *c03MixNode

type c03MixHolder struct {
	A *c03MixNode
	B c03MixRef
	C *c03MixNode
}

// c03IncludeMixedPointerTypesCase: the fixed case "one-node-through-plain-and-
// defined-pointer-types" failed on the library before /repo commit b6ba280 (A
// and C, both *Node and identical in the input, came out distinct: the copy
// made for the Ref-typed reference re-registered the node's address under
// *Node). The repair keys the pointer memo by the unnamed pointer type.
const c03IncludeMixedPointerTypesCase = true

const c03MixedPtrWhere = "deepcopy:plain-and-defined-pointer-to-one-node"

// c03ValCycA / c03ValCycB: a cycle through an interface holding a struct value and a plain pointer field.
type c03ValCycA struct {
	Name string
	I    interface{}
}

type c03ValCycB struct {
	PA *c03ValCycA
	N  int
}

const c03ValCycKey = "crash-stack-overflow:cycle-through-a-struct-value-held-in-an-interface"

func c03RunCustom(w *fw.Worker, i int, fc *c03FixedCase) {
	switch fc.Custom {
	case "mixed-pointer-types":
		mk := func() *c03MixHolder {
			n := &c03MixNode{ID: 7}
			n.Kids = []c03MixRef{n}
			return &c03MixHolder{A: n, B: n, C: n}
		}
		in, exp := mk(), mk()
		out := dials.VerifDeepCopy(reflect.ValueOf(in))
		w.Count("a_graphs", 1)
		c03Judge(w, i, c03MixedPtrWhere, reflect.ValueOf(exp), out, []c03Input{{v: reflect.ValueOf(in)}}, nil,
			map[string]any{"fixed": fc.Name, "value": "type Ref *Node; n := &Node{ID: 7}; n.Kids = []Ref{n}; &Holder{A: n /* *Node */, B: n /* Ref */, C: n /* *Node */}"}, "custom|"+fc.Name)
	case "recursive-pointer-type-config":
		a, b := &c03ListNode{ID: 1}, &c03ListNode{ID: 2}
		a.Next, b.Next = b, a
		def := &c03ListCfg{Head: a, Name: "list"}
		d, err := dials.Config(context.Background(), def)
		w.Count("b_scenarios", 1)
		if err != nil {
			w.Violation(i, "config-error:recursive-pointer-type", err.Error(), map[string]any{"fixed": fc.Name})
			return
		}
		v := d.View()
		if !reflect.DeepEqual(v, def) || v.Head == a || v.Head.Next.Next != v.Head {
			w.Violation(i, "not-deep-equal:config:recursive-pointer-type", "the 2-cycle of list nodes in the defaults did not come back deeply equal, fresh and still a cycle", map[string]any{"fixed": fc.Name})
		}
	case "iface-held-struct-value-cycle":
		// a.I = B{PA: a}: the cycle closes through a plain pointer field of a struct VALUE held in an interface
		mk := func() *c03ValCycA {
			a := &c03ValCycA{Name: "a"}
			a.I = c03ValCycB{PA: a, N: 3}
			return a
		}
		def, twin := mk(), mk()
		d, err := dials.Config(context.Background(), def)
		w.Count("b_scenarios", 1)
		if err != nil {
			w.Violation(i, "config-error:iface-held-struct-value-cycle", err.Error(), map[string]any{"fixed": fc.Name})
			return
		}
		v := d.View()
		b, ok := v.I.(c03ValCycB)
		if !ok || v.Name != twin.Name || b.N != 3 {
			w.Violation(i, "not-deep-equal:config:iface-held-struct-value-cycle", fmt.Sprintf("view %+v", v), map[string]any{"fixed": fc.Name})
			return
		}
		if b.PA != v {
			w.Violation(i, "split:ptr:config:iface-held-struct-value-cycle", "the pointer inside the interface-held struct value no longer leads back to the config itself: the cycle was not kept", map[string]any{"fixed": fc.Name})
			return
		}
		if v == def || b.PA == def {
			w.Violation(i, "not-fresh:config:iface-held-struct-value-cycle", "the view is (or points back at) the caller's defaults", map[string]any{"fixed": fc.Name})
		}
	case "typed-slice-self":
		in, exp := c03BuildSelfSlice(), c03BuildSelfSlice()
		out := dials.VerifDeepCopy(reflect.ValueOf(in))
		w.Count("a_graphs", 1)
		c03Judge(w, i, "deepcopy", reflect.ValueOf(exp), out, []c03Input{{v: reflect.ValueOf(in)}}, nil,
			map[string]any{"fixed": fc.Name, "value": "v := &T{Vals: make([]T, 2)}; v.Vals[0].Vals = v.Vals; v.Vals[1].Vals = v.Vals[:1]"}, "custom|"+fc.Name)
	}
}

func c03Fixed() []c03FixedCase {
	var out []c03FixedCase
	out = append(out, c03FixedCase{Name: "config/type-with-direct-self-referential-pointer-field", Custom: "recursive-pointer-type-config", CrashKey: c03RecursiveTypeKey})
	out = append(out, c03FixedCase{Name: "config/cycle-through-a-struct-value-held-in-an-interface", Custom: "iface-held-struct-value-cycle", CrashKey: c03ValCycKey})
	if c03IncludeTypedSliceSelfCase {
		out = append(out, c03FixedCase{Name: "typed-slice-reaching-itself-through-its-by-value-element", Custom: "typed-slice-self", CrashKey: c03TypedSliceSelfKey})
	}
	if c03IncludeMixedPointerTypesCase {
		out = append(out, c03FixedCase{Name: "one-node-through-plain-and-defined-pointer-types", Custom: "mixed-pointer-types"})
	}
	addA := func(name string, p *c03Plan, entries ...int) {
		if len(entries) == 0 {
			entries = []int{0}
		}
		for _, e := range entries {
			n := name
			if len(entries) > 1 {
				n = name + "/" + c03EntryNames[e]
			}
			out = append(out, c03FixedCase{Name: n, Plan: p, Entry: e})
		}
	}
	anyOf := func(k string, i int, l ...int) func(*c03NodePlan) {
		return func(n *c03NodePlan) { n.Any = c03AnyPlan{K: k, I: i, L: l} }
	}

	// --- regression: 9d2cf19 (interface-held references in the deep copier)
	addA("iface-holds-pointer-to-own-node", c03PlanOf("A", c03With(c03N(), anyOf("ptr", 0))), 0, 2, 4)
	addA("iface-2-cycle", c03PlanOf("A", c03With(c03N(), anyOf("ptr", 1)), c03With(c03N(), anyOf("ptr", 0))), 0, 1)
	addA("typed-nil-pointer-in-iface", c03PlanOf("A", c03With(c03N(), anyOf("nilptr", 0))), 0, 2)
	addA("typed-nil-map-and-slice-in-iface", c03PlanOf("A",
		c03With(c03N(), func(n *c03NodePlan) { n.Any = c03AnyPlan{K: "nilmap"}; n.Kids = []int{1} }),
		c03With(c03N(), anyOf("nilslice", 0))))
	{
		p := c03PlanOf("A", c03With(c03N(), anyOf("amap", 0)))
		p.AMaps = []map[string]c03AnyPlan{{"self": {K: "amap", I: 0}, "owner": {K: "ptr", I: 0}}}
		addA("map-containing-itself-through-iface", p, 0, 2)
	}
	addA("iface-holds-node-value-with-back-reference", c03PlanOf("A",
		c03With(c03N(), func(n *c03NodePlan) { n.Next = 1 }),
		c03With(c03N(), func(n *c03NodePlan) { n.Next = 0; n.Any = c03AnyPlan{K: "node", I: 0} })))
	addA("iface-holds-slice-with-back-references", c03PlanOf("A",
		c03With(c03N(), func(n *c03NodePlan) { n.Any = c03AnyPlan{K: "slice", L: []int{0, 0, 1}}; n.Kids = []int{1} }),
		c03N()))
	addA("iface-holds-array-with-back-references", c03PlanOf("A", c03With(c03N(), anyOf("arr", 0, 0, 0))))
	{
		p := c03PlanOf("A", c03With(c03N(), func(n *c03NodePlan) { n.M = 0; n.Any = c03AnyPlan{K: "map", I: 0} }))
		p.Maps = []map[string]int{{"x": 0}}
		addA("iface-and-field-share-one-map", p, 0, 4)
	}
	{
		// the interface is met before the map-typed field that shares the map
		p := c03PlanOf("A",
			c03With(c03N(), func(n *c03NodePlan) { n.Any = c03AnyPlan{K: "map", I: 0}; n.Next = 1 }),
			c03With(c03N(), func(n *c03NodePlan) { n.M = 0 }))
		p.Maps = []map[string]int{{"x": 1, "y": 0}}
		addA("map-met-through-iface-before-field", p)
	}
	addA("iface-holds-pointer-to-pointer", c03PlanOf("A", c03With(c03N(), func(n *c03NodePlan) { n.Any = c03AnyPlan{K: "pp", I: 0}; n.Next = 0 })))
	{
		p := c03PlanOf("A", c03With(c03N(), anyOf("aslice", 0)))
		p.ASlices = [][]c03AnyPlan{{{K: "ptr", I: 0}, {K: "nilptr"}, {K: "int", I: 1}}}
		addA("iface-holds-slice-of-ifaces-with-back-reference", p)
	}

	// --- "nothing to copy" values are still real allocations and must be fresh
	{
		p := c03PlanOf("A", c03With(c03N(), anyOf("map", 0)), c03With(c03N(), func(n *c03NodePlan) { n.M = 1; n.MM = 0 }))
		p.Nodes[0].Kids = []int{1}
		p.Maps = []map[string]int{{}, {}}
		p.MMaps = []map[string]int{{}}
		p.AMaps = []map[string]c03AnyPlan{{}, {"empty": {K: "amap", I: 0}, "emptytyped": {K: "map", I: 1}}}
		p.ASlices = [][]c03AnyPlan{{{K: "amap", I: 0}, {K: "map", I: 0}}}
		p.Nodes[1].Any = c03AnyPlan{K: "aslice", I: 0}
		addA("empty-non-nil-maps-in-iface-field-element", p, 0, 2, 4)
		q := c03PlanOf("A", c03With(c03N(), anyOf("amap", 1)))
		q.Maps = p.Maps
		q.AMaps = p.AMaps
		addA("empty-non-nil-maps-as-map-values-in-iface", q)
	}
	{
		p := c03PlanOf("A",
			c03With(c03N(), func(n *c03NodePlan) {
				n.Kids = []int{}
				n.Spare = 4
				n.Any = c03AnyPlan{K: "slice", L: []int{}, C: 4}
				n.Next = 1
			}),
			c03With(c03N(), func(n *c03NodePlan) { n.Kids = []int{}; n.Spare = 1; n.Any = c03AnyPlan{K: "aslice", I: 1} }))
		p.ASlices = [][]c03AnyPlan{{}, {{K: "aslice", I: 0}, {K: "slice", L: []int{}, C: 2}, {K: "amap", I: 0}}}
		p.ASpare = []int{4, 1}
		p.AMaps = []map[string]c03AnyPlan{{"s": {K: "slice", L: []int{}, C: 3}, "as": {K: "aslice", I: 0}}}
		addA("zero-length-slices-with-spare-capacity", p, 0, 2, 4)
	}

	// --- exported dials:"-" fields carry references through every copy
	{
		p := c03PlanOf("A",
			c03With(c03N(), func(n *c03NodePlan) {
				n.Next, n.Skip = 1, 1
				n.M, n.SkipM = 0, 0
				n.Kids, n.SkipS = []int{1, 0}, []int{1, 0}
				n.Any, n.SkipAny = c03AnyPlan{K: "ptr", I: 1}, c03AnyPlan{K: "ptr", I: 1}
			}),
			c03With(c03N(), func(n *c03NodePlan) { n.Skip = 0; n.SkipAny = c03AnyPlan{K: "map", I: 0}; n.SkipS = []int{} }))
		p.Maps = []map[string]int{{"a": 1, "r": 0}}
		addA("skipped-fields-share-nodes-with-config-fields", p, 0, 1, 2, 4)
		q := c03PlanOf("A",
			c03With(c03N(), func(n *c03NodePlan) {
				n.Skip = 1
				n.SkipM = 0
				n.SkipS = []int{2, 2}
				n.SkipAny = c03AnyPlan{K: "slice", L: []int{1, 2}}
			}),
			c03With(c03N(), func(n *c03NodePlan) { n.Skip = 0 }),
			c03With(c03N(), func(n *c03NodePlan) { n.SkipAny = c03AnyPlan{K: "ptr", I: 2} }))
		q.Maps = []map[string]int{{"x": 2}}
		addA("nodes-reachable-only-through-skipped-fields", q, 0, 2)
	}
	// --- overlapping views of one backing array held in interface values
	{
		p := c03PlanOf("A",
			c03With(c03N(), func(n *c03NodePlan) {
				n.Kids = []int{1, 2, 3, 4}
				n.Any = c03AnyPlan{K: "view", I: 0, L: []int{0, 3}}
				n.SkipAny = c03AnyPlan{K: "view", I: 0, L: []int{0, 3}} // the same header twice
			}),
			c03With(c03N(), anyOf("view", 0, 0, 1)), // same start, shorter
			c03With(c03N(), anyOf("view", 0, 1, 3)), // different start
			c03With(c03N(), anyOf("view", 0, 0, 2)), // what append(all[:1], x) within capacity gives
			c03With(c03N(), anyOf("view", 0, 0, 0)))
		p.Backs = [][]int{{1, 2, 0}}
		addA("iface-held-overlapping-views-of-one-pointer-slice", p, 0, 1)
		// the shorter view is met first
		q := c03PlanOf("A",
			c03With(c03N(), func(n *c03NodePlan) { n.Next = 1; n.Any = c03AnyPlan{K: "view", I: 0, L: []int{0, 1}} }),
			c03With(c03N(), anyOf("view", 0, 0, 2)))
		q.Backs = [][]int{{1, 0}}
		addA("iface-held-prefix-view-met-before-the-longer-one", q, 0, 2)
		a := c03PlanOf("A",
			c03With(c03N(), func(n *c03NodePlan) { n.Kids = []int{1, 2, 3}; n.Any = c03AnyPlan{K: "aview", I: 0, L: []int{0, 3}} }),
			c03With(c03N(), anyOf("aview", 0, 0, 1)),
			c03With(c03N(), anyOf("aview", 0, 1, 3)),
			c03With(c03N(), func(n *c03NodePlan) {
				n.Any = c03AnyPlan{K: "aview", I: 0, L: []int{0, 3}}
				n.SkipAny = c03AnyPlan{K: "aslice", I: 0}
			}))
		a.ASlices = [][]c03AnyPlan{{{K: "ptr", I: 1}, {K: "int", I: 1}, {K: "ptr", I: 0}}}
		a.ASpare = []int{2}
		addA("iface-held-overlapping-views-of-one-any-slice", a, 0, 1)
	}

	// --- structs held by value in an interface keep their unexported fields
	{
		p := c03PlanOf("A",
			c03With(c03N(), func(n *c03NodePlan) {
				n.Any = c03AnyPlan{K: "time", I: 1}
				n.SkipAny = c03AnyPlan{K: "time", I: 0}
				n.Next = 1
			}),
			c03With(c03N(), func(n *c03NodePlan) { n.Any = c03AnyPlan{K: "priv", I: 0}; n.SkipAny = c03AnyPlan{K: "amap", I: 0} }))
		p.AMaps = []map[string]c03AnyPlan{{"t": {K: "time", I: 3}, "p": {K: "priv", I: 1}, "as": {K: "aslice", I: 0}}}
		p.ASlices = [][]c03AnyPlan{{{K: "priv", I: 0}, {K: "time", I: 2}}}
		addA("by-value-structs-with-unexported-fields-in-iface", p, 0, 2, 4)
	}

	// --- nodes held BY VALUE (struct field, array elements, slice arena) with pointers to them
	{
		bv := func(fam string) []*c03Plan {
			next := func(n *c03NodePlan, t int) {
				if fam == "A" {
					n.Next = t
				} else {
					n.Kids = append(n.Kids, t)
				}
			}
			// Head points at itself; All/Idx/Any refer to it afterwards
			p1 := c03PlanOf(fam, c03N(), c03With(c03N(), func(n *c03NodePlan) { next(n, 1); n.Kids = append(n.Kids, 1); n.Skip = 1 }))
			p1.ByVal = []int{1}
			// Head, Arr[0..1], Arena[0..1]: self-loops and backward pointers, heap node -> Head
			p2 := c03PlanOf(fam,
				c03With(c03N(), func(n *c03NodePlan) { next(n, 1) }),
				c03With(c03N(), func(n *c03NodePlan) { next(n, 1); n.Pair = [2]int{1, 0} }),
				c03With(c03N(), func(n *c03NodePlan) { next(n, 1); n.Any = c03AnyPlan{K: "ptr", I: 2} }),
				c03With(c03N(), func(n *c03NodePlan) { next(n, 3); n.Kids = append(n.Kids, 2, 3) }),
				c03With(c03N(), func(n *c03NodePlan) {
					next(n, 4)
					n.SkipS = []int{4, 3}
					n.Any = c03AnyPlan{K: "slice", L: []int{4, 1}}
				}),
				c03With(c03N(), func(n *c03NodePlan) { next(n, 4); n.Pair = [2]int{5, 5}; n.Any = c03AnyPlan{K: "priv", I: 5} }))
			p2.ByVal = []int{1, 2, 3, 4, 5}
			// a cycle that leaves Head through a heap node and re-enters it
			p3 := c03PlanOf(fam,
				c03With(c03N(), func(n *c03NodePlan) { next(n, 2); n.Any = c03AnyPlan{K: "ptr", I: 2} }),
				c03With(c03N(), func(n *c03NodePlan) { next(n, 2) }),
				c03With(c03N(), func(n *c03NodePlan) { next(n, 0); n.Kids = append(n.Kids, 1) }))
			p3.ByVal = []int{2}
			// only the arena (Head and Arr stay zero-valued but are still plan nodes)
			p4 := c03PlanOf(fam, c03N(), c03N(), c03N(), c03N(),
				c03With(c03N(), func(n *c03NodePlan) { next(n, 4) }),
				c03With(c03N(), func(n *c03NodePlan) { next(n, 4); n.Skip = 5 }),
				c03With(c03N(), func(n *c03NodePlan) { next(n, 6); n.Pair = [2]int{4, 5} }))
			p4.ByVal = []int{1, 2, 3, 4, 5, 6}
			return []*c03Plan{p1, p2, p3, p4}
		}
		names := []string{"by-value-head-self-loop-then-later-references", "by-value-head-array-arena-self-and-backward-pointers",
			"cycle-re-entering-by-value-head-through-heap-node", "by-value-arena-elements-with-index-map"}
		for k, p := range bv("A") {
			out = append(out, c03FixedCase{Name: names[k], Plan: p, Entry: 5})
		}
		for k, p := range bv("B") {
			out = append(out, c03FixedCase{Name: "config-holder/" + names[k], Plan: p, HolderRestacks: 2})
		}
	}
	// --- array-valued maps: the values hold references
	{
		p := c03PlanOf("A",
			c03With(c03N(), func(n *c03NodePlan) { n.MA = 0; n.Kids = []int{1}; n.Any = c03AnyPlan{K: "ma", I: 0}; n.Next = 1 }),
			c03With(c03N(), func(n *c03NodePlan) { n.MA = 1; n.SkipAny = c03AnyPlan{K: "ma", I: 1} }))
		p.MAs = []map[string][2]int{{"a": {1, 0}, "b": {1, -1}}, {"self": {1, 1}, "none": {-1, -1}}}
		p.AMaps = []map[string]c03AnyPlan{{"ma": {K: "ma", I: 0}}}
		addA("array-valued-maps-share-nodes-with-fields", p, 0, 1, 2, 4)
	}

	// --- plain topologies
	addA("self-loop", c03PlanOf("A", c03With(c03N(), func(n *c03NodePlan) { n.Next = 0 })), 0, 2, 4)
	addA("2-cycle", c03PlanOf("A", c03With(c03N(), func(n *c03NodePlan) { n.Next = 1 }), c03With(c03N(), func(n *c03NodePlan) { n.Next = 0 })), 0, 1, 3)
	addA("diamond", c03PlanOf("A",
		c03With(c03N(), func(n *c03NodePlan) { n.Kids = []int{1, 2} }),
		c03With(c03N(), func(n *c03NodePlan) { n.Next = 3 }),
		c03With(c03N(), func(n *c03NodePlan) { n.Pair = [2]int{3, 3} }),
		c03N()))
	{
		p := c03PlanOf("A",
			c03With(c03N(), func(n *c03NodePlan) { n.M = 0; n.Next = 1; n.MM = 0 }),
			c03With(c03N(), func(n *c03NodePlan) { n.M = 0; n.MM = 1 }))
		p.Maps = []map[string]int{{"a": 0, "b": 1, "nil": -1}, {"c": 1}}
		p.MMaps = []map[string]int{{"x": 0, "y": 0, "z": 1}, {"x": 0, "n": -1}}
		addA("shared-maps-and-nested-shared-maps", p, 0, 1)
	}
	{
		p := c03PlanOf("A",
			c03With(c03N(), func(n *c03NodePlan) { n.Leaf = 0; n.Kids = []int{1, 1, -1} }),
			c03With(c03N(), func(n *c03NodePlan) { n.Leaf = 0; n.Any = c03AnyPlan{K: "leaf", I: 0} }))
		p.Leafs = 1
		addA("shared-leaf-pointer", p)
	}
	addA("hidden-capacity-holds-pointers", c03PlanOf("A",
		c03With(c03N(), func(n *c03NodePlan) { n.Kids = []int{1}; n.Hidden = []int{0, 1} }), c03N()))
	// *Node and *int at one address (ID is the first field): must not be confused
	addA("pointer-to-node-and-pointer-to-its-first-field", c03PlanOf("A",
		c03With(c03N(), func(n *c03NodePlan) { n.Next = 1; n.Kids = []int{1} }),
		c03With(c03N(), func(n *c03NodePlan) { n.Leaf = 1001; n.Next = 1 })))
	// interior pointers: the pointed-into node is copied before / after the pointers to its field
	// (observed only: identity of interior pointers is counted, never judged)
	addA("interior-pointers/host-copied-first", c03PlanOf("A",
		c03With(c03N(), func(n *c03NodePlan) { n.Kids = []int{1, 2, 3} }),
		c03N(),
		c03With(c03N(), func(n *c03NodePlan) { n.Leaf = 1001 }),
		c03With(c03N(), func(n *c03NodePlan) { n.Leaf = 1001 })))
	addA("interior-pointers/host-copied-last", c03PlanOf("A",
		c03With(c03N(), func(n *c03NodePlan) { n.Kids = []int{2, 1, 3} }),
		c03N(),
		c03With(c03N(), func(n *c03NodePlan) { n.Leaf = 1001 }),
		c03With(c03N(), func(n *c03NodePlan) { n.Leaf = 1001 })))
	{
		// a []any whose element is the slice itself: slices and interface values only
		p := c03PlanOf("A", c03With(c03N(), anyOf("aslice", 0)))
		p.ASlices = [][]c03AnyPlan{{{K: "aslice", I: 0}}}
		out = append(out, c03FixedCase{Name: "slice-reaching-itself-through-iface", Plan: p, CrashKey: c03SliceSelfKey})
	}

	// --- family R: every reference is of a defined pointer type (type Ref *Node)
	{
		const crash = "crash-stack-overflow:cycle-of-" + c03DefinedPtr + "-references"
		addR := func(name string, p *c03Plan, entries ...int) {
			for _, e := range entries {
				out = append(out, c03FixedCase{Name: c03DefinedPtr + "/" + name + "/" + c03EntryNames[e], Plan: p, Entry: e, CrashKey: crash})
			}
		}
		// no cycle at all: one node referenced from a field, two slice elements,
		// an array element, a map value and an interface value
		dm := c03PlanOf("R",
			c03With(c03N(), func(n *c03NodePlan) {
				n.Next = 1
				n.Kids = []int{1, 1}
				n.Pair = [2]int{-1, 1}
				n.M = 0
				n.Any = c03AnyPlan{K: "ptr", I: 1}
			}),
			c03N())
		dm.Maps = []map[string]int{{"x": 1}}
		addR("diamond", dm, 0, 1, 2, 3)
		// cycles that also pass a slice or a map
		cy := c03PlanOf("R",
			c03With(c03N(), func(n *c03NodePlan) { n.Kids = []int{1, 0}; n.M = 0 }),
			c03With(c03N(), func(n *c03NodePlan) { n.Any = c03AnyPlan{K: "ptr", I: 0}; n.MA = 0 }))
		cy.Maps = []map[string]int{{"self": 0, "kid": 1}}
		cy.MAs = []map[string][2]int{{"a": {0, 1}}}
		addR("cycles-through-slice-map-and-interface", cy, 0, 1, 4)
		// cycles made of struct fields, array elements and interface values only
		addR("self-loop-through-a-field", c03PlanOf("R", c03With(c03N(), func(n *c03NodePlan) { n.Next = 0 })), 0, 2)
		addR("2-cycle-through-field-and-interface", c03PlanOf("R",
			c03With(c03N(), func(n *c03NodePlan) { n.Next = 1 }),
			c03With(c03N(), func(n *c03NodePlan) { n.Any = c03AnyPlan{K: "ptr", I: 0}; n.Pair = [2]int{1, 0} })), 0, 3)
		addR("pointer-to-defined-pointer-in-interface", c03PlanOf("R",
			c03With(c03N(), func(n *c03NodePlan) { n.Any = c03AnyPlan{K: "pp", I: 1}; n.Kids = []int{1}; n.Skip = 1 }),
			c03With(c03N(), func(n *c03NodePlan) { n.SkipS = []int{0, 1} })), 0)
	}

	// --- path (b): layers of one stack whose values share nodes
	{
		g := c03PlanOf("B",
			c03With(c03N(), func(n *c03NodePlan) { n.Kids = []int{1, 0}; n.M = 0; n.Leaf = 0; n.MA = 0 }),
			c03With(c03N(), func(n *c03NodePlan) { n.Any = c03AnyPlan{K: "ptr", I: 0}; n.Kids = []int{2}; n.M = 1; n.Leaf = 1 }),
			c03With(c03N(), func(n *c03NodePlan) { n.Kids = []int{2, 1}; n.M = 1; n.MA = 0 }))
		g.Leafs = 2
		g.Maps = []map[string]int{{"self": 0, "kid": 1}, {"two": 2}}
		g.MAs = []map[string][2]int{{"a": {0, 2}}}
		allSlot := []string{"Kids", "Pairs", "M", "MM", "MA", "Leaf"}
		pool := []c03SlotPlan{{Node: 0, Set: allSlot}, {Node: 1, Set: []string{"Kids", "M", "Leaf"}}, {Node: 2, Set: []string{"Kids", "MA"}}}
		none := c03LayerPlan{Slots: [3]int{-1, -1, -1}}
		addL := func(name string, ls *c03Layered) {
			out = append(out, c03FixedCase{Name: c03LayersShare + "/" + name, Layered: ls})
		}
		// layer 1 puts struct 0 into A; layer 2 merges struct 1 into A and puts struct 0 into B
		addL("lower-layers-struct-merged-into-and-set-again", &c03Layered{Graph: g, Pool: pool, Defaults: none,
			Layers: []c03LayerPlan{{Slots: [3]int{0, -1, -1}, Ptr: true}, {Slots: [3]int{1, 0, -1}, Roots: []int{0, 2}, Idx: []int{0}, Ptr: true}}})
		addL("three-layers-and-restacks", &c03Layered{Graph: g, Pool: pool,
			Defaults: c03LayerPlan{Slots: [3]int{-1, -1, 2}, Roots: []int{1}},
			Layers:   []c03LayerPlan{{Slots: [3]int{0, 1, -1}}, {Slots: [3]int{2, 0, 1}, NoAddr: true}, {Slots: [3]int{1, 2, 0}, Idx: []int{1, 1}, Ptr: true}},
			Updates:  []c03LayerPlan{{Slots: [3]int{0, -1, 1}, Roots: []int{0}}, {Slots: [3]int{2, 0, -1}, Ptr: true}}})
		addL("same-value-in-every-layer", &c03Layered{Graph: g, Pool: pool, Defaults: none,
			Layers: []c03LayerPlan{{Slots: [3]int{0, 1, 2}, Roots: []int{0}}, {Slots: [3]int{0, 1, 2}, Roots: []int{0}}}})
	}

	// --- path (b): dials.Config, View, re-stack
	addB := func(name string, sc *c03Scenario, crashKey string) {
		out = append(out, c03FixedCase{Name: name, Scenario: sc, CrashKey: crashKey})
	}
	bSelf := c03PlanOf("B", c03With(c03N(), anyOf("ptr", 0)))
	b2 := c03PlanOf("B",
		c03With(c03N(), func(n *c03NodePlan) { n.Kids = []int{1}; n.Any = c03AnyPlan{K: "ptr", I: 1} }),
		c03With(c03N(), func(n *c03NodePlan) { n.Any = c03AnyPlan{K: "ptr", I: 0}; n.Kids = []int{0, 1} }))
	bMapSelf := c03PlanOf("B", c03With(c03N(), anyOf("amap", 0)))
	bMapSelf.AMaps = []map[string]c03AnyPlan{{"self": {K: "amap", I: 0}, "owner": {K: "ptr", I: 0}}}
	bRich := c03PlanOf("B",
		c03With(c03N(), func(n *c03NodePlan) {
			n.Kids = []int{1, 2, 1}
			n.Pair = [2]int{2, 0}
			n.Pairs = [][2]int{{1, 1}, {-1, 0}}
			n.M, n.MM, n.Leaf = 0, 0, 0
		}),
		c03With(c03N(), func(n *c03NodePlan) {
			n.Kids = []int{0}
			n.M = 0
			n.Any = c03AnyPlan{K: "slice", L: []int{0, 2}}
			n.Leaf = 0
		}),
		c03With(c03N(), func(n *c03NodePlan) { n.Any = c03AnyPlan{K: "node", I: 1}; n.Pair = [2]int{2, 1} }))
	bRich.Maps = []map[string]int{{"a": 1, "b": 2, "r": 0}}
	bRich.MMaps = []map[string]int{{"x": 0, "y": 0}}
	bRich.Leafs = 1
	all := []string{"Kids", "Pair", "Pairs", "M", "MM", "Any", "Leaf"}
	noAny := []string{"Kids", "Pair", "Pairs", "M", "MM", "Leaf"}

	// regression: 5fec96c (and 9d2cf19 end to end)
	addB("config/defaults-iface-self-reference", &c03Scenario{Defaults: bSelf, Watch: -1}, "")
	addB("config/defaults-iface-2-cycle", &c03Scenario{Defaults: b2, Watch: -1}, "")
	addB("config/defaults-typed-nil-pointer-in-iface", &c03Scenario{Defaults: c03PlanOf("B", c03With(c03N(), anyOf("nilptr", 0))), Watch: -1}, "")
	addB("config/defaults-map-containing-itself-through-iface", &c03Scenario{Defaults: bMapSelf, Watch: -1}, "")
	addB("config/defaults-rich-graph", &c03Scenario{Defaults: bRich, Watch: -1,
		Sources: []c03SrcPlan{{Plan: c03TrivialPlan("B"), Set: []string{"ID"}}}}, "")
	addB("config/source-iface-self-reference", &c03Scenario{Defaults: c03TrivialPlan("B"), Watch: -1,
		Sources: []c03SrcPlan{{Plan: bSelf, Set: all}}}, "")
	addB("config/source-rich-graph-pointer-value", &c03Scenario{Defaults: c03TrivialPlan("B"), Watch: -1,
		Sources: []c03SrcPlan{{Plan: bRich, Set: all, Ptr: true}}}, "")
	addB("config/defaults-cyclic-plus-source-overrides", &c03Scenario{Defaults: b2, Watch: -1,
		Sources: []c03SrcPlan{{Plan: bRich, Set: []string{"M", "MM", "Pair"}}, {Plan: bMapSelf, Set: []string{"Leaf", "Kids"}}}}, "")
	addB("restack/cyclic-values", &c03Scenario{Defaults: bSelf, Watch: 0,
		Sources: []c03SrcPlan{{Plan: bRich, Set: noAny}},
		Updates: []c03SrcPlan{{Plan: b2, Set: noAny, Ptr: true}, {Plan: bRich, Set: noAny}, {Plan: bRich, Set: noAny}}}, "")
	addB("restack/iface-cycles-from-source", &c03Scenario{Defaults: c03TrivialPlan("B"), Watch: 1,
		Sources: []c03SrcPlan{{Plan: bRich, Set: noAny}, {Plan: bSelf, Set: all}},
		Updates: []c03SrcPlan{{Plan: bMapSelf, Set: all}, {Plan: b2, Set: all, Ptr: true}}}, "")
	// empty non-nil maps and zero-length slices with spare capacity, through Config and a re-stack
	{
		e := c03PlanOf("B",
			c03With(c03N(), func(n *c03NodePlan) {
				n.Kids = []int{}
				n.Spare = 4
				n.Pairs = [][2]int{}
				n.PSpare = 2
				n.M, n.MM = 0, 0
				n.Any = c03AnyPlan{K: "amap", I: 1}
			}))
		e.Maps = []map[string]int{{}, {}}
		e.MMaps = []map[string]int{{"e": 1}}
		e.AMaps = []map[string]c03AnyPlan{{}, {"m": {K: "map", I: 1}, "am": {K: "amap", I: 0}, "s": {K: "slice", L: []int{}, C: 3}, "as": {K: "aslice", I: 0}}}
		e.ASlices = [][]c03AnyPlan{{}}
		e.ASpare = []int{4}
		em := c03PlanOf("B", c03With(c03N(), func(n *c03NodePlan) { n.Kids = []int{}; n.Spare = 2; n.M = 0; n.Any = c03AnyPlan{K: "map", I: 0} }))
		em.Maps = []map[string]int{{}}
		es := c03PlanOf("B", c03With(c03N(), func(n *c03NodePlan) { n.Kids = []int{}; n.Spare = 3; n.Any = c03AnyPlan{K: "slice", L: []int{}, C: 4} }))
		addB("config/defaults-empty-maps-and-spare-capacity-slices", &c03Scenario{Defaults: e, Watch: -1}, "")
		addB("config/defaults-empty-map-in-iface", &c03Scenario{Defaults: em, Watch: -1}, "")
		addB("config/defaults-zero-length-slice-in-iface", &c03Scenario{Defaults: es, Watch: -1}, "")
		addB("config/source-empty-maps-and-spare-capacity-slices", &c03Scenario{Defaults: c03TrivialPlan("B"), Watch: -1,
			Sources: []c03SrcPlan{{Plan: e, Set: all}}}, "")
		addB("restack/empty-maps-and-spare-capacity-slices", &c03Scenario{Defaults: em, Watch: 0,
			Sources: []c03SrcPlan{{Plan: es, Set: noAny}},
			Updates: []c03SrcPlan{{Plan: e, Set: noAny, Ptr: true}, {Plan: em, Set: noAny}}}, "")
	}
	// dials:"-" fields and overlapping interface-held views through Config and re-stacks
	{
		sk := c03PlanOf("B",
			c03With(c03N(), func(n *c03NodePlan) {
				n.Kids, n.SkipS = []int{1, 2}, []int{1, 2}
				n.Skip = 1
				n.M, n.SkipM = 0, 0
				n.SkipAny = c03AnyPlan{K: "ptr", I: 2}
				n.Any = c03AnyPlan{K: "view", I: 0, L: []int{0, 2}}
			}),
			c03With(c03N(), func(n *c03NodePlan) {
				n.Skip = 0
				n.SkipAny = c03AnyPlan{K: "view", I: 0, L: []int{0, 1}}
				n.Any = c03AnyPlan{K: "view", I: 0, L: []int{1, 2}}
			}),
			c03With(c03N(), func(n *c03NodePlan) { n.Skip = 2; n.SkipM = 0; n.Any = c03AnyPlan{K: "view", I: 0, L: []int{0, 2}} }))
		sk.Maps = []map[string]int{{"a": 1, "b": 2}}
		sk.Backs = [][]int{{2, 1}}
		addB("config/defaults-skipped-fields-and-overlapping-views", &c03Scenario{Defaults: sk, Watch: -1}, "")
		addB("config/source-nodes-with-skipped-fields-and-overlapping-views", &c03Scenario{Defaults: c03TrivialPlan("B"), Watch: -1,
			Sources: []c03SrcPlan{{Plan: sk, Set: all}}}, "")
		addB("restack/defaults-skipped-fields-survive-restacks", &c03Scenario{Defaults: sk, Watch: 0,
			Sources: []c03SrcPlan{{Plan: bRich, Set: []string{"Kids", "M", "Leaf"}}},
			Updates: []c03SrcPlan{{Plan: sk, Set: []string{"Kids", "Pair"}, Ptr: true}, {Plan: b2, Set: []string{"Kids"}}}}, "")
	}
	// by-value structs with unexported fields, and the three hand-over forms of a source value
	{
		tp := c03PlanOf("B",
			c03With(c03N(), func(n *c03NodePlan) {
				n.Any = c03AnyPlan{K: "priv", I: 1}
				n.SkipAny = c03AnyPlan{K: "time", I: 1}
				n.Kids = []int{1}
			}),
			c03With(c03N(), func(n *c03NodePlan) { n.Any = c03AnyPlan{K: "time", I: 3}; n.SkipAny = c03AnyPlan{K: "priv", I: 0} }))
		tt := c03PlanOf("B", c03With(c03N(), func(n *c03NodePlan) { n.Any = c03AnyPlan{K: "time", I: 1}; n.Kids = []int{0} }))
		addB("config/defaults-by-value-structs-with-unexported-fields", &c03Scenario{Defaults: tp, Watch: -1}, "")
		addB("config/defaults-time-in-iface", &c03Scenario{Defaults: tt, Watch: -1}, "")
		addB("config/source-by-value-structs-with-unexported-fields", &c03Scenario{Defaults: c03TrivialPlan("B"), Watch: -1,
			Sources: []c03SrcPlan{{Plan: tp, Set: all}}}, "")
		addB("config/source-time-in-iface-non-addressable", &c03Scenario{Defaults: c03TrivialPlan("B"), Watch: -1,
			Sources: []c03SrcPlan{{Plan: tt, Set: all, NoAddr: true}}}, "")
		addB("config/source-value-non-addressable", &c03Scenario{Defaults: bSelf, Watch: -1,
			Sources: []c03SrcPlan{{Plan: bRich, Set: noAny, NoAddr: true}}}, "")
		addB("config/source-values-in-all-three-forms", &c03Scenario{Defaults: c03TrivialPlan("B"), Watch: -1,
			Sources: []c03SrcPlan{{Plan: bRich, Set: []string{"Kids", "M"}, NoAddr: true}, {Plan: b2, Set: []string{"Pair", "Leaf", "MM"}, Ptr: true}, {Plan: bMapSelf, Set: []string{"Any", "Pairs"}}}}, "")
		addB("restack/non-addressable-values-reported", &c03Scenario{Defaults: bSelf, Watch: 0,
			Sources: []c03SrcPlan{{Plan: bRich, Set: noAny, NoAddr: true}},
			Updates: []c03SrcPlan{{Plan: b2, Set: noAny, NoAddr: true}, {Plan: bRich, Set: noAny, Ptr: true}, {Plan: tp, Set: noAny, NoAddr: true}}}, "")
	}
	// array-valued maps through Config and re-stacks
	{
		ma := c03PlanOf("B",
			c03With(c03N(), func(n *c03NodePlan) { n.MA = 0; n.Kids = []int{1, 0}; n.SkipAny = c03AnyPlan{K: "ma", I: 0} }),
			c03With(c03N(), func(n *c03NodePlan) { n.MA = 1; n.Any = c03AnyPlan{K: "ma", I: 0} }))
		ma.MAs = []map[string][2]int{{"a": {1, 0}, "b": {1, -1}}, {"x": {1, 1}}}
		addB("config/defaults-array-valued-maps", &c03Scenario{Defaults: ma, Watch: -1}, "")
		addB("config/source-array-valued-maps", &c03Scenario{Defaults: c03TrivialPlan("B"), Watch: -1,
			Sources: []c03SrcPlan{{Plan: ma, Set: []string{"MA", "Kids"}, NoAddr: true}}}, "")
		addB("restack/array-valued-maps", &c03Scenario{Defaults: ma, Watch: 0,
			Sources: []c03SrcPlan{{Plan: bRich, Set: []string{"Kids"}}},
			Updates: []c03SrcPlan{{Plan: ma, Set: []string{"MA", "Kids"}, Ptr: true}, {Plan: ma, Set: []string{"MA"}}}}, "")
	}
	// two layers set Any: a slice/array/map payload replaces the lower layer's value as a whole
	addB("config/slice-in-iface-set-by-two-layers", &c03Scenario{Defaults: c03TrivialPlan("B"), Watch: -1,
		Sources: []c03SrcPlan{
			{Plan: bSelf, Set: []string{"Any"}},
			{Plan: c03PlanOf("B", c03With(c03N(), func(n *c03NodePlan) { n.Any = c03AnyPlan{K: "slice", L: []int{1, 1}}; n.Kids = []int{1} }), c03N()), Set: []string{"Any", "Kids"}},
			{Plan: c03PlanOf("B", c03With(c03N(), func(n *c03NodePlan) { n.Any = c03AnyPlan{K: "slice", L: []int{1, 0}}; n.Kids = []int{1, 0} }), c03N()), Set: []string{"Any", "Kids"}},
		}}, "")
	addB("config/array-in-iface-set-by-two-layers", &c03Scenario{Defaults: c03TrivialPlan("B"), Watch: -1,
		Sources: []c03SrcPlan{
			{Plan: c03PlanOf("B", c03With(c03N(), anyOf("arr", 0, 1, -1)), c03N()), Set: []string{"Any"}},
			{Plan: c03PlanOf("B", c03With(c03N(), func(n *c03NodePlan) { n.Any = c03AnyPlan{K: "arr", L: []int{1, -1}}; n.Kids = []int{1} }), c03N()), Set: []string{"Any", "Kids"}},
		}}, "")
	{
		p := c03PlanOf("B", c03With(c03N(), anyOf("aslice", 0)))
		p.ASlices = [][]c03AnyPlan{{{K: "aslice", I: 0}}}
		addB("config/defaults-slice-reaching-itself-through-iface", &c03Scenario{Defaults: p, Watch: -1}, c03SliceSelfKey)
	}
	return out
}
