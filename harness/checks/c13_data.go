package checks

// C13 data trees: one generated tree per case is the single source from which
// the four documents are rendered, and from which the expected decoder output
// and the expected stack are derived by harness code only.

import (
	"fmt"
	"math"
	"net"
	"reflect"
	"strconv"
	"strings"
	"time"

	"verifharness/fw"
)

type c13RawKind int

const (
	c13RawNone      c13RawKind = iota
	c13RawInt                  // 5
	c13RawBig                  // 1099511627776
	c13RawStr                  // "xabc"
	c13RawBool                 // true
	c13RawIntList              // [1, 2]
	c13RawStrList              // ["1s"]
	c13RawMixedList            // [1, "x"]
	c13RawMap                  // {"a": 1}
)

// c13Val is a node of the data tree.
type c13Val struct {
	node *c13Node
	// scalars
	b     bool
	i     int64
	u     uint64
	f     float64
	ftext string // the float literal used in all documents
	s     string // string / text forms of time, ip, text
	d     time.Duration
	durNS bool // rendered as integer nanoseconds in JSON and Cue
	t     time.Time
	// collections
	list  []*c13Val
	mkeys []string // map keys, or set items (duplicates allowed)
	mvals []*c13Val
	// struct: present fields in schema order
	fields []*c13Field
	fvals  []*c13Val
	decoys []c13Decoy
	// raw != none: an ill-typed replacement rendered instead of the value
	raw c13RawKind
}

// c13Decoy is an entry under a key that the given formats must NOT read for
// field f (the dials key where a format tag takes precedence, or another
// format's key).
type c13Decoy struct {
	key  string
	fmts [4]bool
	val  *c13Val
}

type c13ValGen struct {
	r       *fw.Rand
	counter int
}

var c13Alphabet = []string{
	"a", "b", "z", "Q", "0", "7", " ", " ", "-", "_", ".", ",", ":", ";", "#", "'", "\"", "\\", "/", "=", "$", "%", "&",
	"(", ")", "[", "]", "{", "}", "<", ">", "|", "!", "?", "*", "+", "~", "`", "@", "^",
	"\n", "\t", "\r", "\x01", "\x1f", "\x7f",
	"\u00e9", "\u00df", "\u0436", "\u03a9", "\u65e5", "\u672c", "\u00a0", "\u0085", "\u2028", "\ufeff", "\U0001F600", "\U0001D11E",
}

func (g *c13ValGen) str(noBar bool) string {
	r := g.r
	if r.Chance(6) {
		return ""
	}
	var b strings.Builder
	if r.Chance(65) {
		g.counter++
		fmt.Fprintf(&b, "v%d", g.counter)
	}
	n := r.Intn(9)
	simple := r.Chance(35)
	for i := 0; i < n; i++ {
		var c string
		if simple {
			c = c13Alphabet[r.Intn(6)]
		} else {
			c = fw.Pick(r, c13Alphabet)
		}
		if noBar && c == "|" {
			continue
		}
		b.WriteString(c)
	}
	return b.String()
}

func c13FloatText(f float64, bits int) string {
	s := strconv.FormatFloat(f, 'g', -1, bits)
	if !strings.ContainsAny(s, ".e") {
		s += ".0"
	}
	return s
}

func (g *c13ValGen) float(bits int) (float64, string) {
	r := g.r
	for {
		var f float64
		switch r.Intn(10) {
		case 0, 1, 2, 3:
			// dyadic rationals: exact in both widths
			f = float64(int64(r.Intn(1<<20))-(1<<19)) / float64(int64(1)<<uint(r.Intn(8)))
		case 4, 5, 6:
			if bits == 32 {
				f = float64(math.Float32frombits(uint32(r.U64())))
			} else {
				f = math.Float64frombits(r.U64())
			}
		case 7:
			if bits == 32 {
				f = fw.Pick(r, []float64{math.MaxFloat32, -math.MaxFloat32, math.SmallestNonzeroFloat32, 1e-7, 16777216})
			} else {
				f = fw.Pick(r, []float64{math.MaxFloat64, -math.MaxFloat64, math.SmallestNonzeroFloat64, 1e-7, 9007199254740993, 1e21, 1e-320})
			}
		default:
			f = float64(r.Intn(2000)-1000) / 100
			if bits == 32 {
				f = float64(float32(f))
			}
		}
		if math.IsNaN(f) || math.IsInf(f, 0) || (f == 0 && math.Signbit(f)) {
			continue
		}
		txt := c13FloatText(f, bits)
		if bits == 32 {
			// keep only literals for which parsing as float64 and then
			// narrowing (what three of the libraries do) equals parsing as
			// float32 (what encoding/json does)
			p64, e1 := strconv.ParseFloat(txt, 64)
			p32, e2 := strconv.ParseFloat(txt, 32)
			if e1 != nil || e2 != nil || float32(p64) != float32(p32) || float64(float32(p32)) != f {
				continue
			}
			// go-toml and cue range-check the float64 before narrowing:
			// +-MaxFloat32's shortest literal is a float64 just above MaxFloat32
			if math.Abs(p64) > math.MaxFloat32 {
				continue
			}
		} else {
			p64, e1 := strconv.ParseFloat(txt, 64)
			if e1 != nil || p64 != f {
				continue
			}
		}
		return f, txt
	}
}

func (g *c13ValGen) intVal(bits int) int64 {
	r := g.r
	if bits == 0 {
		bits = 64
	}
	min := int64(-1) << uint(bits-1)
	max := -(min + 1)
	switch r.Intn(8) {
	case 0:
		if bits == 64 {
			// cue v0.6.0 cannot carry MinInt64 into an int64 ("value was
			// rounded up"): not expressible in all four formats
			return min + 1
		}
		return min
	case 1:
		return max
	case 2:
		return int64(r.Intn(3)) - 1
	}
	v := int64(r.U64())
	if bits < 64 {
		v = v >> uint(64-bits)
	}
	return v
}

func (g *c13ValGen) uintVal(bits int) uint64 {
	r := g.r
	if bits == 0 {
		bits = 64
	}
	// TOML integers are int64: larger values are not expressible in all four formats
	max := uint64(math.MaxInt64)
	if bits < 64 {
		max = uint64(1)<<uint(bits) - 1
	}
	switch r.Intn(8) {
	case 0:
		return 0
	case 1:
		return max
	}
	v := r.U64() >> uint(64-bits)
	if v > max {
		v >>= 1
	}
	return v
}

func (g *c13ValGen) duration() time.Duration {
	r := g.r
	switch r.Intn(10) {
	case 0:
		return 0
	case 1:
		return time.Duration(1)
	case 2:
		return time.Duration(math.MaxInt64)
	case 3:
		return -time.Duration(r.Intn(1000000)) * time.Millisecond
	case 4, 5:
		return time.Duration(r.Intn(100000)) * time.Second
	}
	return time.Duration(int64(r.U64() >> uint(2+r.Intn(40))))
}

func (g *c13ValGen) timeVal() time.Time {
	r := g.r
	sec := int64(r.Intn(2000000000)) + int64(r.Intn(2))*2000000000
	var nsec int64
	switch r.Intn(4) {
	case 0:
		nsec = 0
	case 1:
		nsec = int64(r.Intn(1000)) * 1000000
	default:
		nsec = int64(r.Intn(1000000000))
	}
	off := 0
	if r.Chance(60) {
		off = (r.Intn(14*4*2+1) - 14*4) * 15 * 60
	}
	return time.Unix(sec, nsec).In(time.FixedZone("", off))
}

func (g *c13ValGen) ip() string {
	r := g.r
	if r.Bool() {
		return fmt.Sprintf("%d.%d.%d.%d", r.Intn(256), r.Intn(256), r.Intn(256), r.Intn(256))
	}
	b := make(net.IP, 16)
	for i := range b {
		if r.Chance(70) {
			b[i] = byte(r.Intn(256))
		}
	}
	return b.String()
}

// value draws a value for node n. top=false inside slice elements makes no
// difference to generation; presence is drawn per struct field.
func (g *c13ValGen) value(n *c13Node, presentPct int) *c13Val {
	r := g.r
	v := &c13Val{node: n}
	switch n.kind {
	case c13Bool:
		v.b = r.Bool()
	case c13Int:
		v.i = g.intVal(n.bits)
	case c13Uint:
		v.u = g.uintVal(n.bits)
	case c13Float:
		v.f, v.ftext = g.float(n.bits)
	case c13String:
		v.s = g.str(false)
	case c13Duration:
		v.d = g.duration()
		v.durNS = r.Chance(35)
	case c13Time:
		v.t = g.timeVal()
		v.s = v.t.Format(time.RFC3339Nano)
	case c13IP:
		v.s = g.ip()
	case c13Text:
		v.s = g.str(true) + "|" + g.str(false)
	case c13Slice:
		n := 0
		if !r.Chance(10) || v.node.elemIsTextStruct() {
			n = r.Range(1, 4)
		}
		v.list = make([]*c13Val, n)
		for i := range v.list {
			v.list[i] = g.value(v.node.elem, presentPct)
		}
	case c13Map:
		n := 0
		if !r.Chance(10) {
			n = r.Range(1, 4)
		}
		seen := map[string]bool{}
		for i := 0; i < n; i++ {
			k := g.mapKey()
			if seen[k] {
				continue
			}
			seen[k] = true
			v.mkeys = append(v.mkeys, k)
			v.mvals = append(v.mvals, g.value(v.node.elem, presentPct))
		}
	case c13Set:
		n := 0
		if !r.Chance(10) {
			n = r.Range(1, 4)
		}
		for i := 0; i < n; i++ {
			v.mkeys = append(v.mkeys, g.str(false))
		}
		if n > 0 && r.Chance(25) {
			v.mkeys = append(v.mkeys, v.mkeys[r.Intn(len(v.mkeys))])
		}
	case c13Struct:
		for _, f := range n.fields {
			if f.skip {
				continue
			}
			if r.Chance(presentPct) {
				v.fields = append(v.fields, f)
				v.fvals = append(v.fvals, g.value(f.node, presentPct))
			}
		}
	case c13PtrStruct:
		return g.retag(g.value(n.elem, presentPct), n)
	case c13SliceStruct:
		// never empty: an empty array of tables cannot be written in TOML
		cnt := r.Range(1, 3)
		v.list = make([]*c13Val, cnt)
		for i := range v.list {
			v.list[i] = g.value(n.elem, presentPct)
		}
	}
	return v
}

// retag makes a struct value carry the PtrStruct node.
func (g *c13ValGen) retag(v *c13Val, n *c13Node) *c13Val {
	v.node = n
	return v
}

func (g *c13ValGen) mapKey() string {
	r := g.r
	g.counter++
	base := fmt.Sprintf("k%d", g.counter)
	switch r.Intn(6) {
	case 0:
		return base + " " + fw.Pick(r, []string{"x", "Y", "\u00e9", "\u65e5\u672c"})
	case 1:
		return strings.ToUpper(base)
	case 2:
		return base + fw.Pick(r, []string{".", "-", "_", ":", "/", "#", "=", "'"}) + "q"
	}
	return base
}

// addDecoys attaches decoy entries to struct values (recursively through
// nested structs, not through slice elements to keep TOML simple).
func (g *c13ValGen) addDecoys(v *c13Val, pct int) {
	if v == nil {
		return
	}
	switch v.node.kind {
	case c13Struct, c13PtrStruct:
	case c13SliceStruct:
		for _, e := range v.list {
			g.addDecoys(e, pct)
		}
		return
	default:
		return
	}
	st := v.node.structNode()
	for _, f := range st.fields {
		if f.skip {
			continue
		}
		cands := []string{f.dialsKey, f.own[0], f.own[1], f.own[2], f.own[3]}
		seen := map[string]bool{}
		for _, k := range cands {
			if k == "" || seen[k] {
				continue
			}
			seen[k] = true
			var fm [4]bool
			any := false
			for x := c13JSON; x <= c13Cue; x++ {
				if f.keys[x] != k && g.r.Chance(pct) {
					fm[x] = true
					any = true
				}
			}
			if any {
				v.decoys = append(v.decoys, c13Decoy{key: k, fmts: fm, val: g.value(f.node, 60)})
			}
		}
	}
	for _, fv := range v.fvals {
		g.addDecoys(fv, pct)
	}
}

// ---------------------------------------------------------------------------
// materialising a tree into a typed Go value (defaults, expectations)

func c13Build(v *c13Val, dst reflect.Value) {
	n := v.node
	switch n.kind {
	case c13Bool:
		dst.SetBool(v.b)
	case c13Int:
		dst.SetInt(v.i)
	case c13Uint:
		dst.SetUint(v.u)
	case c13Float:
		dst.SetFloat(v.f)
	case c13String:
		dst.SetString(v.s)
	case c13Duration:
		dst.SetInt(int64(v.d))
	case c13Time:
		dst.Set(reflect.ValueOf(v.t))
	case c13IP:
		dst.Set(reflect.ValueOf(net.ParseIP(v.s)))
	case c13Text:
		i := strings.IndexByte(v.s, '|')
		dst.Set(reflect.ValueOf(C13Text{A: v.s[:i], B: v.s[i+1:]}))
	case c13Slice, c13SliceStruct:
		s := reflect.MakeSlice(n.typ, len(v.list), len(v.list))
		for i, e := range v.list {
			c13Build(e, s.Index(i))
		}
		dst.Set(s)
	case c13Map:
		m := reflect.MakeMapWithSize(n.typ, len(v.mkeys))
		for i, k := range v.mkeys {
			e := reflect.New(n.elem.typ).Elem()
			c13Build(v.mvals[i], e)
			m.SetMapIndex(reflect.ValueOf(k), e)
		}
		dst.Set(m)
	case c13Set:
		m := reflect.MakeMapWithSize(n.typ, len(v.mkeys))
		for _, k := range v.mkeys {
			m.SetMapIndex(reflect.ValueOf(k), reflect.ValueOf(struct{}{}))
		}
		dst.Set(m)
	case c13Struct:
		for i, f := range v.fields {
			c13Build(v.fvals[i], c13DirectField(dst, f.name))
		}
	case c13PtrStruct:
		p := reflect.New(n.elem.typ)
		for i, f := range v.fields {
			c13Build(v.fvals[i], c13DirectField(p.Elem(), f.name))
		}
		dst.Set(p)
	}
}

// c13Merge is the reference stack on data trees: structs merge field by
// field, everything else is replaced as a whole by the upper layer.
func c13Merge(base, over *c13Val) *c13Val {
	if over == nil {
		return base
	}
	if base == nil {
		return over
	}
	switch over.node.kind {
	case c13Struct, c13PtrStruct:
		out := &c13Val{node: over.node}
		st := over.node.structNode()
		for _, f := range st.fields {
			b, o := base.field(f), over.field(f)
			if m := c13Merge(b, o); m != nil {
				out.fields = append(out.fields, f)
				out.fvals = append(out.fvals, m)
			}
		}
		return out
	}
	return over
}

func (v *c13Val) field(f *c13Field) *c13Val {
	for i, g := range v.fields {
		if g == f {
			return v.fvals[i]
		}
	}
	return nil
}

// ---------------------------------------------------------------------------
// matching a decoder output / stacked config against the tree

type c13Diff struct {
	class string // present-key-unset, absent-key-set, leaf-mismatch, shape
	path  string
	sig   string
	own   bool // the leaf (or an enclosing field) is read from a format-specific tag in this format
	elem  bool // inside a slice-of-struct element
	ns    bool
	// lookalike: the field (or an enclosing one) also carries a tag of another
	// library whose key ends in this format's name, and no real format tag
	lookalike bool
	// nonASCII: the Go name of the field (or of an enclosing one) has a letter
	// outside ASCII; initial: it starts with one
	nonASCII, nonASCIIInitial bool
	text                      string
}

type c13Matcher struct {
	fm      c13Fmt
	ptr     bool // decoder output (pointerified) vs. full config
	diffs   []c13Diff
	leaves  int64
	absent  int64
	ownSeen int64
	nsSeen  int64
	// embedded struct members present in the document, and how many of them
	// are keyed by their own Go name in another case
	embSeen, embFoldSeen int64
	// present fields that carry a look-alike tag of another library
	// (geojson, goyaml, ...) and no real tag of that format
	foreignSeen int64
	inLookalike bool // while matching below a field with a look-alike tag for m.fm
	// present fields whose Go name has a letter outside ASCII / starts with one
	nonASCIISeen, nonASCIIInitialSeen int64
	// while matching a field (or below a field) with such a name
	inNonASCII, inNonASCIIInitial bool
	kinds                         map[string]struct{}
}

func (m *c13Matcher) add(class, path string, n *c13Node, own, elem, ns bool, text string) {
	if len(m.diffs) < 8 {
		m.diffs = append(m.diffs, c13Diff{class: class, path: path, sig: n.sig, own: own, elem: elem, ns: ns, lookalike: m.inLookalike,
			nonASCII: m.inNonASCII, nonASCIIInitial: m.inNonASCIIInitial, text: text})
	}
}

func c13IsNilable(v reflect.Value) bool {
	switch v.Kind() {
	case reflect.Ptr, reflect.Slice, reflect.Map, reflect.Interface:
		return true
	}
	return false
}

// unset checks that got carries no value. raw: got has the field's declared
// type (slice elements, full config); otherwise the pointerified type.
func (m *c13Matcher) unset(n *c13Node, got reflect.Value, raw bool, path string, own, elem bool) {
	m.absent++
	if !raw {
		if !c13IsNilable(got) {
			m.add("shape", path, n, own, elem, false, "pointerified field of kind "+got.Kind().String()+" is not nil-able")
			return
		}
		if !got.IsNil() {
			m.add("absent-key-set", path, n, own, elem, false, fmt.Sprintf("key absent from the document but the leaf holds %s", c13Show(got)))
		}
		return
	}
	switch n.kind {
	case c13Struct:
		for _, f := range n.fields {
			if f.skip {
				continue
			}
			fv := c13DirectField(got, f.name)
			if !fv.IsValid() {
				m.add("shape", path+"."+f.name, f.node, own, elem, false, "field missing from the value")
				continue
			}
			m.unset(f.node, fv, true, path+"."+f.name, own || f.hasOwn(m.fm), elem)
		}
	default:
		if !got.IsZero() {
			m.add("absent-key-set", path, n, own, elem, false, fmt.Sprintf("key absent from the document but the leaf holds %s", c13Show(got)))
		}
	}
}

func c13Show(v reflect.Value) string {
	for v.Kind() == reflect.Ptr && !v.IsNil() {
		v = v.Elem()
	}
	s := fmt.Sprintf("%#v", v.Interface())
	if len(s) > 200 {
		s = s[:200] + "..."
	}
	return s
}

// match compares got with want. raw as in unset.
func (m *c13Matcher) match(n *c13Node, want *c13Val, got reflect.Value, raw bool, path string, own, elem bool) {
	if want == nil {
		m.unset(n, got, raw, path, own, elem)
		return
	}
	// step through the pointer added by pointerification
	if !raw {
		switch n.kind {
		case c13Slice, c13Map, c13Set, c13IP, c13SliceStruct:
			// nil-able kinds are not pointerified
		default:
			if got.Kind() != reflect.Ptr {
				m.add("shape", path, n, own, elem, false, "expected a pointer in the pointerified value, got "+got.Type().String())
				return
			}
			if got.IsNil() {
				m.add("present-key-unset", path, n, own, elem, false, "key present in the document but the leaf is unset")
				return
			}
			got = got.Elem()
		}
	} else if n.kind == c13PtrStruct {
		if got.Kind() != reflect.Ptr {
			m.add("shape", path, n, own, elem, false, "expected a pointer, got "+got.Type().String())
			return
		}
		if got.IsNil() {
			m.add("present-key-unset", path, n, own, elem, false, "key present in the document but the struct pointer is nil")
			return
		}
		got = got.Elem()
	}
	ns := false
	bad := func(wantText string) {
		m.add("leaf-mismatch", path, n, own, elem, ns, fmt.Sprintf("want %s, got %s", wantText, c13Show(got)))
	}
	leaf := func() {
		m.leaves++
		if own {
			m.ownSeen++
		}
		if m.kinds != nil {
			m.kinds[n.sig] = struct{}{}
		}
	}
	switch n.kind {
	case c13Bool:
		leaf()
		if got.Kind() != reflect.Bool || got.Bool() != want.b {
			bad(fmt.Sprint(want.b))
		}
	case c13Int:
		leaf()
		if got.Type() != n.typ || got.Int() != want.i {
			bad(fmt.Sprint(want.i))
		}
	case c13Uint:
		leaf()
		if got.Type() != n.typ || got.Uint() != want.u {
			bad(fmt.Sprint(want.u))
		}
	case c13Float:
		leaf()
		if got.Type() != n.typ || got.Float() != want.f || math.Signbit(got.Float()) != math.Signbit(want.f) {
			bad(want.ftext)
		}
	case c13String:
		leaf()
		if got.Kind() != reflect.String || got.String() != want.s {
			bad(strconv.Quote(want.s))
		}
	case c13Duration:
		leaf()
		if want.durNS && (m.fm == c13JSON || m.fm == c13Cue) {
			ns = true
			m.nsSeen++
		}
		if got.Type() != c13DurationType || got.Int() != int64(want.d) {
			bad(fmt.Sprintf("%d (%s)", int64(want.d), want.d))
		}
	case c13Time:
		leaf()
		if got.Type() != c13TimeType {
			bad(want.s)
			return
		}
		gt := got.Interface().(time.Time)
		_, go1 := gt.Zone()
		_, wo := want.t.Zone()
		if !gt.Equal(want.t) || go1 != wo {
			bad(want.s)
		}
	case c13IP:
		leaf()
		if got.Type() != c13IPType {
			bad(want.s)
			return
		}
		if got.IsNil() {
			m.add("present-key-unset", path, n, own, elem, false, "key present in the document but the leaf is unset")
			return
		}
		if !reflect.DeepEqual(got.Interface().(net.IP), net.ParseIP(want.s)) {
			bad(want.s)
		}
	case c13Text:
		leaf()
		if got.Type() != c13TextType {
			bad(want.s)
			return
		}
		i := strings.IndexByte(want.s, '|')
		if got.Interface().(C13Text) != (C13Text{A: want.s[:i], B: want.s[i+1:]}) {
			bad(strconv.Quote(want.s))
		}
	case c13Slice:
		if got.Kind() != reflect.Slice || got.Type() != n.typ {
			m.add("shape", path, n, own, elem, false, "expected "+n.typ.String()+", got "+got.Type().String())
			return
		}
		if got.IsNil() {
			m.add("present-key-unset", path, n, own, elem, false, "key present in the document (list) but the leaf is a nil slice")
			return
		}
		leaf()
		if got.Len() != len(want.list) {
			m.add("leaf-mismatch", path, n, own, elem, false, fmt.Sprintf("want %d elements, got %s", len(want.list), c13Show(got)))
			return
		}
		sub := &c13Matcher{fm: m.fm}
		for i, e := range want.list {
			sub.match(n.elem, e, got.Index(i), true, fmt.Sprintf("%s[%d]", path, i), own, elem)
		}
		m.nsSeen += sub.nsSeen
		for _, d := range sub.diffs {
			m.add(d.class, d.path, n, own, elem, d.ns, d.text)
		}
	case c13Map:
		if got.Kind() != reflect.Map || got.Type() != n.typ {
			m.add("shape", path, n, own, elem, false, "expected "+n.typ.String()+", got "+got.Type().String())
			return
		}
		if got.IsNil() {
			m.add("present-key-unset", path, n, own, elem, false, "key present in the document (mapping) but the leaf is a nil map")
			return
		}
		leaf()
		if got.Len() != len(want.mkeys) {
			m.add("leaf-mismatch", path, n, own, elem, false, fmt.Sprintf("want %d entries %s, got %d entries %s", len(want.mkeys), c13Trim(fmt.Sprintf("%q", want.mkeys), 200), got.Len(), c13Show(got)))
			return
		}
		sub := &c13Matcher{fm: m.fm}
		for i, k := range want.mkeys {
			ev := got.MapIndex(reflect.ValueOf(k))
			if !ev.IsValid() {
				m.add("leaf-mismatch", path, n, own, elem, false, fmt.Sprintf("map key %q missing, got %s", k, c13Show(got)))
				return
			}
			sub.match(n.elem, want.mvals[i], ev, true, fmt.Sprintf("%s[%q]", path, k), own, elem)
		}
		m.nsSeen += sub.nsSeen
		for _, d := range sub.diffs {
			m.add(d.class, d.path, n, own, elem, d.ns, d.text)
		}
	case c13Set:
		if got.Kind() != reflect.Map || got.Type() != n.typ {
			m.add("shape", path, n, own, elem, false, "expected "+n.typ.String()+", got "+got.Type().String())
			return
		}
		if got.IsNil() {
			m.add("present-key-unset", path, n, own, elem, false, "key present in the document (list) but the set is nil")
			return
		}
		leaf()
		uniq := map[string]bool{}
		for _, k := range want.mkeys {
			uniq[k] = true
		}
		ok := got.Len() == len(uniq)
		for k := range uniq {
			if !got.MapIndex(reflect.ValueOf(k)).IsValid() {
				ok = false
			}
		}
		if !ok {
			m.add("leaf-mismatch", path, n, own, elem, false, fmt.Sprintf("want set of %q, got %s", want.mkeys, c13Show(got)))
		}
	case c13Struct, c13PtrStruct:
		m.matchFields(n, want, got, raw, path, own, elem)
	case c13SliceStruct:
		if got.Kind() != reflect.Slice {
			m.add("shape", path, n, own, elem, false, "expected a slice, got "+got.Type().String())
			return
		}
		if got.IsNil() {
			m.add("present-key-unset", path, n, own, elem, false, "key present in the document (list of structs) but the slice is nil")
			return
		}
		if got.Len() != len(want.list) {
			m.add("leaf-mismatch", path, n, own, elem, false, fmt.Sprintf("want %d elements, got %d", len(want.list), got.Len()))
			return
		}
		for i, e := range want.list {
			m.match(n.elem, e, got.Index(i), true, fmt.Sprintf("%s[%d]", path, i), own, true)
		}
	}
}

// matchFields compares the fields of a struct value (got is the struct
// itself, any pointer already stepped through) with the tree node want.
func (m *c13Matcher) matchFields(n *c13Node, want *c13Val, got reflect.Value, raw bool, path string, own, elem bool) {
	{
		st := n.structNode()
		if got.Kind() != reflect.Struct {
			m.add("shape", path, n, own, elem, false, "expected a struct, got "+got.Type().String())
			return
		}
		for _, f := range st.fields {
			fv := c13DirectField(got, f.name)
			if f.skip {
				if !raw && fv.IsValid() {
					m.add("shape", path+"."+f.name, f.node, own, elem, false, "skipped field present in the pointerified value")
				}
				continue
			}
			prevNA, prevNAI := m.inNonASCII, m.inNonASCIIInitial
			restoreNA := func() { m.inNonASCII, m.inNonASCIIInitial = prevNA, prevNAI }
			if na, nai := c13NonASCIIName(f.name); na {
				m.inNonASCII, m.inNonASCIIInitial = true, prevNAI || nai
				if want.field(f) != nil {
					m.nonASCIISeen++
					if nai {
						m.nonASCIIInitialSeen++
					}
				}
			}
			if !fv.IsValid() {
				m.add("shape", path+"."+f.name, f.node, own, elem, false, "field missing from the value")
				restoreNA()
				continue
			}
			if f.foreignAlone && want.field(f) != nil {
				m.foreignSeen++
			}
			if f.embedded && want.field(f) != nil {
				m.embSeen++
				if strings.EqualFold(f.keys[m.fm], f.name) {
					m.embFoldSeen++
				}
			}
			prev := m.inLookalike
			m.inLookalike = prev || f.lookalikeFor(m.fm)
			m.match(f.node, want.field(f), fv, raw, path+"."+f.name, own || f.hasOwn(m.fm), elem)
			m.inLookalike = prev
			restoreNA()
		}
	}
}

// c13DeepEq compares two configs of the same type; time.Time by instant and
// zone offset (the Location pointer is not part of the statement).
func c13DeepEq(a, b reflect.Value) bool {
	if a.Type() != b.Type() {
		return false
	}
	if a.Type() == c13TimeType {
		x, y := a.Interface().(time.Time), b.Interface().(time.Time)
		_, xo := x.Zone()
		_, yo := y.Zone()
		return x.Equal(y) && xo == yo
	}
	switch a.Kind() {
	case reflect.Ptr:
		if a.IsNil() || b.IsNil() {
			return a.IsNil() == b.IsNil()
		}
		return c13DeepEq(a.Elem(), b.Elem())
	case reflect.Struct:
		for i := 0; i < a.NumField(); i++ {
			if !c13DeepEq(a.Field(i), b.Field(i)) {
				return false
			}
		}
		return true
	case reflect.Slice:
		if a.IsNil() != b.IsNil() || a.Len() != b.Len() {
			return false
		}
		for i := 0; i < a.Len(); i++ {
			if !c13DeepEq(a.Index(i), b.Index(i)) {
				return false
			}
		}
		return true
	case reflect.Map:
		if a.IsNil() != b.IsNil() || a.Len() != b.Len() {
			return false
		}
		it := a.MapRange()
		for it.Next() {
			bv := b.MapIndex(it.Key())
			if !bv.IsValid() || !c13DeepEq(it.Value(), bv) {
				return false
			}
		}
		return true
	case reflect.Float32, reflect.Float64:
		return a.Float() == b.Float() && math.Signbit(a.Float()) == math.Signbit(b.Float())
	}
	return reflect.DeepEqual(a.Interface(), b.Interface())
}

// c13Presence writes the presence pattern of a tree (for the distinct count)
// and returns the number of present leaves.
func c13Presence(v *c13Val, b *strings.Builder) int {
	if v == nil {
		b.WriteByte('0')
		return 0
	}
	switch v.node.kind {
	case c13Struct, c13PtrStruct:
		n := 0
		b.WriteByte('(')
		for _, f := range v.node.structNode().fields {
			if f.skip {
				continue
			}
			n += c13Presence(v.field(f), b)
		}
		b.WriteByte(')')
		return n
	case c13SliceStruct:
		n := 0
		b.WriteByte('[')
		for _, e := range v.list {
			n += c13Presence(e, b)
		}
		b.WriteByte(']')
		return n
	case c13Slice:
		fmt.Fprintf(b, "l%d", len(v.list))
	case c13Map, c13Set:
		fmt.Fprintf(b, "m%d", len(v.mkeys))
	case c13Duration:
		if v.durNS {
			b.WriteByte('n')
		} else {
			b.WriteByte('1')
		}
	default:
		b.WriteByte('1')
	}
	return 1
}

// c13DirectField finds a field declared directly in the struct v (never one
// promoted through an embedded struct, which reflect's FieldByName would
// also return).
func c13DirectField(v reflect.Value, name string) reflect.Value {
	t := v.Type()
	for i := 0; i < t.NumField(); i++ {
		if t.Field(i).Name == name {
			return v.Field(i)
		}
	}
	return reflect.Value{}
}
