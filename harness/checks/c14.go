package checks

import (
	"bytes"
	"context"
	"encoding/json"
	"fmt"
	"os"
	"reflect"
	"strings"
	"time"

	toml "github.com/pelletier/go-toml"
	"github.com/vimeo/dials"
	cuedec "github.com/vimeo/dials/decoders/cue"
	jsondec "github.com/vimeo/dials/decoders/json"
	tomldec "github.com/vimeo/dials/decoders/toml"
	yamldec "github.com/vimeo/dials/decoders/yaml"
	"github.com/vimeo/dials/ptrify"
	"github.com/vimeo/dials/sources/env"
	"github.com/vimeo/dials/sourcewrap"
	"github.com/vimeo/dials/transform"
	yaml "gopkg.in/yaml.v2"

	"verifharness/fw"
	"verifharness/gen"
)

func init() {
	fw.Register(&fw.Check{
		ID: "C14",
		Rule: "Each case: a seeded reflect.StructOf config type (depth <=3, nested/pointer/embedded structs) in which a random subset of leaves carries an alias tag (dialsalias, or the source-specific dialsenvalias / dialsflagalias / dialspflagalias), with and without an explicit primary tag; for every aliased leaf one of the four patterns neither / primary / alias / both is drawn independently and the values are supplied through one alias-capable source: " +
			"the environment source, sources/flag, sources/pflag, or a JSON / YAML / TOML / Cue document read through sourcewrap.NewTransformingDecoder(decoder, NewAliasMangler(\"dials\")) as ez wraps them, plus a static config type through the ez entry points themselves (with and without a FileFieldNameEncoder, which must re-case primary and alias names alike). Expected: unset / value / value / an error whose text contains the Go field name; non-aliased leaves are set normally at random. Names of primaries and aliases are computed from the generator's word lists. " +
			"distinct_nontrivial = distinct (source, type-shape, alias-tag kinds, pattern vector) signatures with >=1 aliased leaf.",
		Assumptions: []string{
			"a field carrying both an alias tag and a format-specific tag is outside the statement and not generated",
			"in the generated types alias tags are put on leaves; an alias on a struct-typed field (section under either name, inner aliases inside both, both keys present with one section empty) is exercised through the static ez config type",
		},
		MinDistinct: map[string]int{"quick": 8000, "thorough": 1000000},
		MinCounters: map[string]map[string]int64{
			"quick":    {"aliased_leaves_judged": 12000, "pattern_neither": 2000, "pattern_primary": 2000, "pattern_alias": 2000, "both_set_errors_checked": 1500},
			"thorough": {"aliased_leaves_judged": 300000},
		},
		Plan: func(tier string) fw.Plan {
			if tier == "thorough" {
				return fw.Plan{Shards: 96, CasesPerShard: 30000, Parallel: 16, TimeoutSec: 3000}
			}
			return fw.Plan{Shards: 16, CasesPerShard: 1200, TimeoutSec: 600}
		},
		Run: runC14,
	})
}

var c14FileLeaves = []string{"int", "int64", "uint16", "string", "bool", "float64", "[]string", "[]int", "map[string]string", "duration"}

type c14Alias struct {
	// tagKey is the alias tag used ("dialsalias", "dialsenvalias", ...);
	// words are the alias's words (rendered in style); verbatim is the tag value.
	tagKey   string
	words    []string
	verbatim string
}

func runC14(w *fw.Worker) {
	os.Clearenv()
	families := []string{"env", "flag", "pflag", "json", "yaml", "toml", "cue"}
	w.Cases(func(i int, r *fw.Rand) {
		if i%40 == 39 {
			c14Ez(w, i, r)
			return
		}
		fam := families[i%len(families)]
		isFile := fam == "json" || fam == "yaml" || fam == "toml" || fam == "cue"
		var pool []*gen.Leaf
		switch {
		case fam == "env":
			pool = gen.LeavesWith(gen.CapEnv, 0)
		case isFile:
			for _, n := range c14FileLeaves {
				pool = append(pool, gen.LeafByName(n))
			}
		default:
			pool = flagLeaves()
		}
		o := gen.GenOpts{MaxDepth: 3 - r.Intn(2), MaxFields: r.Range(2, 6), StructPct: r.Range(10, 45), TagPct: r.Range(20, 70), Leaves: pool, InitialismPct: 15, TagStyles: []string{"snake", "kebab", "lowerCamel"}}
		if isFile {
			o.TagPct = 100 // file keys come from dials tags
			o.NoEmbedded = true
			o.TagStyles = []string{"snake"}
		}
		spec := gen.RandomSpec(r, o)
		leaves := spec.LeafRefs()
		// choose aliased leaves and their alias tags (before the type is built)
		aliases := map[*gen.LeafRef]*c14Alias{}
		srcAliasKey := map[string]string{"env": "dialsenvalias", "flag": "dialsflagalias", "pflag": "dialspflagalias"}[fam]
		for k, lr := range leaves {
			if !r.Chance(45) {
				continue
			}
			f := lr.Leaf()
			a := &c14Alias{tagKey: "dialsalias", words: []string{fw.Pick(r, gen.OrdinaryWords), fmt.Sprintf("al%d", k)}}
			style := "snake"
			if f.TagStyle != "" {
				style = f.TagStyle
			}
			a.verbatim = gen.StyleWords(style, a.words)
			if srcAliasKey != "" && r.Chance(30) {
				a.tagKey = srcAliasKey
				switch fam {
				case "env":
					a.verbatim = fmt.Sprintf("ALT_%s_%d", gen.UpperSnake(f.Words), k)
				default:
					a.verbatim = fmt.Sprintf("alt-%s-%d", gen.Kebab(f.Words), k)
				}
			}
			f.Tags[a.tagKey] = a.verbatim
			if isFile && f.TagWords == nil {
				continue
			}
			aliases[lr] = a
		}
		if len(aliases) == 0 {
			return
		}
		if !isFile && !gen.FlattenedNamesDistinct(leaves) {
			w.Count("skipped_ambiguous_names", 1)
			return
		}
		// primary and alias names must all be distinct for the naming rule to be unambiguous
		{
			seen := map[string]bool{}
			dup := false
			note := func(n string) {
				if seen[n] {
					dup = true
				}
				seen[n] = true
			}
			for _, lr := range leaves {
				a := aliases[lr]
				switch {
				case fam == "env":
					note(envName("P", lr))
					if a != nil {
						note(c14EnvAliasName("P", lr, a))
					}
				case fam == "flag" || fam == "pflag":
					tk := map[string]string{"flag": "dialsflag", "pflag": "dialspflag"}[fam]
					note(flagName(tk, false, lr))
					if a != nil {
						note(c14FlagAliasName(tk, lr, a))
					}
				default:
					note(strings.Join(c14FileKeys(lr, a, false), "\x00"))
					if a != nil {
						note(strings.Join(c14FileKeys(lr, a, true), "\x00"))
					}
				}
			}
			if dup {
				w.Count("skipped_ambiguous_names", 1)
				return
			}
		}
		c := &gen.Counter{}
		layer := &gen.Layer{Vals: map[*gen.LeafRef]reflect.Value{}}
		type supply struct {
			lr    *gen.LeafRef
			alias bool
			v     reflect.Value
		}
		genVal := func(lf *gen.Leaf) reflect.Value {
			if isFile {
				return c14SafeValue(lf, c.Next())
			}
			v := lf.Gen(r, c.Next())
			if fam == "pflag" && lf.Name == "[]string" {
				v = reflect.ValueOf(pflagCSVNorm(v.Interface().([]string)))
			}
			return v
		}
		var supplies []supply
		var bothFields []string
		var pat strings.Builder
		var kinds strings.Builder
		for _, lr := range leaves {
			lf := lr.Leaf().Leaf
			a := aliases[lr]
			if a == nil {
				if r.Chance(45) {
					v := genVal(lf)
					layer.Vals[lr] = v
					supplies = append(supplies, supply{lr, false, v})
				}
				continue
			}
			kinds.WriteString(a.tagKey[5:6])
			p := r.Intn(4)
			pat.WriteByte(byte('0' + p))
			switch p {
			case 0:
				w.Count("pattern_neither", 1)
			case 1:
				v := genVal(lf)
				layer.Vals[lr] = v
				supplies = append(supplies, supply{lr, false, v})
				w.Count("pattern_primary", 1)
			case 2:
				v := genVal(lf)
				layer.Vals[lr] = v
				supplies = append(supplies, supply{lr, true, v})
				w.Count("pattern_alias", 1)
			case 3:
				supplies = append(supplies, supply{lr, false, genVal(lf)}, supply{lr, true, genVal(lf)})
				bothFields = append(bothFields, lr.Leaf().Name)
			}
		}
		zero := reflect.New(spec.Type())
		ptrType := ptrify.Pointerify(spec.Type(), zero.Elem())
		var got reflect.Value
		var verr error
		desc := map[string]any{"source": fam, "type": spec.Describe()}
		describeTags := []string{}
		for lr, a := range aliases {
			describeTags = append(describeTags, fmt.Sprintf("%s: %s=%q primary dials=%q", lr, a.tagKey, a.verbatim, lr.Leaf().Tags["dials"]))
		}
		desc["aliases"] = describeTags
		if r.Bool() && gen.FlattenedNamesDistinct(leaves) {
			// as in ez, another alias-capable source over the same struct builds its view of it first (env and flag
			// sources flatten the type, which presupposes distinct flattened names)
			other := "env"
			if fam == "env" {
				other = []string{"flag", "pflag"}[r.Intn(2)]
			}
			desc["type_seen_first_by"] = other
			switch other {
			case "env":
				(&env.Source{Prefix: "C14_NO_SUCH_PREFIX"}).Value(context.Background(), dials.NewType(ptrType))
			default:
				pk := flagPkgs[0]
				if other == "pflag" {
					pk = flagPkgs[1]
				}
				if src, _, err := pk.build(false, zero.Interface(), nil); err == nil {
					src.Value(context.Background(), dials.NewType(ptrType))
				}
			}
			w.Count("cases_where_another_source_saw_the_type_first", 1)
		}
		switch {
		case fam == "env":
			prefix := fmt.Sprintf("A%dS%dC%d", w.Seed%1000000, w.Shard, i)
			vars := map[string]string{}
			for _, s := range supplies {
				n := envName(prefix, s.lr)
				if s.alias {
					n = c14EnvAliasName(prefix, s.lr, aliases[s.lr])
				}
				vars[n] = s.lr.Leaf().Leaf.Text(s.v)
			}
			for k, v := range vars {
				os.Setenv(k, v)
			}
			desc["variables"] = vars
			got, verr = (&env.Source{Prefix: prefix}).Value(context.Background(), dials.NewType(ptrType))
		case fam == "flag" || fam == "pflag":
			pk := flagPkgs[0]
			if fam == "pflag" {
				pk = flagPkgs[1]
			}
			var argv []string
			for _, s := range supplies {
				n := flagName(pk.tagKey, false, s.lr)
				if s.alias {
					n = c14FlagAliasName(pk.tagKey, s.lr, aliases[s.lr])
				}
				t := s.lr.Leaf().Leaf.Text(s.v)
				if fam == "pflag" && s.lr.Leaf().Leaf.Name == "[]string" {
					t = csvLine(s.v.Interface().([]string))
				}
				argv = append(argv, "--"+n+"="+t)
			}
			desc["argv"] = argv
			src, _, err := pk.build(false, zero.Interface(), argv)
			if err != nil {
				w.Violation(i, "flag-registration-error:"+fam, err.Error(), desc)
				return
			}
			got, verr = src.Value(context.Background(), dials.NewType(ptrType))
		default:
			doc := map[string]any{}
			for _, s := range supplies {
				keys := c14FileKeys(s.lr, aliases[s.lr], s.alias)
				m := doc
				for _, k := range keys[:len(keys)-1] {
					nm, ok := m[k].(map[string]any)
					if !ok {
						nm = map[string]any{}
						m[k] = nm
					}
					m = nm
				}
				m[keys[len(keys)-1]] = c14FileValue(s.v)
			}
			var text []byte
			var dec dials.Decoder
			switch fam {
			case "json":
				text, _ = json.Marshal(doc)
				dec = &jsondec.Decoder{}
			case "cue":
				text, _ = json.Marshal(doc)
				dec = &cuedec.Decoder{}
			case "yaml":
				text, _ = yaml.Marshal(doc)
				dec = &yamldec.Decoder{}
			case "toml":
				var b bytes.Buffer
				if err := toml.NewEncoder(&b).Encode(doc); err != nil {
					w.Note("toml encode failed: " + err.Error())
					return
				}
				text = b.Bytes()
				dec = &tomldec.Decoder{}
			}
			desc["document"] = string(text)
			wrapped := sourcewrap.NewTransformingDecoder(dec, transform.NewAliasMangler("dials"))
			got, verr = wrapped.Decode(bytes.NewReader(text), dials.NewType(ptrType))
		}
		w.Count("aliased_leaves_judged", int64(len(aliases)))
		if len(bothFields) > 0 {
			if verr == nil {
				w.Violation(i, "both-primary-and-alias-accepted:"+fam, fmt.Sprintf("fields %v were supplied under both names and no error was returned", bothFields), desc)
				return
			}
			named := false
			for _, f := range bothFields {
				if strings.Contains(verr.Error(), f) {
					named = true
				}
			}
			if !named {
				w.Violation(i, "both-set-error-does-not-name-the-field:"+fam, fmt.Sprintf("error %q names none of %v", verr.Error(), bothFields), desc)
				return
			}
			w.Count("both_set_errors_checked", 1)
		} else {
			if verr != nil {
				w.Violation(i, "error-without-both-set:"+fam, verr.Error(), desc)
				return
			}
			res, cerr := dials.VerifCompose(zero.Interface(), []reflect.Value{got})
			if cerr != nil {
				w.Violation(i, "compose-error:"+fam, cerr.Error(), desc)
				return
			}
			want := gen.ReferenceStack(reflect.New(spec.Type()).Elem(), []*gen.Layer{layer})
			if d := gen.Diff(want, reflect.ValueOf(res).Elem()); d != "" {
				// which pattern had the differing leaf?
				cls := "non-aliased"
				for lr, a := range aliases {
					p := ""
					for _, f := range lr.Path {
						p += "." + f.Name
					}
					if strings.HasPrefix(d, p+":") || strings.HasPrefix(d, p+"*") || strings.HasPrefix(d, p+"[") {
						prim := "explicit-primary-tag"
						if lr.Leaf().TagWords == nil {
							prim = "implicit-primary-name"
						}
						cls = a.tagKey + ":" + prim
						for _, s := range supplies {
							if s.lr == lr {
								if s.alias {
									cls += ":supplied-under-alias"
								} else {
									cls += ":supplied-under-primary"
								}
							}
						}
						if _, ok := layer.Vals[lr]; !ok {
							cls += ":neither"
						}
					}
				}
				w.Violation(i, "alias-result-differs:"+fam+":"+cls, d, desc)
				return
			}
		}
		w.Distinct(fam + spec.Signature() + kinds.String() + "#" + pat.String())
		if i%307 == 0 {
			w.Sample(desc)
		}
	})
}

// c14EnvAliasName: the variable name when the leaf is addressed by its alias.
func c14EnvAliasName(prefix string, lr *gen.LeafRef, a *c14Alias) string {
	name := ""
	switch a.tagKey {
	case "dialsenvalias":
		name = a.verbatim
	default:
		var words []string
		for k, f := range lr.Path {
			if k == len(lr.Path)-1 {
				words = append(words, a.words...)
			} else if f.TagWords != nil {
				words = append(words, f.TagWords...)
			} else if !f.IsEmbedded() {
				words = append(words, f.Words...)
			}
		}
		name = gen.UpperSnake(words)
	}
	if prefix != "" {
		name = prefix + "_" + name
	}
	return name
}

func c14FlagAliasName(pkgTag string, lr *gen.LeafRef, a *c14Alias) string {
	if a.tagKey != "dialsalias" {
		return a.verbatim
	}
	var parts []string
	for k, f := range lr.Path {
		if k == len(lr.Path)-1 {
			parts = append(parts, a.verbatim)
		} else if t, ok := f.Tags["dials"]; ok && f.TagWords != nil {
			parts = append(parts, t)
		} else if !f.IsEmbedded() {
			parts = append(parts, f.Words...)
		}
	}
	return strings.Join(parts, "-")
}

func c14FileKeys(lr *gen.LeafRef, a *c14Alias, alias bool) []string {
	var keys []string
	for k, f := range lr.Path {
		if alias && k == len(lr.Path)-1 {
			keys = append(keys, a.verbatim)
		} else {
			keys = append(keys, f.Tags["dials"])
		}
	}
	return keys
}

func c14FileValue(v reflect.Value) any {
	if v.Type().String() == "time.Duration" {
		return v.Interface().(fmt.Stringer).String()
	}
	return v.Interface()
}

// c14SafeValue: values every one of the four file formats (and the harness's
// quick document writers) carries without library-specific trouble; the
// decoders' value handling is C13's subject, here only the alias logic is.
func c14SafeValue(lf *gen.Leaf, uniq int) reflect.Value {
	switch lf.Name {
	case "int":
		return reflect.ValueOf(uniq)
	case "int64":
		return reflect.ValueOf(int64(uniq) * 1000)
	case "uint16":
		return reflect.ValueOf(uint16(uniq % 60000))
	case "string":
		return reflect.ValueOf(fmt.Sprintf("v%d", uniq))
	case "bool":
		return reflect.ValueOf(uniq%2 == 0)
	case "float64":
		return reflect.ValueOf(float64(uniq) + 0.5)
	case "[]string":
		return reflect.ValueOf([]string{fmt.Sprintf("a%d", uniq), "b"})
	case "[]int":
		return reflect.ValueOf([]int{uniq, uniq + 1})
	case "map[string]string":
		return reflect.ValueOf(map[string]string{fmt.Sprintf("k%d", uniq): fmt.Sprintf("v%d", uniq)})
	case "duration":
		return reflect.ValueOf(time.Duration(uniq) * time.Second)
	}
	panic("no safe value for " + lf.Name)
}
